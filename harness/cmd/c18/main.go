// C18 harness: the pool executor (sched/executor_threadpool.go).
//
// script  input    (0 nw cap ((outcome gated) ...) (op ...))
//
//	         op = (0) Execute a fresh task on a new goroutine | (1 t) open the gate of task t
//	            | (2) call Shutdown on a new goroutine
//	observed one snapshot per op, taken when every goroutine of the scenario is parked
//	         (established from a stop-the-world goroutine dump, not from elapsed time):
//	         (settled (status ...) (started ...) (ended ...) alive (shut ...))
//	         status: 0 parked on the queue send, 1 nil, 2 error, 3 panic, 4 parked inside start()
//
// conc    input    (1 nw cap nsub per seed shutafter)
//
//	         nsub goroutines leave a barrier together and submit `per` tasks each; another
//	         goroutine calls Shutdown once `shutafter` tasks have run (or all callers are back)
//	observed ((status ...) (early ...) (runs ...) (endedbefore ...) alive shutret inconclusive)
package main

import (
	"bytes"
	"errors"
	"fmt"
	"io"
	"log"
	"os"
	"os/exec"
	"runtime"
	"strconv"
	"strings"
	"sync"
	"sync/atomic"
	"time"

	"qchen.fun/fatchoy/sched"
	. "verifharness/common"
)

// ---------------------------------------------------------------- goroutine dumps

// the schedule points of the executor (hook sched.VerifExecutorHook): a goroutine for which a hold
// was registered parks at the named point until the harness lets it go
var scens sync.Map // *sched.ThreadPoolExecutor -> *scen

func pointHook(e *sched.ThreadPoolExecutor, name string) {
	v, ok := scens.Load(e)
	if !ok {
		return
	}
	s := v.(*scen)
	if atomic.LoadInt32(&s.nholds) == 0 {
		return
	}
	gid := Goid()
	s.mu.Lock()
	h := s.holds[gid]
	s.mu.Unlock()
	if h != nil && h.point == name {
		<-h.ch
	}
}

type hold struct {
	point string
	ch    chan struct{}
}

func parkedState(st string) bool {
	return Parked(st) || st == "sync.RWMutex.Lock" || st == "sync.RWMutex.RLock"
}

const (
	fHook     = "main.pointHook("
	fStart    = "sched.(*ThreadPoolExecutor).start("
	fExecute  = "sched.(*ThreadPoolExecutor).Execute("
	fShutdown = "sched.(*ThreadPoolExecutor).Shutdown("
	fWorker   = "created by qchen.fun/fatchoy/sched.(*ThreadPoolExecutor).start"
)

// ---------------------------------------------------------------- one scenario

type call struct {
	gid    int32 // goroutine id
	status int32 // 0 not returned, 1 nil, 2 error, 3 panic
	retSeq int64
}

type scen struct {
	ex     *sched.ThreadPoolExecutor
	mu     sync.Mutex
	seq    int64 // event sequence (one atomic counter orders everything the harness logs)
	start  []int // task ids in start order
	end    []int
	endSeq map[int]int64
	runs   map[int]int
	gates  map[int]chan struct{}
	kinds  func(t int) (outcome int, gated bool)
	calls  []*call
	shuts  []*call
	loops  []*call // conc: the submitting goroutines (a call that has not begun has no goroutine of its own)
	nrun   int64
	// who ran the tasks and how many at a time
	inflight, maxInflight int64
	workers               map[int]bool // goroutine ids that ran a task
	work                  int          // > 0: a task body yields this many times (so that overlaps show)
	startSeq              map[int]int64
	chain                 []int32
	lean                  bool // keep the harness's own work per call / per task minimal (tight races)
	objs                  map[int]*taskObj
	sharePer              int // > 0: submitter g uses one task object for its submissions g*sharePer ...
	after                 func(t int)
	nholds                int32
	holds                 map[int]*hold // goroutine id -> where it is to be held
	callHold              map[int]*hold // call index -> its hold
	shutHold              []*hold
}

func newScen(nw, capacity int, kinds func(int) (int, bool)) *scen {
	var ex sched.Executor
	if nw == 1 && capacity%2 == 1 {
		ex = sched.NewAsyncExecutor(capacity) // the library's one-worker constructor
	} else {
		ex = sched.NewThreadPoolExecutor(nw, capacity) // nw <= 0 means one worker
	}
	s := &scen{ex: ex.(*sched.ThreadPoolExecutor),
		endSeq: map[int]int64{}, runs: map[int]int{}, gates: map[int]chan struct{}{}, kinds: kinds, workers: map[int]bool{},
		holds: map[int]*hold{}, callHold: map[int]*hold{}, startSeq: map[int]int64{}, objs: map[int]*taskObj{}}
	scens.Store(s.ex, s)
	return s
}

// holdHere registers that the calling goroutine is to be held at the point.
func (s *scen) holdHere(point string) *hold {
	h := &hold{point: point, ch: make(chan struct{})}
	s.mu.Lock()
	s.holds[Goid()] = h
	s.mu.Unlock()
	atomic.AddInt32(&s.nholds, 1)
	return h
}

func (h *hold) release() {
	select {
	case <-h.ch:
	default:
		close(h.ch)
	}
}

func (s *scen) gate(t int) chan struct{} {
	s.mu.Lock()
	defer s.mu.Unlock()
	g := s.gates[t]
	if g == nil {
		g = make(chan struct{})
		s.gates[t] = g
	}
	return g
}

func (s *scen) release(t int) {
	g := s.gate(t)
	select {
	case <-g:
	default:
		close(g)
	}
}

var errTask = errors.New("task failed")

func (s *scen) task(t int) sched.Runnable {
	// outcome 3: a nil Runnable, 4: a typed-nil Runnable.  Execute accepts them like any other value;
	// running them is a nil dereference inside run(), i.e. a task that panics (and has no body of
	// its own that could be observed)
	if outcome, _ := s.kinds(t); outcome == 3 {
		return nil
	} else if outcome == 4 {
		return (*sched.Task)(nil)
	} else if outcome == 5 {
		return sched.NewTask(nil) // the library's own task without an action: Run() returns nil
	}
	// outcome 11: the SAME *sched.Task object as the previous submission is submitted again (a
	// recurring job): every submission counts, each run of the object serves the oldest submission
	// of it that has not been served yet
	if outcome, _ := s.kinds(t); outcome == 11 || s.shareWith(t) >= 0 {
		prev := t - 1
		if outcome != 11 {
			prev = s.shareWith(t)
		}
		s.mu.Lock()
		o := s.objs[prev]
		if o != nil {
			o.ids = append(o.ids, t)
			s.objs[t] = o
		}
		s.mu.Unlock()
		if o != nil {
			return o.task
		}
	}
	o := &taskObj{ids: []int{t}}
	// the task is made before the object is published in s.objs (a later submission of "the same
	// object" reads o.task from another goroutine)
	defer func() {
		s.mu.Lock()
		s.objs[t] = o
		s.mu.Unlock()
	}()
	o.task = sched.NewTask(func() error {
		s.mu.Lock()
		k := o.next // the submission this run serves
		if k >= len(o.ids) {
			k = len(o.ids) - 1 // more runs than submissions: shows as a task run twice
		}
		o.next++
		t := o.ids[k]
		s.mu.Unlock()
		outcome, gated := s.kinds(t)
		n := atomic.AddInt64(&s.inflight, 1)
		for {
			m := atomic.LoadInt64(&s.maxInflight)
			if n <= m || atomic.CompareAndSwapInt64(&s.maxInflight, m, n) {
				break
			}
		}
		gid := 0
		if !s.lean {
			gid = Goid()
		}
		s.mu.Lock()
		s.start = append(s.start, t)
		s.runs[t]++
		if !s.lean {
			s.workers[gid] = true
		}
		if _, ok := s.startSeq[t]; !ok {
			s.startSeq[t] = atomic.AddInt64(&s.seq, 1)
		}
		s.mu.Unlock()
		atomic.AddInt64(&s.seq, 1)
		if gated {
			<-s.gate(t)
		}
		if s.after != nil {
			s.after(t) // e.g. the task submits its successor to the executor it runs on
		}
		for i := 0; i < s.work; i++ {
			runtime.Gosched()
		}
		atomic.AddInt64(&s.inflight, -1)
		s.mu.Lock()
		s.end = append(s.end, t)
		if _, ok := s.endSeq[t]; !ok {
			s.endSeq[t] = atomic.AddInt64(&s.seq, 1)
		}
		s.mu.Unlock()
		atomic.AddInt64(&s.nrun, 1)
		switch outcome {
		case 1:
			return errTask
		case 2:
			panic("task panics")
		case 6: // error values of several concrete types
			return fmt.Errorf("wrapped: %w", errTask)
		case 7:
			return structErr{"struct", t}
		case 8:
			return &ptrErr{t}
		case 9:
			return (*ptrErr)(nil) // a typed nil: a non-nil error value whose Error() works on nil
		}
		return nil
	})
	return o.task
}

type taskObj struct {
	task sched.Runnable
	ids  []int // the submissions of this object, in order
	next int   // how many of them have been served
}

type structErr struct {
	s string
	n int
}

func (e structErr) Error() string { return e.s }

type ptrErr struct{ n int }

func (e *ptrErr) Error() string {
	if e == nil {
		return "nil ptrErr"
	}
	return "ptrErr"
}

// shareWith: in concurrent scenarios a submitter may use ONE task object for all its submissions
func (s *scen) shareWith(t int) int {
	if s.sharePer <= 0 || t%s.sharePer == 0 {
		return -1
	}
	return t - 1
}

// execute runs Execute(task t) on the calling goroutine and records how it ended.
func (s *scen) execute(c *call, t int) {
	atomic.StoreInt32(&c.gid, int32(Goid()))
	s.executeReady(c, s.task(t))
}

// executeReady: everything is prepared, the next thing that happens is Execute itself.
func (s *scen) executeReady(c *call, r sched.Runnable) {
	var err error
	p, val := Catch(func() { err = s.ex.Execute(r) })
	st := int32(1)
	if p {
		st = 3 // the library's own refusal: log.Panicf("invalid executor state") in start()
		if runtimePanic(val) {
			st = 8 // send on closed channel, WaitGroup misuse, nil dereference ...
		}
	} else if err != nil {
		st = 2
	}
	c.retSeq = atomic.AddInt64(&s.seq, 1)
	atomic.StoreInt32(&c.status, st)
}

func runtimePanic(v interface{}) bool {
	if _, ok := v.(runtime.Error); ok {
		return true
	}
	if str, ok := v.(string); ok && strings.HasPrefix(str, "sync") {
		return true
	}
	if e, ok := v.(error); ok && strings.HasPrefix(e.Error(), "sync") {
		return true
	}
	return false
}

func (s *scen) shutdown(c *call) {
	atomic.StoreInt32(&c.gid, int32(Goid()))
	p, val := Catch(func() { s.ex.Shutdown() })
	st := int32(1)
	if p {
		st = 3
		_ = val
	}
	c.retSeq = atomic.AddInt64(&s.seq, 1)
	atomic.StoreInt32(&c.status, st)
}

// look inspects a stop-the-world goroutine dump.  quiescent: every goroutine of the scenario
// (unreturned Execute / Shutdown callers, workers) is parked.  statuses: per Execute call.
func (s *scen) look() (quiescent bool, statuses []int, alive int, shuts []int) {
	seq0 := atomic.LoadInt64(&s.seq)
	d := GDump()
	quiescent = true
	callg := map[int]bool{}
	for _, c := range s.calls {
		gid := int(atomic.LoadInt32(&c.gid))
		st := int(atomic.LoadInt32(&c.status))
		if gid != 0 {
			callg[gid] = true
		}
		if st != 0 {
			statuses = append(statuses, st)
			continue
		}
		g := d[gid]
		switch {
		case gid == 0 && len(s.loops) > 0: // not begun; its submitter is tracked below
			statuses = append(statuses, 5)
		case gid == 0 || g == nil || !parkedState(g.State):
			quiescent = false
			statuses = append(statuses, 5)
		case g.State == "chan receive" && strings.Contains(g.Text, fHook):
			statuses = append(statuses, 6) // held by the harness at "execute.checked"
		case strings.HasPrefix(g.State, "sync.RWMutex") && strings.Contains(g.Text, fExecute):
			statuses = append(statuses, 7) // waits for the executor's lock (a Shutdown is waiting for it)
		case g.State == "chan receive" && strings.Contains(g.Text, fStart):
			statuses = append(statuses, 4)
		case g.State == "chan send" && strings.Contains(g.Text, fExecute):
			statuses = append(statuses, 0)
		default:
			quiescent = false
			statuses = append(statuses, 5)
		}
	}
	for _, c := range s.shuts {
		gid := int(atomic.LoadInt32(&c.gid))
		st := int(atomic.LoadInt32(&c.status))
		if st != 0 {
			shuts = append(shuts, 1)
			continue
		}
		g := d[gid]
		if gid == 0 || g == nil || !parkedState(g.State) || !strings.Contains(g.Text, fShutdown) {
			quiescent = false
			shuts = append(shuts, 0)
		} else if strings.Contains(g.Text, fHook) {
			shuts = append(shuts, 2) // held by the harness at "shutdown.joined"
		} else {
			shuts = append(shuts, 0)
		}
	}
	for _, c := range s.loops {
		if atomic.LoadInt32(&c.status) == 0 {
			gid := int(atomic.LoadInt32(&c.gid))
			if g := d[gid]; gid == 0 || g == nil || !parkedState(g.State) {
				quiescent = false
			}
		}
	}
	for _, g := range d {
		if callg[g.Parent] && strings.Contains(g.Text, fWorker) {
			alive++
			if !parkedState(g.State) {
				quiescent = false
			}
		}
	}
	// a call or Shutdown that finished between the dump and here shows up as a changed counter
	if atomic.LoadInt64(&s.seq) != seq0 {
		quiescent = false
	}
	return
}

func (s *scen) settle(limit time.Duration) (bool, []int, int, []int) {
	deadline := time.Now().Add(limit)
	pause := 20 * time.Microsecond
	for {
		q, st, alive, sh := s.look()
		if q {
			return true, st, alive, sh
		}
		if time.Now().After(deadline) {
			return false, st, alive, sh
		}
		time.Sleep(pause)
		if pause < 2*time.Millisecond {
			pause *= 2
		}
	}
}

func ints(v []int) Sx {
	l := make([]Sx, len(v))
	for i, x := range v {
		l[i] = Int(int64(x))
	}
	return ListOf(l)
}

var settleLimit = 5 * time.Second
var stuckSeen int32

// ---------------------------------------------------------------- script scenarios

func runScript(in Sx) Sx {
	nw, capacity := in.At(1).AsInt(), in.At(2).AsInt()
	ks := in.At(3)
	kinds := func(t int) (int, bool) {
		if t < ks.Len() {
			return ks.At(t).At(0).AsInt(), ks.At(t).At(1).AsBool()
		}
		return 0, false
	}
	s := newScen(nw, capacity, kinds)
	ops := in.At(4)
	var snaps []Sx
	for i := 0; i < ops.Len(); i++ {
		op := ops.At(i)
		switch op.At(0).AsInt() {
		case 0:
			c := &call{}
			t := len(s.calls)
			s.calls = append(s.calls, c)
			go s.execute(c, t)
		case 1:
			s.release(op.At(1).AsInt())
		case 2:
			c := &call{}
			s.shuts = append(s.shuts, c)
			go s.shutdown(c)
		case 3: // open several gates at once
			for j := 1; j < op.Len(); j++ {
				s.release(op.At(j).AsInt())
			}
		case 4: // Execute, held between its state check and the queue send
			c := &call{}
			t := len(s.calls)
			s.calls = append(s.calls, c)
			ready := make(chan struct{})
			go func() {
				h := s.holdHere("execute.checked")
				s.mu.Lock()
				s.callHold[t] = h
				s.mu.Unlock()
				close(ready)
				s.execute(c, t)
			}()
			<-ready
		case 5: // let a held Execute go on
			s.mu.Lock()
			h := s.callHold[op.At(1).AsInt()]
			s.mu.Unlock()
			if h != nil {
				h.release()
			}
		case 6: // Shutdown, held between wg.Wait and close(queue)
			c := &call{}
			s.shuts = append(s.shuts, c)
			ready := make(chan struct{})
			go func() {
				h := s.holdHere("shutdown.joined")
				s.mu.Lock()
				s.shutHold = append(s.shutHold, h)
				s.mu.Unlock()
				close(ready)
				s.shutdown(c)
			}()
			<-ready
		case 7: // let the held Shutdown(s) go on
			s.mu.Lock()
			hs := append([]*hold(nil), s.shutHold...)
			s.mu.Unlock()
			for _, h := range hs {
				h.release()
			}
		}
		ok, st, alive, sh := s.settle(settleLimit)
		s.mu.Lock()
		started, ended := append([]int(nil), s.start...), append([]int(nil), s.end...)
		s.mu.Unlock()
		snaps = append(snaps, List(Bool(ok), ints(st), ints(started), ints(ended), Int(int64(alive)), ints(sh)))
		stuck := false
		for _, x := range st {
			if x == 4 {
				stuck = true
			}
		}
		if !ok || stuck {
			// nothing after this point is meaningful; leave (goroutines parked for good stay behind)
			if stuck {
				atomic.AddInt32(&stuckSeen, 1)
			}
			break
		}
	}
	// clean up whatever can be cleaned up: open all gates and holds, shut down
	for t := 0; t < len(s.calls); t++ {
		s.release(t)
	}
	s.mu.Lock()
	for _, h := range s.holds {
		h.release()
	}
	s.mu.Unlock()
	defer scens.Delete(s.ex)
	go func() { Catch(func() { s.ex.Shutdown() }) }()
	return ListOf(snaps)
}

// ---------------------------------------------------------------- concurrent scenarios

func runConc(in Sx) Sx {
	nw, capacity := in.At(1).AsInt(), in.At(2).AsInt()
	nsub, per := in.At(3).AsInt(), in.At(4).AsInt()
	rng := NewRng(in.At(5).Uint64())
	shutafter := in.At(6).AsInt()
	mode := 0
	if in.Len() > 7 {
		mode = in.At(7).AsInt()
	}
	// mode 0 callers leave a WaitGroup barrier; Shutdown after `shutafter` runs
	//      1 callers leave a spin barrier with their first call prepared (fresh executors)
	//      2 two goroutines: the very first Execute  ||  (wait until the state reads Running; Execute; Shutdown)
	//      3 `nsub` chains of tasks, each submitting `per` short tasks and its successor to the executor
	//        it runs on (the queue always has room); Shutdown after `shutafter` runs
	//      4 full queue: many callers keep submitting into a tiny queue; Shutdown once each has
	//        made its first call
	total := nsub * per
	if mode == 3 {
		total = 400
	}
	outc := make([]int, total)
	for i := range outc {
		switch rng.Intn(5) {
		case 0:
			outc[i] = 1
		case 1:
			outc[i] = 2
		}
	}
	s := newScen(nw, capacity, func(t int) (int, bool) { return outc[t], false })
	defer scens.Delete(s.ex)
	spin := mode == 1
	if mode == 1 {
		s.work = 3
	}
	if mode == 0 && in.At(5).Uint64()%2 == 1 && per > 1 {
		s.sharePer = per // every submitter re-submits one and the same task object
	}
	if mode == 4 {
		s.work = 2
		s.lean = true
	}
	for i := 0; i < total; i++ {
		s.calls = append(s.calls, &call{})
	}
	var barrier sync.WaitGroup
	var spinGo, spinReady int32
	var shutInvoked int64
	sh := &call{}
	barrier.Add(1)
	var stop int32
	switch mode {
	case 2:
		a, c := &call{}, &call{}
		s.loops = append(s.loops, a, c)
		s.shuts = append(s.shuts, sh)
		go func() {
			gid := int32(Goid())
			atomic.StoreInt32(&a.gid, gid)
			r := s.task(0)
			atomic.StoreInt32(&s.calls[0].gid, gid)
			atomic.AddInt32(&spinReady, 1)
			for atomic.LoadInt32(&spinGo) == 0 {
			}
			s.executeReady(s.calls[0], r)
			atomic.StoreInt32(&a.status, 1)
		}()
		go func() {
			gid := int32(Goid())
			atomic.StoreInt32(&c.gid, gid)
			r := s.task(1)
			atomic.StoreInt32(&s.calls[1].gid, gid)
			atomic.AddInt32(&spinReady, 1)
			for atomic.LoadInt32(&spinGo) == 0 {
			}
			// react within nanoseconds of the state turning Running
			for k := 0; s.ex.VerifState() != 2; k++ {
				if k > 1<<16 {
					runtime.Gosched()
				}
				if k > 1<<22 {
					break
				}
			}
			s.executeReady(s.calls[1], r)
			atomic.StoreInt64(&shutInvoked, atomic.AddInt64(&s.seq, 1))
			s.shutdown(sh)
			atomic.StoreInt32(&c.status, 1)
		}()
	case 3:
		next := int32(nsub)
		s.chain = make([]int32, total)
		for g := 0; g < nsub; g++ {
			s.chain[g] = 1
		}
		s.after = func(t int) {
			if atomic.LoadInt32(&s.chain[t]) != 1 {
				return // a short task
			}
			// a chain task: `per` short tasks and then its successor, all to its own executor
			for k := 0; k <= per; k++ {
				id := int(atomic.AddInt32(&next, 1)) - 1
				if id >= total {
					return
				}
				atomic.StoreInt32(&s.chain[id], int32(btoi(k == per)))
				s.execute(s.calls[id], id)
				if atomic.LoadInt32(&s.calls[id].status) != 1 {
					return
				}
			}
		}
		lp := &call{}
		s.loops = append(s.loops, lp)
		go func() {
			atomic.StoreInt32(&lp.gid, int32(Goid()))
			for g := 0; g < nsub; g++ {
				s.execute(s.calls[g], g)
			}
			atomic.StoreInt32(&lp.status, 1)
		}()
	default:
		for g := 0; g < nsub; g++ {
			lp := &call{}
			s.loops = append(s.loops, lp)
			go func(g int) {
				gid := int32(Goid())
				atomic.StoreInt32(&lp.gid, gid)
				first := 0
				if spin { // leave at the same instant, with the first call fully prepared
					t := g * per
					r := s.task(t)
					atomic.StoreInt32(&s.calls[t].gid, gid)
					atomic.AddInt32(&spinReady, 1)
					for atomic.LoadInt32(&spinGo) == 0 {
					}
					s.executeReady(s.calls[t], r)
					first = 1
				} else {
					barrier.Wait()
				}
				for i := first; i < per; i++ {
					t := g*per + i
					if mode == 4 {
						if atomic.LoadInt32(&stop) != 0 {
							break
						}
						atomic.StoreInt32(&s.calls[t].gid, gid)
						s.executeReady(s.calls[t], s.task(t))
						if atomic.LoadInt32(&s.calls[t].status) != 1 {
							break // refused: the executor is being shut down
						}
						continue
					}
					s.execute(s.calls[t], t)
				}
				atomic.StoreInt32(&lp.status, 1)
			}(g)
		}
	}
	allBack := func() bool {
		for _, lp := range s.loops {
			if atomic.LoadInt32(&lp.status) == 0 {
				return false
			}
		}
		return true
	}
	if spin || mode == 2 { // wait until every caller spins in front of its first Execute
		want := int32(nsub)
		for dl := time.Now().Add(time.Second); atomic.LoadInt32(&spinReady) < want && time.Now().Before(dl); {
			runtime.Gosched()
		}
	}
	atomic.StoreInt32(&spinGo, 1)
	barrier.Done()
	if mode != 2 {
		// wait for the moment to call Shutdown: `shutafter` task bodies have run / (mode 4) every
		// caller has made its first call / every caller is back / the scenario has come to rest
		firstDone := func() bool {
			for g := 0; g < nsub; g++ {
				if atomic.LoadInt32(&s.calls[g*per].status) == 0 {
					return false
				}
			}
			return true
		}
		deadline := time.Now().Add(settleLimit)
		for k := 0; ; k++ {
			if mode == 4 {
				if firstDone() {
					break
				}
			} else if shutafter < total && atomic.LoadInt64(&s.nrun) >= int64(shutafter) {
				break
			}
			if (mode != 3 && allBack()) || time.Now().After(deadline) {
				break
			}
			if k%64 == 63 {
				if q, _, _, _ := s.look(); q {
					break
				}
				time.Sleep(50 * time.Microsecond)
			} else {
				runtime.Gosched()
			}
		}
		s.mu.Lock()
		s.shuts = append(s.shuts, sh)
		s.mu.Unlock()
		atomic.StoreInt64(&shutInvoked, atomic.AddInt64(&s.seq, 1))
		go s.shutdown(sh)
	}
	// let the scenario come to rest, then look
	ok, st, alive, shs := s.settle(settleLimit)
	atomic.StoreInt32(&stop, 1)
	inconclusive := !ok
	invoked := atomic.LoadInt64(&shutInvoked)
	// Shutdown on an executor that is not running yet is a no-op by construction (its CAS fails);
	// the statement speaks about shutting down a running executor: some Execute had returned nil
	effective := false
	for _, c := range s.calls {
		if atomic.LoadInt32(&c.status) == 1 && invoked != 0 && c.retSeq < invoked {
			effective = true
		}
	}
	shutret := len(shs) > 0 && shs[0] == 1 && effective
	// Shutdown of a running executor has not returned although everything is parked (goroutine dump)
	shutpending := ok && effective && len(shs) > 0 && shs[0] == 0
	if shutpending {
		atomic.AddInt32(&stuckSeen, 1)
	}
	shutPanic := atomic.LoadInt32(&sh.status) == 3
	s.mu.Lock()
	early, runs, endedb := make([]int, total), make([]int, total), make([]int, total)
	lateStarts := 0
	for t := 0; t < total; t++ {
		c := s.calls[t]
		if atomic.LoadInt32(&c.status) != 0 && invoked != 0 && c.retSeq < invoked {
			early[t] = 1
		}
		runs[t] = s.runs[t]
		if e, ok := s.endSeq[t]; ok && shutret && e < sh.retSeq {
			endedb[t] = 1
		}
		if b, ok := s.startSeq[t]; ok && shutret && b > sh.retSeq {
			lateStarts++
		}
	}
	// per submitter its tasks must have started in the order it submitted them (checked for nw = 1)
	orderOK := true
	if mode != 3 {
		last := make([]int, nsub)
		for g := range last {
			last[g] = -1
		}
		for _, t := range s.start {
			if g := t / per; t > last[g] {
				last[g] = t
			} else {
				orderOK = false
			}
		}
	}
	nworkers := len(s.workers)
	s.mu.Unlock()
	for _, x := range st {
		if x == 4 {
			atomic.AddInt32(&stuckSeen, 1)
			break
		}
	}
	// trailing calls that were never begun carry no information: drop them (chains, full-queue runs)
	n := total
	for n > 0 && st[n-1] == 5 && runs[n-1] == 0 {
		n--
	}
	return List(ints(st[:n]), ints(early[:n]), ints(runs[:n]), ints(endedb[:n]), List(Int(int64(alive)), Bool(shutret), Bool(inconclusive),
		Int(atomic.LoadInt64(&s.maxInflight)), Int(int64(nworkers)), Bool(orderOK), Bool(shutpending),
		Int(int64(lateStarts)), Bool(shutPanic)))
}

func btoi(b bool) int {
	if b {
		return 1
	}
	return 0
}

// ---------------------------------------------------------------- lean full-queue races
//
// Many callers keep submitting into a tiny queue (most of them blocked on it) while Shutdown is
// called.  The window of interest is a few nanoseconds wide, so a round does nothing but the race
// itself (no goroutine dumps, no locks of the harness in the task bodies); a scenario is `rounds`
// such rounds on fresh executors and reports the first round in which anything is off (else the
// last one).  Facts used: return values and run counters, ordered by one atomic sequence counter;
// a goroutine dump is taken only when a call or Shutdown has not returned after 5 s.

type leanTask struct {
	runs   *int32
	endSeq *int64
	seq    *int64
	infl   *int64
	maxInf *int64
}

func (t *leanTask) Run() error {
	n := atomic.AddInt64(t.infl, 1)
	for {
		m := atomic.LoadInt64(t.maxInf)
		if n <= m || atomic.CompareAndSwapInt64(t.maxInf, m, n) {
			break
		}
	}
	runtime.Gosched()
	runtime.Gosched()
	atomic.AddInt64(t.infl, -1)
	if atomic.AddInt32(t.runs, 1) == 1 {
		atomic.StoreInt64(t.endSeq, atomic.AddInt64(t.seq, 1))
	}
	return nil
}

func leanRound(nw, capacity, nsub, per int) (Sx, bool) {
	e := sched.NewThreadPoolExecutor(nw, capacity).(*sched.ThreadPoolExecutor)
	total := nsub * per
	status := make([]int32, total)
	retSeq := make([]int64, total)
	runs := make([]int32, total)
	endSeq := make([]int64, total)
	var seq, infl, maxInf int64
	var stop int32
	var wg, started sync.WaitGroup
	started.Add(nsub)
	for g := 0; g < nsub; g++ {
		wg.Add(1)
		go func(g int) {
			defer wg.Done()
			first := true
			for k := 0; k < per && atomic.LoadInt32(&stop) == 0; k++ {
				id := g*per + k
				t := &leanTask{&runs[id], &endSeq[id], &seq, &infl, &maxInf}
				var err error
				p, val := Catch(func() { err = e.Execute(t) })
				st := int32(1)
				if p {
					st = 3
					if runtimePanic(val) {
						st = 8
					}
				} else if err != nil {
					st = 2
				}
				retSeq[id] = atomic.AddInt64(&seq, 1)
				atomic.StoreInt32(&status[id], st)
				if first {
					first = false
					started.Done()
				}
				if st != 1 {
					return
				}
			}
			if first {
				started.Done()
			}
		}(g)
	}
	waitFor := func(f func(), limit time.Duration) bool {
		c := make(chan struct{})
		go func() { f(); close(c) }()
		select {
		case <-c:
			return true
		case <-time.After(limit):
			return false
		}
	}
	inconclusive := !waitFor(started.Wait, 10*time.Second)
	invoked := atomic.AddInt64(&seq, 1)
	var shutSeq int64
	shutPanic := false
	shutBack := waitFor(func() {
		p, _ := Catch(func() { e.Shutdown() })
		shutPanic = p
		atomic.StoreInt64(&shutSeq, atomic.AddInt64(&seq, 1))
	}, 5*time.Second)
	atomic.StoreInt32(&stop, 1)
	allBack := waitFor(wg.Wait, 5*time.Second)
	shutpending := false
	if !shutBack || !allBack {
		// something has not returned: is it parked for good?  (goroutine dump: no goroutine inside the
		// executor is running or runnable)
		time.Sleep(20 * time.Millisecond)
		moving := false
		for _, g := range GDump() {
			if strings.Contains(g.Text, "sched.(*ThreadPoolExecutor)") && !parkedState(g.State) {
				moving = true
			}
		}
		if moving {
			inconclusive = true
		} else {
			shutpending = !shutBack
		}
	}
	ret := atomic.LoadInt64(&shutSeq)
	st, early, rn, endedb := make([]int, total), make([]int, total), make([]int, total), make([]int, total)
	anomaly := shutPanic || shutpending || (!allBack && !inconclusive)
	effective := false
	for id := 0; id < total; id++ {
		st[id] = int(atomic.LoadInt32(&status[id]))
		rn[id] = int(atomic.LoadInt32(&runs[id]))
		if st[id] != 0 && retSeq[id] < invoked {
			early[id] = 1
			if st[id] == 1 {
				effective = true
			}
		}
		if es := atomic.LoadInt64(&endSeq[id]); es != 0 && ret != 0 && es < ret {
			endedb[id] = 1
		}
	}
	shutret := shutBack && effective
	n := total
	for id := 0; id < total; id++ {
		if st[id] == 0 && (allBack || inconclusive) {
			st[id] = 5 // never begun
		}
		if st[id] == 8 || rn[id] > 1 || (st[id] == 1 && shutret && (rn[id] != 1 || endedb[id] != 1)) ||
			(st[id] == 0) || (early[id] == 1 && st[id] != 1) {
			anomaly = true
		}
	}
	for n > 0 && st[n-1] == 5 && rn[n-1] == 0 {
		n--
	}
	if atomic.LoadInt64(&maxInf) > int64(nw) {
		anomaly = true
	}
	obs := List(ints(st[:n]), ints(early[:n]), ints(rn[:n]), ints(endedb[:n]), List(Int(0), Bool(shutret), Bool(inconclusive),
		Int(atomic.LoadInt64(&maxInf)), Int(0), Bool(true), Bool(shutpending), Int(0), Bool(shutPanic)))
	return obs, anomaly && !inconclusive
}

func runLean(in Sx) Sx {
	nw, capacity, nsub, per, rounds := in.At(1).AsInt(), in.At(2).AsInt(), in.At(3).AsInt(), in.At(4).AsInt(), in.At(6).AsInt()
	var obs Sx
	for r := 0; r < rounds; r++ {
		var bad bool
		obs, bad = leanRound(nw, capacity, nsub, per)
		if bad {
			break
		}
	}
	return obs
}

// ---------------------------------------------------------------- panicking tasks, in a child process
//
// A task may panic with a value of any shape.  If the recover machinery itself fails the whole
// process dies, so these scenarios run in a child process (this binary with C18_CHILD set) and the
// death of the child is an observation.

type sliceErr []string

func (e sliceErr) Error() string { return strings.Join(e, ",") }

type withSlice struct {
	name string
	data []int
}

var shapeNames = []string{"string", "error", "runtime.Error", "int", "nil", "slice", "map", "func", "struct with slice", "pointer", "slice-typed error",
	"nil Runnable", "typed-nil Runnable", "errors of several concrete types",
	"error whose Error method panics (nil receiver)", "Stringer whose String method panics", "Formatter whose Format method panics",
	"error whose Error method panics with a string"}

// panic values whose own printing methods fail: whatever renders the recovered value must survive
// that (package fmt does: it recovers panics of Error/String/Format), or the failure inside the
// recovery kills the worker and the process
type derefErr struct{ msg *string }

func (e *derefErr) Error() string { return *e.msg + e.String() }
func (e *derefErr) String() string { return *e.msg }

type badStringer struct{ m map[string]int }

func (b badStringer) String() string { b.m["x"]++; return "badStringer" }

type badFormatter struct{}

func (badFormatter) Format(f fmt.State, c rune) { var p *withSlice; _ = p.name }

type shoutErr struct{}

func (shoutErr) Error() string { panic("Error method panics") }

func panicWith(shape int) {
	switch shape {
	case 0:
		panic("task panics")
	case 1:
		panic(errors.New("task failed badly"))
	case 2:
		var m map[int]int
		m[1] = 1
	case 3:
		panic(42)
	case 4:
		panic(nil)
	case 5:
		panic([]int{1, 2, 3})
	case 6:
		panic(map[string]int{"a": 1})
	case 7:
		panic(func() {})
	case 8:
		panic(withSlice{"x", []int{1}})
	case 9:
		panic(&withSlice{"y", nil})
	case 14:
		panic(error(&derefErr{}))
	case 15:
		panic(badStringer{})
	case 16:
		panic(badFormatter{})
	case 17:
		panic(error(shoutErr{}))
	default:
		panic(sliceErr{"a", "b"})
	}
}

func childMain(spec string) {
	var shape, nw int
	fmt.Sscanf(spec, "%d %d", &shape, &nw)
	e := sched.NewThreadPoolExecutor(nw, 8).(*sched.ThreadPoolExecutor)
	var runs [5]int32
	for i := 0; i < 5; i++ {
		i := i
		var r sched.Runnable = sched.NewTask(func() error {
			atomic.AddInt32(&runs[i], 1)
			if shape == 13 { // every task fails, each with an error of another concrete type
				return []error{errTask, fmt.Errorf("wrapped: %w", errTask), structErr{"s", i}, &ptrErr{i}, (*ptrErr)(nil)}[i]
			}
			if i == 1 || i == 3 {
				panicWith(shape)
			}
			return nil
		})
		if (i == 1 || i == 3) && shape == 11 {
			r = nil // no body of its own: running it is a nil dereference inside run()
		} else if (i == 1 || i == 3) && shape == 12 {
			r = (*sched.Task)(nil)
		}
		Catch(func() { e.Execute(r) })
	}
	want := int32(5)
	if shape == 11 || shape == 12 {
		want = 3
	}
	for dl := time.Now().Add(3 * time.Second); time.Now().Before(dl); time.Sleep(time.Millisecond) {
		n := int32(0)
		for i := range runs {
			n += atomic.LoadInt32(&runs[i])
		}
		if n >= want {
			break
		}
	}
	back := make(chan struct{})
	go func() { Catch(func() { e.Shutdown() }); close(back) }()
	ret := 0
	select {
	case <-back:
		ret = 1
	case <-time.After(3 * time.Second):
	}
	fmt.Printf("RESULT %d %d %d %d %d %d\n", runs[0], runs[1], runs[2], runs[3], runs[4], ret)
}

func runPanicShape(in Sx) Sx {
	nw, shape := in.At(1).AsInt(), in.At(5).AsInt()
	cmd := exec.Command(os.Args[0])
	cmd.Env = append(os.Environ(), fmt.Sprintf("C18_CHILD=%d %d", shape, nw))
	var outb bytes.Buffer
	cmd.Stdout = &outb
	done := make(chan error, 1)
	inconclusive := false
	if err := cmd.Start(); err != nil {
		inconclusive = true
	} else {
		go func() { done <- cmd.Wait() }()
		select {
		case <-done:
		case <-time.After(20 * time.Second):
			cmd.Process.Kill()
			inconclusive = true
		}
	}
	st := []int{9, 9, 9, 9, 9} // the process died while the tasks were running
	runs := []int{0, 0, 0, 0, 0}
	ret := 0
	if i := strings.Index(outb.String(), "RESULT "); i >= 0 {
		var r [5]int
		if n, _ := fmt.Sscanf(outb.String()[i:], "RESULT %d %d %d %d %d %d", &r[0], &r[1], &r[2], &r[3], &r[4], &ret); n == 6 {
			st = []int{1, 1, 1, 1, 1}
			runs = r[:]
			if shape == 11 || shape == 12 { // nil Runnables have no body that could count its runs
				st[1], st[3] = 5, 5
			}
		}
	}
	early := []int{1, 1, 1, 1, 1}
	for i, x := range st {
		if x == 5 {
			early[i] = 0
		}
	}
	return List(ints(st), ints(early), ints(runs), ints(runs), List(Int(0), Int(int64(ret)), Bool(inconclusive),
		Int(0), Int(0), Bool(true), Bool(false), Int(0), Bool(false)))
}

// ---------------------------------------------------------------- lean fresh executors
//
// `lanes` goroutines each create `rounds` fresh executors and let nsub callers (released from a spin
// barrier) make the first Execute calls.  Nothing but the race itself runs in a round; only when a
// lane stalls (a caller not back after 2 s) is a goroutine dump taken: a caller parked inside start()
// while the state reads Running can never return.

func leanFresh(in Sx) Sx {
	nw, capacity, nsub, rounds := in.At(1).AsInt(), in.At(2).AsInt(), in.At(3).AsInt(), in.At(6).AsInt()
	const lanes = 4
	type result struct {
		st      []int
		runs    []int
		stalled bool
		incon   bool
	}
	var found atomic.Value
	var stopAll int32
	var wg sync.WaitGroup
	last := make([]result, lanes)
	for l := 0; l < lanes; l++ {
		wg.Add(1)
		go func(l int) {
			defer wg.Done()
			for r := 0; r < rounds && atomic.LoadInt32(&stopAll) == 0; r++ {
				e := sched.NewThreadPoolExecutor(nw, capacity).(*sched.ThreadPoolExecutor)
				status := make([]int32, nsub)
				runs := make([]int32, nsub)
				var ready, goFlag, back int32
				for g := 0; g < nsub; g++ {
					go func(g int) {
						t := sched.NewTask(func() error { atomic.AddInt32(&runs[g], 1); return nil })
						atomic.AddInt32(&ready, 1)
						for k := 0; atomic.LoadInt32(&goFlag) == 0; k++ {
							if k > 256 { // spin briefly, then yield: more spinners than cores must not starve the lane
								runtime.Gosched()
							}
						}
						var err error
						p, val := Catch(func() { err = e.Execute(t) })
						st := int32(1)
						if p {
							st = 3
							if runtimePanic(val) {
								st = 8
							}
						} else if err != nil {
							st = 2
						}
						atomic.StoreInt32(&status[g], st)
						atomic.AddInt32(&back, 1)
					}(g)
				}
				for atomic.LoadInt32(&ready) < int32(nsub) {
					runtime.Gosched()
				}
				atomic.StoreInt32(&goFlag, 1)
				var dl time.Time
				for k := 0; atomic.LoadInt32(&back) < int32(nsub); k++ {
					runtime.Gosched()
					if k == 4096 {
						dl = time.Now().Add(2 * time.Second)
					}
					if k > 4096 && k%1024 == 0 && time.Now().After(dl) {
						break
					}
				}
				res := result{st: make([]int, nsub), runs: make([]int, nsub)}
				if atomic.LoadInt32(&back) < int32(nsub) {
					// stalled: how many callers of THIS executor are parked inside start()?
					time.Sleep(10 * time.Millisecond)
					parked, moving := 0, 0
					tag := fmt.Sprintf("sched.(*ThreadPoolExecutor).start(%p", e)
					for _, g := range GDump() {
						if strings.Contains(g.Text, tag) {
							if parkedState(g.State) {
								parked++
							} else {
								moving++
							}
						}
					}
					missing := nsub - int(atomic.LoadInt32(&back))
					res.stalled = moving == 0 && parked == missing && e.VerifState() == 2
					res.incon = !res.stalled
				}
				bad := res.stalled
				for g := 0; g < nsub; g++ {
					res.st[g] = int(atomic.LoadInt32(&status[g]))
					if res.st[g] == 0 && res.stalled {
						res.st[g] = 4 // parked inside start() for good
					} else if res.st[g] == 0 {
						res.st[g] = 5
					}
					if res.st[g] != 1 && res.st[g] != 5 {
						bad = true
					}
				}
				if !res.stalled && !res.incon {
					Catch(func() { e.Shutdown() })
				}
				for g := 0; g < nsub; g++ {
					res.runs[g] = int(atomic.LoadInt32(&runs[g]))
					if res.st[g] == 1 && res.runs[g] != 1 && !res.stalled && !res.incon {
						bad = true
					}
				}
				last[l] = res
				if bad || res.incon {
					if found.Load() == nil || bad {
						found.Store(res)
					}
					if bad {
						atomic.StoreInt32(&stopAll, 1)
					}
					return
				}
			}
		}(l)
	}
	wg.Wait()
	res := last[0]
	if v := found.Load(); v != nil {
		res = v.(result)
	}
	ones := make([]int, nsub)
	for i := range ones {
		ones[i] = 1
	}
	shutret := !res.stalled && !res.incon
	return List(ints(res.st), ints(make([]int, nsub)), ints(res.runs), ints(res.runs), List(Int(0), Bool(shutret), Bool(res.incon && !res.stalled),
		Int(0), Int(0), Bool(true), Bool(false), Int(0), Bool(false)))
}

// ---------------------------------------------------------------- Shutdown races the lazy start
//
// `lanes` goroutines each create `rounds` fresh, never used executors; nsub first callers of Execute
// and nshut callers of Shutdown leave a starting gun together.  Nothing but the race runs in a round.
// A round in which somebody is not back after 2 s takes a goroutine dump: if every goroutine of the
// round that has not returned is parked in a sync.Mutex / sync.RWMutex Lock inside the executor and no
// goroutine of the round (callers, workers) is runnable, nobody can ever release those locks.
// Afterwards (clean round): a final Shutdown, every accepted task has run exactly once, no worker is left.

func leanStartShut(in Sx) Sx {
	nw, capacity, nsub, nshut, rounds := in.At(1).AsInt(), in.At(2).AsInt(), in.At(3).AsInt(), in.At(4).AsInt(), in.At(6).AsInt()
	const lanes = 4
	type result struct {
		st, runs           []int
		stuck, incon, shut bool
		shutStuck          bool
	}
	var found atomic.Value
	var stopAll int32
	var wg sync.WaitGroup
	last := make([]result, lanes)
	for l := 0; l < lanes; l++ {
		wg.Add(1)
		go func(l int) {
			defer wg.Done()
			for r := 0; r < rounds && atomic.LoadInt32(&stopAll) == 0; r++ {
				e := sched.NewThreadPoolExecutor(nw, capacity).(*sched.ThreadPoolExecutor)
				n := nsub + nshut
				status := make([]int32, n)
				gids := make([]int32, n)
				runs := make([]int32, nsub)
				var ready, goFlag, back int32
				for g := 0; g < n; g++ {
					go func(g int) {
						atomic.StoreInt32(&gids[g], int32(Goid()))
						var t sched.Runnable
						if g < nsub {
							t = sched.NewTask(func() error { atomic.AddInt32(&runs[g], 1); return nil })
						}
						atomic.AddInt32(&ready, 1)
						for k := 0; atomic.LoadInt32(&goFlag) == 0; k++ {
							if k > 256 {
								runtime.Gosched()
							}
						}
						st := int32(1)
						if g < nsub {
							var err error
							p, val := Catch(func() { err = e.Execute(t) })
							if p {
								st = 3
								if runtimePanic(val) {
									st = 8
								}
							} else if err != nil {
								st = 2
							}
						} else if p, _ := Catch(func() { e.Shutdown() }); p {
							st = 8
						}
						atomic.StoreInt32(&status[g], st)
						atomic.AddInt32(&back, 1)
					}(g)
				}
				for atomic.LoadInt32(&ready) < int32(n) {
					runtime.Gosched()
				}
				atomic.StoreInt32(&goFlag, 1)
				var dl time.Time
				for k := 0; atomic.LoadInt32(&back) < int32(n); k++ {
					runtime.Gosched()
					if k == 4096 {
						dl = time.Now().Add(2 * time.Second)
					}
					if k > 4096 && k%1024 == 0 && time.Now().After(dl) {
						break
					}
				}
				res := result{st: make([]int, nsub), runs: make([]int, nsub)}
				if atomic.LoadInt32(&back) < int32(n) {
					time.Sleep(10 * time.Millisecond)
					d := GDump()
					mine := map[int]bool{}
					for g := 0; g < n; g++ {
						mine[int(atomic.LoadInt32(&gids[g]))] = true
					}
					locked, moving := 0, 0
					for g := 0; g < n; g++ {
						if atomic.LoadInt32(&status[g]) != 0 {
							continue
						}
						gi := d[int(atomic.LoadInt32(&gids[g]))]
						if gi != nil && (gi.State == "sync.Mutex.Lock" || strings.HasPrefix(gi.State, "sync.RWMutex")) &&
							strings.Contains(gi.Text, "sched.(*ThreadPoolExecutor)") {
							locked++
						} else {
							moving++
						}
					}
					for _, gi := range d { // the workers of this executor
						if mine[gi.Parent] && strings.Contains(gi.Text, fWorker) && !parkedState(gi.State) {
							moving++
						}
					}
					missing := n - int(atomic.LoadInt32(&back))
					res.stuck = moving == 0 && locked == missing
					res.incon = !res.stuck
				}
				bad := res.stuck
				for g := 0; g < nsub; g++ {
					res.st[g] = int(atomic.LoadInt32(&status[g]))
					if res.st[g] == 0 {
						if res.stuck {
							res.st[g] = 4 // parked for good inside Execute / start()
						} else {
							res.st[g] = 5
						}
					}
					if res.st[g] == 8 {
						bad = true
					}
				}
				for g := nsub; g < n; g++ {
					if st := atomic.LoadInt32(&status[g]); st == 8 {
						bad = true
						res.shutStuck = false
					} else if st == 0 && res.stuck {
						res.shutStuck = true
					}
				}
				if !res.stuck && !res.incon {
					// the round is over; shut down for good (a Shutdown of the round may have found the
					// executor not started yet) and look at what was accepted
					back := make(chan struct{})
					go func() { Catch(func() { e.Shutdown() }); close(back) }()
					select {
					case <-back:
						res.shut = true
					case <-time.After(5 * time.Second):
						res.incon = true
					}
				}
				for g := 0; g < nsub; g++ {
					res.runs[g] = int(atomic.LoadInt32(&runs[g]))
					if res.shut && (res.runs[g] > 1 || (res.st[g] == 1 && res.runs[g] != 1)) {
						bad = true
					}
				}
				last[l] = res
				if bad || res.incon {
					if found.Load() == nil || bad {
						found.Store(res)
					}
					if bad {
						atomic.StoreInt32(&stopAll, 1)
					}
					return
				}
			}
		}(l)
	}
	wg.Wait()
	res := last[0]
	if v := found.Load(); v != nil {
		res = v.(result)
	}
	return List(ints(res.st), ints(make([]int, nsub)), ints(res.runs), ints(res.runs), List(Int(0), Bool(res.shut), Bool(res.incon && !res.stuck),
		Int(0), Int(0), Bool(true), Bool(res.shutStuck), Int(0), Bool(false)))
}

// the package's other Executor: ImmediateExecutor runs the task on the caller, once, before Execute
// returns, and hands back the task's own error (also through Instance())
func runImmediate(in Sx) Sx {
	n := in.At(4).AsInt()
	rng := NewRng(in.At(5).Uint64())
	st, runs := make([]int, n), make([]int, n)
	for i := 0; i < n; i++ {
		var e sched.Executor = sched.NewImmediateExecutor()
		if rng.Bool() {
			e = e.(*sched.ImmediateExecutor).Instance()
		}
		var want error
		if rng.Bool() {
			want = errTask
		}
		cnt := 0
		var got error
		p, _ := Catch(func() { got = e.Execute(sched.NewTask(func() error { cnt++; return want })) })
		runs[i] = cnt
		if !p && got == want {
			st[i] = 1
		}
	}
	return List(ints(st), ints(make([]int, n)), ints(runs), ints(runs), List(Int(0), Bool(true), Bool(false),
		Int(1), Int(1), Bool(true), Bool(false), Int(0), Bool(false)))
}

func run(in Sx) Sx {
	if in.At(0).AsInt() == 0 {
		return runScript(in)
	}
	if in.Len() > 8 && in.At(8).AsInt() > 0 { // GOMAXPROCS for this scenario
		defer runtime.GOMAXPROCS(runtime.GOMAXPROCS(in.At(8).AsInt()))
	}
	if in.Len() > 7 && in.At(7).AsInt() == 5 {
		return runLean(in)
	}
	if in.Len() > 7 && in.At(7).AsInt() == 6 {
		return leanFresh(in)
	}
	if in.Len() > 7 && in.At(7).AsInt() == 7 {
		return runPanicShape(in)
	}
	if in.Len() > 7 && in.At(7).AsInt() == 8 {
		return leanStartShut(in)
	}
	if in.Len() > 7 && in.At(7).AsInt() == 9 {
		return runImmediate(in)
	}
	return runConc(in)
}

// ---------------------------------------------------------------- generators

func genScript(rng *Rng, directed int) Sx {
	in := genScript0(rng, directed)
	// one concrete error type per executor in the in-process classes: if the script uses one of the
	// types 6..9, its plain failing tasks (1) use that type too
	ks := in.At(3)
	use := int64(0)
	for i := 0; i < ks.Len(); i++ {
		if o := ks.At(i).At(0).Int64(); o >= 6 && o <= 9 {
			use = o
		}
	}
	if use != 0 {
		for i := 0; i < ks.Len(); i++ {
			if ks.At(i).At(0).Int64() == 1 {
				ks.L[i] = List(Int(use), ks.At(i).At(1))
			}
		}
	}
	return in
}

func genScript0(rng *Rng, directed int) Sx {
	nw := rng.PickInt(0, 1, 1, 1, 2, 2, 3, 4)
	capacity := rng.PickInt(0, 1, 1, 2, 3, 4, 6)
	var kinds, ops []Sx
	nexec := 0
	var gatedOpen []int
	addExec := func(outcome int, gated bool) {
		kinds = append(kinds, List(Int(int64(outcome)), Bool(gated)))
		ops = append(ops, Ints(0))
		if gated {
			gatedOpen = append(gatedOpen, nexec)
		}
		nexec++
	}
	if directed == 3 {
		// an Execute is past its state check when Shutdown begins; it sends after the workers have gone
		nw = rng.PickInt(1, 1, 2)
		capacity = rng.Range(1, 4)
		pre := rng.Intn(capacity)
		for j := 0; j < pre; j++ {
			addExec(rng.PickInt(0, 1, 2), false)
		}
		ops = append(ops, Ints(4))
		kinds = append(kinds, List(Int(0), Bool(false)))
		held := nexec
		nexec++
		switch rng.Intn(3) {
		case 0: // Shutdown held before close(queue): the late send finds room in the buffer
			ops = append(ops, Ints(6), Ints(5, int64(held)), Ints(7))
		case 1: // Shutdown runs to its end, then the send
			ops = append(ops, Ints(2), Ints(5, int64(held)))
		default:
			ops = append(ops, Ints(6), Ints(7), Ints(5, int64(held)))
		}
		if rng.Bool() {
			ops = append(ops, Ints(2))
		}
		return List(Int(0), Int(int64(nw)), Int(int64(capacity)), ListOf(kinds), ListOf(ops))
	}
	if directed == 2 {
		// all workers busy, queue loaded, Shutdown, then all workers are let go at the same moment:
		// several workers drain the queue together
		nw = rng.Range(2, 4)
		capacity = rng.Range(3, 8)
		for j := 0; j < nw; j++ {
			addExec(0, true)
		}
		for j := 0; j < capacity; j++ {
			addExec(rng.PickInt(0, 0, 1, 2), false)
		}
		ops = append(ops, Ints(2))
		all := []int64{3}
		for j := 0; j < nw; j++ {
			all = append(all, int64(j))
		}
		ops = append(ops, Ints(all...))
		return List(Int(0), Int(int64(nw)), Int(int64(capacity)), ListOf(kinds), ListOf(ops))
	}
	if directed == 1 {
		// worker busy, queue loaded, then Shutdown, then the worker is let go
		nw = rng.PickInt(1, 1, 2)
		capacity = rng.Range(2, 6)
		for j := 0; j < nw; j++ {
			addExec(0, true)
		}
		for j := 0; j < capacity; j++ {
			addExec(rng.PickInt(0, 0, 1, 2, 3, 4), false)
		}
		ops = append(ops, Ints(2))
		for j := 0; j < nw; j++ {
			ops = append(ops, Ints(1, int64(j)))
		}
		return List(Int(0), Int(int64(nw)), Int(int64(capacity)), ListOf(kinds), ListOf(ops))
	}
	n := rng.Range(1, 12)
	shutAt := rng.Range(0, n+2)
	shut := 0
	var heldExec []int
	lastHeld := -1
	errKind := rng.PickInt(6, 7, 8, 9)
	for i := 0; i < n; i++ {
		if i == shutAt {
			ops = append(ops, Ints(2))
			shut++
		}
		if rng.Chance(1, 8) { // goroutines held at the executor's schedule points
			switch j := rng.Intn(4); {
			case j == 0:
				ops = append(ops, Ints(4))
				kinds = append(kinds, List(Int(int64(rng.PickInt(0, 1, 2))), Bool(false)))
				heldExec = append(heldExec, nexec)
				lastHeld = nexec
				nexec++
			case j == 1 && len(heldExec) > 0:
				x := rng.Intn(len(heldExec))
				ops = append(ops, Ints(5, int64(heldExec[x])))
				heldExec = append(heldExec[:x], heldExec[x+1:]...)
			case j == 2:
				ops = append(ops, Ints(6))
				shut++
			default:
				ops = append(ops, Ints(7))
			}
			continue
		}
		switch k := rng.Intn(10); {
		case k < 6 || len(gatedOpen) == 0:
			if rng.Chance(1, 8) {
				addExec(rng.PickInt(3, 4, 5), false) // a nil / typed-nil Runnable, a Task without an action
			} else if rng.Chance(1, 6) && nexec > 0 && lastHeld != nexec-1 {
				// the same Task object as the previous submission, submitted again (not after a held
				// Execute: its object is queued later than this one, and which run serves which
				// submission would be a matter of labels)
				addExec(11, false)
			} else if rng.Chance(1, 5) {
				// an error value of another concrete type (one type per script: histories that mix the
				// types on one executor run in the child-process class, where a death of the process is
				// an observation and not the end of the harness)
				addExec(errKind, rng.Chance(1, 4))
			} else {
				addExec(rng.PickInt(0, 0, 0, 1, 2), rng.Chance(2, 5))
			}
		case k < 9:
			j := rng.Intn(len(gatedOpen))
			ops = append(ops, Ints(1, int64(gatedOpen[j])))
			gatedOpen = append(gatedOpen[:j], gatedOpen[j+1:]...)
		default:
			ops = append(ops, Ints(2))
			shut++
		}
	}
	// trailer: sometimes Shutdown first and then the gates, sometimes the other way round
	if rng.Bool() {
		ops = append(ops, Ints(2))
	}
	for _, t := range heldExec {
		ops = append(ops, Ints(5, int64(t)))
	}
	ops = append(ops, Ints(7))
	for _, t := range gatedOpen {
		ops = append(ops, Ints(1, int64(t)))
	}
	ops = append(ops, Ints(2))
	if rng.Chance(1, 3) {
		addExec(0, false) // Execute after Shutdown has returned
	}
	return List(Int(0), Int(int64(nw)), Int(int64(capacity)), ListOf(kinds), ListOf(ops))
}

// many fresh small executors, each met by a few callers at the same instant
func genFresh(rng *Rng) Sx {
	nw := rng.PickInt(1, 1, 1, 2)
	nsub := rng.Range(2, 4)
	per := rng.Range(2, 6)
	capacity := rng.PickInt(0, 1, 4, nsub*per)
	return List(Int(1), Int(int64(nw)), Int(int64(capacity)), Int(int64(nsub)), Int(int64(per)),
		Uint(rng.Next()>>1), Int(int64(nsub*per)), Int(1))
}

// the very first Execute on a fresh executor with many workers  ||  Execute + Shutdown fired the moment
// the state reads Running
func genStartRace(rng *Rng) Sx {
	return List(Int(1), Int(int64(rng.PickInt(8, 16, 64, 128, 256))), Int(int64(rng.PickInt(1, 2, 4, 8, 16))),
		Int(2), Int(1), Uint(rng.Next()>>1), Int(2), Int(2))
}

// chains of tasks that submit short tasks and their successor to the executor they run on (the queue
// always has room), Shutdown racing with them
func genChains(rng *Rng) Sx {
	return List(Int(1), Int(int64(rng.Range(2, 8))), Int(512), Int(int64(rng.Range(1, 4))), Int(int64(rng.Range(0, 3))),
		Uint(rng.Next()>>1), Int(int64(rng.Range(3, 150))), Int(3))
}

// many callers keep submitting into a tiny queue (most of them blocked on it); Shutdown races
func genFullRace(rng *Rng) Sx {
	return List(Int(1), Int(int64(rng.PickInt(1, 1, 2, 4))), Int(int64(rng.PickInt(0, 1, 1, 2))),
		Int(int64(rng.PickInt(8, 16, 32))), Int(24), Uint(rng.Next()>>1), Int(0), Int(4))
}

// the same as a lean multi-round scenario (see runLean): input (1 nw cap nsub per seed rounds 5)
func genLeanRace(rng *Rng, rounds int) Sx {
	sh := [][3]int{{1, 0, 8}, {1, 1, 8}, {2, 0, 16}, {2, 2, 16}, {4, 1, 32}, {4, 1, 32}}[rng.Intn(6)]
	return List(Int(1), Int(int64(sh[0])), Int(int64(sh[1])), Int(int64(sh[2])), Int(32), Uint(rng.Next()>>1), Int(int64(rounds)), Int(5))
}

func genConc(rng *Rng, race bool) Sx {
	nw := rng.Range(1, 8)
	capacity := rng.PickInt(0, 1, 2, 4, 8, 16)
	nsub := rng.Range(1, 6)
	per := rng.Range(1, 40)
	if race {
		// many callers meet a fresh executor at the same moment; many workers to spawn
		nw = rng.PickInt(16, 64, 128, 256)
		nsub = rng.Range(4, 16)
		per = rng.Range(1, 3)
	}
	total := nsub * per
	shutafter := total
	if !race && rng.Bool() {
		shutafter = 1 + rng.Intn(total)
	}
	return List(Int(1), Int(int64(nw)), Int(int64(capacity)), Int(int64(nsub)), Int(int64(per)),
		Uint(rng.Next()>>1), Int(int64(shutafter)))
}

func nontrivial(in Sx) bool {
	if in.At(0).AsInt() == 0 {
		return in.At(3).Len() >= 1
	}
	return in.At(3).AsInt()*in.At(4).AsInt() >= 1 || (in.Len() > 7 && in.At(7).AsInt() == 3)
}

var nInconclusive int

func inconclusiveObs(in, obs Sx) bool {
	if in.At(0).AsInt() == 0 {
		n := obs.Len()
		return n > 0 && !obs.At(n-1).At(0).AsBool()
	}
	return obs.At(4).At(2).AsBool()
}

func gen(a Args, out *Out) {
	rng := NewRng(a.Seed)
	nscript, ndir, nconc, nrace, nfresh := 220, 24, 60, 40, 400
	if a.Thorough() {
		nscript, ndir, nconc, nrace, nfresh = 4000, 300, 1500, 800, 10000
	}
	// VERIF_FOCUS_KINDS=kind1,kind2 (set by bin/check's extended search): spend the run on these classes
	focus := map[string]bool{}
	for _, k := range strings.Split(os.Getenv("VERIF_FOCUS_KINDS"), ",") {
		if k != "" {
			focus[k] = true
		}
	}
	procs := []int{0, 2, 4}
	nlean := 0
	emit := func(kind string, in Sx) {
		if len(focus) > 0 && !focus[kind] {
			return
		}
		switch kind { // the thin races are run under several degrees of parallelism
		case "leanrace", "leanfresh", "startshut", "startrace", "fresh":
			in = ListOf(append(append([]Sx(nil), in.L...), Int(int64(procs[nlean%len(procs)]))))
			nlean++
		}
		if atomic.LoadInt32(&stuckSeen) >= 12 {
			out.Count("skipped-after-12-stuck-executors")
			return
		}
		obs := run(in)
		// a scenario that could not be brought to rest within the settle budget is run again (twice at
		// most); what is still inconclusive then is recorded as such and never raises an alarm
		for try := 0; try < 2 && inconclusiveObs(in, obs); try++ {
			out.Count("inconclusive:retried")
			obs = run(in)
		}
		out.Case(kind, nontrivial(in), in, obs)
		if inconclusiveObs(in, obs) {
			nInconclusive++
		}
		if in.At(0).AsInt() == 0 {
			out.Count("script:nw=" + strconv.Itoa(in.At(1).AsInt()))
			out.Count("script:cap=" + strconv.Itoa(in.At(2).AsInt()))
			out.CountN("script:ops", in.At(4).Len())
			out.CountN("script:tasks", in.At(3).Len())
			if n := obs.Len(); n > 0 && !obs.At(n-1).At(0).AsBool() {
				out.Count("inconclusive:not-quiescent-within-deadline")
			}
			for i := 0; i < obs.Len(); i++ {
				for j := 0; j < obs.At(i).At(1).Len(); j++ {
					if i == obs.Len()-1 {
						out.Count("script:final-status=" + strconv.Itoa(obs.At(i).At(1).At(j).AsInt()))
					}
				}
			}
		} else {
			out.CountN("conc:calls observed", obs.At(0).Len())
			if obs.At(4).At(2).AsBool() {
				out.Count("inconclusive:not-quiescent-within-deadline")
			}
			for j := 0; j < obs.At(0).Len(); j++ {
				out.Count("conc:status=" + strconv.Itoa(obs.At(0).At(j).AsInt()))
			}
			e := 0
			for j := 0; j < obs.At(1).Len(); j++ {
				e += obs.At(1).At(j).AsInt()
			}
			out.CountN("conc:returned-before-shutdown", e)
			out.Count("conc:max-in-flight=" + strconv.Itoa(obs.At(4).At(3).AsInt()))
			if obs.At(4).At(6).AsBool() {
				out.Count("conc:Shutdown parked for good")
			}
			if obs.At(4).At(1).AsBool() {
				out.Count("conc:effective-shutdown-returned")
			}
		}
	}
	r1, r2, r3, r4 := rng.Fork(), rng.Fork(), rng.Fork(), rng.Fork()
	for i := 0; i < ndir; i++ {
		emit("drain", genScript(r1, 1))
		emit("drain", genScript(r1, 2))
		emit("late", genScript(r1, 3))
	}
	r5 := rng.Fork()
	for i := 0; i < nfresh; i++ {
		emit("fresh", genFresh(r5))
	}
	r6, r7, r8 := rng.Fork(), rng.Fork(), rng.Fork()
	for i := 0; i < nfresh*3/4; i++ {
		emit("startrace", genStartRace(r6))
	}
	for i := 0; i < nfresh/3; i++ {
		emit("chains", genChains(r7))
	}
	for i := 0; i < nfresh/3; i++ {
		emit("fullrace", genFullRace(r8))
	}
	for shape := range shapeNames {
		for _, w := range []int{1, 2} {
			in := List(Int(1), Int(int64(w)), Int(8), Int(1), Int(5), Int(int64(shape)), Int(0), Int(7))
			emit("panicshape", in)
			out.Count("panicshape:" + shapeNames[shape])
		}
	}
	r10 := rng.Fork()
	for i := 0; i < nfresh/80; i++ {
		rounds := 1500
		in := List(Int(1), Int(int64(r10.PickInt(1, 2, 4))), Int(8), Int(6), Int(1), Uint(r10.Next()>>1), Int(int64(rounds)), Int(6))
		emit("leanfresh", in)
		out.CountN("leanfresh:fresh executors (4 lanes)", 4*rounds)
	}
	for i := 0; i < 3; i++ {
		emit("immediate", List(Int(1), Int(1), Int(0), Int(1), Int(20), Uint(rng.Fork().Next()>>1), Int(0), Int(9)))
	}
	r11 := rng.Fork()
	for i := 0; i < nfresh/100; i++ {
		rounds := 800
		in := List(Int(1), Int(int64(r11.PickInt(1, 2, 4))), Int(8), Int(6), Int(int64(r11.Range(1, 2))), Uint(r11.Next()>>1), Int(int64(rounds)), Int(8))
		emit("startshut", in)
		out.CountN("startshut:fresh executors (4 lanes)", 4*rounds)
	}
	r9 := rng.Fork()
	for i := 0; i < nfresh/8; i++ {
		emit("leanrace", genLeanRace(r9, 80))
		out.CountN("leanrace:rounds", 80)
	}
	for i := 0; i < nscript; i++ {
		emit("script", genScript(r2, 0))
	}
	for i := 0; i < nrace; i++ {
		emit("race", genConc(r3, true))
	}
	for i := 0; i < nconc; i++ {
		emit("conc", genConc(r4, false))
	}
	out.CountN("inconclusive:total (scenarios not evaluated)", nInconclusive)
	out.Note("goroutines at exit: %d", runtime.NumGoroutine())
}

func main() {
	if spec := os.Getenv("C18_CHILD"); spec != "" {
		childMain(spec)
		return
	}
	sched.VerifExecutorHook = pointHook
	log.SetOutput(io.Discard)
	if f, err := os.OpenFile(os.DevNull, os.O_WRONLY, 0); err == nil {
		os.Stderr = f // debug.CatchPanic prints a traceback per recovered panic
	}
	Main(run, gen)
}
