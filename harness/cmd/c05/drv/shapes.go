package drv

import (
	. "verifharness/common"
)

// HeapShapes builds histories for the heap timer about one array shape: n (8..30) timers
// are started and accepted in a fixed order (shape 0: the delays 10,20,100,30,40,110,120,35;
// odd shapes: lopsided - accepted in array order without sifting, one subtree of the root
// with large deadlines, the other with small ones, so that the last leaf moved into a hole
// of the large subtree is smaller than the hole's parent and has to move UP; otherwise
// random deadlines).  One history per array position: that timer is cancelled and the
// worker removes it (root, inner nodes, leaves, the last element), the array is probed,
// 1..4 further timers are started (so that a misplaced node is not repaired by becoming
// the root first), and then every tick up to the last deadline is visited one by one:
// every remaining timer on its due tick, in due order.
func HeapShapes(r *Rng, shape int) []*Hist {
	var dls []int64
	switch {
	case shape == 0:
		dls = []int64{10, 20, 100, 30, 40, 110, 120, 35}
	case shape%2 == 1:
		n := r.Range(8, 30)
		dls = make([]int64, n)
		side := make([]int, n)
		big := r.Intn(2) // which child of the root heads the large subtree
		dls[0] = 1
		for i := 1; i < n; i++ {
			par := (i - 1) / 2
			if par == 0 {
				side[i] = (i - 1 + big) % 2
			} else {
				side[i] = side[par]
			}
			if side[i] == 0 {
				dls[i] = dls[par] + int64(r.Range(9, 25))
			} else {
				dls[i] = dls[par] + int64(r.Range(0, 3))
			}
		}
	default:
		n := r.Range(8, 30)
		dls = make([]int64, n)
		for i := range dls {
			dls[i] = int64(r.Range(1, 90))
		}
	}
	last := int64(0)
	for _, d := range dls {
		if d > last {
			last = d
		}
	}
	nMore := r.Range(1, 4)
	more := make([]int64, nMore)
	for i := range more {
		switch r.Intn(3) {
		case 0:
			more[i] = last + int64(r.Range(1, 5)) // sinks to a leaf
		case 1:
			more[i] = int64(r.Range(2, int(last)))
		default:
			more[i] = dls[r.Intn(len(dls))] // an existing key
		}
		if more[i] > last {
			last = more[i]
		}
	}
	var hs []*Hist
	for victim := 1; victim <= len(dls); victim++ {
		h := NewHist(ImplHeap, 0, 0)
		for _, d := range dls {
			h.Start(d)
			h.HandleAdd()
		}
		h.Probe()
		h.Cancel(int64(victim))
		h.HandleDel()
		h.Probe()
		for _, d := range more {
			h.Start(d)
			h.HandleAdd()
		}
		h.Probe()
		for tck := int64(0); tck < last+2; tck++ {
			h.Adv(1)
		}
		h.Size()
		h.Probe()
		hs = append(hs, h)
	}
	return hs
}
