// Package drv runs one history of timer API calls and worker steps against the real
// schedulers (sched.HHWheelTimer, sched.TimerQueue) through the synchronous drivers of
// sched/verif_driver.go, and records what was observed.  Shared by the C05 and C06
// harnesses; the case language is described in coq/C05/Check.v.
package drv

import (
	"bytes"
	"fmt"
	"os"
	osexec "os/exec"
	"runtime"
	"strings"
	"sync"
	"sync/atomic"
	"time"

	"qchen.fun/fatchoy/sched"
	. "verifharness/common"
)

// op codes of the case language
const (
	OpStart     = 1
	OpEvery     = 2
	OpCancel    = 3
	OpSize      = 4
	OpIsSched   = 5
	OpHandleAdd = 6
	OpHandleDel = 7
	OpPass      = 8
	OpTick      = 9
	OpProbe     = 10
)

const (
	ImplWheel     = 0
	ImplHeap      = 1
	ImplLiveWheel = 2 // live-worker scenario (see Live)
	ImplLiveHeap  = 3
	ImplParkWheel = 4 // worker parked on its output while a cancel arrives (see Parked)
	ImplParkHeap  = 5
	ImplShutWheel = 6 // API calls around and after Shutdown (see ShutdownCase)
	ImplShutHeap  = 7
)

// MaxTicksPerStep bounds the work of one worker tick step of the wheel.
const MaxTicksPerStep = 1 << 27

// Job is the runnable handed to the timer; Ord is the ordinal (1-based) of the start
// call in the history, which is also the id the scheduler is expected to hand out.
type Job struct {
	Ord    int64
	liveID int64 // live scenario: the id, once RunAfter has returned (atomic)
}

func (j *Job) Run() error { return nil }

func NewDriver(impl int64, cur0 uint64, tt0 int64) sched.VerifDriver {
	if impl == ImplWheel {
		return sched.NewVerifWheel(uint32(cur0), tt0)
	}
	return sched.NewVerifHeap(tt0)
}

type pendingCall struct {
	done chan int64
	job  *Job // start calls: the runnable, whose Ord becomes the id once the call returns
}

type exec struct {
	d          sched.VerifDriver
	tm         sched.Timer
	ord        int64
	behind     int64 // time units passed since the worker's last tick step
	blockedAdd []pendingCall
	blockedDel []pendingCall
}

// blockedInSend reports whether some goroutine sits in a channel send (plain, or a select
// on the send and the done channel) below one of the
// timer API calls (evidence for the stuck state besides the held mutex).
func blockedInSend() bool {
	buf := make([]byte, 1<<20)
	n := runtime.Stack(buf, true)
	for _, g := range strings.Split(string(buf[:n]), "\n\n") {
		if (strings.Contains(g, "[chan send") || strings.Contains(g, "[select")) &&
			(strings.Contains(g, ").RunAfter(") || strings.Contains(g, ").RunEvery(") ||
				strings.Contains(g, ").Cancel(") || strings.Contains(g, ").schedule(")) {
			return true
		}
	}
	return false
}

// leaked reports that the scheduler's mutex is held although the worker is idle and no
// API call is in progress (the synchronous driver has just returned from a worker arm or
// an API call): a critical section was left without unlocking.
func (x *exec) leaked() bool {
	if !x.d.GuardHeld() {
		return false
	}
	time.Sleep(50 * time.Millisecond) // a blocked sender of an earlier call leaving its critical section
	return x.d.GuardHeld()
}

// call performs an API call that may block on a full request channel.
// code 0: returned v.  code 1: blocked in the send with the mutex free (the call has
// taken effect on the map: its size moved by delta).  code 2: blocked holding the mutex.
func (x *exec) call(mayBlock bool, delta int, f func() int64) (code int64, v int64, pc pendingCall) {
	if !mayBlock {
		if v, ok := guarded(f); ok {
			return 0, v, pc
		}
		return 2, 0, pc // cannot block on a channel here: stuck on the mutex
	}
	before, _ := x.d.TrySize()
	pc = pendingCall{done: make(chan int64, 1)}
	go func() { pc.done <- f() }()
	var heldSince time.Time
	limit := time.Now().Add(20 * time.Second)
	for time.Now().Before(limit) {
		select {
		case v := <-pc.done:
			return 0, v, pc
		default:
		}
		if n, ok := x.d.TrySize(); ok {
			heldSince = time.Time{}
			if n == before+delta {
				// registered and not returned: give it a moment to return, else it is blocked
				select {
				case v := <-pc.done:
					return 0, v, pc
				case <-time.After(30 * time.Millisecond):
				}
				if n2, ok2 := x.d.TrySize(); ok2 && n2 == n && blockedInSend() {
					return 1, 0, pc
				}
			}
		} else {
			if heldSince.IsZero() {
				heldSince = time.Now()
			} else if time.Since(heldSince) > 300*time.Millisecond && blockedInSend() {
				return 2, 0, pc
			}
		}
		time.Sleep(200 * time.Microsecond)
	}
	return 3, 0, pc // inconclusive
}

func (x *exec) release(q *[]pendingCall) {
	if len(*q) == 0 {
		return
	}
	pc := (*q)[0]
	*q = (*q)[1:]
	select {
	case v := <-pc.done:
		if pc.job != nil {
			pc.job.Ord = v
		}
	case <-time.After(10 * time.Second):
	}
}

// TickDrain runs the worker's ticker arm while draining Chan(), so that a tick that
// delivers more than the channel holds cannot block.  It returns the ordinals in delivery
// order.  stalled: the arm did not return within the limit although nothing was left to
// deliver (the goroutine is abandoned; it may keep spinning until the harness exits).
func TickDrain(d sched.VerifDriver) (panicked bool, ords []int64) {
	panicked, _, ords = TickDrainLimit(d, time.Hour)
	return
}

func TickDrainLimit(d sched.VerifDriver, limit time.Duration) (panicked, stalled bool, ords []int64) {
	ch := d.Timer().Chan()
	done := make(chan bool, 1)
	go func() {
		p, _ := Catch(func() { d.Tick() })
		done <- p
	}()
	take := func(r sched.Runnable) {
		if j, ok := r.(*Job); ok {
			ords = append(ords, j.Ord)
		} else {
			ords = append(ords, -1)
		}
	}
	timer := time.NewTimer(limit)
	defer timer.Stop()
	for {
		select {
		case r := <-ch:
			take(r)
			if !timer.Stop() {
				select {
				case <-timer.C:
				default:
				}
			}
			timer.Reset(limit)
		case panicked = <-done:
			for {
				select {
				case r := <-ch:
					take(r)
				default:
					return
				}
			}
		case <-timer.C:
			stalled = true
			return
		}
	}
}

func probeSx(impl int64, d sched.VerifDriver) Sx {
	nodes, ok := d.Probe()
	// heap: the array in array order, then the nodes outside the array (level -1) in the
	// order the worker has seen them — exactly as the driver lists them
	l := []Sx{Bool(ok)}
	for _, n := range nodes {
		l = append(l, Ints(int64(n.Level), int64(n.Slot), int64(n.ID), n.Deadline, n.Period))
	}
	return ListOf(l)
}

// progress counter and watchdog: a history that does not advance for two minutes (an API
// call or worker step of the implementation that never returns) ends the harness with a
// goroutine dump instead of hanging it.
var progress int64

// Alive tells the watchdog that the harness is making progress (long Go-side sweeps).
func Alive() { atomic.AddInt64(&progress, 1) }

func init() {
	go func() {
		last, since := int64(-1), time.Now()
		for {
			time.Sleep(2 * time.Second)
			p := atomic.LoadInt64(&progress)
			if p != last {
				last, since = p, time.Now()
			} else if p > 0 && time.Since(since) > 2*time.Minute {
				buf := make([]byte, 1<<20)
				n := runtime.Stack(buf, true)
				fmt.Fprintf(os.Stderr, "harness watchdog: no progress for 2 minutes\n%s\n", buf[:n])
				os.Exit(3)
			}
		}
	}()
}

// Live runs the scheduler's REAL worker goroutine (wall-clock ticker, 1 ms): n one-shot
// timers with delay 0 are started while nobody reads Chan(); when the worker is stuck
// delivering (channel full) or everything has been decided, every id is cancelled; then
// Chan() is drained until the scheduler is quiet.  The result only counts, so the verdict
// does not depend on timing: (started delivered cancelled-true both neither final-size
// still-scheduled-when-received).
// guarded runs an API call that should return at once on its own goroutine and gives up
// after 5 s (a call stuck on the scheduler's mutex must not hang the harness).
func guarded(f func() int64) (int64, bool) {
	c := make(chan int64, 1)
	go func() { c <- f() }()
	select {
	case v := <-c:
		return v, true
	case <-time.After(5 * time.Second):
		return 0, false
	}
}

func Live(impl int64, n int) Sx {
	sched.VerifNow = nil // wall clock
	var t sched.Timer
	if impl == ImplLiveWheel {
		t = sched.NewDefaultHHWheelTimer()
	} else {
		t = sched.NewDefaultTimerQueue()
	}
	// lazy start: the first start requests are made before Start() (they queue up, the
	// 129th caller waits); the worker must pick them all up
	lazy := n%2 == 1
	if !lazy {
		t.Start()
		t.Start() // a second Start of a running scheduler is a no-op
	}
	ch := t.Chan()
	type rec struct {
		id        int
		job       *Job
		cancelled bool
	}
	recs := make([]*rec, n)
	var issuedN int64
	stuck := int64(0) // an API call never came back although Chan() was being drained
	sizeOf := func() int {
		v, ok := guarded(func() int64 { return int64(t.Size()) })
		if !ok {
			stuck = 1
			return 0
		}
		return int(v)
	}
	feeder := make(chan struct{})
	go func() { // the start calls block once 128 requests are queued and the worker is stuck
		defer close(feeder)
		for i := 0; i < n; i++ {
			j := &Job{Ord: int64(i + 1)}
			delay := 0
			if i < 5 {
				delay = 1000000 // a few that are still far from due when they are cancelled
			}
			recs[i] = &rec{job: j, id: t.RunAfter(delay, j)}
			atomic.StoreInt64(&j.liveID, int64(recs[i].id))
			atomic.StoreInt64(&issuedN, int64(i+1))
			atomic.AddInt64(&progress, 1)
		}
	}()
	if lazy {
		time.Sleep(3 * time.Millisecond)
		t.Start()
		t.Start()
	}
	// wait until the delivery channel is full, or all timers are started and the worker
	// had time to look at them (either way the verdict below is a count)
	deadline := time.Now().Add(3 * time.Second)
	started := false
	for time.Now().Before(deadline) {
		if len(ch) == cap(ch) {
			break
		}
		select {
		case <-feeder:
			started = true
		default:
		}
		if started && sizeOf() == 0 {
			break
		}
		time.Sleep(time.Millisecond)
	}
	time.Sleep(20 * time.Millisecond)
	// cancel every id handed out so far while the consumer is still absent
	issued := int(atomic.LoadInt64(&issuedN))
	delivered := map[int64]int{}
	var stillSched int64 // one-shot timers still reported as scheduled when they were received
	drainSome := func(limit time.Duration) {
		end := time.Now().Add(limit)
		for time.Now().Before(end) {
			select {
			case r := <-ch:
				delivered[r.(*Job).Ord]++
				if id := atomic.LoadInt64(&r.(*Job).liveID); id != 0 && stuck == 0 {
					v, ok := guarded(func() int64 {
						if t.IsScheduled(int(id)) {
							return 1
						}
						return 0
					})
					if !ok {
						stuck = 1
					}
					stillSched += v
				}
				end = time.Now().Add(limit)
			default:
				time.Sleep(time.Millisecond)
			}
		}
	}
	// (the cancel calls block too once 128 cancel requests are queued behind the stuck
	// worker: they run on their own goroutine and go on while the consumer drains)
	var cancelN int64
	cancels := make(chan struct{})
	go func() {
		defer close(cancels)
		for i := 0; i < issued; i++ {
			recs[i].cancelled = t.Cancel(recs[i].id)
			atomic.StoreInt64(&cancelN, int64(i+1))
			atomic.AddInt64(&progress, 1)
		}
	}()
	// let the cancels run as far as they get without a consumer
	for last, since := int64(-1), time.Now(); time.Since(since) < 50*time.Millisecond; {
		if c := atomic.LoadInt64(&cancelN); c != last {
			last, since = c, time.Now()
		}
		if int(atomic.LoadInt64(&cancelN)) == issued {
			break
		}
		time.Sleep(time.Millisecond)
	}
	// the consumer arrives: drain; feeder and canceller finish; the late ones are due at once
	waitBoth := make(chan struct{})
	go func() { <-feeder; <-cancels; close(waitBoth) }()
	for done, limit := false, time.Now().Add(15*time.Second); !done; {
		drainSome(30 * time.Millisecond)
		select {
		case <-waitBoth:
			done = true
		default:
			if time.Now().After(limit) || stuck == 1 {
				done, stuck = true, 1
			}
		}
	}
	if stuck == 1 {
		return Ints(int64(n), 0, 0, 0, 0, -1, 0, 1)
	}
	end := time.Now().Add(20 * time.Second)
	for stuck == 0 && sizeOf() != 0 && time.Now().Before(end) {
		drainSome(20 * time.Millisecond)
	}
	drainSome(100 * time.Millisecond)
	size := sizeOf()
	if stuck == 1 {
		return Ints(int64(n), 0, 0, 0, 0, -1, 0, 1)
	}
	var nDelivered, nCancelled, both, neither int64
	for _, r := range recs {
		d := delivered[r.job.Ord]
		if d > 0 {
			nDelivered++
		}
		if r.cancelled {
			nCancelled++
		}
		switch {
		case d > 0 && r.cancelled, d > 1:
			both++
		case d == 0 && !r.cancelled:
			neither++
		}
	}
	t.Shutdown()
	t.Shutdown() // shutting down twice is a no-op
	return Ints(int64(n), nDelivered, nCancelled, both, neither, int64(size), stillSched, 0)
}

// parkedShutdown: the REAL worker with only repeating timers due and nobody reading Chan():
// the worker ends up waiting for the consumer in its hand-over loop; Shutdown() must still
// return (the loop watches the done channel).  Same observation shape as ParkedOnOutput:
// (parked 1 shutdownReturned 0 0 0 0).
func parkedShutdown(impl int64) Sx {
	sched.VerifNow = nil
	var t sched.Timer
	if impl == ImplParkWheel {
		t = sched.NewHHWheelTimer(time.Millisecond, time.Millisecond)
	} else {
		t = sched.NewTimerQueue(time.Millisecond, time.Millisecond)
	}
	t.Start()
	ch := t.Chan()
	for i := 0; i < 40; i++ {
		t.RunEvery(1, &Job{Ord: 1})
	}
	parked := int64(0)
	for end := time.Now().Add(10 * time.Second); time.Now().Before(end); {
		if len(ch) == cap(ch) && insideTick() {
			time.Sleep(20 * time.Millisecond)
			if len(ch) == cap(ch) && insideTick() {
				parked = 1
				break
			}
		}
		time.Sleep(time.Millisecond)
		atomic.AddInt64(&progress, 1)
	}
	_, ok := guarded(func() int64 { t.Shutdown(); return 0 })
	ret := int64(0)
	if ok {
		ret = 1
	}
	return Ints(parked, 1, ret, 0, 0, 0, 0)
}

// ShutdownCase: the worker's fourth input.  The REAL worker goroutine; Shutdown() is called
//
//	variant 0: on a quiet scheduler with a few timers pending;
//	variant 1: while four client goroutines keep calling RunAfter / RunEvery / Cancel /
//	           Size / IsScheduled;
//	variant 2: while the worker is parked on its output (Chan() full, nobody reading) and
//	           callers of RunAfter sit in the send on the full start-request channel;
//	variant 3: the same with callers of Cancel on the full cancel-request channel.
//
// Afterwards every id ever handed out (and the ids of two further RunAfter / RunEvery
// calls made after Shutdown returned) is queried and cancelled.  Observation:
// (panics stuck sizeBad cancelBad shutdownReturned): panics = API calls that panicked,
// stuck = 1 if a call did not come back within 5 s after Shutdown had returned (callers
// blocked in a send whose receiver is gone, or the mutex left locked by a panic),
// sizeBad = 1 if Size() differs from the number of ids IsScheduled() reports or is not 0
// (after Shutdown nothing will ever be delivered: no timer may be reported as scheduled),
// cancelBad = number of ids whose Cancel() answer differs from IsScheduled() just before.
func ShutdownCase(impl int64, variant int64) Sx {
	sched.VerifNow = nil
	var t sched.Timer
	if impl == ImplShutWheel {
		t = sched.NewHHWheelTimer(time.Millisecond, time.Millisecond)
	} else {
		t = sched.NewTimerQueue(time.Millisecond, time.Millisecond)
	}
	t.Start()
	ch := t.Chan()
	var panics, stuck int64
	var mu sync.Mutex
	var ids []int
	note := func(id int) { mu.Lock(); ids = append(ids, id); mu.Unlock() }
	// safe runs one API call; a panic is counted, not propagated
	safe := func(f func()) {
		defer func() {
			if r := recover(); r != nil {
				atomic.AddInt64(&panics, 1)
			}
		}()
		f()
	}
	stop := make(chan struct{})
	var clients sync.WaitGroup
	var inCall, calls int64 // clients inside an API call / calls completed
	client := func(f func(i int)) {
		clients.Add(1)
		go func() {
			defer clients.Done()
			for i := 0; ; i++ {
				select {
				case <-stop:
					return
				default:
				}
				atomic.AddInt64(&inCall, 1)
				safe(func() { f(i) })
				atomic.AddInt64(&inCall, -1)
				atomic.AddInt64(&calls, 1)
				atomic.AddInt64(&progress, 1)
			}
		}()
	}
	// every one of the 40 clients sits in a call, none has returned for 30 ms, Chan() is
	// full and the goroutine dump shows a caller in a channel send.  (40 callers: when the
	// worker leaves at Shutdown its select may still take a few requests before it sees
	// the done channel, which would let a single blocked caller go.)
	const blockedClients = 40
	waitParked := func() {
		last, since := int64(-1), time.Now()
		for end := time.Now().Add(10 * time.Second); time.Now().Before(end); {
			if c := atomic.LoadInt64(&calls); c != last {
				last, since = c, time.Now()
			}
			if time.Since(since) > 30*time.Millisecond && atomic.LoadInt64(&inCall) == blockedClients &&
				len(ch) == cap(ch) && blockedInSend() {
				return
			}
			time.Sleep(time.Millisecond)
		}
	}
	switch variant {
	case 0:
		for i := 0; i < 6; i++ {
			if i%3 == 2 {
				note(t.RunEvery(100000+i, &Job{Ord: int64(i + 1)}))
			} else {
				note(t.RunAfter(100000+i, &Job{Ord: int64(i + 1)}))
			}
		}
		time.Sleep(5 * time.Millisecond)
	case 1:
		var last int64
		client(func(i int) {
			id := t.RunAfter(100000+i%7, &Job{Ord: 1})
			atomic.StoreInt64(&last, int64(id))
			note(id)
			time.Sleep(50 * time.Microsecond)
		})
		client(func(i int) { note(t.RunEvery(100000, &Job{Ord: 2})); time.Sleep(70 * time.Microsecond) })
		client(func(i int) { t.Cancel(int(atomic.LoadInt64(&last)) - i%3); time.Sleep(60 * time.Microsecond) })
		client(func(i int) { t.Size(); t.IsScheduled(int(atomic.LoadInt64(&last))) })
		time.Sleep(20 * time.Millisecond)
	case 2:
		// due timers are started until the caller blocks: Chan() fills, the worker parks
		// in the hand-over, the start-request channel fills behind it
		n := 20000
		var k int64
		for c := 0; c < blockedClients; c++ {
			every := c%2 == 1 // half of the callers start repeating timers (far from due)
			client(func(i int) {
				if atomic.AddInt64(&k, 1) > int64(n) {
					time.Sleep(time.Millisecond)
					return
				}
				if every {
					note(t.RunEvery(1000000, &Job{Ord: 8}))
				} else {
					note(t.RunAfter(0, &Job{Ord: 3}))
				}
			})
		}
		waitParked()
	default:
		var long []int
		for i := 0; i < sched.PendingQueueCapacity+blockedClients; i++ {
			id := t.RunAfter(1000000+i, &Job{Ord: 4})
			long = append(long, id)
			note(id)
			if i%64 == 63 {
				time.Sleep(3 * time.Millisecond) // the worker accepts them
			}
		}
		time.Sleep(10 * time.Millisecond)
		for i := 0; i < cap(ch)+20; i++ { // park the worker on its output
			note(t.RunAfter(0, &Job{Ord: 5}))
		}
		for end := time.Now().Add(10 * time.Second); time.Now().Before(end) && len(ch) < cap(ch); {
			time.Sleep(time.Millisecond)
		}
		time.Sleep(20 * time.Millisecond)
		var k int64
		for c := 0; c < blockedClients; c++ {
			client(func(i int) {
				j := int(atomic.AddInt64(&k, 1)) - 1
				if j >= len(long) {
					time.Sleep(time.Millisecond)
					return
				}
				t.Cancel(long[j])
			})
		}
		waitParked()
	}
	_, ok := guarded(func() int64 { safe(t.Shutdown); return 0 })
	ret := int64(1)
	if !ok {
		ret = 0
	}
	time.Sleep(5 * time.Millisecond) // the clients go on for a moment after Shutdown
	close(stop)
	cdone := make(chan struct{})
	go func() { clients.Wait(); close(cdone) }()
	select {
	case <-cdone:
	case <-time.After(5 * time.Second):
		stuck = 1
	}
	// calls after Shutdown
	call := func(f func() int64) int64 {
		if stuck == 1 {
			return 0
		}
		v, ok := guarded(func() (v int64) { safe(func() { v = f() }); return })
		if !ok {
			stuck = 1
		}
		return v
	}
	for i := 0; i < 3; i++ {
		note(int(call(func() int64 { return int64(t.RunAfter(i, &Job{Ord: 6})) })))
		note(int(call(func() int64 { return int64(t.RunEvery(i+1, &Job{Ord: 7})) })))
	}
	func() { // Start after Shutdown panics on purpose ("invalid worker state"): not counted
		defer func() { recover() }()
		t.Start()
	}()
	b2i := func(b bool) int64 {
		if b {
			return 1
		}
		return 0
	}
	mu.Lock()
	all := append([]int(nil), ids...)
	mu.Unlock()
	seen := map[int]bool{}
	var nSched, sizeBad, cancelBad int64
	size := call(func() int64 { return int64(t.Size()) })
	var uniq []int
	for _, id := range all {
		if !seen[id] {
			seen[id] = true
			uniq = append(uniq, id)
		}
	}
	for _, id := range uniq {
		id := id
		nSched += call(func() int64 { return b2i(t.IsScheduled(id)) })
	}
	if size != nSched || size != 0 {
		sizeBad = 1 // (a scheduler that is shut down has no pending timers)
	}
	for _, id := range uniq {
		id := id
		s := call(func() int64 { return b2i(t.IsScheduled(id)) })
		c := call(func() int64 { return b2i(t.Cancel(id)) })
		if s != c {
			cancelBad++
		}
		if call(func() int64 { return b2i(t.IsScheduled(id)) }) != 0 {
			cancelBad++
		}
		atomic.AddInt64(&progress, 1)
	}
	call(func() int64 { t.Shutdown(); return 0 }) // a second Shutdown is a no-op
	return Ints(atomic.LoadInt64(&panics), stuck, sizeBad, cancelBad, ret)
}

// insideTick reports whether some goroutine is inside the worker's tick code (tick /
// expireNear) and waiting there: in a channel send, a select or a sleep.
func insideTick() bool {
	buf := make([]byte, 1<<20)
	n := runtime.Stack(buf, true)
	for _, g := range strings.Split(string(buf[:n]), "\n\n") {
		if (strings.Contains(g, ").tick(") || strings.Contains(g, ").expireNear(")) &&
			(strings.Contains(g, "[chan send") || strings.Contains(g, "[select") || strings.Contains(g, "[sleep")) {
			return true
		}
	}
	return false
}

// ParkedOnOutput: the worker's tick has more to hand over than Chan() holds and nobody reads it.
// `extra` one-shot timers and one REPEATING timer P (variant 0) or one-shot timer P
// (variant 1) are due on the same tick, P placed so that it is the first timer that does
// not fit into the channel (wheel: bucket position cap+1; heap: last in Less order).  The
// tick runs on its own goroutine; once it is established FROM THE GOROUTINE DUMP that it
// waits inside tick/expireNear with the channel full, Cancel(P) is called; then Chan() is
// drained until the tick returns.  Observation:
// (parked cancelResult cancelReturned pAfter others expectedOthers size)
//
//	parked          1 if the worker was seen waiting inside the tick with Chan() full
//	cancelResult    what Cancel(P) returned (1 true)
//	cancelReturned  1 if Cancel came back within 5 s (it only queues a request)
//	pAfter          how many runnables of P were received after Cancel had returned
//	others          one-shot timers received, expectedOthers = how many were started
//	size            Size() at the end
func ParkedOnOutput(impl int64, variant int64) Sx {
	var d sched.VerifDriver
	capC := 0
	if impl == ImplParkWheel {
		d = sched.NewVerifWheel(1000, 0)
	} else {
		d = sched.NewVerifHeap(0)
	}
	t := d.Timer()
	ch := t.Chan()
	capC = cap(ch)
	const delay = 3
	extra := 7
	pJob := &Job{Ord: -7}
	var pid int
	startP := func() {
		if variant != 1 {
			pid = t.RunEvery(delay, pJob)
		} else {
			pid = t.RunAfter(delay, pJob)
		}
		d.HandleAdd()
	}
	startOthers := func(n int) {
		for i := 0; i < n; i++ {
			t.RunAfter(delay, &Job{Ord: 1})
			d.HandleAdd()
		}
	}
	switch {
	case variant == 3:
		return parkedShutdown(impl)
	case impl == ImplParkWheel:
		startOthers(capC) // they fill the channel
		startP()          // the first one that does not fit
		startOthers(extra)
	case variant == 2:
		// heap, equal deadlines are handed over by descending id: the last ones started fill
		// the channel, P is the first that does not fit (the worker waits in its retry loop)
		startOthers(extra)
		startP()
		startOthers(capC)
	default:
		startP() // smallest id: last among equal deadlines in the heap's order
		startOthers(capC + extra)
	}
	expected := int64(capC + extra)
	d.Pass(delay)
	tickDone := make(chan bool, 1)
	go func() {
		p, _ := Catch(func() { d.Tick() })
		tickDone <- p
	}()
	// establish: channel full and the worker waiting inside the tick (two dumps in a row)
	parked := int64(0)
	for end := time.Now().Add(10 * time.Second); time.Now().Before(end); {
		if len(ch) == capC && insideTick() {
			time.Sleep(20 * time.Millisecond)
			if len(ch) == capC && insideTick() {
				parked = 1
				break
			}
		}
		time.Sleep(time.Millisecond)
		atomic.AddInt64(&progress, 1)
	}
	// the cancel arrives while the worker is parked
	cres := make(chan bool, 1)
	go func() { cres <- t.Cancel(pid) }()
	var cancelResult, cancelReturned int64
	select {
	case r := <-cres:
		cancelReturned = 1
		if r {
			cancelResult = 1
		}
	case <-time.After(5 * time.Second):
	}
	// the consumer arrives
	var pAfter, others int64
	take := func(r sched.Runnable) {
		if r.(*Job) == pJob {
			pAfter++
		} else {
			others++
		}
	}
	finished := false
	for end := time.Now().Add(20 * time.Second); !finished && time.Now().Before(end); {
		select {
		case r := <-ch:
			take(r)
		case <-tickDone:
			finished = true
		}
	}
	for more := true; more; {
		select {
		case r := <-ch:
			take(r)
		default:
			more = false
		}
	}
	d.HandleDel()
	size := int64(-1)
	if n, ok := d.TrySize(); ok {
		size = int64(n)
	}
	if variant != 1 && cancelResult == 0 && size > 0 {
		size-- // the repeating timer legitimately stays scheduled when its cancel was refused
	}
	return Ints(parked, cancelResult, cancelReturned, pAfter, others, expected, size)
}

// runReal runs one of the scenarios with the scheduler's REAL worker goroutine.
func runReal(in Sx) Sx {
	impl := in.At(0).Int64()
	switch impl {
	case ImplLiveWheel, ImplLiveHeap:
		return Live(impl, int(in.At(1).Int64()))
	case ImplParkWheel, ImplParkHeap:
		return ParkedOnOutput(impl, in.At(1).Int64())
	default:
		return ShutdownCase(impl, in.At(1).Int64())
	}
}

// ChildEnv: when set, the harness binary runs the one real-worker scenario given in the
// variable, prints its observation and exits (see ChildMain / runIsolated).
const ChildEnv = "VERIF_TIMER_CHILD"

// ChildMain must be called first thing in main().
func ChildMain() {
	v := os.Getenv(ChildEnv)
	if v == "" {
		return
	}
	in, err := Parse(v)
	if err != nil {
		os.Exit(4)
	}
	fmt.Println("OBS " + runReal(in).String())
	os.Exit(0)
}

// runIsolated runs a real-worker scenario in a child process of the same binary: a panic
// on the scheduler's own goroutine cannot be recovered and would take the whole harness
// down (no case file, no replay).  A child that dies from a panic yields the observation
// (6) = "the scheduler panicked" for this case; the harness goes on.
func runIsolated(in Sx) Sx {
	exe, err := os.Executable()
	if err != nil {
		return runReal(in)
	}
	cmd := osexec.Command(exe)
	cmd.Env = append(os.Environ(), ChildEnv+"="+in.String())
	var stderr bytes.Buffer
	cmd.Stderr = &stderr
	outb, err := cmd.Output()
	atomic.AddInt64(&progress, 1)
	for _, line := range strings.Split(string(outb), "\n") {
		if strings.HasPrefix(line, "OBS ") {
			if o, perr := Parse(strings.TrimPrefix(line, "OBS ")); perr == nil {
				return o
			}
		}
	}
	if strings.Contains(stderr.String(), "panic:") || strings.Contains(stderr.String(), "fatal error:") {
		return Ints(6)
	}
	_ = err
	return List() // no observation (the child was killed): a bad case, not a verdict
}

// Run executes the history of `in` = (impl cur0 tt0 (op ...)) and returns (obs ...).
func Run(in Sx) Sx {
	impl := in.At(0).Int64()
	if impl >= ImplLiveWheel && impl <= ImplShutHeap {
		return runIsolated(in)
	}
	r := newStepper(in)
	for r.step() {
	}
	return ListOf(r.obs)
}

// stepper executes a history one op at a time (so that several schedulers can be driven
// in turn from one goroutine, see RunInterleaved).
type stepper struct {
	x      *exec
	impl   int64
	ops    Sx
	i      int
	jumpAt int
	jumpTo int64
	obs    []Sx
}

func newStepper(in Sx) *stepper {
	impl := in.At(0).Int64()
	x := &exec{d: NewDriver(impl, in.At(1).Uint64(), in.At(2).Int64())}
	x.tm = x.d.Timer()
	r := &stepper{x: x, impl: impl, ops: in.At(3), jumpAt: -1}
	if in.Len() >= 6 {
		r.jumpAt, r.jumpTo = int(in.At(4).Int64()), in.At(5).Int64()
	}
	return r
}

// step executes the next op; false: the history is over (or the implementation stopped).
func (r *stepper) step() bool {
	if r.i >= r.ops.Len() {
		return false
	}
	x, impl, i := r.x, r.impl, r.i
	r.i++
	const capQ = sched.PendingQueueCapacity
	atomic.AddInt64(&progress, 1)
	if i == r.jumpAt {
		x.d.SetNextID(int(r.jumpTo))
	}
	op := r.ops.At(i)
	switch op.At(0).Int64() {
	case OpStart, OpEvery:
		arg := int(op.At(1).Int64())
		x.ord++
		job := &Job{Ord: x.ord}
		every := op.At(0).Int64() == OpEvery
		code, v, pc := x.call(x.d.PendingAdd()+len(x.blockedAdd) >= capQ, 1, func() int64 {
			if every {
				return int64(x.tm.RunEvery(arg, job))
			}
			return int64(x.tm.RunAfter(arg, job))
		})
		r.obs = append(r.obs, Ints(code, v))
		if code == 0 {
			job.Ord = v // deliveries are reported by the id the scheduler handed out
		}
		if code == 1 {
			pc.job = job
			x.blockedAdd = append(x.blockedAdd, pc)
		}
		if code >= 2 {
			return false
		}
	case OpCancel:
		id := int(op.At(1).Int64())
		// (whether the id is scheduled is the implementation's business: the call is
		// made on a separate goroutine whenever the channel is full)
		mayBlock := x.d.PendingDel()+len(x.blockedDel) >= capQ
		code, v, pc := x.call(mayBlock, -1, func() int64 {
			if x.tm.Cancel(id) {
				return 1
			}
			return 0
		})
		r.obs = append(r.obs, Ints(code, v))
		if code == 1 {
			x.blockedDel = append(x.blockedDel, pc)
		}
		if code >= 2 {
			return false
		}
	case OpSize, OpIsSched:
		// guarded: a mutex that was left locked would hang the query for good
		isSize := op.At(0).Int64() == OpSize
		v, ok := guarded(func() int64 {
			if isSize {
				return int64(x.tm.Size())
			}
			if x.tm.IsScheduled(int(op.At(1).Int64())) {
				return 1
			}
			return 0
		})
		if !ok {
			r.obs = append(r.obs, Ints(2, 0)) // never returned: blocked on the scheduler's mutex
			return false
		}
		r.obs = append(r.obs, Ints(v))
	case OpHandleAdd, OpHandleDel:
		add := op.At(0).Int64() == OpHandleAdd
		var handled bool
		panicked, _ := Catch(func() {
			if add {
				handled = x.d.HandleAdd()
			} else {
				handled = x.d.HandleDel()
			}
		})
		switch {
		case panicked:
			r.obs = append(r.obs, Ints(2))
			return false
		case x.leaked():
			r.obs = append(r.obs, Ints(5)) // the arm returned with the mutex still locked
			return false
		case handled:
			r.obs = append(r.obs, Ints(1))
			if add {
				x.release(&x.blockedAdd)
			} else {
				x.release(&x.blockedDel)
			}
		default:
			r.obs = append(r.obs, Ints(0))
		}
	case OpPass:
		n := op.At(1).Int64() // negative: the clock reading goes backwards
		x.d.Pass(n)
		x.behind += n
		r.obs = append(r.obs, List())
	case OpTick:
		if impl == ImplWheel && x.behind > MaxTicksPerStep {
			r.obs = append(r.obs, Ints(3))
			return false
		}
		limit := 3 * time.Second
		if x.behind > 0 {
			limit += time.Duration(x.behind>>20) * 200 * time.Millisecond
		}
		x.behind = 0
		panicked, stalled, ords := TickDrainLimit(x.d, limit)
		l := []Sx{Int(0)}
		if panicked {
			l[0] = Int(2)
		}
		if stalled {
			l[0] = Int(4) // the ticker arm never returned
		}
		leakedLock := false
		if !panicked && !stalled && x.leaked() {
			l[0] = Int(5) // the ticker arm returned with the mutex still locked
			leakedLock = true
		}
		for _, o := range ords {
			l = append(l, Int(o))
		}
		r.obs = append(r.obs, ListOf(l))
		if panicked || stalled || leakedLock {
			return false
		}
	case OpProbe:
		r.obs = append(r.obs, probeSx(impl, x.d))
	default:
		return false
	}
	return true
}

// RunInterleaved drives the schedulers of two histories in turn from one goroutine: `turns`
// gives how many ops of A, then of B, then of A ... are executed (cyclically); each
// scheduler must behave exactly as if it were alone (no state shared between scheduler
// objects).  Returns the two observation lists.  (At most one of the two may be a heap:
// the heap driver's virtual clock is a package-level hook.)
func RunInterleaved(inA, inB Sx, turns []int) (Sx, Sx) {
	a, b := newStepper(inA), newStepper(inB)
	liveA, liveB := true, true
	for k := 0; liveA || liveB; k++ {
		n := turns[k%len(turns)]
		cur, live := a, &liveA
		if k%2 == 1 {
			cur, live = b, &liveB
		}
		for j := 0; j < n && *live; j++ {
			*live = cur.step()
		}
	}
	return ListOf(a.obs), ListOf(b.obs)
}

// ---------------------------------------------------------------------------------------
// history builder used by the generators

type Hist struct {
	Impl      int64
	Cur0      uint64
	TT0       int64
	Ops       []Sx
	NextID    int64 // ids are expected to be 1, 2, 3, ...
	QueuedAdd int
	QueuedDel int
	JumpAt    int // -1: none; else the id counter is set to JumpTo before op number JumpAt
	JumpTo    int64
}

func NewHist(impl int64, cur0 uint64, tt0 int64) *Hist {
	return &Hist{Impl: impl, Cur0: cur0, TT0: tt0, JumpAt: -1}
}

// Jump positions the id counter before the next op.
func (h *Hist) Jump(to int64) { h.JumpAt, h.JumpTo = len(h.Ops), to }

func (h *Hist) Start(d int64) int64 {
	h.Ops = append(h.Ops, Ints(OpStart, d))
	h.NextID++
	h.QueuedAdd++
	return h.NextID
}
func (h *Hist) Every(p int64) int64 {
	h.Ops = append(h.Ops, Ints(OpEvery, p))
	h.NextID++
	h.QueuedAdd++
	return h.NextID
}
func (h *Hist) Cancel(id int64) { h.Ops = append(h.Ops, Ints(OpCancel, id)) }
func (h *Hist) Size()           { h.Ops = append(h.Ops, Ints(OpSize)) }
func (h *Hist) IsSched(id int64) {
	h.Ops = append(h.Ops, Ints(OpIsSched, id))
}
func (h *Hist) HandleAdd() {
	h.Ops = append(h.Ops, Ints(OpHandleAdd))
	if h.QueuedAdd > 0 {
		h.QueuedAdd--
	}
}
func (h *Hist) HandleDel()   { h.Ops = append(h.Ops, Ints(OpHandleDel)) }
func (h *Hist) Pass(n int64) { h.Ops = append(h.Ops, Ints(OpPass, n)) }
func (h *Hist) Tick()        { h.Ops = append(h.Ops, Ints(OpTick)) }
func (h *Hist) Adv(n int64)  { h.Pass(n); h.Tick() }
func (h *Hist) Probe()       { h.Ops = append(h.Ops, Ints(OpProbe)) }
func (h *Hist) Sx() Sx {
	if h.JumpAt >= 0 {
		return List(Int(h.Impl), Uint(h.Cur0), Int(h.TT0), ListOf(h.Ops), Int(int64(h.JumpAt)), Int(h.JumpTo))
	}
	return List(Int(h.Impl), Uint(h.Cur0), Int(h.TT0), ListOf(h.Ops))
}
