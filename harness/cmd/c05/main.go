// C05 harness: timers fire exactly once, on their due tick, in due order (wheel and heap).
// Case language: coq/C05/Check.v.  Histories are run on the real schedulers through the
// synchronous drivers of sched/verif_driver.go (package drv).
package main

import (
	"fmt"
	"io"
	"log"
	"sort"

	"verifharness/cmd/c05/drv"
	. "verifharness/common"
)

func main() {
	log.SetOutput(io.Discard)
	drv.ChildMain() // real-worker scenarios run in a child process of this binary
	Main(drv.Run, gen)
}

// wheel positions: every cascade boundary of the 8+6+6+6+6 geometry and the 2^32 wrap
var boundaries = []uint64{1 << 8, 1 << 14, 1 << 20, 1 << 26, 1 << 32}

func startPos(rng *Rng) uint64 {
	switch rng.Intn(10) {
	case 0:
		return uint64(rng.PickI64(0, 1, 2, 100, 254, 255, 256, 257, 511, 512, 1000))
	case 1, 2, 3:
		b := boundaries[rng.Intn(len(boundaries))]
		off := uint64(rng.PickInt(1, 2, 3, 5, 17, 100, 255, 256, 257, 300, 600))
		if rng.Bool() || b == 1<<32 {
			return (b - off) & 0xFFFFFFFF
		}
		return b + off - 1
	case 4:
		// multiples of a boundary (index 0 of some outer level is the current slot)
		b := boundaries[rng.Intn(4)]
		return (b * uint64(rng.Range(1, 200))) & 0xFFFFFFFF
	case 5:
		return 0xFFFFFFFF - uint64(rng.Intn(70000))
	default:
		return rng.Next() & 0xFFFFFFFF
	}
}

func shortDelay(rng *Rng) int64 {
	switch rng.Intn(8) {
	case 0:
		return rng.PickI64(0, 1, 2, 3)
	case 1:
		return rng.PickI64(254, 255, 256, 257, 258, 511, 512, 513)
	case 2:
		return int64(rng.Range(0, 300))
	case 3:
		return int64(rng.Range(0, 1500))
	case 4:
		return rng.PickI64(16383, 16384, 16385)
	default:
		return int64(rng.Range(0, 700))
	}
}

func longDelay(rng *Rng) int64 {
	switch rng.Intn(6) {
	case 0:
		return rng.PickI64(1<<14-1, 1<<14, 1<<14+1, 1<<20-1, 1<<20, 1<<20+1, 1<<26-1, 1<<26, 1<<26+1)
	case 1:
		return rng.PickI64(1<<32-2, 1<<32-1, 1<<32, 1<<32+1, 1<<33, 1<<40)
	case 2:
		return int64(rng.Next() & 0xFFFFFFFF)
	case 3:
		return int64(rng.Next() & 0xFFFFF)
	case 4:
		return int64(rng.Next() & 0x3FFFFFF)
	default:
		return int64(rng.Next() & 0x1FFFFFFFF)
	}
}

type tm struct {
	id, due, period int64
}

// walk advances the history through the given due times: a burst to just before each
// due tick (nothing may fire), then the due tick itself; finally `tail` more units.
func walk(h *drv.Hist, rng *Rng, now int64, dues []int64, budget int64, tail int64) int64 {
	sort.Slice(dues, func(i, j int) bool { return dues[i] < dues[j] })
	for _, due := range dues {
		if due <= now {
			continue
		}
		if due-now > budget {
			break
		}
		budget -= due - now
		if due-1 > now {
			h.Adv(due - 1 - now)
		}
		h.Adv(1)
		now = due
		if rng.Chance(1, 4) {
			h.Size()
		}
	}
	if tail > 0 {
		h.Adv(tail)
		now += tail
	}
	return now
}

func gen(a Args, out *Out) {
	rng := NewRng(a.Seed)
	scale := 1
	if a.Thorough() {
		scale = 12
	}
	emit := func(kind string, h *drv.Hist) {
		in := h.Sx()
		nontrivial := false
		ticks, adds := 0, 0
		for _, o := range h.Ops {
			switch o.At(0).Int64() {
			case drv.OpTick:
				ticks++
			case drv.OpHandleAdd:
				adds++
			}
		}
		nontrivial = ticks > 0 && adds > 0
		out.Case(kind, nontrivial, in, drv.Run(in))
		out.CountN("ops", len(h.Ops))
		if h.Impl == drv.ImplWheel {
			out.Count("impl:wheel")
		} else {
			out.Count("impl:heap")
		}
	}

	// 1. exact: a few one-shot timers, every due tick visited one by one
	for k := 0; k < 140*scale; k++ {
		r := rng.Fork()
		impl := int64(drv.ImplWheel)
		if k%4 == 3 {
			impl = drv.ImplHeap
		}
		cur0 := startPos(r)
		tt0 := int64(r.PickI64(0, 1, 1000, int64(cur0), 1<<40, int64(r.Next()&0xFFFFFFFFFF)))
		h := drv.NewHist(impl, cur0, tt0)
		n := r.Range(1, 6)
		var dues []int64
		for i := 0; i < n; i++ {
			d := shortDelay(r)
			if r.Chance(1, 12) {
				d = -int64(r.Range(1, 5)) // negative delays count as 0
			}
			h.Start(d)
			h.HandleAdd()
			if d < 0 {
				d = 0
			}
			due := tt0 + d
			if impl == drv.ImplWheel && d == 0 {
				due = tt0 + 1
			}
			dues = append(dues, due)
			if d >= 256 {
				out.Count("delay>=256")
			}
		}
		if r.Chance(1, 3) {
			h.Probe()
		}
		walk(h, r, tt0, dues, 20000, int64(r.Range(1, 300)))
		h.Size()
		for i := int64(1); i <= int64(n); i++ {
			h.IsSched(i)
		}
		h.Probe()
		emit("exact", h)
	}

	// 2. boundary: the wheel crosses a cascade boundary (or the 2^32 wrap) while timers
	// started shortly before it are pending
	for k := 0; k < 60*scale; k++ {
		r := rng.Fork()
		b := boundaries[r.Intn(len(boundaries))]
		mult := uint64(1)
		if b < 1<<32 && r.Bool() {
			mult = uint64(r.Range(1, 63))
		}
		before := int64(r.Range(1, 400))
		cur0 := (b*mult - uint64(before)) & 0xFFFFFFFF
		tt0 := int64(r.PickI64(0, 5000, int64(cur0)))
		h := drv.NewHist(drv.ImplWheel, cur0, tt0)
		n := r.Range(1, 8)
		now := tt0
		var dues []int64
		for i := 0; i < n; i++ {
			d := int64(r.Range(0, 900))
			if r.Chance(1, 3) {
				d = before + int64(r.Range(-2, 2)) // lands on the boundary tick itself
				if d < 0 {
					d = 0
				}
			}
			h.Start(d)
			h.HandleAdd()
			if d == 0 {
				dues = append(dues, now+1)
			} else {
				dues = append(dues, now+d)
			}
			if r.Chance(1, 3) {
				adv := int64(r.Range(1, 40))
				h.Adv(adv)
				now += adv
			}
		}
		h.Probe()
		walk(h, r, now, dues, 4000, int64(r.Range(1, 100)))
		h.Size()
		h.Probe()
		out.Count(fmt.Sprintf("boundary:2^%d", map[uint64]int{1 << 8: 8, 1 << 14: 14, 1 << 20: 20, 1 << 26: 26, 1 << 32: 32}[b]))
		emit("boundary", h)
	}

	// 3. periodic timers (with some one-shot ones) under bursts of various sizes
	for k := 0; k < 70*scale; k++ {
		r := rng.Fork()
		impl := int64(drv.ImplWheel)
		if k%3 == 2 {
			impl = drv.ImplHeap
		}
		cur0 := startPos(r)
		tt0 := int64(r.PickI64(0, 77, int64(cur0)))
		h := drv.NewHist(impl, cur0, tt0)
		n := r.Range(1, 5)
		minp := int64(1 << 30)
		for i := 0; i < n; i++ {
			if r.Chance(1, 4) {
				h.Start(int64(r.Range(0, 600)))
			} else {
				p := r.PickI64(1, 2, 3, 5, 7, 64, 255, 256, 257, 300, 1000, int64(r.Range(1, 400)))
				if r.Chance(1, 15) {
					p = r.PickI64(0, -1, -7)
				}
				h.Every(p)
				if p < 0 {
					p = 1
				}
				if p > 0 && p < minp {
					minp = p
				}
			}
			h.HandleAdd()
		}
		if minp == 1<<30 {
			minp = 97 // no periodic timer in this history
		}
		steps := r.Range(3, 25)
		budget := int64(600) // deliveries
		for s := 0; s < steps && budget > 0; s++ {
			var adv int64
			switch r.Intn(4) {
			case 0:
				adv = 1
			case 1:
				adv = int64(r.Range(1, 20))
			case 2:
				adv = int64(r.Range(1, 600))
			default:
				adv = minp
			}
			if impl == drv.ImplWheel {
				if adv/minp*int64(n) > budget {
					adv = budget * minp / int64(n)
					if adv < 1 {
						adv = 1
					}
				}
				budget -= adv / minp * int64(n)
			}
			h.Adv(adv)
			if r.Chance(1, 5) {
				h.Size()
			}
		}
		h.Probe()
		emit("periodic", h)
	}

	// 4. mixes of up to 40 concurrently pending timers started at various times, delayed
	// acceptance (the worker handles the start request some ticks later), bursts
	for k := 0; k < 80*scale; k++ {
		r := rng.Fork()
		impl := int64(drv.ImplWheel)
		if k%3 == 2 {
			impl = drv.ImplHeap
		}
		cur0 := startPos(r)
		tt0 := int64(r.PickI64(0, 123456, int64(cur0)))
		h := drv.NewHist(impl, cur0, tt0)
		n := r.Range(2, 40)
		ticks := int64(0)
		periodics := int64(0)
		for i := 0; i < n; i++ {
			if r.Chance(1, 6) && periodics < 4 {
				h.Every(int64(r.Range(20, 500)))
				periodics++
			} else if r.Chance(1, 5) {
				h.Start(longDelay(r))
			} else {
				h.Start(shortDelay(r))
			}
			if r.Chance(3, 4) {
				h.HandleAdd()
			}
			if r.Chance(1, 3) && ticks < 6000 {
				adv := int64(r.PickInt(1, 1, 2, 5, 50, 256, 700))
				if r.Chance(1, 4) {
					h.Pass(adv) // time passes, the worker only looks later
				} else {
					h.Adv(adv)
				}
				ticks += adv
			}
		}
		for h.QueuedAdd > 0 {
			h.HandleAdd()
		}
		h.Probe()
		for s := 0; s < r.Range(2, 12) && ticks < 9000; s++ {
			adv := int64(r.PickInt(1, 3, 17, 255, 256, 257, 1000))
			h.Adv(adv)
			ticks += adv
		}
		h.Size()
		h.Probe()
		emit("mix", h)
	}

	// 5. long delays: placement and cascades are compared structurally (the probe lists
	// every node's bucket), and a burst moves the wheel over inner boundaries
	for k := 0; k < 50*scale; k++ {
		r := rng.Fork()
		cur0 := startPos(r)
		tt0 := int64(r.PickI64(0, int64(cur0), 1<<41))
		h := drv.NewHist(drv.ImplWheel, cur0, tt0)
		n := r.Range(1, 12)
		for i := 0; i < n; i++ {
			if r.Chance(1, 5) {
				h.Every(longDelay(r))
			} else {
				h.Start(longDelay(r))
			}
			h.HandleAdd()
		}
		h.Probe()
		for s := 0; s < r.Range(1, 4); s++ {
			h.Adv(int64(r.PickInt(1, 255, 256, 300, 1024, 5000, 16384, 20000)))
			h.Probe()
		}
		out.Count("long-delay-cases")
		emit("long", h)
	}

	// 6. one big burst (the worker was held up): everything due inside it is delivered in
	// due order by the single update() call
	for k := 0; k < 30*scale; k++ {
		r := rng.Fork()
		impl := int64(drv.ImplWheel)
		if k%3 == 2 {
			impl = drv.ImplHeap
		}
		cur0 := startPos(r)
		tt0 := int64(r.PickI64(0, int64(cur0)))
		h := drv.NewHist(impl, cur0, tt0)
		n := r.Range(1, 30)
		burst := int64(r.PickInt(300, 1000, 5000, 20000, 65536))
		for i := 0; i < n; i++ {
			h.Start(int64(r.Intn(int(burst) + 500)))
			h.HandleAdd()
		}
		if r.Chance(1, 3) {
			h.Every(burst/int64(r.Range(2, 9)) + 1)
			h.HandleAdd()
		}
		h.Adv(burst)
		h.Size()
		h.Adv(600)
		h.Size()
		emit("burst", h)
	}

	// 7. ticks that see the same time again (the ticker fired twice within one time unit, or
	// no time passed): a timer that is already due when the worker accepts it between two
	// such ticks — zero or negative delay, or a start request that was still queued during
	// the first tick — must be delivered by the next tick although `now` did not move
	for k := 0; k < 40*scale; k++ {
		r := rng.Fork()
		impl := int64(drv.ImplHeap)
		if k%4 == 3 {
			impl = drv.ImplWheel
		}
		tt0 := int64(r.PickI64(0, 7, 1000))
		h := drv.NewHist(impl, startPos(r), tt0)
		if r.Bool() {
			h.Start(int64(r.Range(0, 3)))
			h.HandleAdd()
		}
		h.Adv(int64(r.Range(0, 4)))
		for j := 0; j < r.Range(1, 4); j++ {
			switch r.Intn(4) {
			case 0:
				h.Start(0)
				h.HandleAdd()
			case 1:
				h.Start(-int64(r.Range(1, 9)))
				h.HandleAdd()
			case 2:
				// queued during a tick, accepted after it
				h.Start(int64(r.Range(0, 2)))
				h.Pass(int64(r.Range(0, 2)))
				h.Tick()
				h.HandleAdd()
			default:
				h.Every(int64(r.Range(0, 2)))
				h.HandleAdd()
			}
			h.Tick() // same `now` as the tick before
			h.Size()
			if r.Chance(1, 3) {
				h.Tick()
			}
		}
		h.Adv(1)
		h.Size()
		h.Probe()
		emit("repeat-now", h)
	}

	// 8. large fan-out through the model: several hundred timers due on one and the same
	// tick (more than the delivery channel holds) must all be delivered on that tick
	for k := 0; k < 2*scale && k < 6; k++ {
		r := rng.Fork()
		impl := int64(drv.ImplHeap)
		if k%2 == 1 {
			impl = drv.ImplWheel
		}
		h := drv.NewHist(impl, startPos(r), 0)
		n := r.Range(560, 700)
		d := int64(r.Range(1, 40))
		for i := 0; i < n; i++ {
			h.Start(d)
			h.HandleAdd()
		}
		if d > 1 {
			h.Adv(d - 1)
		}
		h.Adv(1)
		h.Size()
		h.Adv(3)
		h.Size()
		emit("fanout", h)
	}
	// 10. cancels as environment: other timers are started and cancelled around the ones
	// under observation — before the worker accepted their start request (either order of
	// the two requests), after acceptance, with the cancel request served only after ticks
	// — and every timer that was NOT cancelled must still fire exactly once on its due tick
	for k := 0; k < 60*scale; k++ {
		r := rng.Fork()
		impl := int64(drv.ImplWheel)
		if k%4 == 3 {
			impl = drv.ImplHeap
		}
		tt0 := int64(r.PickI64(0, 1000))
		h := drv.NewHist(impl, startPos(r), tt0)
		now := tt0
		var dues []int64
		nObs := r.Range(1, 3)
		for i := 0; i < nObs; i++ {
			d := shortDelay(r) + 2
			h.Start(d)
			h.HandleAdd()
			dues = append(dues, now+d)
		}
		nEnv := r.Range(1, 3)
		for i := 0; i < nEnv; i++ {
			d := int64(r.Range(0, 40))
			var id int64
			if r.Chance(1, 4) {
				id = h.Every(d + 1)
			} else {
				id = h.Start(d)
			}
			switch r.Intn(4) {
			case 0: // cancelled before accepted; cancel request served first
				h.Cancel(id)
				h.HandleDel()
				h.HandleAdd()
			case 1: // cancelled before accepted; start request served first
				h.Cancel(id)
				h.HandleAdd()
				h.HandleDel()
			case 2: // accepted, cancelled, unlinked at once
				h.HandleAdd()
				h.Cancel(id)
				h.HandleDel()
			default: // accepted, cancelled, ticks, unlinked later
				h.HandleAdd()
				h.Cancel(id)
				adv := int64(r.Range(1, 3))
				h.Adv(adv)
				now += adv
				h.HandleDel()
			}
			if r.Chance(1, 3) {
				h.Size()
			}
		}
		h.Probe()
		walk(h, r, now, dues, 20000, int64(r.Range(1, 60)))
		h.Size()
		for i := int64(1); i <= int64(nObs); i++ {
			h.IsSched(i)
		}
		h.Probe()
		emit("env-cancel", h)
	}

	// id reuse: a timer is cancelled but its node is still around — linked in the structure
	// with the cancel request not yet served, or still in the start queue — when the id
	// counter wraps and hands the SAME id to a new timer.  The old node must not pass for
	// the new timer: it is dropped silently when its slot comes up / when it is accepted,
	// the new timer fires on its own due tick and stays scheduled until then.  All orders
	// of the worker's ready inputs.  (The counter is positioned by the harness.)
	for k := 0; k < 10*scale && k < 10*8; k++ {
		for _, impl := range []int64{drv.ImplWheel, drv.ImplHeap} {
			r := rng.Fork()
			h := drv.NewHist(impl, startPos(r), 0)
			const maxInt = int64(^uint64(0) >> 1)
			nPre := r.Range(0, 2)
			used := map[int64]bool{}
			pick := func(lo, hi int) int64 {
				for {
					d := int64(r.Range(lo, hi))
					if !used[d] {
						used[d] = true
						return d
					}
				}
			}
			for i := 0; i < nPre; i++ {
				h.Start(pick(20, 50))
				h.HandleAdd()
			}
			d1 := pick(3, 14)
			t1 := h.Start(d1) // visible id nPre+1
			mode := k % 4
			switch mode {
			case 0: // accepted; cancelled; cancel request NOT served before the reuse
				h.HandleAdd()
				h.Cancel(t1)
			case 1: // cancelled before accepted; neither request served before the reuse
				h.Cancel(t1)
			case 2: // cancelled before accepted; cancel request served, start request not
				h.Cancel(t1)
				h.HandleDel()
			default: // accepted; cancelled and unlinked: nothing of the old node is left
				h.HandleAdd()
				h.Cancel(t1)
				h.HandleDel()
			}
			h.IsSched(t1)
			// wrap: the counter is set so that the next start gets t1's id again
			if r.Bool() {
				h.Jump(t1 - 1)
			} else if nPre == 0 {
				h.Jump(maxInt) // MaxInt+1 wraps, restarts at 1 = t1
			} else {
				h.Jump(t1 - 1)
			}
			d2 := pick(2, 18)
			h.Start(d2) // the new owner of the id
			switch r.Intn(3) {
			case 0:
				h.HandleAdd()
				h.HandleAdd()
				h.HandleDel()
			case 1:
				h.HandleDel()
				h.HandleAdd()
				h.HandleAdd()
			default:
				h.HandleAdd()
			}
			h.IsSched(t1)
			h.Size()
			h.Probe()
			for tck := 0; tck < 20; tck++ {
				h.Adv(1)
				if tck == 5 {
					h.HandleAdd()
					h.HandleDel()
					h.IsSched(t1)
				}
			}
			h.HandleAdd()
			h.HandleDel()
			for tck := 0; tck < 34; tck++ {
				h.Adv(1)
			}
			h.Size()
			h.IsSched(t1)
			h.Probe()
			emit("idreuse", h)
		}
	}

	// 11. the clock reading goes backwards between two ticks (wall-clock adjustment).  The
	// wheel takes the earlier reading as its new reference without ticking and goes on one
	// tick per unit from there: no timer fires early, none is lost, each fires after exactly
	// `delay` further units of forward time.  The heap compares absolute deadlines: nothing
	// fires until the clock has caught up.  Timers started while the clock is behind.
	// (own random stream: the classes above and below keep their cases per seed)
	{
		brng := NewRng(a.Seed*2654435761 + 11)
		for k := 0; k < 24*scale; k++ {
			r := brng.Fork()
			impl := int64(drv.ImplWheel)
			if k%3 == 2 {
				impl = drv.ImplHeap
			}
			tt0 := int64(r.PickI64(0, 5, 1000, 1<<33))
			h := drv.NewHist(impl, startPos(r), tt0)
			for i := 0; i < r.Range(1, 4); i++ {
				if r.Chance(1, 4) {
					h.Every(int64(r.Range(1, 12)))
				} else {
					h.Start(int64(r.Range(0, 30)))
				}
				h.HandleAdd()
			}
			if r.Bool() {
				h.Adv(int64(r.Range(0, 6)))
			}
			for j := 0; j < r.Range(1, 4); j++ {
				back := int64(r.Range(1, 20))
				if r.Chance(1, 6) {
					back = int64(r.PickI64(1000, 1<<20, 1<<40)) // far back, also below 0
				}
				h.Pass(-back)
				switch r.Intn(4) {
				case 0:
					h.Tick() // the worker sees the earlier time
				case 1:
					h.Pass(int64(r.Range(0, 25))) // back and forth before the worker looks
					h.Tick()
				case 2:
					h.Tick()
					h.Tick()
				default:
					// not seen by the worker at all: forward again past the old reading
					h.Pass(back + int64(r.Range(0, 3)))
					h.Tick()
				}
				h.Size()
				if r.Bool() {
					h.Start(int64(r.Range(0, 12))) // started while the clock is behind
					h.HandleAdd()
				}
				for s := 0; s < r.Range(1, 5); s++ {
					h.Adv(int64(r.PickInt(1, 1, 2, 3, 7, 20)))
				}
				if impl == drv.ImplHeap && back < 100 && r.Bool() {
					h.Adv(back) // the heap catches up with the absolute deadlines
				}
				h.Size()
			}
			h.Adv(int64(r.Range(1, 40)))
			h.Size()
			h.Probe()
			out.Count("clock-back-cases")
			emit("clock-back", h)
		}
	}

	// 12. two schedulers alive at once, driven in turn from one goroutine (wheel + wheel,
	// wheel + heap): each must behave exactly as if it were alone — nothing is shared
	// between scheduler objects.  Each of the two histories is an ordinary case.
	{
		trng := NewRng(a.Seed*40503 + 12)
		for k := 0; k < 12*scale; k++ {
			r := trng.Fork()
			implB := int64(drv.ImplWheel)
			if k%2 == 1 {
				implB = drv.ImplHeap
			}
			hA := randHist(r, drv.ImplWheel)
			hB := randHist(r, implB)
			var turns []int
			for i := 0; i < r.Range(2, 6); i++ {
				turns = append(turns, r.PickInt(1, 1, 2, 3, 7))
			}
			inA, inB := hA.Sx(), hB.Sx()
			obsA, obsB := drv.RunInterleaved(inA, inB, turns)
			out.Case("two-objects", true, inA, obsA)
			out.Case("two-objects", true, inB, obsB)
			out.Count("two-objects-pairs")
		}
	}

	// 13. heap shapes (see drv.HeapShapes): 8..30 pending timers in many array shapes, each
	// position in turn cancelled and removed by the worker (the last leaf takes the hole and
	// may have to move UP as well as down), further timers started, then every tick visited
	// one by one: each remaining timer on its due tick and in due order.
	{
		srng := NewRng(a.Seed*69069 + 13)
		shapes := 3
		if a.Thorough() {
			shapes = 40
		}
		for sh := 0; sh < shapes; sh++ {
			for _, h := range drv.HeapShapes(srng.Fork(), sh) {
				emit("heap-shapes", h)
			}
			out.Count("heap-shapes")
		}
	}

	// 9. the REAL worker goroutine with nobody reading Chan() (see drv.Live): every one-shot
	// timer is delivered exactly once or cancelled, and a timer received from Chan() is no
	// longer reported by IsScheduled() / counted by Size() — also while the worker is still
	// busy handing over the rest of the same tick
	for _, lv := range [][2]int64{{drv.ImplLiveWheel, 260}, {drv.ImplLiveHeap, 640}} {
		in := List(Int(lv[0]), Int(lv[1]+int64(rng.Intn(60))), Int(0), List())
		out.Case("live", true, in, drv.Run(in))
		out.Count("live-worker-scenarios")
	}
	fanout(a, rng.Fork(), out)

	sweeps(a, rng.Fork(), out)
}

// randHist: a moderate random history (starts, cancels, worker steps in any order, ticks).
func randHist(r *Rng, impl int64) *drv.Hist {
	h := drv.NewHist(impl, startPos(r), int64(r.PickI64(0, 9, 4000)))
	n := r.Range(15, 50)
	for i := 0; i < n; i++ {
		switch r.Intn(14) {
		case 0, 1, 2:
			h.Start(int64(r.Range(0, 60)))
		case 3:
			h.Every(int64(r.Range(1, 30)))
		case 4:
			h.Cancel(int64(r.Range(0, int(h.NextID)+1)))
		case 5, 6, 7:
			h.HandleAdd()
		case 8:
			h.HandleDel()
		case 9, 10:
			h.Adv(int64(r.Range(0, 25)))
		case 11:
			h.Size()
		case 12:
			h.IsSched(int64(r.Range(0, int(h.NextID)+1)))
		default:
			h.Probe()
		}
	}
	for h.QueuedAdd > 0 {
		h.HandleAdd()
	}
	h.Adv(int64(r.Range(1, 70)))
	h.Size()
	h.Probe()
	return h
}

// fanout evaluates in Go: 600..1200 timers due on one tick, with and without a backlog of
// undelivered runnables already sitting in Chan(); every one of them must be delivered by
// that tick (exactly once) and Size() must drop to what is left.
func fanout(a Args, rng *Rng, out *Out) {
	cases := 4
	if a.Thorough() {
		cases = 16
	}
	for c := 0; c < cases; c++ {
		r := rng.Fork()
		impl := int64(c % 2) // wheel, heap
		backlog := 0
		if c%4 >= 2 {
			backlog = r.Range(20, 100)
		}
		n := r.Range(600, 1200)
		delay := int64(r.Range(2, 50))
		cur0 := startPos(r)
		h := drv.NewHist(impl, cur0, 0)
		d := drv.NewDriver(impl, cur0, 0)
		t := d.Timer()
		fail := func(what string) { out.Violation("C05/fanout", what, h.Sx()) }
		p, _ := Catch(func() {
			count := map[int64]int{}
			ord := int64(0)
			start := func(dl int64) {
				ord++
				t.RunAfter(int(dl), &drv.Job{Ord: ord})
				d.HandleAdd()
				h.Start(dl)
				h.HandleAdd()
			}
			// backlog: due one tick earlier, left undelivered in the channel
			for i := 0; i < backlog; i++ {
				start(delay - 1)
			}
			for i := 0; i < n; i++ {
				start(delay)
			}
			d.Pass(delay - 1)
			h.Adv(delay - 1)
			d.Tick() // at most `backlog` (<= 100) deliveries: fits the channel, nobody reads
			d.Pass(1)
			h.Adv(1)
			drv.Alive()
			_, got := drv.TickDrain(d)
			out.GoChecked += int64(n + backlog)
			for _, o := range got {
				count[o]++
			}
			missing, twice := 0, 0
			for o := int64(1); o <= ord; o++ {
				switch count[o] {
				case 0:
					missing++
				case 1:
				default:
					twice++
				}
			}
			h.Size()
			if missing > 0 || twice > 0 {
				fail(fmt.Sprintf("%d timers due on one tick (backlog of %d in Chan()): %d not delivered by that tick, %d delivered twice", n, backlog, missing, twice))
			}
			if sz := t.Size(); sz != 0 {
				fail(fmt.Sprintf("Size() = %d after all %d due timers should have been delivered", sz, n+backlog))
			}
		})
		if p {
			fail("scheduler panicked")
		}
		out.Count("fanout-go")
	}
}

// ---------------------------------------------------------------------------------------
// Go-side evaluation of the proved closed form at volume: a one-shot timer accepted at
// wheel position cur0 with delay d is delivered exactly once, during tick number
// max(cur0+d, cur0+1) (counted from cur0: relative tick max(d, 1)); for the heap: at the
// first tick whose time is >= clock-at-start + d.

func replayFor(impl int64, cur0 uint64, tt0 int64, d int64) Sx {
	h := drv.NewHist(impl, cur0, tt0)
	h.Start(d)
	h.HandleAdd()
	due := d
	if due < 1 {
		due = 1
	}
	if due > 1 {
		h.Adv(due - 1)
	}
	h.Adv(1)
	h.Adv(1)
	return h.Sx()
}

// sweepDelays starts one timer per delay (ascending), then visits the due ticks in order.
func sweepDelays(out *Out, impl int64, cur0 uint64, delays []int64) {
	if p, v := Catch(func() { sweepDelays1(out, impl, cur0, delays) }); p {
		out.Violation("C05/crash", fmt.Sprintf("scheduler panicked during the sweep at start position %d: %v", cur0, v), replayFor(impl, cur0, 1000, delays[0]))
	}
}

func sweepDelays1(out *Out, impl int64, cur0 uint64, delays []int64) {
	const tt0 = 1000
	d := drv.NewDriver(impl, cur0, tt0)
	t := d.Timer()
	ch := t.Chan()
	for _, dl := range delays {
		t.RunAfter(int(dl), &drv.Job{Ord: dl})
		d.HandleAdd()
	}
	fail := func(sig, what string, dl int64) {
		out.Violation("C05/"+sig, what, replayFor(impl, cur0, tt0, dl))
	}
	var got []int64
	step := func(n int64) bool { // advance n units in one worker tick step
		drv.Alive()
		got = got[:0]
		d.Pass(n)
		if impl == drv.ImplWheel && n <= 2 {
			d.Tick() // at most 2 deliveries per tick here: cannot fill the channel
			for {
				select {
				case r := <-ch:
					got = append(got, r.(*drv.Job).Ord)
					continue
				default:
				}
				break
			}
			return true
		}
		p, ords := drv.TickDrain(d)
		got = append(got, ords...)
		return !p
	}
	rel := int64(0)
	i := 0
	for i < len(delays) {
		due := delays[i]
		if due < 1 {
			due = 1
		}
		j := i
		for j < len(delays) && (delays[j] == due || (due == 1 && delays[j] <= 1)) {
			j++
		}
		if due-1 > rel {
			if !step(due - 1 - rel) {
				fail("crash", "scheduler panicked", delays[i])
				return
			}
			rel = due - 1
			out.GoChecked++
			if len(got) != 0 {
				fail("sweep-early", fmt.Sprintf("timer with delay %d delivered before its due tick (start position %d)", got[0], cur0), got[0])
				return
			}
		}
		if !step(1) {
			fail("crash", "scheduler panicked", delays[i])
			return
		}
		rel = due
		out.GoChecked += int64(j - i)
		want := append([]int64(nil), delays[i:j]...)
		have := append([]int64(nil), got...)
		sort.Slice(have, func(a, b int) bool { return have[a] < have[b] })
		ok := len(want) == len(have)
		for k := 0; ok && k < len(want); k++ {
			ok = want[k] == have[k]
		}
		if !ok {
			fail("sweep-due", fmt.Sprintf("delay %d at start position %d: on its due tick %v were delivered, expected %v", delays[i], cur0, have, want), delays[i])
			return
		}
		i = j
	}
	if n := t.Size(); n != 0 {
		fail("sweep-size", fmt.Sprintf("%d timers still counted after all were delivered", n), delays[0])
	}
}

func sweeps(a Args, rng *Rng, out *Out) {
	positions := []uint64{0, 1, 255, 256, 1000, 1<<14 - 1, 1 << 14, 1<<20 - 3, 1 << 26, 1<<32 - 301, 1<<32 - 1, 0xFFFF0000}
	if a.Thorough() {
		// every delay 0 .. 2^21 at each of the 12 start positions, in 4 chunks
		const top = 1 << 21
		const chunk = top / 4
		for _, p := range positions {
			for lo := int64(0); lo < top; lo += chunk {
				delays := make([]int64, 0, chunk+1)
				for d := lo; d < lo+chunk; d++ {
					delays = append(delays, d)
				}
				if lo+chunk == top {
					delays = append(delays, top)
				}
				sweepDelays(out, drv.ImplWheel, p, delays)
			}
		}
		out.Note("wheel: every delay 0..2^21 at %d start positions compared with the closed form max(cur0+d, cur0+1)", len(positions))
		// sampled delays up to 2^32 (and a little beyond), one pass over the whole range
		var delays []int64
		for k := 0; k < 100000; k++ {
			delays = append(delays, int64(rng.Next()%(1<<32+1<<16)))
		}
		delays = append(delays, 1<<32-1, 1<<32, 1<<32+1, 1<<26, 1<<26-1)
		sort.Slice(delays, func(i, j int) bool { return delays[i] < delays[j] })
		sweepDelays(out, drv.ImplWheel, uint64(rng.Next()&0xFFFFFFFF), delays)
		out.Note("wheel: 100005 sampled delays up to 2^32+2^16 walked through in one pass")
		var hd []int64
		for d := int64(0); d <= 1<<18; d++ {
			hd = append(hd, d)
		}
		sweepDelays(out, drv.ImplHeap, 0, hd)
		return
	}
	// quick: a seed-chosen stride through 0..2^21 at 4 of the positions, plus samples
	for k := 0; k < 4; k++ {
		p := positions[rng.Intn(len(positions))]
		var delays []int64
		stride := int64(rng.Range(900, 1100))
		for d := int64(rng.Intn(3)); d <= 1<<21; d += stride {
			delays = append(delays, d)
			if rng.Chance(1, 8) {
				stride = int64(rng.Range(1, 2100))
			}
		}
		sweepDelays(out, drv.ImplWheel, p, delays)
	}
	{
		var delays []int64
		for d := int64(0); d <= 3000; d++ {
			delays = append(delays, d)
		}
		sweepDelays(out, drv.ImplWheel, positions[rng.Intn(len(positions))], delays)
		sweepDelays(out, drv.ImplWheel, uint64(rng.Next()&0xFFFFFFFF), delays)
		sweepDelays(out, drv.ImplHeap, 0, delays)
	}
	{
		// the outermost level: delays that are placed in tvec[3] and must come down through every
		// level (one walk of a little over 2^26 ticks)
		base := int64(1 << 26)
		delays := []int64{base - int64(rng.Range(1, 300)), base - 1, base, base + 1, base + int64(rng.Range(2, 1<<16)), base + 1<<20 + int64(rng.Intn(1<<14))}
		sort.Slice(delays, func(i, j int) bool { return delays[i] < delays[j] })
		sweepDelays(out, drv.ImplWheel, positions[rng.Intn(len(positions))], delays)
	}
	{
		var delays []int64
		for k := 0; k < 300; k++ {
			delays = append(delays, int64(rng.Next()&0xFFFFFF))
		}
		sort.Slice(delays, func(i, j int) bool { return delays[i] < delays[j] })
		sweepDelays(out, drv.ImplWheel, 0xFFFFFFFF-uint64(rng.Intn(1<<23)), delays)
	}
}
