// C19 harness: the typed byte buffer (qnet/buffer.go).
// input    = (op ...)      op  = (0 kind value) write | (1 kind) read | (2 kind) peek | (3) Bytes()
// observed = (ws (out ...)) out = (0 len) | (1 value len) | (2 len) panicked | (3 #bytes)
// kind = 0 bool 1 u8 2 i8 3 u16 4 i16 5 u32 6 i32 7 u64 8 i64 9 uint 10 int 11 f32 12 f64
// Values travel in the natural range of their Go type; floats as IEEE-754 bit patterns.
// ws = word size in bytes of the platform the harness was built for (GOARCH=386: 4).
package main

import (
	"io"
	"log"
	"math"
	"strconv"
	"sync"
	"sync/atomic"

	"qchen.fun/fatchoy/qnet"
	. "verifharness/common"
)

const ws = strconv.IntSize / 8

const (
	kBool = iota
	kU8
	kI8
	kU16
	kI16
	kU32
	kI32
	kU64
	kI64
	kUint
	kInt
	kF32
	kF64
	nKinds
)

var kindName = []string{"bool", "u8", "i8", "u16", "i16", "u32", "i32", "u64", "i64", "uint", "int", "f32", "f64"}

func widthOf(k int) int {
	switch k {
	case kBool, kU8, kI8:
		return 1
	case kU16, kI16:
		return 2
	case kU32, kI32, kF32:
		return 4
	case kU64, kI64, kF64:
		return 8
	}
	return ws
}

func write(b *qnet.Buffer, k int, v Sx) {
	switch k {
	case kBool:
		b.WriteBool(v.Int64() != 0)
	case kU8:
		b.WriteUInt8(uint8(v.Uint64()))
	case kI8:
		b.WriteInt8(int8(v.Int64()))
	case kU16:
		b.WriteUint16(uint16(v.Uint64()))
	case kI16:
		b.WriteInt16(int16(v.Int64()))
	case kU32:
		b.WriteUint32(uint32(v.Uint64()))
	case kI32:
		b.WriteInt32(int32(v.Int64()))
	case kU64:
		b.WriteUint64(v.Uint64())
	case kI64:
		b.WriteInt64(v.Int64())
	case kUint:
		b.WriteUint(uint(v.Uint64()))
	case kInt:
		b.WriteInt(int(v.Int64()))
	case kF32:
		b.WriteFloat32(math.Float32frombits(uint32(v.Uint64())))
	case kF64:
		b.WriteFloat64(math.Float64frombits(v.Uint64()))
	default:
		panic("bad kind")
	}
}

func b2i(v bool) int64 {
	if v {
		return 1
	}
	return 0
}

func read(b *qnet.Buffer, k int) Sx {
	switch k {
	case kBool:
		return Int(b2i(b.ReadBool()))
	case kU8:
		return Uint(uint64(b.ReadUint8()))
	case kI8:
		return Int(int64(b.ReadInt8()))
	case kU16:
		return Uint(uint64(b.ReadUint16()))
	case kI16:
		return Int(int64(b.ReadInt16()))
	case kU32:
		return Uint(uint64(b.ReadUint32()))
	case kI32:
		return Int(int64(b.ReadInt32()))
	case kU64:
		return Uint(b.ReadUint64())
	case kI64:
		return Int(b.ReadInt64())
	case kUint:
		return Uint(uint64(b.ReadUint()))
	case kInt:
		return Int(int64(b.ReadInt()))
	case kF32:
		return Uint(uint64(math.Float32bits(b.ReadFloat32())))
	case kF64:
		return Uint(math.Float64bits(b.ReadFloat64()))
	}
	panic("bad kind")
}

func peek(b *qnet.Buffer, k int) Sx {
	switch k {
	case kBool:
		return Int(b2i(b.PeekBool()))
	case kU8:
		return Uint(uint64(b.PeekUint8()))
	case kI8:
		return Int(int64(b.PeekInt8()))
	case kU16:
		return Uint(uint64(b.PeekUint16()))
	case kI16:
		return Int(int64(b.PeekInt16()))
	case kU32:
		return Uint(uint64(b.PeekUint32()))
	case kI32:
		return Int(int64(b.PeekInt32()))
	case kU64:
		return Uint(b.PeekUint64())
	case kI64:
		return Int(b.PeekInt64())
	case kUint:
		return Uint(uint64(b.PeekUint()))
	case kInt:
		return Int(int64(b.PeekInt()))
	case kF32:
		return Uint(uint64(math.Float32bits(b.PeekFloat32())))
	case kF64:
		return Uint(math.Float64bits(b.PeekFloat64()))
	}
	panic("bad kind")
}

// ---- deep buffers --------------------------------------------------------------------------
// The property speaks of ALL sequences, also those that make the buffer large.  deep(seed,
// total) regenerates a sequence of typed writes from the seed until at least `total` bytes are
// buffered, checks Len() after every single write against the running sum of widths, then reads
// everything back (regenerating the same sequence) comparing bit for bit, and checks that the
// buffer is empty.  Returns 0 ok | 1 a write did not append its width | 3 read-back differs /
// buffer not empty | 5 panic, and the index of the first offending value.

func rawValue(r *Rng, k int) uint64 {
	u := r.Next()
	if r.Intn(8) == 0 {
		u = r.PickU64(0, 1, ^uint64(0), 1<<63, 1<<63-1, 0x7ff8000000000001, 0x7fc00001, 0xffffffff, 0x80000000, 0xff, 0x80)
	}
	switch widthOf(k) {
	case 1:
		u &= 0xff
		if k == kBool {
			u &= 1
		}
	case 2:
		u &= 0xffff
	case 4:
		u &= 0xffffffff
	}
	return u
}

// write / read the value whose width-truncated two's complement is u
func writeRaw(b *qnet.Buffer, k int, u uint64) {
	switch k {
	case kBool:
		b.WriteBool(u != 0)
	case kU8:
		b.WriteUInt8(uint8(u))
	case kI8:
		b.WriteInt8(int8(u))
	case kU16:
		b.WriteUint16(uint16(u))
	case kI16:
		b.WriteInt16(int16(u))
	case kU32:
		b.WriteUint32(uint32(u))
	case kI32:
		b.WriteInt32(int32(u))
	case kU64:
		b.WriteUint64(u)
	case kI64:
		b.WriteInt64(int64(u))
	case kUint:
		b.WriteUint(uint(u))
	case kInt:
		b.WriteInt(int(u))
	case kF32:
		b.WriteFloat32(math.Float32frombits(uint32(u)))
	case kF64:
		b.WriteFloat64(math.Float64frombits(u))
	}
}

func readRaw(b *qnet.Buffer, k int) uint64 {
	switch k {
	case kBool:
		return uint64(b2i(b.ReadBool()))
	case kU8:
		return uint64(b.ReadUint8())
	case kI8:
		return uint64(uint8(b.ReadInt8()))
	case kU16:
		return uint64(b.ReadUint16())
	case kI16:
		return uint64(uint16(b.ReadInt16()))
	case kU32:
		return uint64(b.ReadUint32())
	case kI32:
		return uint64(uint32(b.ReadInt32()))
	case kU64:
		return b.ReadUint64()
	case kI64:
		return uint64(b.ReadInt64())
	case kUint:
		return uint64(b.ReadUint())
	case kInt:
		if ws == 4 {
			return uint64(uint32(b.ReadInt()))
		}
		return uint64(b.ReadInt())
	case kF32:
		return uint64(math.Float32bits(b.ReadFloat32()))
	case kF64:
		return math.Float64bits(b.ReadFloat64())
	}
	panic("bad kind")
}

func peekRaw(b *qnet.Buffer, k int) uint64 {
	switch k {
	case kBool:
		return uint64(b2i(b.PeekBool()))
	case kU8:
		return uint64(b.PeekUint8())
	case kI8:
		return uint64(uint8(b.PeekInt8()))
	case kU16:
		return uint64(b.PeekUint16())
	case kI16:
		return uint64(uint16(b.PeekInt16()))
	case kU32:
		return uint64(b.PeekUint32())
	case kI32:
		return uint64(uint32(b.PeekInt32()))
	case kU64:
		return b.PeekUint64()
	case kI64:
		return uint64(b.PeekInt64())
	case kUint:
		return uint64(b.PeekUint())
	case kInt:
		if ws == 4 {
			return uint64(uint32(b.PeekInt()))
		}
		return uint64(b.PeekInt())
	case kF32:
		return uint64(math.Float32bits(b.PeekFloat32()))
	case kF64:
		return math.Float64bits(b.PeekFloat64())
	}
	panic("bad kind")
}

// ---- exact lengths around powers of two ----------------------------------------------------
// boundary(k): every kind is written, peeked and read with the buffer holding EXACTLY L unread
// bytes for every L in [2^k-10, 2^k+10].  The buffer content is a fixed pseudo-random byte
// string, so every expected value is the little-endian decoding of known bytes.
// Returns 0 ok | 1 width (Len after a write) | 2 layout (bytes appended) | 3 read | 4 peek | 5 panic.

func fillByte(i int) byte { return byte(uint32(i)*2654435761>>13) ^ byte(i) }

func leValue(base []byte, pos, w int) uint64 {
	var u uint64
	for j := 0; j < w; j++ {
		u |= uint64(base[pos+j]) << (8 * uint(j))
	}
	return u
}

// the value a typed read of kind k returns for raw little-endian bits u (as width-truncated bits)
func viewRaw(k int, u uint64) uint64 {
	if k == kBool {
		if u != 0 {
			return 1
		}
		return 0
	}
	return u
}

func boundary(k uint) (code int, at int64, checked int64) {
	const win = 10
	n := 1<<k + win + 16
	base := make([]byte, n)
	for i := range base {
		base[i] = fillByte(i)
	}
	lo, hi := 1<<k-win, 1<<k+win
	pn, _ := Catch(func() {
		// writes and peeks at exact lengths (Truncate keeps the first L unread bytes)
		var b qnet.Buffer
		b.Buffer.Write(base)
		for L := hi; L >= lo; L-- {
			for kind := 0; kind < nKinds; kind++ {
				w := widthOf(kind)
				b.Truncate(L)
				u := truncWord(kind, leValue(base, (L*7+kind)%16, 8))
				switch w {
				case 1:
					u &= 0xff
					if kind == kBool {
						u &= 1
					}
				case 2:
					u &= 0xffff
				case 4:
					u &= 0xffffffff
				}
				writeRaw(&b, kind, u)
				checked++
				if b.Len() != L+w {
					code, at = 1, int64(L)
					return
				}
				if tail := b.Bytes()[L:]; len(tail) != w || leValue(tail, 0, w) != u {
					code, at = 2, int64(L)
					return
				}
				b.Truncate(L)
				want := viewRaw(kind, leValue(base, 0, w))
				checked++
				if got := peekRaw(&b, kind); got != want || b.Len() != L {
					code, at = 4, int64(L)
					return
				}
			}
		}
		// reads at exact lengths: for every kind and every phase, read down through the window
		for kind := 0; kind < nKinds; kind++ {
			w := widthOf(kind)
			for r := 0; r < w; r++ {
				start := hi + r
				b.Reset()
				b.Buffer.Write(base[:start])
				for L := start; L >= lo && L >= w; L -= w {
					pos := start - L
					want := viewRaw(kind, leValue(base, pos, w))
					got := readRaw(&b, kind)
					checked++
					if got != want || b.Len() != L-w {
						code, at = 3, int64(L)
						return
					}
				}
			}
		}
	})
	if pn {
		code = 5
	}
	return
}

func truncWord(k int, u uint64) uint64 {
	if (k == kUint || k == kInt) && ws == 4 {
		return u & 0xffffffff
	}
	return u
}

func deep(seed uint64, total int64) (code int, index int64, checked int64) {
	var b qnet.Buffer
	pn, _ := Catch(func() {
		r := NewRng(seed)
		var expect, n int64
		for expect < total {
			k := r.Intn(nKinds)
			u := truncWord(k, rawValue(r, k))
			writeRaw(&b, k, u)
			expect += int64(widthOf(k))
			checked++
			if int64(b.Len()) != expect {
				code, index = 1, n
				return
			}
			n++
		}
		r = NewRng(seed)
		for i := int64(0); i < n; i++ {
			k := r.Intn(nKinds)
			u := truncWord(k, rawValue(r, k))
			if pk := peekRaw(&b, k); pk != u || int64(b.Len()) != expect {
				code, index = 4, i
				return
			}
			got := readRaw(&b, k)
			expect -= int64(widthOf(k))
			checked += 2
			if got != u || int64(b.Len()) != expect {
				code, index = 3, i
				return
			}
		}
		if b.Len() != 0 {
			code, index = 3, n
		}
	})
	if pn {
		code = 5
	}
	return
}

// ---- several buffers, long histories ----------------------------------------------------------
// mbuf = one real Buffer together with its reference: the FIFO list of typed values written and
// not yet read.  Every write checks Len(), every read first peeks (value, Len unchanged) and
// then reads (value, Len).  fail != 0 once something differed.
type mval struct {
	k uint8
	u uint64
}

type mbuf struct {
	b      *qnet.Buffer
	q      []mval
	head   int
	expect int
	fail   int
	n      int64
}

func newMbuf() *mbuf { return &mbuf{b: new(qnet.Buffer)} }

func (m *mbuf) pending() int { return len(m.q) - m.head }

func (m *mbuf) write(r *Rng) {
	k := r.Intn(nKinds)
	u := truncWord(k, rawValue(r, k))
	writeRaw(m.b, k, u)
	m.q = append(m.q, mval{uint8(k), u})
	m.expect += widthOf(k)
	m.n++
	if m.b.Len() != m.expect && m.fail == 0 {
		m.fail = 1
	}
}

func (m *mbuf) read() {
	v := m.q[m.head]
	k := int(v.k)
	if pk := peekRaw(m.b, k); (pk != v.u || m.b.Len() != m.expect) && m.fail == 0 {
		m.fail = 4
	}
	got := readRaw(m.b, k)
	m.expect -= widthOf(k)
	m.head++
	m.n += 2
	if (got != v.u || m.b.Len() != m.expect) && m.fail == 0 {
		m.fail = 3
	}
	if m.head == len(m.q) {
		m.q, m.head = m.q[:0], 0
		if m.b.Len() != 0 && m.fail == 0 {
			m.fail = 3
		}
	}
}

// poll: a read (and a peek) of the EMPTY buffer must fail and change nothing; the history goes on
func (m *mbuf) poll(r *Rng) {
	if m.pending() != 0 {
		return
	}
	k := r.Intn(nKinds)
	pr, _ := Catch(func() { readRaw(m.b, k) })
	pp, _ := Catch(func() { peekRaw(m.b, k) })
	m.n += 2
	if (!pr || !pp || m.b.Len() != 0) && m.fail == 0 {
		m.fail = 3
	}
}

func (m *mbuf) fillTo(r *Rng, bytes int) {
	for m.expect < bytes && m.fail == 0 {
		m.write(r)
	}
}

func (m *mbuf) drain() {
	for m.pending() > 0 && m.fail == 0 {
		m.read()
	}
}

// phases(seed): ONE buffer through a long life: backlogs of very different sizes (relative to
// 4 KiB, 64 KiB, 1 MiB), each followed by a complete drain and ordinary small traffic on the
// same buffer.  Returns the first failure code (1 width | 3 read | 4 peek | 5 panic) and the phase.
func phases(seed uint64, big int) (code int, phase int, checked int64) {
	m := newMbuf()
	pn, _ := Catch(func() {
		r := NewRng(seed)
		sizes := []int{100, 70000, 40, 5000, 4096, 4097, 9, 66000, 300, big, 17, 65536, 65537, 3, 140000, 64}
		for i, sz := range sizes {
			phase = i
			m.fillTo(r, sz)
			if r.Bool() { // partial drain, more writes, then everything
				for j := m.pending() / 2; j > 0 && m.fail == 0; j-- {
					m.read()
				}
				m.fillTo(r, m.expect+r.Intn(200))
			}
			m.drain()
			if r.Bool() {
				m.poll(r)
			}
			// ordinary traffic right after the drain
			for j := r.Range(1, 20); j > 0 && m.fail == 0; j-- {
				m.write(r)
				if r.Bool() {
					m.read()
				}
			}
			m.drain()
			if m.fail != 0 {
				return
			}
		}
	})
	if pn && m.fail == 0 {
		m.fail = 5
	}
	return m.fail, phase, m.n
}

// multi(seed, nbuf, steps): nbuf buffers alive at the same time in ONE goroutine, operations on
// them interleaved at random: small writes, single reads, complete drains, occasional larger
// backlogs, and buffers that are dropped and replaced by fresh ones.  Each buffer is checked
// against its own reference.
func multiStep(r *Rng, ms []*mbuf, big bool) {
	i := r.Intn(len(ms))
	m := ms[i]
	switch c := r.Intn(20); {
	case c < 8:
		for j := r.Range(1, 6); j > 0; j-- {
			m.write(r)
		}
	case c < 13:
		for j := r.Range(1, 4); j > 0 && m.pending() > 0; j-- {
			m.read()
		}
		m.poll(r) // when that emptied the buffer (or it was empty): a failed read, then life goes on
	case c < 17:
		m.drain()
	case c == 17:
		if m.pending() == 0 {
			ms[i] = newMbuf() // a fresh buffer takes over; the old one is garbage
			ms[i].n = m.n
		} else {
			m.drain()
		}
	case c == 18:
		if r.Bool() {
			m.b.Reset() // the embedded buffer's Reset: everything unread is gone
			m.q, m.head, m.expect = m.q[:0], 0, 0
			if m.b.Len() != 0 && m.fail == 0 {
				m.fail = 3
			}
		} else {
			m.fillTo(r, m.expect+r.PickInt(500, 4096, 5000))
		}
	default:
		if big {
			m.fillTo(r, m.expect+r.PickInt(66000, 70000, 4096))
		} else {
			m.write(r)
		}
	}
}

func multi(seed uint64, nbuf, steps int) (code int, step int, checked int64) {
	ms := make([]*mbuf, nbuf)
	for i := range ms {
		ms[i] = newMbuf()
	}
	failed := func() int {
		for _, m := range ms {
			if m.fail != 0 {
				return m.fail
			}
		}
		return 0
	}
	pn, _ := Catch(func() {
		r := NewRng(seed)
		for step = 0; step < steps && failed() == 0; step++ {
			multiStep(r, ms, step%64 == 63)
		}
		for _, m := range ms {
			m.drain()
		}
	})
	code = failed()
	if pn && code == 0 {
		code = 5
	}
	for _, m := range ms {
		checked += m.n
	}
	return
}

// ---- separate buffers on separate goroutines ---------------------------------------------------
// concurrent(seed, g, rounds): g goroutines, each with its OWN buffers (three alive at a time,
// continuously filled, drained, refilled and replaced, so that anything the package recycles
// migrates between goroutines) and its own value stream; nothing is shared between them, so on
// correct code the outcome cannot depend on the schedule.
// Returns 0 ok | 1 width | 3 read-back | 4 peek | 5 panic.
func concurrent(seed uint64, g, rounds int) (code int, checked int64) {
	var wg sync.WaitGroup
	var bad, n int64
	for id := 0; id < g; id++ {
		wg.Add(1)
		go func(id int) {
			defer wg.Done()
			ms := []*mbuf{newMbuf(), newMbuf(), newMbuf()}
			pn, _ := Catch(func() {
				r := NewRng(seed + uint64(id)*7919)
				for round := 0; round < rounds && atomic.LoadInt64(&bad) == 0; round++ {
					for j := 0; j < 24; j++ {
						multiStep(r, ms, false)
					}
					for _, m := range ms {
						if m.fail != 0 {
							atomic.CompareAndSwapInt64(&bad, 0, int64(m.fail))
							return
						}
					}
				}
				for _, m := range ms {
					m.drain()
					if m.fail != 0 {
						atomic.CompareAndSwapInt64(&bad, 0, int64(m.fail))
					}
				}
			})
			if pn {
				atomic.CompareAndSwapInt64(&bad, 0, 5)
			}
			for _, m := range ms {
				atomic.AddInt64(&n, m.n)
			}
		}(id)
	}
	wg.Wait()
	return int(atomic.LoadInt64(&bad)), atomic.LoadInt64(&n)
}

func run(in Sx) Sx {
	if in.Len() == 1 && in.At(0).At(0).AsInt() == 12 {
		code, phase, _ := phases(in.At(0).At(1).Uint64(), in.At(0).At(2).AsInt())
		return List(Int(ws), List(List(Int(12), Int(int64(code)), Int(int64(phase)))))
	}
	if in.Len() == 1 && in.At(0).At(0).AsInt() == 13 {
		code, step, _ := multi(in.At(0).At(1).Uint64(), in.At(0).At(2).AsInt(), in.At(0).At(3).AsInt())
		return List(Int(ws), List(List(Int(13), Int(int64(code)), Int(int64(step)))))
	}
	if in.Len() == 1 && in.At(0).At(0).AsInt() == 11 {
		code, _ := concurrent(in.At(0).At(1).Uint64(), in.At(0).At(2).AsInt(), in.At(0).At(3).AsInt())
		return List(Int(ws), List(List(Int(11), Int(int64(code)), Int(0))))
	}
	if in.Len() == 1 && in.At(0).At(0).AsInt() == 10 {
		code, at, _ := boundary(uint(in.At(0).At(1).Int64()))
		return List(Int(ws), List(List(Int(10), Int(int64(code)), Int(at))))
	}
	if in.Len() == 1 && in.At(0).At(0).AsInt() == 9 {
		code, index, _ := deep(in.At(0).At(1).Uint64(), in.At(0).At(2).Int64())
		return List(Int(ws), List(List(Int(9), Int(int64(code)), Int(index))))
	}
	var b qnet.Buffer
	outs := make([]Sx, 0, in.Len())
	for i := 0; i < in.Len(); i++ {
		o := in.At(i)
		switch o.At(0).AsInt() {
		case 0:
			k, v := o.At(1).AsInt(), o.At(2)
			if p, _ := Catch(func() { write(&b, k, v) }); p {
				outs = append(outs, List(Int(2), Int(int64(b.Len()))))
			} else {
				outs = append(outs, List(Int(0), Int(int64(b.Len()))))
			}
		case 1, 2:
			k := o.At(1).AsInt()
			var v Sx
			f := read
			if o.At(0).AsInt() == 2 {
				f = peek
			}
			if p, _ := Catch(func() { v = f(&b, k) }); p {
				outs = append(outs, List(Int(2), Int(int64(b.Len()))))
			} else {
				outs = append(outs, List(Int(1), v, Int(int64(b.Len()))))
			}
		case 3:
			outs = append(outs, List(Int(3), Bytes(b.Bytes())))
		case 4:
			if p, _ := Catch(func() { b.Write(o.At(1).AsBytes()) }); p {
				outs = append(outs, List(Int(2), Int(int64(b.Len()))))
			} else {
				outs = append(outs, List(Int(0), Int(int64(b.Len()))))
			}
		case 5:
			b.Reset()
			outs = append(outs, List(Int(0), Int(int64(b.Len()))))
		default:
			panic("bad op")
		}
	}
	return List(Int(ws), ListOf(outs))
}

// ---- generators ---------------------------------------------------------------------

var f32Special = []uint64{0, 0x80000000, 0x7f800000, 0xff800000, 0x7fc00000, 0x7fa00000, 0x7f800001,
	0xffc12345, 0x00000001, 0x007fffff, 0x00800000, 0x3f800000, 0xbf800000, 0x7f7fffff, 0x7fffffff, 0xffffffff}
var f64Special = []uint64{0, 0x8000000000000000, 0x7ff0000000000000, 0xfff0000000000000, 0x7ff8000000000000,
	0x7ff4000000000000, 0x7ff0000000000001, 0xfff8123456789abc, 1, 0x000fffffffffffff, 0x0010000000000000,
	0x3ff0000000000000, 0xbff0000000000000, 0x7fefffffffffffff, 0x7fffffffffffffff, 0xffffffffffffffff}

// a value of kind k: extremes with probability 1/2, random otherwise
func genValue(rng *Rng, k int, out *Out) Sx {
	ext := rng.Chance(1, 2)
	if ext {
		out.Count("value:extreme")
	} else {
		out.Count("value:random")
	}
	sgn := func(bits uint) Sx {
		lo, hi := -(int64(1) << (bits - 1)), int64(1)<<(bits-1)-1
		if ext {
			return Int(rng.PickI64(lo, lo+1, -1, 0, 1, hi-1, hi, -128, 127, -129, 128))
		}
		v := int64(rng.Next())
		if bits < 64 {
			v >>= (64 - bits)
		}
		return Int(v)
	}
	uns := func(bits uint) Sx {
		hi := ^uint64(0) >> (64 - bits)
		if ext {
			return Uint(rng.PickU64(0, 1, hi-1, hi, hi>>1, hi>>1+1, 255&hi, 256&hi, 0x80&hi))
		}
		return Uint(rng.Next() & hi)
	}
	clampS := func(v Sx, bits uint) Sx {
		x := v.Int64()
		lo, hi := -(int64(1) << (bits - 1)), int64(1)<<(bits-1)-1
		if x < lo {
			x = lo
		}
		if x > hi {
			x = hi
		}
		return Int(x)
	}
	switch k {
	case kBool:
		return Int(int64(rng.Intn(2)))
	case kU8:
		return uns(8)
	case kI8:
		return clampS(sgn(8), 8)
	case kU16:
		return uns(16)
	case kI16:
		return clampS(sgn(16), 16)
	case kU32:
		return uns(32)
	case kI32:
		return clampS(sgn(32), 32)
	case kU64:
		return uns(64)
	case kI64:
		return sgn(64)
	case kUint:
		return uns(ws * 8)
	case kInt:
		return clampS(sgn(ws*8), ws*8)
	case kF32:
		if ext {
			return Uint(f32Special[rng.Intn(len(f32Special))])
		}
		return Uint(rng.Next() & 0xffffffff)
	case kF64:
		if ext {
			return Uint(f64Special[rng.Intn(len(f64Special))])
		}
		return Uint(rng.Next())
	}
	panic("bad kind")
}

type tv struct {
	k int
	v Sx
}

func genWrites(rng *Rng, n int, out *Out) []tv {
	w := make([]tv, n)
	for i := range w {
		k := rng.Intn(nKinds)
		w[i] = tv{k, genValue(rng, k, out)}
		out.Count("write:" + kindName[k])
	}
	return w
}

func wop(t tv) Sx  { return List(Int(0), Int(int64(t.k)), t.v) }
func rop(k int) Sx { return Ints(1, int64(k)) }
func pop(k int) Sx { return Ints(2, int64(k)) }

// the property evaluated in Go on one write-all / read-all round (used for volume)
func holds(ws []tv) (bool, string) {
	var b qnet.Buffer
	for _, t := range ws {
		before := b.Len()
		if p, _ := Catch(func() { write(&b, t.k, t.v) }); p || b.Len()-before != widthOf(t.k) {
			return false, "width"
		}
	}
	for _, t := range ws {
		var pv, rv Sx
		before := b.Len()
		if p, _ := Catch(func() { pv = peek(&b, t.k) }); p || pv.String() != t.v.String() || b.Len() != before {
			return false, "peek"
		}
		if p, _ := Catch(func() { rv = read(&b, t.k) }); p || rv.String() != t.v.String() || before-b.Len() != widthOf(t.k) {
			return false, "roundtrip"
		}
	}
	if b.Len() != 0 {
		return false, "roundtrip"
	}
	return true, ""
}

func main() {
	log.SetOutput(io.Discard)
	Main(run, gen)
}

func gen(a Args, out *Out) {
	rng := NewRng(a.Seed)
	out.Note("platform word size %d bytes", ws)
	emit := func(kind string, ops []Sx) {
		in := ListOf(ops)
		out.Case(kind, len(ops) > 0, in, run(in))
		out.CountN("ops", len(ops))
	}
	// one write + peek + read + Bytes() per kind at every extreme: narrow cases, easy to read
	for k := 0; k < nKinds; k++ {
		for j := 0; j < 12; j++ {
			t := tv{k, genValue(rng, k, out)}
			emit("single", []Sx{wop(t), Ints(3), pop(k), rop(k), Ints(3)})
		}
	}
	// directed: a wide peek over 8-bit fields, the fields consumed by 8-bit reads, then the same
	// wide peek / read again (a remembered peek must not survive the narrow reads); and the
	// smallest capacity case: 8 x uint64 fill the first 64-byte array, read one, write one
	for _, wk := range []int{kU16, kI16, kU32, kI32, kF32, kU64, kI64, kF64, kUint, kInt} {
		for rep := 0; rep < 3; rep++ {
			var ops []Sx
			n := widthOf(wk)
			var small []tv
			for i := 0; i < n; i++ {
				k := rng.PickInt(kBool, kU8, kI8)
				small = append(small, tv{k, genValue(rng, k, out)})
			}
			wide := []tv{{wk, genValue(rng, wk, out)}, {wk, genValue(rng, wk, out)}}
			for _, t := range small {
				ops = append(ops, wop(t))
			}
			for _, t := range wide {
				ops = append(ops, wop(t))
			}
			ops = append(ops, pop(wk))
			for i, t := range small {
				ops = append(ops, rop(t.k))
				if rep == 2 && i == n/2 {
					ops = append(ops, pop(wk))
				}
			}
			ops = append(ops, pop(wk), rop(wk), pop(wk), rop(wk), Ints(3))
			emit("stale-peek", ops)
		}
	}
	// poll until data: a failed read (and peek) of the empty buffer, then the value arrives
	for k := 0; k < nKinds; k++ {
		t, u := tv{k, genValue(rng, k, out)}, tv{k, genValue(rng, k, out)}
		emit("poll", []Sx{rop(k), pop(k), rop(rng.Intn(nKinds)), wop(t), pop(k), rop(k), rop(k), wop(u), wop(t), rop(k), rop(k), pop(k), Ints(3)})
	}
	for _, fill := range []int{8, 16, 32, 64} {
		for nread := 1; nread <= 2; nread++ {
			var ops []Sx
			var q []tv
			for i := 0; i < fill; i++ {
				t := tv{kU64, genValue(rng, kU64, out)}
				q = append(q, t)
				ops = append(ops, wop(t))
			}
			for i := 0; i < nread; i++ {
				ops = append(ops, rop(kU64))
				q = q[1:]
			}
			for _, k := range []int{kU64, kU16, kU8, kF64} {
				t := tv{k, genValue(rng, k, out)}
				q = append(q, t)
				ops = append(ops, wop(t))
			}
			for _, t := range q {
				ops = append(ops, rop(t.k))
			}
			ops = append(ops, Ints(3))
			emit("capacity", ops)
		}
	}
	nseq := 750
	if a.Thorough() {
		nseq = 8000
	}
	for i := 0; i < nseq; i++ {
		r := rng.Fork()
		n := r.Range(1, 40)
		w := genWrites(r, n, out)
		var ops []Sx
		switch r.Intn(7) {
		case 6: // FIFO use mixed with the embedded bytes.Buffer's own Write(bytes) and Reset()
			var q []tv
			for step := r.Range(10, 60); step > 0; step-- {
				switch c := r.Intn(12); {
				case c < 5:
					t := w[r.Intn(len(w))]
					q = append(q, t)
					ops = append(ops, wop(t))
				case c < 8 && len(q) == 0:
					ops = append(ops, rop(r.Intn(nKinds))) // nothing there: fails, changes nothing
				case c < 8 && len(q) > 0:
					if r.Chance(1, 3) {
						ops = append(ops, pop(q[0].k))
					}
					ops = append(ops, rop(q[0].k))
					q = q[1:]
				case c < 10:
					raw := r.Bytes(r.PickInt(0, 1, 2, 3, 8, 17))
					for _, x := range raw {
						q = append(q, tv{kU8, Uint(uint64(x))})
					}
					ops = append(ops, List(Int(4), Bytes(raw)))
				case c == 10:
					ops = append(ops, Ints(5))
					q = nil
				default:
					ops = append(ops, Ints(3))
				}
			}
			for _, t := range q {
				ops = append(ops, rop(t.k))
			}
			ops = append(ops, Ints(3))
			emit("raw-reset", ops)
			continue
		case 4: // FIFO use with peeks of ANY kind at ANY time (wider than what follows / remains too)
			pending, next := 0, 0
			for next < len(w) || pending > 0 {
				for r.Chance(1, 2) {
					ops = append(ops, pop(r.Intn(nKinds)))
				}
				if pending == 0 && r.Chance(1, 3) {
					ops = append(ops, rop(r.Intn(nKinds)))
				}
				if next < len(w) && (pending == 0 || r.Bool()) {
					ops = append(ops, wop(w[next]))
					next++
					pending++
				} else {
					t := w[next-pending]
					ops = append(ops, rop(t.k))
					pending--
				}
			}
			ops = append(ops, pop(r.Intn(nKinds)), Ints(3))
			emit("foreign-peek", ops)
			continue
		case 5: // fill exactly to (or next to) a capacity boundary, read a little, write again
			target := r.PickInt(64, 128, 256, 512, 1024, 2048) + r.PickInt(0, 0, 0, -1, 1, -8, 8)
			var q []tv
			total := 0
			for total < target {
				k := r.Intn(nKinds)
				if r.Chance(1, 2) {
					k = r.PickInt(kU64, kI64, kF64)
				}
				if total+widthOf(k) > target {
					k = kU8
				}
				t := tv{k, genValue(r, k, out)}
				q = append(q, t)
				ops = append(ops, wop(t))
				total += widthOf(k)
			}
			for rounds := r.Range(1, 4); rounds > 0 && len(q) > 0; rounds-- {
				for j := r.Range(1, 3); j > 0 && len(q) > 0; j-- {
					ops = append(ops, rop(q[0].k))
					q = q[1:]
				}
				for j := r.Range(1, 4); j > 0; j-- {
					k := r.Intn(nKinds)
					t := tv{k, genValue(r, k, out)}
					q = append(q, t)
					ops = append(ops, wop(t))
				}
			}
			ops = append(ops, Ints(3))
			for _, t := range q {
				ops = append(ops, rop(t.k))
			}
			ops = append(ops, Ints(3))
			emit("capacity", ops)
			continue
		case 0: // write all, Bytes(), read all
			for _, t := range w {
				ops = append(ops, wop(t))
			}
			ops = append(ops, Ints(3))
			for _, t := range w {
				ops = append(ops, rop(t.k))
			}
			ops = append(ops, Ints(3))
			emit("roundtrip", ops)
		case 1: // the same with a peek before every read and Bytes() sprinkled in
			for _, t := range w {
				ops = append(ops, wop(t))
				if r.Chance(1, 8) {
					ops = append(ops, Ints(3))
				}
			}
			for _, t := range w {
				ops = append(ops, pop(t.k), rop(t.k))
				if r.Chance(1, 8) {
					ops = append(ops, Ints(3))
				}
			}
			emit("peek-read", ops)
		case 2: // FIFO use: reads of the oldest unread value interleaved with writes
			pending := 0
			next := 0
			for next < len(w) || pending > 0 {
				if pending == 0 && r.Chance(1, 3) { // poll an empty buffer: fails, then the history goes on
					ops = append(ops, rop(r.Intn(nKinds)))
					if r.Bool() {
						ops = append(ops, pop(r.Intn(nKinds)))
					}
				}
				if next < len(w) && (pending == 0 || r.Bool()) {
					ops = append(ops, wop(w[next]))
					next++
					pending++
				} else {
					t := w[next-pending]
					if r.Chance(1, 3) {
						ops = append(ops, pop(t.k))
					}
					ops = append(ops, rop(t.k))
					pending--
				}
			}
			ops = append(ops, Ints(3))
			emit("fifo", ops)
		case 3: // outside the property: reads of other kinds, reads/peeks past the end
			for _, t := range w {
				ops = append(ops, wop(t))
			}
			for j := 0; j < n+3; j++ {
				k := r.Intn(nKinds)
				if r.Chance(1, 3) {
					ops = append(ops, pop(k))
				}
				ops = append(ops, rop(k))
			}
			ops = append(ops, Ints(3))
			emit("misuse", ops)
		}
	}
	// deep buffers: one buffer grown through every power of two up to 32 MiB (thorough 128 MiB)
	deepTotal := int64(1)<<25 + 4096
	if a.Thorough() {
		deepTotal = int64(1)<<27 + 4096
	}
	if ws == 4 { // the 32-bit run: same sweep, smaller top size
		deepTotal = int64(1)<<24 + 4096
	}
	for _, d := range []struct {
		seed  uint64
		total int64
	}{{rng.Next(), 1<<10 + 64}, {rng.Next(), 1<<16 + 64}, {rng.Next(), 1<<20 + 64}, {rng.Next(), 1<<23 + 4096}, {rng.Next(), deepTotal}} {
		if d.total > deepTotal {
			continue
		}
		code, index, checked := deep(d.seed, d.total)
		out.GoChecked += checked
		out.Count("deep-buffer runs")
		in := List(List(Int(9), Uint(d.seed), Int(d.total)))
		if code != 0 {
			what := map[int]string{1: "width", 3: "readback", 4: "peek", 5: "panic"}[code]
			out.Violation("C19/deep-buffer/"+what, "deep buffer ("+strconv.FormatInt(d.total, 10)+" bytes): "+what+" fails at value #"+strconv.FormatInt(index, 10),
				List(in, List()))
		}
		if d.total <= 1<<16+64 {
			out.Case("deep", true, in, run(in))
		}
	}
	out.Note("deep-buffer sweep up to %d bytes in one buffer", deepTotal)
	// one buffer through a long life with phases; several buffers interleaved in one goroutine
	names := map[int]string{1: "width", 3: "readback", 4: "peek", 5: "panic"}
	bigPhase := 1<<20 + 5
	if ws == 4 {
		bigPhase = 300000
	}
	nphase, nmulti, msteps := 4, 40, 3000
	if a.Thorough() {
		nphase, nmulti, msteps = 30, 400, 6000
	}
	for i := 0; i < nphase; i++ {
		pseed := rng.Next()
		code, phase, checked := phases(pseed, bigPhase)
		out.GoChecked += checked
		out.Count("phase runs")
		in := List(List(Int(12), Uint(pseed), Int(int64(bigPhase))))
		if code != 0 {
			out.Violation("C19/phases/"+names[code], "one buffer, backlog / complete drain / reuse: "+names[code]+" fails in phase "+strconv.Itoa(phase), List(in, List()))
		}
		if i == 0 {
			out.Case("phases", true, in, run(in))
		}
	}
	for i := 0; i < nmulti; i++ {
		mseed := rng.Next()
		nbuf := 2 + i%3
		code, step, checked := multi(mseed, nbuf, msteps)
		out.GoChecked += checked
		out.Count("multi-buffer runs")
		in := List(List(Int(13), Uint(mseed), Int(int64(nbuf)), Int(int64(msteps))))
		if code != 0 {
			out.Violation("C19/multi/"+names[code], strconv.Itoa(nbuf)+" buffers interleaved in one goroutine: "+names[code]+" fails at step "+strconv.Itoa(step), List(in, List()))
		}
		if i < 3 {
			out.Case("multi", true, in, run(in))
		}
	}
	out.Note("phases: %d runs of 16 backlog/drain/reuse phases on one buffer (largest %d bytes); multi: %d runs of %d interleaved steps on 2..4 buffers", nphase, bigPhase, nmulti, msteps)
	// separate Buffers used from separate goroutines at the same time
	crounds := 3000
	if a.Thorough() {
		crounds = 40000
	}
	for rep := 0; rep < 3; rep++ {
		cseed := rng.Next()
		code, checked := concurrent(cseed, 8, crounds)
		out.GoChecked += checked
		out.Count("concurrent runs")
		in := List(List(Int(11), Uint(cseed), Int(8), Int(int64(crounds))))
		if code != 0 {
			what := names[code]
			out.Violation("C19/concurrent/"+what, "8 goroutines with private buffers: "+what+" fails", List(in, List()))
		}
		if rep == 0 {
			out.Case("concurrent", true, List(List(Int(11), Uint(cseed), Int(8), Int(200))), run(List(List(Int(11), Uint(cseed), Int(8), Int(200)))))
		}
	}
	out.Note("concurrent stress: 3 x 8 goroutines x %d rounds of 24 interleaved steps on 3 private buffers each", crounds)
	// every kind written / peeked / read at every exact length within 10 bytes of 2^k
	kmax := uint(24)
	if a.Thorough() {
		kmax = 26
	}
	if ws == 4 {
		kmax = 22
	}
	for k := uint(5); k <= kmax; k++ {
		code, at, checked := boundary(k)
		out.GoChecked += checked
		out.Count("boundary runs")
		in := List(List(Int(10), Int(int64(k))))
		if code != 0 {
			what := map[int]string{1: "width", 2: "layout", 3: "read", 4: "peek", 5: "panic"}[code]
			out.Violation("C19/boundary/"+what, "buffer holding exactly "+strconv.FormatInt(at, 10)+" bytes (around 2^"+strconv.Itoa(int(k))+"): "+what+" fails", List(in, List()))
		}
		if k <= 12 {
			out.Case("boundary", true, in, run(in))
		}
	}
	out.Note("exact-length sweep: every kind at every length within 10 bytes of 2^k, k = 5..%d", kmax)
	nvol := 20000
	if a.Thorough() {
		nvol = 400000
	}
	r := rng.Fork()
	for i := 0; i < nvol; i++ {
		w := genWrites(r, r.Range(1, 24), &Out{Hist: map[string]int{}})
		out.GoChecked++
		if ok, what := holds(w); !ok {
			var ops []Sx
			for _, t := range w {
				ops = append(ops, wop(t))
			}
			for _, t := range w {
				ops = append(ops, rop(t.k))
			}
			out.Violation("C19/go/"+what, "typed buffer property fails in the Go-side sweep: "+what, List(ListOf(ops), List()))
		}
	}
}
