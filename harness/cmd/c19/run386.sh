#!/bin/bash
# C19, thorough tier: the same harness built for GOARCH=386 (word size 4), its cases evaluated by
# the extracted runner, its Go-side sweeps (deep-buffer sweep included) checked.
# Exit status: 1 only for a genuine finding (a case the runner does not accept, a Go-side
# violation, a harness crash, a 386-specific compile error).  A toolchain that is missing or too
# slow (timeouts) is reported as "INCONCLUSIVE: ..." with exit status 0, so that a loaded machine
# cannot turn into a VIOLATION.
set -u
cd "$(dirname "$0")/../.." || exit 0
W=../work/C19_386
mkdir -p "$W" ../work/bin
BUILD_T=${C19_386_BUILD_TIMEOUT:-900}
RUN_T=${C19_386_RUN_TIMEOUT:-600}
timeout "$BUILD_T" env GOARCH=386 go build -tags verif -o ../work/bin/c19_386 ./cmd/c19 >"$W/build.log" 2>&1
rc=$?
if [ $rc -eq 124 ] || [ $rc -eq 137 ]; then echo "INCONCLUSIVE: GOARCH=386 build timed out after ${BUILD_T}s"; exit 0; fi
if [ $rc -ne 0 ]; then
  if grep -qiE "unsupported GOOS/GOARCH|cannot find package|cannot find GOROOT|no such tool|missing go.sum|dial tcp|GOPROXY" "$W/build.log"; then
    echo "INCONCLUSIVE: no usable GOARCH=386 toolchain here: $(tail -c 300 "$W/build.log" | tr '\n' ' ')"; exit 0
  fi
  echo "FAIL: the harness does not compile for GOARCH=386: $(tail -c 600 "$W/build.log" | tr '\n' ' ')"; exit 1
fi
rm -f "$W/cases.sx" "$W/report.json"
timeout "$RUN_T" ../work/bin/c19_386 -seed "${VERIF_SEED:-1}" -tier quick -out "$W" >"$W/run.log" 2>&1
rc=$?
if [ $rc -eq 124 ] || [ $rc -eq 137 ]; then echo "INCONCLUSIVE: 386 harness run timed out after ${RUN_T}s"; exit 0; fi
if [ $rc -eq 126 ] || grep -qi "exec format error" "$W/run.log"; then echo "INCONCLUSIVE: 386 binaries do not execute on this machine"; exit 0; fi
if [ $rc -ne 0 ] || [ ! -s "$W/report.json" ]; then echo "FAIL: 386 harness exited with status $rc: $(tail -c 600 "$W/run.log" | tr '\n' ' ')"; exit 1; fi
python3 - "$W/report.json" <<'PY' || exit 1
import json, sys
r = json.load(open(sys.argv[1]))
gv = r.get("go_violations") or []
for v in gv[:5]:
    print("FAIL: 386 Go-side violation %s: %s %s" % (v["signature"], v["what"], v["case"][:200]))
print("386 harness: %d cases, %d Go-side evaluations, notes: %s" % (r["cases"], r["go_checked"], "; ".join(r.get("notes") or [])))
sys.exit(1 if gv else 0)
PY
RUNNER=../work/runner/C19/runner
if [ ! -x "$RUNNER" ]; then echo "INCONCLUSIVE: extracted runner not built"; exit 0; fi
( ulimit -s unlimited 2>/dev/null; timeout "$RUN_T" "$RUNNER" "$W/cases.sx" ) >"$W/verdicts.txt" 2>&1
rc=$?
if [ $rc -eq 124 ] || [ $rc -eq 137 ]; then echo "INCONCLUSIVE: runner timed out on the 386 cases"; exit 0; fi
awk 'NF==3 && $1 ~ /^[0-9]+$/ {bad++; if (bad<=5) print "FAIL: 386 case " $1 " verdict " $2 " " $3} /^DONE/{d=$2} END{ if (bad) exit 1; if (!d) {print "FAIL: runner did not finish"; exit 1}; print "386 cases accepted by the runner: " d }' "$W/verdicts.txt"
