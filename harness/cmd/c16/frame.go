// Frame classes: the shape of the argument slice is part of the input.  Messages are windows
// buf[off:off+n] of a larger patterned buffer, with a chosen spare capacity behind the window
// (0, 1, bs-1, bs, 2bs, everything that is left), processed in place or into a window of a
// second buffer; packets lie back to back and are processed in any order.  After every call
// the whole buffer is recorded: every byte outside the window must be unchanged.
//
//	input    = (8 bs mul key iv encbuf decbuf seed1 len1 seed2 len2 ((k off n spare doff) ...))   toy block
//	           (9 name key iv seed1 len1 ((k off n spare) ...))                                  factory cipher
//	observed = (panicked (written_buffer_after_op ...) final_buf1 final_buf2)
//	           (panicked ((buffer_after_op ref) ...))
package main

import (
	"fmt"
	"time"

	stdcipher "crypto/cipher"

	xcipher "qchen.fun/fatchoy/x/cipher"
	. "verifharness/common"
)

// window of buf with exactly `spare` bytes of capacity behind it (clipped to the buffer)
func window(buf []byte, off, n, spare int) []byte {
	c := off + n + spare
	if c > len(buf) {
		c = len(buf)
	}
	return buf[off : off+n : c]
}

func runToyBuffer(in Sx) Sx {
	blk := &toyBlock{bs: in.At(1).AsInt(), mul: byte(in.At(2).AsInt()), key: in.At(3).AsBytes()}
	iv := exact(in.At(4).AsBytes())
	encbuf, decbuf := exact(in.At(5).AsBytes()), exact(in.At(6).AsBytes())
	b1 := place(lcg(in.At(7).Uint64(), in.At(8).AsInt()), int(in.At(7).Uint64()%8))
	b2 := place(lcg(in.At(9).Uint64(), in.At(10).AsInt()), int(in.At(9).Uint64()%8))
	ops := in.At(11)
	var obs []Sx
	failed := guard(60*time.Second, func() {
		for i := 0; i < ops.Len(); i++ {
			o := ops.At(i)
			k, off, n, spare, doff := o.At(0).AsInt(), o.At(1).AsInt(), o.At(2).AsInt(), o.At(3).AsInt(), o.At(4).AsInt()
			src := window(b1, off, n, spare)
			dst := src
			if k >= 2 {
				dst = window(b2, doff, n, spare)
			}
			if k%2 == 0 {
				xcipher.VerifEncrypt(blk, iv, dst, src, encbuf)
			} else {
				xcipher.VerifDecrypt(blk, iv, dst, src, decbuf)
			}
			if k >= 2 {
				obs = append(obs, Bytes(b2))
			} else {
				obs = append(obs, Bytes(b1))
			}
		}
	})
	if failed {
		return List(Bool(true), List(), Bytes(nil), Bytes(nil))
	}
	return List(Bool(false), ListOf(obs), Bytes(b1), Bytes(b2))
}

func runFactoryBuffer(in Sx) Sx {
	name, key, iv := in.At(1).AsString(), in.At(2).AsBytes(), in.At(3).AsBytes()
	b1 := place(lcg(in.At(4).Uint64(), in.At(5).AsInt()), int(in.At(4).Uint64()%8))
	ops := in.At(6)
	var obs []Sx
	failed := guard(60*time.Second, func() {
		enc := xcipher.NewCrypt(name, exact(key), exact(iv))
		dec := xcipher.NewCrypt(name, exact(key), exact(iv))
		for i := 0; i < ops.Len(); i++ {
			o := ops.At(i)
			k, off, n, spare := o.At(0).AsInt(), o.At(1).AsInt(), o.At(2).AsInt(), o.At(3).AsInt()
			before := exact(b1[off : off+n])
			var ref []byte
			var err error
			if k == 0 {
				ref, err = reference(name, key, iv, before)
			} else {
				ref, err = referenceDecrypt(name, key, iv, before)
			}
			if err != nil {
				panic(err)
			}
			w := window(b1, off, n, spare)
			if k == 0 {
				enc.Encrypt(w)
			} else {
				dec.Decrypt(w)
			}
			obs = append(obs, List(Bytes(b1), Bytes(ref)))
		}
	})
	if failed {
		return List(Bool(true), List())
	}
	return List(Bool(false), ListOf(obs))
}

// stock decryption for a factory name (CFB decrypter / the same keystream xor / identity)
func referenceDecrypt(name string, key, iv, ct []byte) ([]byte, error) {
	if name == "salsa20" || name == "none" {
		return reference(name, key, iv, ct)
	}
	mk := refBlocks["aes-256"]
	if f, ok := refBlocks[name]; ok {
		mk = f
	}
	blk, err := mk(key)
	if err != nil {
		return nil, err
	}
	if len(iv) < blk.BlockSize() {
		return nil, fmt.Errorf("iv shorter than a block")
	}
	out := make([]byte, len(ct))
	stdcipher.NewCFBDecrypter(blk, iv[:blk.BlockSize()]).XORKeyStream(out, ct)
	return out, nil
}

// layout: packets back to back from a start offset 0..17; every packet is encrypted (shuffled
// order), then every packet decrypted (another order); spare capacities from the boundary set
func frameLayout(rng *Rng, bs, buflen int) (offs, lens []int) {
	off := rng.Intn(18)
	for off < buflen {
		n := rng.PickInt(0, 1, bs-1, bs, bs+1, 2*bs-1, 3*bs+rng.Intn(bs), 7*bs+rng.Intn(bs), 8*bs, 8*bs+1+rng.Intn(bs-1), 9*bs+rng.Intn(bs), rng.Intn(5*bs))
		if off+n > buflen {
			break
		}
		offs, lens = append(offs, off), append(lens, n)
		off += n
		if rng.Chance(1, 5) {
			off += rng.Intn(4) // a small gap
		}
		if len(offs) >= 7 {
			break
		}
	}
	return
}

func spareOf(rng *Rng, bs int) int {
	return rng.PickInt(0, 1, bs-1, bs, 2*bs, 1<<20, 1<<20, 1<<20)
}

func perm(rng *Rng, n int) []int {
	p := make([]int, n)
	for i := range p {
		p[i] = i
	}
	for i := n - 1; i > 0; i-- {
		j := rng.Intn(i + 1)
		p[i], p[j] = p[j], p[i]
	}
	return p
}

func frameCases(a Args, out *Out, rng *Rng) {
	ntoy, nfac := 40, 3
	if a.Thorough() {
		ntoy, nfac = 600, 40
	}
	for _, bs := range []int{8, 16} {
		for s := 0; s < ntoy; s++ {
			buflen := rng.Range(12*bs, 30*bs)
			offs, lens := frameLayout(rng, bs, buflen)
			var ops []Sx
			for _, i := range perm(rng, len(offs)) {
				k, doff := 0, 0
				if rng.Chance(1, 5) {
					k, doff = 2, rng.Intn(buflen-lens[i]+1)
				}
				ops = append(ops, Ints(int64(k), int64(offs[i]), int64(lens[i]), int64(spareOf(rng, bs)), int64(doff)))
			}
			for _, i := range perm(rng, len(offs)) {
				k, doff := 1, 0
				if rng.Chance(1, 5) {
					k, doff = 3, rng.Intn(buflen-lens[i]+1)
				}
				ops = append(ops, Ints(int64(k), int64(offs[i]), int64(lens[i]), int64(spareOf(rng, bs)), int64(doff)))
			}
			in := List(Int(0+8), Int(int64(bs)), Int(int64(rng.Intn(256)|1)), Bytes(rng.Bytes(bs)), Bytes(rng.Bytes(rng.Range(bs, 48))),
				Bytes(rng.Bytes(bs)), Bytes(rng.Bytes(2*bs)),
				Uint(uint64(rng.Intn(1<<16))), Int(int64(buflen)), Uint(uint64(rng.Intn(1<<16))), Int(int64(buflen)), ListOf(ops))
			out.Case(fmt.Sprintf("toy%d-buffer", bs), len(ops) > 0, in, run(in))
			out.CountN("frame:toy-ops", len(ops))
		}
	}
	for _, rc := range factoryNames {
		bs := blockSizeOf(rc.name)
		for s := 0; s < nfac; s++ {
			buflen := rng.Range(12*bs, 30*bs)
			offs, lens := frameLayout(rng, bs, buflen)
			var ops []Sx
			for _, i := range perm(rng, len(offs)) {
				ops = append(ops, Ints(0, int64(offs[i]), int64(lens[i]), int64(spareOf(rng, bs))))
			}
			for _, i := range perm(rng, len(offs)) {
				ops = append(ops, Ints(1, int64(offs[i]), int64(lens[i]), int64(spareOf(rng, bs))))
			}
			in := List(Int(9), Str(rc.name), Bytes(rng.Bytes(32)), Bytes(rng.Bytes(rng.Range(16, 48))),
				Uint(uint64(rng.Intn(1<<16))), Int(int64(buflen)), ListOf(ops))
			out.Case("factory-buffer", len(ops) > 0, in, run(in))
			out.CountN("frame:factory-ops", len(ops))
		}
	}
}
