// C16 harness: packet ciphers (x/cipher).
//
// Cases (evaluated by coq/C16/Run.v):
//
//	input  = (0 bs mul key iv encbuf0 decbuf0 (op ...))   toy cipher.Block driven through the
//	         exported unrolled encrypt/decrypt on ONE instance (scratch buffers carried over)
//	           op = (0 seed len) Encrypt(lcg)  (1 j 0) Decrypt(output of op j)  (2 seed len) Decrypt(lcg)
//	         (1 key iv seed len)   salsa20 via NewCrypt;  (2 seed len)  none via NewCrypt
//	         (3 name key iv ((seed len) ...))  a cipher made by the factory NewCrypt(name, key, iv):
//	            the messages are encrypted in order on one instance and decrypted in reverse
//	            order on a second one; ref = crypto/cipher CFB (salsa20.XORKeyStream, identity)
//	         (4 bs mul key iv dec seed len)  crypto/cipher's own CFB stream over the toy block
//	         (5 name key iv seed len)        factory slicing: key / iv of any length; observed carries an oracle
//	            table: for every stock cipher c and n in {16,24,32,len(key)} that can be keyed with key[:n],
//	            stock CFB of the message under iv[:bs] (salsa20: key[:32], nonce iv[:8] zero padded)
//	         (6 name keyA ivA keyB ivB seed len)  two instances whose key or iv differ in one byte
//	         (7 key iv ((name keylen) ...) seed len)  one secret given to many names in one process, in this order
//	observed = (ctor_panicked run_panicked enc dec ((c n ref) ...)) | (panickedA encA panickedB encB) |
//	           (panicked (out ...)) | (keystream enc dec) | (enc dec) | (panicked ((enc dec ref) ...)) | (panicked out)
//
// Go-side sweep (out.GoChecked / out.Violation): every factory name against crypto/cipher's
// CFB with the same key and the first block of the IV, round trip, decryption out of order
// and after losses, for every length 0..4096; the toy sessions against stdlib CFB too.
package main

import (
	"bytes"
	"crypto/aes"
	stdcipher "crypto/cipher"
	"crypto/des"
	"fmt"
	"io"
	"log"
	"os"
	"runtime"
	"strings"
	"sync"
	"time"
	"unsafe"

	"github.com/tjfoc/gmsm/sm4"
	"golang.org/x/crypto/salsa20"
	"golang.org/x/crypto/twofish"
	"golang.org/x/crypto/xtea"

	xcipher "qchen.fun/fatchoy/x/cipher"
	. "verifharness/common"
)

// ---- shared with Run.v ----

func lcg(seed uint64, n int) []byte {
	b := make([]byte, n)
	x := seed & 65535
	for i := range b {
		x = (141*x + 13849) & 65535
		b[i] = byte(x >> 8)
	}
	return b
}

// toy block cipher: out[i] = mul*b[i] + key[i mod |key|] + b[(i+1) mod bs] + i  (mod 256)
type toyBlock struct {
	bs  int
	mul byte
	key []byte
}

func (t *toyBlock) BlockSize() int { return t.bs }
func (t *toyBlock) Encrypt(dst, src []byte) {
	if len(src) < t.bs {
		panic("toy: input not full block")
	}
	if len(dst) < t.bs {
		panic("toy: output not full block")
	}
	var tmp [64]byte
	for i := 0; i < t.bs; i++ {
		tmp[i] = t.mul*src[i] + t.key[i%len(t.key)] + src[(i+1)%t.bs] + byte(i)
	}
	copy(dst, tmp[:t.bs])
}
func (t *toyBlock) Decrypt(dst, src []byte) { panic("toy: Decrypt is never used by CFB") }

// ---- run: re-execute one input on the real code ----

var replayMode bool

// longInput: a toy session or factory session with a message of 16 KiB or more
func longInput(in Sx) bool {
	var specs Sx
	switch in.At(0).AsInt() {
	case 0:
		specs = in.At(7)
	case 3:
		specs = in.At(4)
	default:
		return false
	}
	for i := 0; i < specs.Len(); i++ {
		e := specs.At(i)
		if e.At(e.Len()-1).AsInt() >= 16384 || (e.Len() == 3 && e.At(2).AsInt() >= 16384) {
			return true
		}
	}
	return false
}

// failing: does the observation contradict the stock implementation (Go-side judgement, used
// only to pick which of several attempts of a replay to report)
func failing(in, obs Sx) bool {
	switch in.At(0).AsInt() {
	case 0:
		if obs.At(0).AsBool() {
			return len(in.At(4).AsBytes()) >= in.At(1).AsInt()
		}
		bad, _, _ := toyBad(in, obs)
		return bad
	case 3:
		if obs.At(0).AsBool() {
			return true
		}
		specs := in.At(4)
		for i := 0; i < specs.Len(); i++ {
			msg := lcg(specs.At(i).At(0).Uint64(), specs.At(i).At(1).AsInt())
			o := obs.At(1).At(i)
			if !bytes.Equal(o.At(0).AsBytes(), o.At(2).AsBytes()) || !bytes.Equal(o.At(1).AsBytes(), msg) {
				return true
			}
		}
	}
	return false
}

// run: in replay mode a long input is attempted with GOMAXPROCS = 1, default, 2, 1 and the
// first failing observation is the one reported (code that hands long messages to goroutines
// may fail only under some schedules; with one P the goroutines run one after the other)
func run(in Sx) Sx {
	if !replayMode || !longInput(in) {
		return runOnce(in)
	}
	var first Sx
	for k, procs := range []int{1, 0, 2, 1} {
		old := runtime.GOMAXPROCS(0)
		if procs > 0 {
			runtime.GOMAXPROCS(procs)
		}
		obs := runOnce(in)
		runtime.GOMAXPROCS(old)
		if k == 0 {
			first = obs
		}
		if failing(in, obs) {
			return obs
		}
	}
	return first
}

func runOnce(in Sx) Sx {
	switch in.At(0).AsInt() {
	case 0:
		return runToy(in)
	case 1:
		key, iv := in.At(1).AsBytes(), in.At(2).AsBytes()
		msg := lcg(in.At(3).Uint64(), in.At(4).AsInt())
		ks := make([]byte, len(msg))
		var k32 [32]byte
		var nonce [8]byte
		copy(k32[:], key)
		copy(nonce[:], iv)
		salsa20.XORKeyStream(ks, ks, nonce[:], &k32) // the oracle keystream, from the library itself
		var enc, dec []byte
		Catch(func() {
			a := xcipher.NewCrypt("salsa20", append([]byte(nil), key...), append([]byte(nil), iv...))
			b := xcipher.NewCrypt("salsa20", append([]byte(nil), key...), append([]byte(nil), iv...))
			enc = append([]byte{}, a.Encrypt(pm(msg, in.At(3).Uint64(), 0))...)
			dec = append([]byte{}, b.Decrypt(pm(enc, in.At(3).Uint64(), 3))...)
		})
		return List(Bytes(ks), Bytes(enc), Bytes(dec))
	case 2:
		msg := lcg(in.At(1).Uint64(), in.At(2).AsInt())
		var enc, dec []byte
		Catch(func() {
			a := xcipher.NewCrypt("none", nil, nil)
			enc = append([]byte{}, a.Encrypt(pm(msg, in.At(1).Uint64(), 0))...)
			dec = append([]byte{}, a.Decrypt(pm(enc, in.At(1).Uint64(), 3))...)
		})
		return List(Bytes(enc), Bytes(dec))
	case 3:
		return runFactory(in)
	case 5:
		return runSlicing(in)
	case 7:
		return runFamily(in)
	case 8:
		return runToyBuffer(in)
	case 9:
		return runFactoryBuffer(in)
	case 10:
		return runDuplex(in)
	case 11:
		return runDirect(in)
	case 12:
		return runParallel(in)
	case 13:
		return runOwner(in)
	case 6:
		msg := lcg(in.At(6).Uint64(), in.At(7).AsInt())
		one := func(key, iv []byte) (bool, []byte) {
			var enc []byte
			p, _ := Catch(func() {
				c := xcipher.NewCrypt(in.At(1).AsString(), exact(key), exact(iv))
				enc = append([]byte{}, c.Encrypt(pm(msg, in.At(6).Uint64(), 0))...)
			})
			return p, enc
		}
		pa, ea := one(in.At(2).AsBytes(), in.At(3).AsBytes())
		pb, eb := one(in.At(4).AsBytes(), in.At(5).AsBytes())
		return List(Bool(pa), Bytes(ea), Bool(pb), Bytes(eb))
	case 4:
		// crypto/cipher's CFB stream itself over the toy block (the model std_cfb is compared with it)
		blk := &toyBlock{bs: in.At(1).AsInt(), mul: byte(in.At(2).AsInt()), key: in.At(3).AsBytes()}
		iv := in.At(4).AsBytes()
		src := lcg(in.At(6).Uint64(), in.At(7).AsInt())
		dst := make([]byte, len(src))
		p, _ := Catch(func() {
			if in.At(5).AsBool() {
				stdcipher.NewCFBDecrypter(blk, iv).XORKeyStream(dst, src)
			} else {
				stdcipher.NewCFBEncrypter(blk, iv).XORKeyStream(dst, src)
			}
		})
		if p {
			return List(Bool(true), Bytes(nil))
		}
		return List(Bool(false), Bytes(dst))
	}
	return List()
}

// reference for a factory name: crypto/cipher CFB over an independently constructed block
// keyed with the first block of the IV; salsa20.XORKeyStream; identity.
func reference(name string, key, iv, msg []byte) ([]byte, error) {
	want := make([]byte, len(msg))
	switch name {
	case "salsa20":
		if len(key) < 32 {
			return nil, fmt.Errorf("salsa20 needs a 32-byte key")
		}
		var k32 [32]byte
		var nonce [8]byte
		copy(k32[:], key)
		copy(nonce[:], iv)
		salsa20.XORKeyStream(want, msg, nonce[:], &k32)
		return want, nil
	case "none":
		copy(want, msg)
		return want, nil
	}
	mk := refBlocks["aes-256"] // the factory's default branch
	if f, ok := refBlocks[name]; ok {
		mk = f
	}
	blk, err := mk(key)
	if err != nil {
		return nil, err
	}
	if len(iv) < blk.BlockSize() {
		return nil, fmt.Errorf("iv shorter than a block")
	}
	stdcipher.NewCFBEncrypter(blk, iv[:blk.BlockSize()]).XORKeyStream(want, msg)
	return want, nil
}

var refBlocks = map[string]func(k []byte) (stdcipher.Block, error){
	"aes-128": func(k []byte) (stdcipher.Block, error) { return aes.NewCipher(k[:16]) },
	"aes-192": func(k []byte) (stdcipher.Block, error) { return aes.NewCipher(k[:24]) },
	"aes-256": func(k []byte) (stdcipher.Block, error) { return aes.NewCipher(k[:32]) },
	"sm4":     func(k []byte) (stdcipher.Block, error) { return sm4.NewCipher(k[:16]) },
	"twofish": func(k []byte) (stdcipher.Block, error) { return twofish.NewCipher(k) },
	"3des":    func(k []byte) (stdcipher.Block, error) { return des.NewTripleDESCipher(k[:24]) },
	"xtea":    func(k []byte) (stdcipher.Block, error) { return xtea.NewCipher(k[:16]) },
}

// guard runs f like Catch, and gives up after d (a hang counts as a failure and is reported
// like a panic; the goroutine is abandoned)
func guard(d time.Duration, f func()) (failed bool) {
	done := make(chan bool, 1)
	go func() {
		p, _ := Catch(f)
		done <- p
	}()
	select {
	case p := <-done:
		return p
	case <-time.After(d):
		return true
	}
}

// place returns a copy of b whose first byte sits at address = mis (mod 8) and whose capacity
// equals its length: packet bodies are sliced at arbitrary offsets of a read buffer, and the
// 8-byte code path goes through unsafe 64-bit loads, so alignment is part of the input.  The
// misalignment of every buffer is derived from the case's seed, hence reproducible on replay.
func place(b []byte, mis int) []byte {
	buf := make([]byte, len(b)+16)
	off := (mis - int(uintptr(unsafe.Pointer(&buf[0]))%8) + 16) % 8
	copy(buf[off:], b)
	return buf[off : off+len(b) : off+len(b)]
}

// a copy whose capacity equals its length (key[:n] must fail when the key is too short)
// pm places a message buffer at the misalignment derived from its seed (k distinguishes the
// buffers of one case)
func pm(b []byte, seed uint64, k int) []byte {
	if len(b) == 0 && seed%2 == 1 {
		return nil // values are part of the input domain: the nil message
	}
	return place(b, int((seed+uint64(k))%8))
}

func exact(b []byte) []byte {
	c := make([]byte, len(b))
	copy(c, b)
	return c
}

var stockCiphers = []struct {
	id int64
	mk func(k []byte) (stdcipher.Block, error)
}{
	{1, func(k []byte) (stdcipher.Block, error) { return aes.NewCipher(k) }},
	{2, func(k []byte) (stdcipher.Block, error) { return sm4.NewCipher(k) }},
	{3, func(k []byte) (stdcipher.Block, error) { return twofish.NewCipher(k) }},
	{4, func(k []byte) (stdcipher.Block, error) { return des.NewTripleDESCipher(k) }},
	{5, func(k []byte) (stdcipher.Block, error) { return xtea.NewCipher(k) }},
}

// the oracle table: nothing here knows the factory's names
func oracleTable(key, iv, msg []byte) []Sx {
	var t []Sx
	seen := map[int]bool{}
	for _, n := range []int{16, 24, 32, len(key)} {
		if n > len(key) || seen[n] {
			continue
		}
		seen[n] = true
		for _, sc := range stockCiphers {
			var blk stdcipher.Block
			var err error
			if p, _ := Catch(func() { blk, err = sc.mk(exact(key[:n])) }); p || err != nil || blk == nil {
				continue
			}
			if len(iv) < blk.BlockSize() {
				continue
			}
			ref := make([]byte, len(msg))
			stdcipher.NewCFBEncrypter(blk, exact(iv[:blk.BlockSize()])).XORKeyStream(ref, msg)
			t = append(t, List(Int(sc.id), Int(int64(n)), Bytes(ref)))
		}
	}
	{
		// salsa20 keyed as copy() into [32]byte / [8]byte does it (zero padded or truncated)
		var k32 [32]byte
		var nonce [8]byte
		copy(k32[:], key)
		copy(nonce[:], iv)
		ref := make([]byte, len(msg))
		salsa20.XORKeyStream(ref, msg, nonce[:], &k32)
		t = append(t, List(Int(6), Int(32), Bytes(ref)))
	}
	return t
}

func runSlicing(in Sx) Sx {
	name := in.At(1).AsString()
	return runInstance(in, func(key, iv []byte) xcipher.BlockCryptor { return xcipher.NewCrypt(name, key, iv) })
}

// the exported constructors, by the names the model's new_direct uses
var directCtors = map[string]func(key, iv []byte) xcipher.BlockCryptor{
	"aes": xcipher.NewAESCFB, "3des": xcipher.NewTripleDES, "sm4": xcipher.NewSM4, "twofish": xcipher.NewTwofish,
	"xtea": xcipher.NewXTEA, "salsa20": xcipher.NewSalsa20, "none": xcipher.NewNoneCrypt,
}

func runDirect(in Sx) Sx {
	mk := directCtors[in.At(1).AsString()]
	if mk == nil {
		mk = func(key, iv []byte) xcipher.BlockCryptor { panic("no such constructor") }
	}
	return runInstance(in, mk)
}

// (_ _ key iv seed len) -> (ctor_panicked run_panicked enc dec table accessor_panicked Key() IV())
func runInstance(in Sx, mk func(key, iv []byte) xcipher.BlockCryptor) Sx {
	key, iv := in.At(2).AsBytes(), in.At(3).AsBytes()
	msg := lcg(in.At(4).Uint64(), in.At(5).AsInt())
	var a, b xcipher.BlockCryptor
	cp := guard(20*time.Second, func() {
		a = mk(exact(key), exact(iv))
		b = mk(exact(key), exact(iv))
	})
	var enc, dec, ka, va []byte
	rp, accp := false, false
	if !cp {
		accp = guard(20*time.Second, func() {
			ka = append([]byte{}, a.Key()...)
			va = append([]byte{}, a.IV()...)
		})
		rp = guard(20*time.Second, func() {
			enc = append([]byte{}, a.Encrypt(pm(msg, in.At(4).Uint64(), 0))...)
			dec = append([]byte{}, b.Decrypt(pm(enc, in.At(4).Uint64(), 3))...)
		})
	}
	if rp {
		enc, dec = nil, nil
	}
	return List(Bool(cp), Bool(rp), Bytes(enc), Bytes(dec), ListOf(oracleTable(key, iv, msg)), Bool(accp), Bytes(ka), Bytes(va))
}

// one secret, many names, one process: all instances are created first (in the given
// order), then a second set for decryption, then every one encrypts the same message
func runFamily(in Sx) Sx {
	key, iv, entries := in.At(1).AsBytes(), in.At(2).AsBytes(), in.At(3)
	msg := lcg(in.At(4).Uint64(), in.At(5).AsInt())
	n := entries.Len()
	// shared: every instance is built from the very same key and IV buffers (one backing
	// array each), as a server keying all its ciphers from one secret would do
	shared := in.Len() > 6 && in.At(6).AsBool()
	sharedKey, sharedIV := exact(key), exact(iv)
	encI := make([]xcipher.BlockCryptor, n)
	decI := make([]xcipher.BlockCryptor, n)
	cp := make([]bool, n)
	for pass := 0; pass < 2; pass++ {
		for i := 0; i < n; i++ {
			name, kl := entries.At(i).At(0).AsString(), entries.At(i).At(1).AsInt()
			if kl > len(key) {
				kl = len(key)
			}
			p := guard(20*time.Second, func() {
				kbuf, vbuf := exact(key[:kl]), exact(iv)
				if shared {
					kbuf, vbuf = sharedKey[:kl:kl], sharedIV
				}
				c := xcipher.NewCrypt(name, kbuf, vbuf)
				if pass == 0 {
					encI[i] = c
				} else {
					decI[i] = c
				}
			})
			cp[i] = cp[i] || p
		}
	}
	res := make([]Sx, n)
	for i := 0; i < n; i++ {
		var enc, dec []byte
		rp := false
		if !cp[i] {
			rp = guard(20*time.Second, func() {
				enc = append([]byte{}, encI[i].Encrypt(pm(msg, in.At(4).Uint64(), i))...)
				dec = append([]byte{}, decI[i].Decrypt(pm(enc, in.At(4).Uint64(), i+3))...)
			})
		}
		if rp {
			enc, dec = nil, nil
		}
		res[i] = List(Bool(cp[i]), Bool(rp), Bytes(enc), Bytes(dec), Bytes(nil))
	}
	// the same message once more on every instance, in the reverse order, after all the
	// others have been used (instances alive at once must not share scratch or key state)
	for i := n - 1; i >= 0; i-- {
		if cp[i] || res[i].At(1).AsBool() {
			continue
		}
		var enc2 []byte
		if guard(20*time.Second, func() { enc2 = append([]byte{}, encI[i].Encrypt(pm(msg, in.At(4).Uint64(), i+5))...) }) {
			res[i] = List(Bool(false), Bool(true), Bytes(nil), Bytes(nil), Bytes(nil))
			continue
		}
		res[i] = List(res[i].At(0), res[i].At(1), res[i].At(2), res[i].At(3), Bytes(enc2))
	}
	return List(ListOf(res), ListOf(oracleTable(key, iv, msg)))
}

func runFactory(in Sx) Sx {
	name, key, iv := in.At(1).AsString(), in.At(2).AsBytes(), in.At(3).AsBytes()
	specs := in.At(4)
	n := specs.Len()
	encs := make([][]byte, n)
	decs := make([][]byte, n)
	refs := make([][]byte, n)
	panicked := guard(60*time.Second, func() {
		a := xcipher.NewCrypt(name, append([]byte(nil), key...), append([]byte(nil), iv...))
		b := xcipher.NewCrypt(name, append([]byte(nil), key...), append([]byte(nil), iv...))
		for i := 0; i < n; i++ {
			msg := lcg(specs.At(i).At(0).Uint64(), specs.At(i).At(1).AsInt())
			ref, err := reference(name, key, iv, msg)
			if err != nil {
				panic(err)
			}
			refs[i] = ref
			encs[i] = append([]byte{}, a.Encrypt(pm(msg, specs.At(i).At(0).Uint64(), 0))...)
		}
		for i := n - 1; i >= 0; i-- {
			decs[i] = append([]byte{}, b.Decrypt(pm(encs[i], specs.At(i).At(0).Uint64(), 3))...)
		}
	})
	if panicked {
		return List(Bool(true), List())
	}
	obs := make([]Sx, n)
	for i := range obs {
		obs[i] = List(Bytes(encs[i]), Bytes(decs[i]), Bytes(refs[i]))
	}
	return List(Bool(false), ListOf(obs))
}

func runToy(in Sx) Sx {
	blk := &toyBlock{bs: in.At(1).AsInt(), mul: byte(in.At(2).AsInt()), key: in.At(3).AsBytes()}
	iv := append([]byte(nil), in.At(4).AsBytes()...)
	// exact-capacity scratch buffers (buf[:bs] must fail when the buffer is too short), at an
	// alignment derived from the key
	ka := 0
	if len(blk.key) > 0 {
		ka = int(blk.key[0])
	}
	encbuf := place(in.At(5).AsBytes(), ka%8)
	decbuf := place(in.At(6).AsBytes(), (ka/8)%8)
	ops := in.At(7)
	var outs []Sx
	var raw [][]byte
	panicked := guard(60*time.Second, func() {
		for i := 0; i < ops.Len(); i++ {
			o := ops.At(i)
			kind := o.At(0).AsInt()
			var src []byte
			mis := int(o.At(1).Uint64() % 8)
			switch kind % 3 {
			case 0, 2:
				src = place(lcg(o.At(1).Uint64(), o.At(2).AsInt()), mis)
				if len(src) == 0 && o.At(1).Uint64()%2 == 1 {
					src = nil // the nil message
				}
			case 1:
				j := o.At(1).AsInt()
				mis = (3*j + 1) % 8
				if j >= 0 && j < len(raw) {
					src = place(raw[j], mis)
				}
			}
			dst := src // kinds 0..2: in place, as every cryptor does
			if kind >= 3 {
				dst = place(make([]byte, len(src)), (5*mis+2)%8) // kinds 3..5: separate destination
			}
			if kind%3 == 0 {
				xcipher.VerifEncrypt(blk, iv, dst, src, encbuf)
			} else {
				xcipher.VerifDecrypt(blk, iv, dst, src, decbuf)
			}
			raw = append(raw, dst)
			outs = append(outs, Bytes(dst))
		}
	})
	if panicked {
		return List(Bool(true), List())
	}
	return List(Bool(false), ListOf(outs))
}

// ---- generation ----

type genState struct {
	rng *Rng
	out *Out
}

// at most 3 recorded violations per signature (Out keeps 50 in all)
var violCount = map[string]int{}

// acc collects what one worker of a Go-side sweep finds; the workers run in parallel, each
// with its own PRNG stream forked in a fixed order, and are merged in that order.
type acc struct {
	GoChecked int64
	viols     []GoViolation
	counts    []string
	notes     []string
}

func (a *acc) Count(k string) { a.counts = append(a.counts, k) }
func (a *acc) Note(f string, args ...interface{}) {
	a.notes = append(a.notes, fmt.Sprintf(f, args...))
}
func (a *acc) violation(sig, what string, c Sx) {
	if len(a.viols) < 8 {
		a.viols = append(a.viols, GoViolation{Signature: sig, What: what, Case: c.String()})
	}
}
func (a *acc) merge(out *Out) {
	out.GoChecked += a.GoChecked
	for _, k := range a.counts {
		out.Count(k)
	}
	for _, n := range a.notes {
		out.Note("%s", n)
	}
	for _, v := range a.viols {
		c, err := Parse(v.Case)
		if err == nil {
			violation(out, v.Signature, v.What, c)
		}
	}
}

func violation(out *Out, sig, what string, c Sx) {
	violCount[sig]++
	if violCount[sig] <= 3 {
		out.Violation(sig, what, c)
	}
}

func opEnc(seed uint64, n int) Sx { return List(Int(0), Uint(seed), Int(int64(n))) }
func opDecOf(j int) Sx            { return List(Int(1), Int(int64(j)), Int(0)) }
func opDec(seed uint64, n int) Sx { return List(Int(2), Uint(seed), Int(int64(n))) }

// one session on one instance: the given lengths are encrypted in order; the ciphertexts are
// then decrypted in a shuffled order, some dropped, some twice, interleaved with raw decrypts
// and further encryptions.
func (g *genState) session(kind string, bs int, lens []int, ivlen, eblen, dblen int) {
	rng := g.rng
	key := rng.Bytes(bs)
	mul := byte(rng.Intn(256)) | 1
	iv := rng.Bytes(ivlen)
	var ops []Sx
	var encIdx []int
	for _, n := range lens {
		encIdx = append(encIdx, len(ops))
		ops = append(ops, opEnc(uint64(rng.Intn(1<<16)), n))
		if rng.Chance(1, 4) && len(encIdx) > 0 { // decrypt something early, between encryptions
			ops = append(ops, opDecOf(encIdx[rng.Intn(len(encIdx))]))
			g.out.Count("op:dec-interleaved")
		}
	}
	// shuffled order
	perm := append([]int(nil), encIdx...)
	for i := len(perm) - 1; i > 0; i-- {
		j := rng.Intn(i + 1)
		perm[i], perm[j] = perm[j], perm[i]
	}
	for _, j := range perm {
		if len(perm) > 2 && rng.Chance(1, 8) {
			g.out.Count("op:lost")
			continue // lost packet
		}
		ops = append(ops, opDecOf(j))
		if rng.Chance(1, 10) {
			ops = append(ops, opDecOf(j)) // duplicate delivery
			g.out.Count("op:dec-duplicate")
		}
		if rng.Chance(1, 10) {
			ops = append(ops, opDec(uint64(rng.Intn(1<<16)), rng.PickInt(0, 1, bs-1, bs, bs+1, 8*bs, 8*bs+3, rng.Intn(200))))
			g.out.Count("op:dec-raw")
		}
	}
	for i, o := range ops {
		if rng.Chance(1, 4) { // same call into a separate destination (kinds 3, 4, 5)
			ops[i] = List(Int(o.At(0).Int64()+3), o.At(1), o.At(2))
			g.out.Count("op:separate-dst")
		}
	}
	in := List(Int(0), Int(int64(bs)), Int(int64(mul)), Bytes(key), Bytes(iv), Bytes(rng.Bytes(eblen)), Bytes(rng.Bytes(dblen)), ListOf(ops))
	obs := run(in)
	nontrivial := false
	for _, n := range lens {
		if n > 0 {
			nontrivial = true
		}
		g.out.Count(fmt.Sprintf("len-mod-block:%d", n%bs))
		g.out.Count(fmt.Sprintf("blocks-mod-8:%d", (n/bs)%8))
		switch {
		case n == 0:
			g.out.Count("len:0")
		case n < bs:
			g.out.Count("len:<block")
		case n < 8*bs:
			g.out.Count("len:<stride")
		case n%(8*bs) == 0:
			g.out.Count("len:stride-multiple")
		default:
			g.out.Count("len:other")
		}
	}
	g.out.Count(fmt.Sprintf("ivlen:%d", ivlen))
	g.out.CountN("ops", len(ops))
	g.out.Case(kind, nontrivial, in, obs)
	g.toyVsStdlib(in, obs)
}

// Go-side: the toy sessions against crypto/cipher CFB over the same toy block.
func toyBad(in, obs Sx) (bad bool, op, n int) {
	bs := in.At(1).AsInt()
	blk := &toyBlock{bs: bs, mul: byte(in.At(2).AsInt()), key: in.At(3).AsBytes()}
	iv := in.At(4).AsBytes()
	if obs.At(0).AsBool() || len(iv) < bs {
		return false, 0, 0
	}
	ops, outs := in.At(7), obs.At(1)
	for i := 0; i < ops.Len(); i++ {
		o := ops.At(i)
		got := outs.At(i).AsBytes()
		var src, want []byte
		switch o.At(0).AsInt() % 3 {
		case 0:
			src = lcg(o.At(1).Uint64(), o.At(2).AsInt())
			want = make([]byte, len(src))
			stdcipher.NewCFBEncrypter(blk, iv[:bs]).XORKeyStream(want, src)
		case 1:
			src = outs.At(o.At(1).AsInt()).AsBytes()
			want = make([]byte, len(src))
			stdcipher.NewCFBDecrypter(blk, iv[:bs]).XORKeyStream(want, src)
		default:
			src = lcg(o.At(1).Uint64(), o.At(2).AsInt())
			want = make([]byte, len(src))
			stdcipher.NewCFBDecrypter(blk, iv[:bs]).XORKeyStream(want, src)
		}
		if !bytes.Equal(got, want) {
			return true, i, len(src)
		}
	}
	return false, 0, 0
}

func (g *genState) toyVsStdlib(in, obs Sx) {
	if obs.At(0).AsBool() {
		return
	}
	g.out.GoChecked += int64(in.At(7).Len())
	if bad, i, n := toyBad(in, obs); bad {
		bs := in.At(1).AsInt()
		violation(g.out, fmt.Sprintf("C16/stdlib-cfb/toy%d", bs), fmt.Sprintf("unrolled CFB over a toy %d-byte block differs from crypto/cipher CFB (op %d, length %d)", bs, i, n), in)
	}
}

// quick tier: every length 0..300, every multiple of 64 +-1 up to 1024, and a seed-chosen
// third of the multiples of 64 +-1 above (all of them are swept Go-side by toySweep)
func lengthsQuick(rng *Rng) []int {
	var l []int
	for n := 0; n <= 300; n++ {
		l = append(l, n)
	}
	for m := 320; m <= 4096; m += 64 {
		if m <= 1024 || rng.Chance(1, 3) || m == 4096 {
			l = append(l, m-1, m, m+1)
		}
	}
	return l
}

// Go-side: the unrolled code over the toy block against crypto/cipher CFB over the same
// block, both directions, at EVERY length 0..4096 for both block sizes, on one pair of
// scratch buffers carried through the whole sweep.
func toySweep(out *Out, rng0 *Rng) func() {
	var wg sync.WaitGroup
	accs := make([]*acc, 2)
	for w, bs := range []int{8, 16} {
		accs[w] = &acc{}
		wg.Add(1)
		go toySweepOne(accs[w], rng0.Fork(), bs, &wg)
	}
	return func() {
		wg.Wait()
		for _, a := range accs {
			a.merge(out)
		}
		out.Note("Go-side toy sweep: both block sizes x every length 0..4096 through the unrolled code vs crypto/cipher CFB and round trip, scratch buffers carried")
	}
}

func toySweepOne(out *acc, rng *Rng, bs int, wg *sync.WaitGroup) {
	defer wg.Done()
	{
		blk := &toyBlock{bs: bs, mul: byte(rng.Intn(256)) | 1, key: rng.Bytes(bs)}
		iv := rng.Bytes(rng.Range(bs, 48))
		encbuf, decbuf := rng.Bytes(bs), rng.Bytes(2*bs)
		order := make([]int, 4097)
		for i := range order {
			order[i] = i
		}
		for i := len(order) - 1; i > 0; i-- {
			j := rng.Intn(i + 1)
			order[i], order[j] = order[j], order[i]
		}
		for _, n := range order {
			seed := uint64(rng.Intn(1 << 16))
			msg := lcg(seed, n)
			in := List(Int(0), Int(int64(bs)), Int(int64(blk.mul)), Bytes(blk.key), Bytes(iv), Bytes(encbuf), Bytes(decbuf),
				List(opEnc(seed, n), opDecOf(0)))
			ct := place(msg, int(seed%8)) // the placements runToy uses for these two ops
			want := make([]byte, n)
			var back []byte
			p, _ := Catch(func() {
				xcipher.VerifEncrypt(blk, iv, ct, ct, encbuf)
				stdcipher.NewCFBEncrypter(blk, iv[:bs]).XORKeyStream(want, msg)
				back = place(ct, 1)
				xcipher.VerifDecrypt(blk, iv, back, back, decbuf)
			})
			out.GoChecked += 2
			if p || !bytes.Equal(ct, want) {
				out.violation(fmt.Sprintf("C16/stdlib-cfb/toy%d", bs), fmt.Sprintf("unrolled CFB over a toy %d-byte block differs from crypto/cipher CFB (length %d)", bs, n), in)
			} else if !bytes.Equal(back, msg) {
				out.violation(fmt.Sprintf("C16/roundtrip/toy%d", bs), fmt.Sprintf("decrypt(encrypt(m)) != m over a toy %d-byte block (length %d)", bs, n), in)
			}
		}
	}
}

func gen(a Args, out *Out) {
	g := &genState{rng: NewRng(a.Seed), out: out}
	rng := g.rng
	// the Go-side sweeps run in the background while the cases are generated
	finishToy := toySweep(out, rng.Fork())
	finishFactory := factorySweep(a, out, rng.Fork())
	finishLong := longSweep(a, out, rng.Fork())
	serialRng := rng.Fork()
	finishSweeps := func() { finishToy(); finishFactory(); finishLong(); longSweepSerial(out, serialRng) }
	// long messages through the model too (extracted runner only: the lines exceed the in-Coq limit)
	nlong := 1
	if a.Thorough() {
		nlong = 6
	}
	for _, bs := range []int{8, 16} {
		for i := 0; i < nlong; i++ {
			n := 32768 + rng.Intn(6000)
			if i > 0 {
				n = 1<<uint(15+i%3) + rng.PickInt(0, 1, -1, bs-1, bs, bs+1, 8*bs-1)
			}
			g.session(fmt.Sprintf("toy%d-long", bs), bs, []int{n}, rng.Range(bs, 48), bs, 2*bs)
		}
	}
	var lens []int
	if a.Thorough() {
		for n := 0; n <= 4097; n++ {
			lens = append(lens, n)
		}
	} else {
		lens = lengthsQuick(rng)
	}
	for _, bs := range []int{8, 16} {
		// shuffle the lengths, cut into sessions of 1..5 messages
		ls := append([]int(nil), lens...)
		for i := len(ls) - 1; i > 0; i-- {
			j := rng.Intn(i + 1)
			ls[i], ls[j] = ls[j], ls[i]
		}
		for len(ls) > 0 {
			k := rng.Range(1, 5)
			if k > len(ls) {
				k = len(ls)
			}
			ivlen := rng.Range(bs, 48)
			if rng.Chance(1, 3) {
				ivlen = bs
			}
			eb, db := bs, 2*bs
			if rng.Chance(1, 6) {
				eb, db = bs+rng.Intn(9), 2*bs+rng.Intn(9)
			}
			g.session(fmt.Sprintf("toy%d", bs), bs, ls[:k], ivlen, eb, db)
			ls = ls[k:]
		}
		// small sessions (eligible for the in-Coq sample): many short messages
		for s := 0; s < 60; s++ {
			k := rng.Range(2, 8)
			var sl []int
			for i := 0; i < k; i++ {
				sl = append(sl, rng.PickInt(0, 1, bs-1, bs, bs+1, 2*bs, 7*bs, 7*bs+bs-1, 8*bs-1, 8*bs, 8*bs+1, 9*bs+rng.Intn(bs), 16*bs, 16*bs+rng.Intn(bs), rng.Intn(20*bs)))
			}
			g.session(fmt.Sprintf("toy%d", bs), bs, sl, rng.Range(bs, 48), bs, 2*bs)
		}
	}
	// panic classes: iv shorter than a block, scratch too short, unsupported block size
	for s := 0; s < 12; s++ {
		bs := rng.PickInt(8, 16)
		g.session("short-iv", bs, []int{rng.Intn(100)}, rng.Intn(bs), bs, 2*bs)
		g.session("short-buf", bs, []int{rng.Intn(100)}, bs, rng.Intn(bs), 2*bs)
		g.session("short-buf", bs, []int{rng.Intn(100)}, bs, bs, bs+rng.Intn(bs))
		g.session("bad-block-size", rng.PickInt(1, 4, 12, 24, 32), []int{rng.Intn(100)}, 48, 32, 64)
	}
	for s := 0; s < 6; s++ { // unsupported block size reached through decrypt
		bs := rng.PickInt(1, 4, 12, 24, 32)
		in := List(Int(0), Int(int64(bs)), Int(int64(rng.Intn(256)|1)), Bytes(rng.Bytes(bs)), Bytes(rng.Bytes(48)), Bytes(rng.Bytes(32)), Bytes(rng.Bytes(64)),
			List(opDec(uint64(rng.Intn(1<<16)), rng.Intn(100))))
		out.Case("bad-block-size", true, in, run(in))
	}
	directCases(a, out, rng.Fork())
	// stream cipher and none
	nstream := 120
	if a.Thorough() {
		nstream = 1200
	}
	for s := 0; s < nstream; s++ {
		n := rng.PickInt(0, 1, 63, 64, 65, 127, 128, 129, rng.Intn(300), rng.Intn(300), rng.Intn(2000))
		in := List(Int(1), Bytes(rng.Bytes(32)), Bytes(rng.Bytes(rng.Range(8, 48))), Uint(uint64(rng.Intn(1<<16))), Int(int64(n)))
		out.Case("salsa20", n > 0, in, run(in))
		in = List(Int(2), Uint(uint64(rng.Intn(1<<16))), Int(int64(n)))
		out.Case("none", n > 0, in, run(in))
	}
	// the stock CFB stream over the toy block (correspondence of the model std_cfb)
	nstd := 150
	if a.Thorough() {
		nstd = 1500
	}
	for s := 0; s < nstd; s++ {
		bs := rng.PickInt(8, 16)
		ivlen := bs
		if rng.Chance(1, 12) {
			ivlen = rng.PickInt(bs-1, bs+1, 0, 2*bs) // newCFB panics
		}
		n := rng.PickInt(0, 1, bs-1, bs, bs+1, 3*bs+rng.Intn(bs), 8*bs, rng.Intn(20*bs), rng.Intn(20*bs))
		in := List(Int(4), Int(int64(bs)), Int(int64(rng.Intn(256)|1)), Bytes(rng.Bytes(bs)), Bytes(rng.Bytes(ivlen)),
			Bool(rng.Bool()), Uint(uint64(rng.Intn(1<<16))), Int(int64(n)))
		out.Case("stdlib", n > 0, in, run(in))
	}
	// ciphers made by the factory, as cases (real-cipher output travels as an oracle table)
	nfac := 16
	if a.Thorough() {
		nfac = 160
	}
	for _, rc := range factoryNames {
		for s := 0; s < nfac; s++ {
			bs := 16
			if rc.name == "3des" || rc.name == "xtea" {
				bs = 8
			}
			k := rng.Range(1, 4)
			var specs []Sx
			nontrivial := false
			for i := 0; i < k; i++ {
				n := rng.PickInt(0, 1, bs-1, bs, bs+1, 7*bs+rng.Intn(bs), 8*bs-1, 8*bs, 8*bs+1, 16*bs, 17*bs+rng.Intn(bs), rng.Intn(30*bs))
				nontrivial = nontrivial || n > 0
				specs = append(specs, List(Uint(uint64(rng.Intn(1<<16))), Int(int64(n))))
			}
			in := List(Int(3), Str(rc.name), Bytes(rng.Bytes(32)), Bytes(rng.Bytes(rng.Range(16, 48))), ListOf(specs))
			out.Case("factory", nontrivial, in, run(in))
			out.Count("factory-case:" + rc.name)
		}
	}
	slicingCases(a, out, rng.Fork())
	familyCases(a, out, rng.Fork())
	frameCases(a, out, rng.Fork())
	structuredKeyCases(a, out, rng.Fork())
	finishSweeps()
	ownerCases(a, out, rng.Fork())
	duplexCases(a, out, rng.Fork())
	parallelCases(a, out, rng.Fork())
}

// one secret handed to every factory name inside one process, in several creation orders and
// with several prefix lengths: every instance must be independent of what was created before
func familyCases(a Args, out *Out, rng *Rng) {
	names := []string{"aes-128", "aes-192", "aes-256", "", "sm4", "twofish", "3des", "xtea", "salsa20", "none"}
	rounds := 3
	if a.Thorough() {
		rounds = 30
	}
	emit := func(key, iv []byte, entries []Sx, what string) {
		in := List(Int(7), Bytes(key), Bytes(iv), ListOf(entries), Uint(uint64(rng.Intn(1<<16))), Int(int64(rng.Range(17, 40))))
		if strings.HasSuffix(what, "/shared-buffer") {
			in = List(Int(7), Bytes(key), Bytes(iv), ListOf(entries), in.At(4), in.At(5), Int(1))
		}
		obs := run(in)
		out.Case("family", true, in, obs)
		out.Count("family:" + what)
		// Go-side: each instance against stock CFB for ITS OWN cipher, keyed as the harness's
		// independent reference slices the secret
		msg := lcg(in.At(4).Uint64(), in.At(5).AsInt())
		for i, e := range entries {
			name, kl := e.At(0).AsString(), e.At(1).AsInt()
			var want []byte
			var err error
			if p, _ := Catch(func() { want, err = reference(name, exact(key[:kl]), iv, msg) }); p || err != nil {
				continue // the secret is too short for this name
			}
			if name == "twofish" && kl != 16 && kl != 24 && kl != 32 {
				continue
			}
			r := obs.At(0).At(i)
			out.GoChecked++
			nm := name
			if nm == "" {
				nm = "default"
			}
			switch {
			case r.At(0).AsBool() || r.At(1).AsBool():
				violation(out, "C16/factory/"+nm+"/shared-secret-panic", fmt.Sprintf("cipher %q keyed with the first %d bytes of a secret also given to other ciphers in the same process panics", name, kl), in)
			case !bytes.Equal(r.At(2).AsBytes(), want):
				violation(out, "C16/factory/"+nm+"/shared-secret", fmt.Sprintf("cipher %q keyed with the first %d bytes of a secret also given to other ciphers in the same process: ciphertext is not stock CFB for its own cipher", name, kl), in)
			case !bytes.Equal(r.At(3).AsBytes(), msg):
				violation(out, "C16/factory/"+nm+"/shared-secret-roundtrip", fmt.Sprintf("cipher %q, shared secret: decrypt(encrypt(m)) != m", name), in)
			}
		}
	}
	shuffle := func(l []Sx) []Sx {
		c := append([]Sx(nil), l...)
		for i := len(c) - 1; i > 0; i-- {
			j := rng.Intn(i + 1)
			c[i], c[j] = c[j], c[i]
		}
		return c
	}
	for r := 0; r < rounds; r++ {
		key := rng.Bytes(32)
		iv := rng.Bytes(rng.PickInt(16, 48))
		var whole, prefixes []Sx
		for _, nme := range names {
			whole = append(whole, List(Str(nme), Int(32)))
			for _, kl := range []int{16, 24, 32} {
				prefixes = append(prefixes, List(Str(nme), Int(int64(kl))))
			}
		}
		rev := append([]Sx(nil), whole...)
		for i, j := 0, len(rev)-1; i < j; i, j = i+1, j-1 {
			rev[i], rev[j] = rev[j], rev[i]
		}
		emit(key, iv, whole, "all-names-in-order")
		emit(rng.Bytes(32), iv, rev, "all-names-reversed")
		emit(rng.Bytes(32), iv, shuffle(whole), "all-names-shuffled")
		emit(rng.Bytes(32), iv, whole, "all-names-in-order/shared-buffer")
		emit(rng.Bytes(32), iv, rev, "all-names-reversed/shared-buffer")
		emit(rng.Bytes(32), iv, shuffle(whole), "all-names-shuffled/shared-buffer")
		emit(rng.Bytes(32), iv, shuffle(prefixes), "names-x-prefix-lengths-shuffled/shared-buffer")
		emit(rng.Bytes(32), iv, shuffle(prefixes), "names-x-prefix-lengths-shuffled")
		emit(rng.Bytes(32), iv, shuffle(prefixes), "names-x-prefix-lengths-shuffled")
		// two names at a time (every ordered pair over the rounds)
		i, j := rng.Intn(len(names)), rng.Intn(len(names))
		emit(rng.Bytes(32), iv, []Sx{List(Str(names[i]), Int(32)), List(Str(names[j]), Int(32))}, "pair")
		// a 40-byte secret: twofish refuses it, everything else takes its prefix
		emit(rng.Bytes(40), iv, shuffle(append(append([]Sx(nil), whole...), List(Str("twofish"), Int(40)), List(Str("aes-128"), Int(40)))), "40-byte-secret")
	}
}

// the exported constructors called directly, with every key length 0..40 (the refusal of a
// wrong key size is the constructor's log.Panicf branch) and ivs of every interesting length
func directCases(a Args, out *Out, rng *Rng) {
	ctors := []string{"aes", "3des", "sm4", "twofish", "xtea", "salsa20", "none"}
	for _, c := range ctors {
		for kl := 0; kl <= 40; kl++ {
			if !a.Thorough() && kl%8 != 0 && kl%8 != 1 && kl%8 != 7 && !rng.Chance(1, 6) {
				continue
			}
			il := rng.PickInt(0, 7, 8, 9, 15, 16, 17, 24, 48, 16, 48)
			in := List(Int(11), Str(c), Bytes(rng.Bytes(kl)), Bytes(rng.Bytes(il)), Uint(uint64(rng.Intn(1<<16))), Int(int64(rng.PickInt(0, 0, 1, 17, 33, rng.Range(17, 40)))))
			obs := run(in)
			out.Case("direct", true, in, obs)
			if obs.At(0).AsBool() {
				out.Count("direct:constructor-panics")
			} else {
				out.Count("direct:made")
			}
		}
	}
}

// factory slicing: keys and ivs of every interesting length; pairs differing in one byte
func slicingCases(a Args, out *Out, rng *Rng) {
	names := []string{"aes-128", "aes-192", "aes-256", "", "sm4", "twofish", "3des", "xtea", "salsa20", "none",
		"AES-128", "aes-512", "des", "chacha20", "aes-12", "aes-1280", "aes-128 ", "3des\x00", "none ", "twofis", "xteaa", "salsa2", "SM4", "aes-192/aes-128"}
	keyLens := []int{0, 8, 15, 16, 17, 23, 24, 25, 31, 32, 33, 40}
	ivLens := []int{0, 7, 8, 9, 15, 16, 17, 24, 48}
	per := 10
	if a.Thorough() {
		per = 108
	}
	for _, name := range names {
		for s := 0; s < per; s++ {
			kl, il := keyLens[rng.Intn(len(keyLens))], ivLens[rng.Intn(len(ivLens))]
			if a.Thorough() {
				kl, il = keyLens[s%len(keyLens)], ivLens[(s/len(keyLens))%len(ivLens)]
			} else if s < 4 {
				kl, il = []int{16, 24, 32, 40}[s], rng.PickInt(16, 24, 48) // every key length a name may accept, iv long enough
			}
			in := List(Int(5), Str(name), Bytes(rng.Bytes(kl)), Bytes(rng.Bytes(il)), Uint(uint64(rng.Intn(1<<16))), Int(int64(rng.Range(17, 40))))
			obs := run(in)
			out.Case("slicing", true, in, obs)
			switch {
			case obs.At(0).AsBool():
				out.Count("slicing:factory-panics")
			case obs.At(1).AsBool():
				out.Count("slicing:first-call-panics")
			default:
				out.Count("slicing:ok")
			}
		}
		// one-byte differences at the slice boundaries
		for _, kl := range []int{32, 40} {
			key, iv := rng.Bytes(kl), rng.Bytes(48)
			flip := func(b []byte, i int) []byte {
				c := exact(b)
				c[i] ^= byte(2 << uint(rng.Intn(7))) // never bit 0: DES ignores the parity bit of every key byte
				return c
			}
			emit := func(kb, ib []byte, what string) {
				in := List(Int(6), Str(name), Bytes(key), Bytes(iv), Bytes(kb), Bytes(ib), Uint(uint64(rng.Intn(1<<16))), Int(int64(rng.Range(17, 40))))
				obs := run(in)
				out.Case("slicing-pair", true, in, obs)
				if bytes.Equal(obs.At(1).AsBytes(), obs.At(3).AsBytes()) {
					out.Count("pair:" + what + ":same-output")
				} else {
					out.Count("pair:" + what + ":different-output")
				}
			}
			for _, i := range []int{0, 15, 16, 23, 24, 31, 32, 39} {
				if i < kl && (a.Thorough() || rng.Chance(2, 3)) {
					emit(flip(key, i), iv, "key")
				}
			}
			for _, i := range []int{0, 7, 8, 15, 16, 47} {
				if a.Thorough() || rng.Chance(2, 3) {
					emit(key, flip(iv, i), "iv")
				}
			}
		}
	}
}

// ---- long messages (the property: "all message lengths 0..4096 exhaustively and sampled beyond") ----

// lengths 4097..8192 sampled, then 2^k and 2^k +- {1, bs-1, bs, bs+1} for k = 13..20 (1 MiB).
// quick: all nine offsets for k <= 16, a seed-chosen pair of offsets above; thorough: all.
func longLengths(bs int, thorough bool, rng *Rng) []int {
	var l []int
	ns := 12
	if thorough {
		ns = 200
	}
	for i := 0; i < ns; i++ {
		l = append(l, rng.Range(4097, 8192))
	}
	offs := []int{0, 1, -1, bs - 1, -(bs - 1), bs, -bs, bs + 1, -(bs + 1)}
	for k := 13; k <= 20; k++ {
		if thorough || k <= 16 {
			for _, o := range offs {
				l = append(l, 1<<uint(k)+o)
			}
		} else {
			l = append(l, 1<<uint(k)+offs[rng.Intn(len(offs))], 1<<uint(k)+offs[rng.Intn(len(offs))])
		}
	}
	return l
}

// a few long lengths for the GOMAXPROCS(1) pass
func longLengthsSerial(bs int, rng *Rng) []int {
	return []int{1<<15 + bs + 1, 1<<16 - 1, 1<<17 + rng.Intn(2*bs), 1<<18 - bs + 1}
}

// toy block through the unrolled code: in place and into a separate destination, both
// directions against crypto/cipher CFB, round trip; scratch buffers carried.
func toyLong(out *acc, rng *Rng, bs int, lens []int, tag string) {
	blk := &toyBlock{bs: bs, mul: byte(rng.Intn(256)) | 1, key: rng.Bytes(bs)}
	iv := rng.Bytes(rng.Range(bs, 48))
	encbuf, decbuf := rng.Bytes(bs), rng.Bytes(2*bs)
	for _, n := range lens {
		seed := uint64(rng.Intn(1 << 16))
		msg := lcg(seed, n)
		in := List(Int(0), Int(int64(bs)), Int(int64(blk.mul)), Bytes(blk.key), Bytes(iv), Bytes(encbuf), Bytes(decbuf),
			List(opEnc(seed, n), opDecOf(0)))
		want := make([]byte, n)
		stdcipher.NewCFBEncrypter(blk, iv[:bs]).XORKeyStream(want, msg)
		// the placements runToy uses for (0 seed n) (1 0 0), resp. (3 seed n) (4 0 0)
		mis := int(seed % 8)
		inSep := List(Int(0), Int(int64(bs)), Int(int64(blk.mul)), Bytes(blk.key), Bytes(iv), Bytes(encbuf), Bytes(decbuf),
			List(List(Int(3), Uint(seed), Int(int64(n))), List(Int(4), Int(0), Int(0))))
		ct := place(msg, mis)
		ct2 := place(make([]byte, n), (5*mis+2)%8)
		var back []byte
		back2 := place(make([]byte, n), 7)
		stdback := make([]byte, n)
		p := guard(60*time.Second, func() {
			xcipher.VerifEncrypt(blk, iv, ct, ct, encbuf)
			xcipher.VerifEncrypt(blk, iv, ct2, place(msg, mis), encbuf)
			back = place(ct, 1)
			xcipher.VerifDecrypt(blk, iv, back, back, decbuf)
			xcipher.VerifDecrypt(blk, iv, back2, place(want, 1), decbuf)
			stdcipher.NewCFBDecrypter(blk, iv[:bs]).XORKeyStream(stdback, ct)
		})
		out.GoChecked += 5
		sig, what := "", ""
		switch {
		case p:
			sig, what = "panic", "panics"
		case !bytes.Equal(ct, want):
			sig, what = "stdlib-cfb", "in-place ciphertext differs from crypto/cipher CFB"
		case !bytes.Equal(ct2, want):
			sig, what = "separate-dst", "ciphertext into a separate destination differs from crypto/cipher CFB"
		case !bytes.Equal(back, msg):
			sig, what = "roundtrip", "in-place decrypt(encrypt(m)) != m"
		case !bytes.Equal(back2, msg):
			sig, what = "separate-dst", "decryption into a separate destination does not recover the message"
		case !bytes.Equal(stdback, msg):
			sig, what = "stdlib-cfb", "crypto/cipher CFB decrypter does not recover the message"
		}
		if sig == "separate-dst" {
			in = inSep
		}
		if sig != "" {
			out.violation(fmt.Sprintf("C16/%s/toy%d", sig, bs), fmt.Sprintf("toy %d-byte block, long message of %d bytes (%s): %s", bs, n, tag, what), in)
		}
		out.Count(fmt.Sprintf("long:toy%d:%s", bs, tag))
	}
}

// factory-made ciphers on long messages: Encrypt in place on one instance vs the stock
// implementation, Decrypt on a second instance, stock decrypter on the ciphertext.
func factoryLong(out *acc, rng *Rng, name string, lens []int, tag string) {
	nm := name
	if nm == "" {
		nm = "default"
	}
	key := rng.Bytes(32)
	iv := rng.Bytes(rng.Range(16, 48))
	prev := List(Uint(0), Int(0))
	var enc, dec xcipher.BlockCryptor
	if p := guard(60*time.Second, func() {
		enc = xcipher.NewCrypt(name, exact(key), exact(iv))
		dec = xcipher.NewCrypt(name, exact(key), exact(iv))
	}); p {
		out.violation("C16/factory/"+nm+"/panic", "factory panics", List(Int(3), Str(name), Bytes(key), Bytes(iv), List(prev)))
		return
	}
	for _, n := range lens {
		seed := uint64(rng.Intn(1 << 16))
		msg := lcg(seed, n)
		in := List(Int(3), Str(name), Bytes(key), Bytes(iv), List(prev, List(Uint(seed), Int(int64(n)))))
		want, err := reference(name, key, iv, msg)
		var ct, back []byte
		p := guard(60*time.Second, func() {
			ct = append([]byte{}, enc.Encrypt(pm(msg, seed, 0))...)
			back = append([]byte{}, dec.Decrypt(pm(ct, seed, 3))...)
		})
		out.GoChecked += 2
		sig, what := "", ""
		switch {
		case err != nil:
			sig, what = "reference", err.Error()
		case p:
			sig, what = "panic", "Encrypt / Decrypt panics"
		case !bytes.Equal(ct, want):
			sig, what = "stock-cfb", "ciphertext differs from the stock implementation"
		case !bytes.Equal(back, msg):
			sig, what = "roundtrip", "decrypt(encrypt(m)) != m across two instances"
		}
		if sig == "" {
			if f, ok := refBlocks[name]; ok || (name != "salsa20" && name != "none") {
				if !ok {
					f = refBlocks["aes-256"]
				}
				blk, _ := f(key)
				stdback := make([]byte, n)
				stdcipher.NewCFBDecrypter(blk, iv[:blk.BlockSize()]).XORKeyStream(stdback, ct)
				out.GoChecked++
				if !bytes.Equal(stdback, msg) {
					sig, what = "stock-cfb-decrypt", "crypto/cipher CFB decrypter does not recover the message"
				}
			}
		}
		if sig != "" {
			out.violation("C16/factory/"+nm+"/"+sig, fmt.Sprintf("cipher %q, long message of %d bytes (%s): %s", name, n, tag, what), in)
			return
		}
		prev = List(Uint(seed), Int(int64(n)))
		out.Count("long:" + nm + ":" + tag)
	}
}

func blockSizeOf(name string) int {
	if name == "3des" || name == "xtea" {
		return 8
	}
	return 16
}

// long sweep, default GOMAXPROCS: one worker per toy block size and per factory name
func longSweep(a Args, out *Out, rng0 *Rng) func() {
	var wg sync.WaitGroup
	var accs []*acc
	spawn := func(f func(out *acc, rng *Rng)) {
		ac := &acc{}
		accs = append(accs, ac)
		wg.Add(1)
		go func(rng *Rng) { defer wg.Done(); f(ac, rng) }(rng0.Fork())
	}
	for _, bs := range []int{8, 16} {
		bs := bs
		spawn(func(out *acc, rng *Rng) { toyLong(out, rng, bs, longLengths(bs, a.Thorough(), rng), "default-procs") })
	}
	for _, rc := range factoryNames {
		name := rc.name
		spawn(func(out *acc, rng *Rng) {
			factoryLong(out, rng, name, longLengths(blockSizeOf(name), a.Thorough(), rng), "default-procs")
		})
	}
	return func() {
		wg.Wait()
		for _, ac := range accs {
			ac.merge(out)
		}
		out.Note("Go-side long sweep: toy blocks (in place and separate destination) and every factory name on lengths 4097..8192 sampled and 2^k, 2^k +- {1, bs-1, bs, bs+1} for k = 13..20 (quick: all offsets up to 2^16, two per k above), vs crypto/cipher CFB in both directions and round trip across two instances")
	}
}

// the same code paths with a single P (a cipher that hands long messages to goroutines
// behaves differently when they cannot run in parallel); runs after everything else
func longSweepSerial(out *Out, rng *Rng) {
	old := runtime.GOMAXPROCS(1)
	defer runtime.GOMAXPROCS(old)
	ac := &acc{}
	for _, bs := range []int{8, 16} {
		toyLong(ac, rng, bs, longLengthsSerial(bs, rng), "GOMAXPROCS=1")
	}
	for _, rc := range factoryNames {
		factoryLong(ac, rng, rc.name, longLengthsSerial(blockSizeOf(rc.name), rng), "GOMAXPROCS=1")
	}
	ac.merge(out)
	out.Note("Go-side long sweep repeated with GOMAXPROCS=1 on lengths 2^15+bs+1, 2^16-1, ~2^17, 2^18-bs+1")
}

// ---- Go-side sweep over the factory ----

var factoryNames = []struct{ name string }{
	{"aes-128"}, {"aes-192"}, {"aes-256"}, {""}, {"sm4"}, {"twofish"}, {"3des"}, {"xtea"}, {"salsa20"}, {"none"},
}

func factorySweep(a Args, out *Out, rng0 *Rng) func() {
	maxLen := 4096
	rounds := 1
	if a.Thorough() {
		rounds = 4
	}
	var wg sync.WaitGroup
	var accs []*acc
	for _, rc := range factoryNames {
		parts := 1 // the slow ciphers are split over several workers (lengths n with n % parts == part)
		switch rc.name {
		case "3des":
			parts = 4
		case "xtea", "twofish", "sm4":
			parts = 2
		}
		for part := 0; part < parts; part++ {
			ac := &acc{}
			accs = append(accs, ac)
			wg.Add(1)
			go func(out *acc, rng *Rng, name string, part int) {
				defer wg.Done()
				factorySweepOne(out, rng, name, maxLen, rounds, part, parts)
			}(ac, rng0.Fork(), rc.name, part)
		}
	}
	return func() {
		wg.Wait()
		for _, a := range accs {
			a.merge(out)
		}
		out.Note("Go-side sweep: %d factory names x every length 0..%d x %d key/IV round(s), vs crypto/cipher CFB (block ciphers, both directions), salsa20.XORKeyStream, identity; round trip in shuffled order with losses", len(factoryNames), maxLen, rounds)
	}
}

func factorySweepOne(out *acc, rng *Rng, name string, maxLen, rounds, part, parts int) {
	rc := struct{ name string }{name}
	{
		for r := 0; r < rounds; r++ {
			key := rng.Bytes(32)
			ivlen := rng.Range(16, 48)
			if r == 0 {
				ivlen = 16
			}
			iv := rng.Bytes(ivlen)
			prev := List(Uint(0), Int(0))
			fail := func(code, what string, seed uint64, n int) {
				// replayable: the message before the failing one and the failing one
				in := List(Int(3), Str(rc.name), Bytes(key), Bytes(iv), List(prev, List(Uint(seed), Int(int64(n)))))
				nm := rc.name
				if nm == "" {
					nm = "default"
				}
				out.violation("C16/factory/"+nm+"/"+code, fmt.Sprintf("cipher %q, message length %d: %s", rc.name, n, what), in)
			}
			var enc, dec xcipher.BlockCryptor
			if p, v := Catch(func() {
				enc = xcipher.NewCrypt(rc.name, append([]byte(nil), key...), append([]byte(nil), iv...))
				dec = xcipher.NewCrypt(rc.name, append([]byte(nil), key...), append([]byte(nil), iv...))
			}); p {
				fail("panic", fmt.Sprintf("factory panics: %v", v), 0, 0)
				continue
			}
			// every length, in a shuffled order on the same pair of instances; the ciphertexts
			// are kept and decrypted later in another order, some never (lost)
			var order []int
			for n := part; n <= maxLen; n += parts {
				order = append(order, n)
			}
			for i := len(order) - 1; i > 0; i-- {
				j := rng.Intn(i + 1)
				order[i], order[j] = order[j], order[i]
			}
			type pkt struct {
				seed    uint64
				msg, ct []byte
			}
			var pending []pkt
			bad := false
			flush := func() {
				for i := len(pending) - 1; i > 0; i-- {
					j := rng.Intn(i + 1)
					pending[i], pending[j] = pending[j], pending[i]
				}
				for _, p := range pending {
					if rng.Chance(1, 16) {
						continue
					}
					var got []byte
					pn, _ := Catch(func() { got = dec.Decrypt(pm(p.ct, p.seed, 3)) })
					out.GoChecked++
					if pn || !bytes.Equal(got, p.msg) {
						fail("roundtrip", "decrypt(encrypt(m)) != m (out of order, after losses)", p.seed, len(p.msg))
						bad = true
						return
					}
				}
				pending = pending[:0]
			}
			for _, n := range order {
				seed := uint64(rng.Intn(1 << 16))
				msg := lcg(seed, n)
				var ct []byte
				pn, _ := Catch(func() { ct = append([]byte{}, enc.Encrypt(pm(msg, seed, 0))...) })
				out.GoChecked++
				if pn {
					fail("panic", "Encrypt panics", seed, n)
					bad = true
					break
				}
				if len(ct) != n {
					fail("length", "length changed", seed, n)
					bad = true
					break
				}
				want, err := reference(rc.name, key, iv, msg)
				out.GoChecked++
				if err != nil {
					fail("reference", "reference cipher: "+err.Error(), seed, n)
					bad = true
					break
				}
				if !bytes.Equal(ct, want) {
					fail("stock-cfb", "ciphertext differs from the stock implementation (crypto/cipher CFB with the first block of the IV / salsa20.XORKeyStream / identity)", seed, n)
					bad = true
					break
				}
				if f, ok := refBlocks[rc.name]; ok || (rc.name != "salsa20" && rc.name != "none") {
					if !ok {
						f = refBlocks["aes-256"]
					}
					blk, _ := f(key)
					back := make([]byte, n)
					stdcipher.NewCFBDecrypter(blk, iv[:blk.BlockSize()]).XORKeyStream(back, ct)
					out.GoChecked++
					if !bytes.Equal(back, msg) {
						fail("stock-cfb-decrypt", "crypto/cipher CFB decrypter does not recover the message", seed, n)
						bad = true
						break
					}
				}
				prev = List(Uint(seed), Int(int64(n)))
				pending = append(pending, pkt{seed, msg, ct})
				if len(pending) >= 64 {
					flush()
					if bad {
						break
					}
				}
			}
			if !bad {
				flush()
			}
			out.Count(fmt.Sprintf("factory-sweep:%s:lengths=%d", rc.name, len(order)))
		}
	}
}

func main() {
	log.SetOutput(io.Discard)
	if len(os.Args) > 1 && os.Args[1] == "duplex" {
		duplexMain()
		return
	}
	for _, a := range os.Args[1:] {
		if a == "-replay" || a == "--replay" || strings.HasPrefix(a, "-replay=") || strings.HasPrefix(a, "--replay=") {
			replayMode = true
		}
	}
	Main(run, gen)
}
