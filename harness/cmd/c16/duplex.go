// Duplex class: ONE cryptor instance used by two goroutines at once, one encrypting and one
// decrypting (a connection whose SetEncryptPair got the same object for both halves).  The
// wrappers keep separate scratch arrays per direction, so the two directions share nothing
// but read-only state; every result must still be stock CFB / the original message.
//
//	input    = (10 name key iv seed nmsgs)
//	observed = (panicked bad_encrypts bad_decrypts (dir seed len) | ())
//
// Only names whose clean code is race-free are driven this way: sm4 is left out because the
// gmsm block object keeps scratch words of its own (two calls on one block race in the library).
package main

import (
	"bytes"
	"fmt"
	"os"
	"sync"
	"time"

	xcipher "qchen.fun/fatchoy/x/cipher"
	. "verifharness/common"
)

var duplexNames = []string{"aes-128", "aes-192", "aes-256", "", "twofish", "3des", "xtea", "salsa20", "none"}

// message lengths around the block / stride remainders, plus some long enough for the two
// calls to overlap in time
func duplexLens(rng *Rng, n int) []int {
	l := make([]int, n)
	for i := range l {
		switch rng.Intn(8) {
		case 0, 1, 2:
			l[i] = rng.Intn(50)
		case 3:
			l[i] = rng.PickInt(63, 64, 65, 127, 128, 129, 135, 143)
		case 4, 5:
			l[i] = rng.Range(900, 1500)
		case 6:
			l[i] = rng.Range(4000, 4200)
		default:
			l[i] = rng.Range(16000, 20000)
		}
	}
	return l
}

type duplexMsg struct {
	seed     uint64
	n        int
	in, want []byte
}

func runDuplexOnce(in Sx) Sx {
	name, key, iv := in.At(1).AsString(), in.At(2).AsBytes(), in.At(3).AsBytes()
	rng := NewRng(in.At(4).Uint64())
	n := in.At(5).AsInt()
	mk := func(decrypt bool) []duplexMsg {
		ms := make([]duplexMsg, n)
		for i, ln := range duplexLens(rng, n) {
			seed := uint64(rng.Intn(1 << 16))
			msg := lcg(seed, ln)
			ct, err := reference(name, key, iv, msg)
			if err != nil {
				panic(err)
			}
			if decrypt {
				ms[i] = duplexMsg{seed, ln, ct, msg}
			} else {
				ms[i] = duplexMsg{seed, ln, msg, ct}
			}
		}
		return ms
	}
	var encs, decs []duplexMsg
	badE, badD := 0, 0
	var firstE, firstD *duplexMsg
	failed := guard(120*time.Second, func() {
		encs, decs = mk(false), mk(true)
		c := xcipher.NewCrypt(name, exact(key), exact(iv))
		var wg sync.WaitGroup
		var start sync.WaitGroup
		start.Add(1)
		var pE, pD bool
		wg.Add(2)
		go func() {
			defer wg.Done()
			start.Wait()
			pE, _ = Catch(func() {
				for i := range encs {
					m := &encs[i]
					got := c.Encrypt(pm(m.in, m.seed, 0))
					if !bytes.Equal(got, m.want) {
						badE++
						if firstE == nil {
							firstE = m
						}
					}
				}
			})
		}()
		go func() {
			defer wg.Done()
			start.Wait()
			pD, _ = Catch(func() {
				for i := range decs {
					m := &decs[i]
					got := c.Decrypt(pm(m.in, m.seed, 3))
					if !bytes.Equal(got, m.want) {
						badD++
						if firstD == nil {
							firstD = m
						}
					}
				}
			})
		}()
		start.Done()
		wg.Wait()
		if pE || pD {
			panic("a direction panicked")
		}
	})
	first := List()
	switch {
	case firstE != nil:
		first = List(Int(0), Uint(firstE.seed), Int(int64(firstE.n)))
	case firstD != nil:
		first = List(Int(1), Uint(firstD.seed), Int(int64(firstD.n)))
	}
	return List(Bool(failed), Int(int64(badE)), Int(int64(badD)), first)
}

func duplexFailing(obs Sx) bool {
	return obs.At(0).AsBool() || obs.At(1).AsInt() != 0 || obs.At(2).AsInt() != 0
}

// in replay mode the session is repeated (the failure needs the two calls to overlap)
func runDuplex(in Sx) Sx {
	tries := 1
	if replayMode {
		tries = 8
	}
	var obs Sx
	for k := 0; k < tries; k++ {
		obs = runDuplexOnce(in)
		if duplexFailing(obs) {
			break
		}
	}
	return obs
}

func duplexCases(a Args, out *Out, rng *Rng) {
	n := 160
	if a.Thorough() {
		n = 1500
	}
	for _, name := range duplexNames {
		in := List(Int(10), Str(name), Bytes(rng.Bytes(32)), Bytes(rng.Bytes(rng.Range(16, 48))), Uint(rng.Next()>>1), Int(int64(n)))
		obs := run(in)
		out.Case("duplex", true, in, obs)
		out.GoChecked += int64(2 * n)
		out.CountN("duplex:calls", 2*n)
		if duplexFailing(obs) {
			nm := name
			if nm == "" {
				nm = "default"
			}
			violation(out, "C16/factory/"+nm+"/duplex", fmt.Sprintf("cipher %q: Encrypt and Decrypt running at the same time on one instance interfere (%d bad encryptions, %d bad decryptions, first %s)", name, obs.At(1).AsInt(), obs.At(2).AsInt(), obs.At(3).String()), in)
		}
	}
}

// `c16 duplex`: the class alone, bigger, for `go run -race` (thorough tier): exit status 1 on
// a wrong result; the race detector itself reports races of the clean code
func duplexMain() {
	rng := NewRng(7)
	bad := false
	for r := 0; r < 3; r++ {
		for _, name := range duplexNames {
			in := List(Int(10), Str(name), Bytes(rng.Bytes(32)), Bytes(rng.Bytes(rng.Range(16, 48))), Uint(rng.Next()>>1), Int(400))
			obs := runDuplexOnce(in)
			if duplexFailing(obs) {
				fmt.Printf("duplex %q: %s\n", name, obs.String())
				bad = true
			}
		}
	}
	for r := 0; r < 3; r++ {
		in := List(Int(12), Uint(rng.Next()>>1), Int(200))
		obs := runParallelOnce(in)
		if parallelFailing(obs) {
			fmt.Printf("parallel: %s\n", obs.String())
			bad = true
		}
	}
	if bad {
		os.Exit(1)
	}
	fmt.Println("duplex: ok")
}

// Parallel class: every factory name gets its OWN pair of instances and its own goroutine,
// all running at the same time (package-level scratch or caches shared between instances
// would show here and nowhere in a single-goroutine run).
//
//	input    = (12 seed nmsgs)
//	observed = (panicked (bad_results_of_name_i ...))
var parallelNames = []string{"aes-128", "aes-192", "aes-256", "", "sm4", "twofish", "3des", "xtea", "salsa20", "none"}

func runParallelOnce(in Sx) Sx {
	rng := NewRng(in.At(1).Uint64())
	n := in.At(2).AsInt()
	bad := make([]int, len(parallelNames))
	type job struct {
		key, iv []byte
		seeds   []uint64
		lens    []int
	}
	jobs := make([]job, len(parallelNames))
	for i := range jobs {
		jobs[i] = job{key: rng.Bytes(32), iv: rng.Bytes(rng.Range(16, 48)), lens: duplexLens(rng, n)}
		for range jobs[i].lens {
			jobs[i].seeds = append(jobs[i].seeds, uint64(rng.Intn(1<<16)))
		}
	}
	failed := guard(120*time.Second, func() {
		var wg, start sync.WaitGroup
		start.Add(1)
		panicked := make([]bool, len(parallelNames))
		for i, name := range parallelNames {
			wg.Add(1)
			go func(i int, name string) {
				defer wg.Done()
				j := jobs[i]
				panicked[i], _ = Catch(func() {
					enc := xcipher.NewCrypt(name, exact(j.key), exact(j.iv))
					dec := xcipher.NewCrypt(name, exact(j.key), exact(j.iv))
					start.Wait()
					for m := range j.lens {
						msg := lcg(j.seeds[m], j.lens[m])
						want, err := reference(name, j.key, j.iv, msg)
						if err != nil {
							panic(err)
						}
						ct := enc.Encrypt(pm(msg, j.seeds[m], 0))
						if !bytes.Equal(ct, want) {
							bad[i]++
							continue
						}
						if back := dec.Decrypt(pm(ct, j.seeds[m], 3)); !bytes.Equal(back, msg) {
							bad[i]++
						}
					}
				})
			}(i, name)
		}
		start.Done()
		wg.Wait()
		for _, p := range panicked {
			if p {
				panic("an instance panicked")
			}
		}
	})
	res := make([]Sx, len(bad))
	for i, b := range bad {
		res[i] = Int(int64(b))
	}
	return List(Bool(failed), ListOf(res))
}

func parallelFailing(obs Sx) bool {
	if obs.At(0).AsBool() {
		return true
	}
	for i := 0; i < obs.At(1).Len(); i++ {
		if obs.At(1).At(i).AsInt() != 0 {
			return true
		}
	}
	return false
}

func runParallel(in Sx) Sx {
	tries := 1
	if replayMode {
		tries = 8
	}
	var obs Sx
	for k := 0; k < tries; k++ {
		obs = runParallelOnce(in)
		if parallelFailing(obs) {
			break
		}
	}
	return obs
}

func parallelCases(a Args, out *Out, rng *Rng) {
	rounds, n := 2, 60
	if a.Thorough() {
		rounds, n = 10, 300
	}
	for r := 0; r < rounds; r++ {
		in := List(Int(12), Uint(rng.Next()>>1), Int(int64(n)))
		obs := run(in)
		out.Case("parallel", true, in, obs)
		out.GoChecked += int64(2 * n * len(parallelNames))
		if parallelFailing(obs) {
			violation(out, "C16/factory/parallel", "instances of different ciphers used at the same time by different goroutines give wrong results: "+obs.String(), in)
		}
	}
}
