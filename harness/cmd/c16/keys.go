// Structured keys: keys are structured inputs.  Besides random keys every factory name is
// keyed with secrets whose 8-byte parts repeat (k1==k2, k2==k3, k1==k3, all equal), all-zero
// and all-0xFF secrets, secrets differing only in the DES parity bits, DES weak and semi-weak
// keys as parts, repeated 16-byte halves, and IVs that are zero / 0xFF / repeated blocks / a
// prefix of the key.  The cases are kind-5 slicing cases: the ciphertext must be stock CFB of
// the cipher and key prefix the model selects (oracle table built from the stock libraries:
// crypto/aes, crypto/des NewTripleDESCipher, twofish, xtea, sm4, salsa20), not only round trip.
package main

import (
	"bytes"
	"encoding/hex"

	. "verifharness/common"
)

func unhex(s string) []byte {
	b, err := hex.DecodeString(s)
	if err != nil {
		panic(err)
	}
	return b
}

var desSpecialParts = [][]byte{
	unhex("0101010101010101"), unhex("fefefefefefefefe"), unhex("e0e0e0e0f1f1f1f1"), unhex("1f1f1f1f0e0e0e0e"), // weak
	unhex("01fe01fe01fe01fe"), unhex("fe01fe01fe01fe01"), unhex("1fe01fe00ef10ef1"), unhex("e01fe01ff10ef10e"), // semi-weak
	unhex("01e001e001f101f1"), unhex("e001e001f101f101"), unhex("1ffe1ffe0efe0efe"), unhex("fe1ffe1ffe0efe0e"),
	unhex("0000000000000000"), unhex("ffffffffffffffff"),
}

func cat(parts ...[]byte) []byte { return bytes.Join(parts, nil) }

// secrets of 32 bytes built from 8-byte parts
func structuredKeys(rng *Rng) (keys [][]byte, what []string) {
	add := func(w string, k []byte) { keys, what = append(keys, k), append(what, w) }
	a, b, c, d := rng.Bytes(8), rng.Bytes(8), rng.Bytes(8), rng.Bytes(8)
	add("k1=k2", cat(a, a, c, d))
	add("k2=k3", cat(a, b, b, d))
	add("k1=k3", cat(a, b, a, d))
	add("k1=k2=k3", cat(a, a, a, d))
	add("k3=k4", cat(a, b, c, c))
	add("all-parts-equal", cat(a, a, a, a))
	add("halves-equal", cat(a, b, a, b))
	add("all-zero", make([]byte, 32))
	add("all-ff", bytes.Repeat([]byte{0xff}, 32))
	// parity: the same secret with the low bit of every byte cleared / set / flipped in one part
	base := rng.Bytes(32)
	lo0, lo1, mix := exact(base), exact(base), exact(base)
	for i := range base {
		lo0[i] &^= 1
		lo1[i] |= 1
		if i/8 == 1 {
			mix[i] ^= 1
		}
	}
	add("parity-clear", lo0)
	add("parity-set", lo1)
	add("parity-part2-flipped", mix)
	// k1 and k2 equal up to parity bits (equal as DES keys, different as bytes)
	a1 := exact(a)
	for i := range a1 {
		a1[i] ^= 1
	}
	add("k1=k2-up-to-parity", cat(a, a1, c, d))
	add("k2=k3-up-to-parity", cat(b, a, a1, d))
	// DES weak / semi-weak keys as parts
	pick := func() []byte { return desSpecialParts[rng.Intn(len(desSpecialParts))] }
	for i := 0; i < 3; i++ {
		add("des-special-parts", cat(pick(), pick(), pick(), pick()))
	}
	w := pick()
	add("des-special-k1=k2", cat(w, w, pick(), pick()))
	add("des-special-k2=k3", cat(pick(), w, w, pick()))
	add("des-special-one-part", cat(w, b, c, d))
	return
}

func structuredIVs(rng *Rng, key []byte) (ivs [][]byte, what []string) {
	add := func(w string, v []byte) { ivs, what = append(ivs, v), append(what, w) }
	a := rng.Bytes(8)
	add("random", rng.Bytes(rng.PickInt(16, 24, 48)))
	add("zero", make([]byte, 16))
	add("ff", bytes.Repeat([]byte{0xff}, 24))
	add("repeated-blocks", cat(a, a, a, a))
	add("key-prefix", exact(key[:16]))
	return
}

func structuredKeyCases(a Args, out *Out, rng *Rng) {
	names := []string{"aes-128", "aes-192", "aes-256", "", "sm4", "twofish", "3des", "xtea", "salsa20", "none"}
	rounds := 1
	if a.Thorough() {
		rounds = 8
	}
	for r := 0; r < rounds; r++ {
		keys, kw := structuredKeys(rng)
		for _, name := range names {
			for i, key := range keys {
				// every structured secret at 32 bytes, and its first 24 bytes for the names that
				// are keyed with 24 or fewer; IV shapes rotate (all of them in the thorough tier)
				ivs, iw := structuredIVs(rng, key)
				for j := range ivs {
					if !a.Thorough() && j != (i+r)%len(ivs) && !(name == "3des" && j == 0) {
						continue
					}
					for _, kl := range []int{32, 24} {
						if kl == 24 && (name == "aes-256" || name == "" || name == "salsa20" || name == "none") {
							continue
						}
						if kl == 24 && !a.Thorough() && name != "3des" && name != "twofish" && name != "aes-192" && !rng.Chance(1, 3) {
							continue
						}
						in := List(Int(5), Str(name), Bytes(key[:kl]), Bytes(ivs[j]), Uint(uint64(rng.Intn(1<<16))), Int(int64(rng.Range(17, 60))))
						out.Case("structured-key", true, in, run(in))
						out.Count("structured-key:" + kw[i])
						out.Count("structured-iv:" + iw[j])
					}
				}
			}
		}
	}
}
