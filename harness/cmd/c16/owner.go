// Ownership class: who owns the key and IV buffers, and when they are read.  A constructor
// must not modify its arguments and the instance should not depend on them afterwards.
//
//	input    = (13 direct name key iv what how seed len)
//	           direct: 0 = NewCrypt(name, ...), 1 = the exported constructor `name`
//	           what:   bit 1 the key buffer, bit 2 the IV buffer is overwritten
//	           how:    1 zeros, 2 0xFF, 3 other bytes; applied before the first Encrypt, the
//	                   next pattern before the second one
//	observed = (ctor_panicked run_panicked key_after_ctor iv_after_ctor enc1 enc2 dec table(pristine key, pristine iv))
//	dec = Decrypt, with the buffers still overwritten, of what an instance made from pristine copies encrypted
package main

import (
	"time"

	xcipher "qchen.fun/fatchoy/x/cipher"
	. "verifharness/common"
)

func overwrite(b []byte, how int, seed uint64) {
	switch how {
	case 1:
		for i := range b {
			b[i] = 0
		}
	case 2:
		for i := range b {
			b[i] = 0xff
		}
	default:
		copy(b, lcg(seed+12345, len(b)))
	}
}

func runOwner(in Sx) Sx {
	direct, name := in.At(1).AsBool(), in.At(2).AsString()
	key, iv := in.At(3).AsBytes(), in.At(4).AsBytes()
	what, how := in.At(5).AsInt(), in.At(6).AsInt()
	seed := in.At(7).Uint64()
	msg := lcg(seed, in.At(8).AsInt())
	mk := func(k, v []byte) xcipher.BlockCryptor { return xcipher.NewCrypt(name, k, v) }
	if direct {
		mk = directCtors[name]
		if mk == nil {
			mk = func(k, v []byte) xcipher.BlockCryptor { panic("no such constructor") }
		}
	}
	kb, vb := exact(key), exact(iv) // the caller's buffers
	var a, p xcipher.BlockCryptor
	cp := guard(20*time.Second, func() {
		a = mk(kb, vb)
		p = mk(exact(key), exact(iv)) // made from pristine copies nobody touches
	})
	ka, va := exact(kb), exact(vb)
	var enc1, enc2, dec []byte
	rp := false
	if !cp {
		rp = guard(20*time.Second, func() {
			if what&1 != 0 {
				overwrite(kb, how, seed)
			}
			if what&2 != 0 {
				overwrite(vb, how, seed)
			}
			enc1 = append([]byte{}, a.Encrypt(pm(msg, seed, 0))...)
			if what&1 != 0 {
				overwrite(kb, how%3+1, seed+1)
			}
			if what&2 != 0 {
				overwrite(vb, how%3+1, seed+1)
			}
			enc2 = append([]byte{}, a.Encrypt(pm(msg, seed, 1))...)
			ct := p.Encrypt(pm(msg, seed, 2))
			dec = append([]byte{}, a.Decrypt(pm(ct, seed, 3))...)
		})
	}
	if rp {
		enc1, enc2, dec = nil, nil, nil
	}
	return List(Bool(cp), Bool(rp), Bytes(ka), Bytes(va), Bytes(enc1), Bytes(enc2), Bytes(dec), ListOf(oracleTable(key, iv, msg)))
}

func ownerCases(a Args, out *Out, rng *Rng) {
	names := []string{"aes-128", "aes-192", "aes-256", "", "sm4", "twofish", "3des", "xtea", "salsa20", "none"}
	ctors := []string{"aes", "3des", "sm4", "twofish", "xtea", "salsa20", "none"}
	ctorKey := map[string][]int{"aes": {16, 24, 32}, "3des": {24}, "sm4": {16}, "twofish": {16, 24, 32}, "xtea": {16}, "salsa20": {32, 20}, "none": {0, 16}}
	rounds := 1
	if a.Thorough() {
		rounds = 6
	}
	emit := func(direct bool, name string, kl, what, how int) {
		in := List(Int(13), Bool(direct), Str(name), Bytes(rng.Bytes(kl)), Bytes(rng.Bytes(rng.PickInt(16, 24, 48))),
			Int(int64(what)), Int(int64(how)), Uint(uint64(rng.Intn(1<<16))), Int(int64(rng.Range(17, 40))))
		kind := "ownership-args" // nothing overwritten: only the frame condition on the arguments
		switch {
		case what == 3:
			kind = "ownership-both"
		case what == 2:
			kind = "ownership-iv"
		case what == 1:
			kind = "ownership-key"
		}
		out.Case(kind, true, in, run(in))
	}
	for r := 0; r < rounds; r++ {
		for _, name := range names {
			kl := rng.PickInt(32, 32, 40)
			if name == "twofish" {
				kl = rng.PickInt(16, 24, 32)
			}
			emit(false, name, kl, 0, 0)
			for how := 1; how <= 3; how++ {
				emit(false, name, kl, 1, how)
			}
			emit(false, name, kl, 2, rng.Range(1, 3))
			emit(false, name, kl, 3, rng.Range(1, 3))
		}
		for _, c := range ctors {
			for _, kl := range ctorKey[c] {
				emit(true, c, kl, 0, 0)
				emit(true, c, kl, 1, rng.Range(1, 3))
				emit(true, c, kl, 2, rng.Range(1, 3))
			}
		}
	}
}
