// C14 harness: the word-filter dictionary (collections/trie/hashtrie.go).
//
// input    = (op ...), words and texts are lists of runes
//
//	(0 w) AddWord | (1 w) Remove | (2) Reset | (3 text) query | (4 w) probe
//
// observed = one entry per op:
//
//	(0 w) -> (count)   (1 w) -> (ret count)   (2) -> (count)
//	(3 t) -> (contains exact (filtered runes))   (4 w) -> (has)
//	a panic inside a call is recorded as the value -9
package main

import (
	"fmt"
	"io"
	"log"
	"strings"
	"time"

	"qchen.fun/fatchoy/collections/trie"
	. "verifharness/common"
)

func runesOf(s Sx) []rune {
	r := make([]rune, s.Len())
	for i := range r {
		r[i] = rune(s.At(i).Int64())
	}
	return r
}

func sxRunes(r []rune) Sx {
	v := make([]int64, len(r))
	for i, c := range r {
		v[i] = int64(c)
	}
	return Ints(v...)
}

var stuckCalls int // calls that did not return (the harness stops generating after a few)

var (
	intern  map[string]string // texts already queried in the running history
	queryNo int
)

func run(in Sx) Sx {
	t := trie.NewHashTrie()
	obs := make([]Sx, 0, in.Len())
	stuck := false
	intern, queryNo = map[string]string{}, 0
	// the decoy: another dictionary used in between (package-level state would show)
	decoy := trie.NewHashTrie()
	decoyWords := []string{"a", "ab", "*b", "世", "aa", "b*", "abc", "é", "*"}
	stop := make(chan struct{})
	if in.Len()%4 == 3 { // ... and concurrently, on a dictionary of its own
		go func() {
			d2 := trie.NewHashTrie()
			for i := 0; ; i++ {
				select {
				case <-stop:
					return
				default:
				}
				w := decoyWords[i%len(decoyWords)]
				Catch(func() { // the decoy must never take the harness down
					d2.AddWord(w)
					d2.Filter("xab世c" + w)
					if i%3 == 0 {
						d2.Remove(w)
					}
				})
			}
		}()
	}
	defer close(stop)
	for k, o := range in.L {
		var ob Sx
		if stuck {
			obs = append(obs, Ints(-8))
			continue
		}
		Catch(func() {
			w := decoyWords[k%len(decoyWords)]
			switch k % 3 {
			case 0:
				decoy.AddWord(w)
			case 1:
				decoy.Remove(w)
			default:
				decoy.Filter("ab世*c" + w)
				decoy.Contains(w + "b")
			}
		})
		o := o
		done := make(chan Sx, 1)
		go func() { done <- runOp(t, o) }()
		select {
		case ob = <-done:
		case <-time.After(3 * time.Second):
			stuck = true // the call spins; the trie is abandoned to it
			stuckCalls++
			ob = Ints(-8)
		}
		obs = append(obs, ob)
	}
	return ListOf(obs)
}

func runOp(t *trie.HashTrie, o Sx) (ob Sx) {
	{
		if p, _ := Catch(func() {
			switch o.At(0).AsInt() {
			case 0:
				t.AddWord(string(runesOf(o.At(1))))
				ob = Ints(int64(t.WordsCount()))
			case 1:
				r := t.Remove(string(runesOf(o.At(1))))
				ob = List(Bool(r), Int(int64(t.WordsCount())))
			case 2:
				t.Reset()
				ob = Ints(int64(t.WordsCount()))
			case 3:
				s := string(runesOf(o.At(1)))
				// a text queried before is passed alternately as the very same string
				// object and as an equal copy
				queryNo++
				if old, ok := intern[s]; ok && queryNo%2 == 0 {
					s = old
				} else {
					intern[s] = s
				}
				ob = List(Bool(t.Contains(s)), Bool(t.ExactMatch(s)), sxRunes([]rune(t.Filter(s))))
			case 4:
				ob = List(Bool(t.VerifHas(string(runesOf(o.At(1))))))
			case 5:
				t.AddWord(o.At(1).AsString())
				ob = Ints(int64(t.WordsCount()))
			case 6:
				r := t.Remove(o.At(1).AsString())
				ob = List(Bool(r), Int(int64(t.WordsCount())))
			case 7:
				var rs []rune
				for _, ch := range o.At(1).AsString() { // the same decoding AddWord uses
					rs = append(rs, ch)
				}
				ob = List(sxRunes(rs))
			case 8:
				s := o.At(1).AsString()
				ob = List(Bool(t.Contains(s)), Bool(t.ExactMatch(s)), sxRunes([]rune(t.Filter(s))))
			case 9:
				ob = List(Bool(t.VerifHas(o.At(1).AsString())))
			case 12:
				_ = t.String()
				ob = Ints(0)
			case 13:
				ob = Ints(int64(t.WordsCount()))
			case 10:
				t.AddWord(string(runesOf(o.At(1))))
				ob = List()
			case 11:
				ob = List(Bool(t.Remove(string(runesOf(o.At(1))))))
			default:
				ob = Ints(-9)
			}
		}); p {
			ob = Ints(-9)
		}
	}
	return ob
}

func main() {
	log.SetOutput(io.Discard)
	Main(run, gen)
}

const star = '*'

type gctx struct {
	rng   *Rng
	alpha []rune // alphabet of the words
	talph []rune // alphabet of the texts
}

func (g *gctx) word(maxLen int) []rune {
	n := g.rng.Range(1, maxLen)
	w := make([]rune, n)
	for i := range w {
		if i > 0 && g.rng.Chance(1, 3) {
			w[i] = w[i-1] // repeated letters
		} else {
			w[i] = g.alpha[g.rng.Intn(len(g.alpha))]
		}
	}
	return w
}

// pool of words with shared prefixes, words that are prefixes of other words, repeated letters
func (g *gctx) pool(n int) [][]rune {
	var p [][]rune
	add := func(w []rune) {
		if len(w) == 0 || len(w) > 6 {
			return
		}
		for _, v := range p {
			if string(v) == string(w) {
				return
			}
		}
		p = append(p, append([]rune{}, w...))
	}
	for tries := 0; len(p) < n && tries < 10*n; tries++ {
		if len(p) == 0 || g.rng.Chance(1, 3) {
			add(g.word(5))
			continue
		}
		b := p[g.rng.Intn(len(p))]
		switch g.rng.Intn(6) {
		case 0:
			add(b[:g.rng.Range(1, len(b))]) // a prefix
		case 1:
			add(append(append([]rune{}, b...), b[len(b)-1])) // repeat the last letter
		case 2:
			add(append(append([]rune{}, b...), g.alpha[g.rng.Intn(len(g.alpha))]))
		case 3: // same prefix, other tail
			k := g.rng.Intn(len(b))
			add(append(append([]rune{}, b[:k]...), g.word(3)...))
		case 4:
			add(append(append([]rune{}, b...), b[0]))
		case 5:
			add(b[g.rng.Intn(len(b)):]) // a suffix
		}
	}
	return p
}

func compat(a, b []rune) bool {
	for i := 0; i < len(a) && i < len(b); i++ {
		if a[i] != b[i] {
			return a[i] != star && b[i] != star
		}
	}
	return true
}

func (g *gctx) text(pool [][]rune) []rune {
	n := g.rng.Intn(13)
	var s []rune
	for len(s) < n {
		switch {
		case len(pool) > 0 && g.rng.Chance(1, 3): // embed a pool word (wildcards instantiated)
			for _, c := range pool[g.rng.Intn(len(pool))] {
				if c == star && g.rng.Chance(3, 4) {
					c = g.talph[g.rng.Intn(len(g.talph))]
				}
				s = append(s, c)
			}
		case len(pool) > 0 && g.rng.Chance(1, 4): // a near miss: a pool word cut short
			w := pool[g.rng.Intn(len(pool))]
			s = append(s, w[:g.rng.Intn(len(w))]...)
		default:
			s = append(s, g.talph[g.rng.Intn(len(g.talph))])
		}
	}
	if len(s) > 14 {
		s = s[:14]
	}
	return s
}

// ---------- the property evaluated directly in Go (volume) ----------

type refDict map[string]bool

func isLiteral(d refDict) bool {
	for w := range d {
		if strings.ContainsRune(w, star) {
			return false
		}
	}
	return true
}

// checkText evaluates the literal-dictionary sentences on the implementation's answers for
// one text; returns the failing sentence (0 = none).
func checkText(t *trie.HashTrie, d refDict, text string) int {
	rs := []rune(text)
	occurs := false
	cov := make([]bool, len(rs))
	for i := range rs {
		for w := range d {
			wr := []rune(w)
			if i+len(wr) <= len(rs) && string(rs[i:i+len(wr)]) == w {
				occurs = true
				for j := i; j < i+len(wr); j++ {
					cov[j] = true
				}
			}
		}
	}
	if t.Contains(text) != occurs {
		return 5
	}
	out := []rune(t.Filter(text))
	if len(out) != len(rs) {
		return 6
	}
	for i := range rs {
		if out[i] != rs[i] && !(cov[i] && out[i] == '*') {
			return 7
		}
	}
	for w := range d {
		if strings.Contains(string(out), w) {
			return 8
		}
	}
	return 0
}

// sweep: every subset of `words` built in order, then every single removal, each state
// checked on every text; membership and count are checked too.
func sweep(out *Out, kind string, words []string, texts []string) {
	n := len(words)
	for mask := 0; mask < 1<<n; mask++ {
		for rm := -1; rm < n; rm++ {
			if rm >= 0 && mask&(1<<rm) == 0 {
				continue
			}
			t := trie.NewHashTrie()
			d := refDict{}
			var ops []Sx
			for i, w := range words {
				if mask&(1<<i) != 0 {
					t.AddWord(w)
					d[w] = true
					ops = append(ops, List(Int(0), sxRunes([]rune(w))))
				}
			}
			if rm >= 0 {
				ok := t.Remove(words[rm])
				ops = append(ops, List(Int(1), sxRunes([]rune(words[rm]))))
				out.GoChecked++
				if !ok {
					out.Violation("C14/prop2/"+kind, "Remove did not report whether the word was present", replayInput(ops, nil, words))
				}
				delete(d, words[rm])
			}
			out.GoChecked++
			if t.WordsCount() != len(d) {
				out.Violation("C14/prop3/"+kind, "WordsCount() differs from the number of words added and not since removed", replayInput(ops, nil, words))
			}
			for _, w := range words {
				out.GoChecked++
				if t.VerifHas(w) != d[w] {
					sent := 1
					if rm >= 0 && w != words[rm] {
						sent = 4
					}
					out.Violation(fmt.Sprintf("C14/prop%d/%s", sent, kind), "membership of a word is not 'added and not since removed'", replayInput(ops, nil, words))
				}
			}
			for _, x := range texts {
				out.GoChecked++
				if w := checkText(t, d, x); w != 0 {
					out.Violation(fmt.Sprintf("C14/prop%d/%s", w, kind), "literal-dictionary sentence fails (Go-side sweep)", replayInput(ops, []string{x}, words))
				}
			}
		}
	}
}

// replayInput builds a case input (ops, then queries for the texts, then probes) whose
// replay shows the failure through the Coq-evaluated checks.
func replayInput(ops []Sx, texts []string, words []string) Sx {
	l := append([]Sx{}, ops...)
	for _, x := range texts {
		l = append(l, List(Int(3), sxRunes([]rune(x))))
	}
	for _, w := range words {
		l = append(l, List(Int(4), sxRunes([]rune(w))))
	}
	in := ListOf(l)
	return List(in, run(in))
}

func allStrings(alpha []rune, maxLen int) []string {
	res := []string{""}
	prev := []string{""}
	for l := 1; l <= maxLen; l++ {
		var cur []string
		for _, p := range prev {
			for _, c := range alpha {
				cur = append(cur, p+string(c))
			}
		}
		res = append(res, cur...)
		prev = cur
	}
	return res
}

// byte-string histories: words and texts are concatenations of valid and invalid UTF-8
// fragments (truncated sequences, lone continuation bytes, overlong forms, surrogates,
// values above U+10FFFF); the model decodes them with its own UTF-8 decoder
var frags = []string{"a", "b", "*", "\xe4\xb8\x96", "\xc3\xa9", "\xf0\x9f\x98\x80", "\xe4\xb8", "\xe4", "\x80", "\xbf",
	"\xc0\x80", "\xc1\xbf", "\xe0\x80\x80", "\xe0\x9f\xbf", "\xed\xa0\x80", "\xed\x9f\xbf", "\xf0\x8f\xbf\xbf",
	"\xf4\x90\x80\x80", "\xf4\x8f\xbf\xbf", "\xf5\x80\x80\x80", "\xff", "\xfe", "\xc3", "\xf0\x9f\x98", "\xef\xbf\xbd", "\x00", "\x7f", "\xc2\x80", "\xdf\xbf", "\xe0\xa0\x80", "\xef\xbf\xbf", "\xf0\x90\x80\x80"}

func byteWord(rng *Rng, maxFrags int) string {
	s := ""
	for n := rng.Range(1, maxFrags); n > 0; n-- {
		if rng.Chance(1, 6) {
			s += string(rng.Bytes(1))
		} else {
			s += frags[rng.Intn(len(frags))]
		}
	}
	return s
}

// phases: fill the dictionary, drain it completely (count 0, every probe false, nothing
// matches), refill it in another order, drain half; queries after every phase
func genPhases(rng *Rng, out *Out, n int) {
	for h := 0; h < n; h++ {
		g := &gctx{rng: rng, alpha: []rune{'a', 'b', '世', star}, talph: []rune{'a', 'b', 'c', '世', star}}
		if h%2 == 0 {
			g.alpha = []rune{'a', 'b', '世'}
		}
		pool := g.pool(rng.Range(3, 9))
		var ops []Sx
		observe := func() {
			ops = append(ops, List(Int(13)))
			for _, w := range pool {
				ops = append(ops, List(Int(4), sxRunes(w)))
			}
			for k := 0; k < 3; k++ {
				ops = append(ops, List(Int(3), sxRunes(g.text(pool))))
			}
			ops = append(ops, List(Int(3), sxRunes(pool[rng.Intn(len(pool))])), List(Int(12)))
		}
		perm := func() []int {
			p := make([]int, len(pool))
			for i := range p {
				p[i] = i
			}
			for i := len(p) - 1; i > 0; i-- {
				j := rng.Intn(i + 1)
				p[i], p[j] = p[j], p[i]
			}
			return p
		}
		code := func(c int) int64 {
			if rng.Chance(1, 3) {
				return int64(c + 10)
			}
			return int64(c)
		}
		for _, i := range perm() {
			ops = append(ops, List(Int(code(0)), sxRunes(pool[i])))
		}
		observe()
		for _, i := range perm() {
			ops = append(ops, List(Int(code(1)), sxRunes(pool[i])))
		}
		observe()
		if h%3 == 0 { // refill after a Reset
			ops = append(ops, List(Int(2)))
		}
		for _, i := range perm() {
			ops = append(ops, List(Int(code(0)), sxRunes(pool[i])))
		}
		observe()
		for _, i := range perm()[:len(pool)/2] {
			ops = append(ops, List(Int(code(1)), sxRunes(pool[i])))
		}
		observe()
		in := ListOf(ops)
		out.Case("phases", true, in, run(in))
	}
}

// requery: query a text, change the dictionary so that a cheap summary of it (the word
// count, the last word added, ...) is what it was before while the answer for that text
// flips, query the same text again — Contains, ExactMatch and Filter alike
func genRequery(rng *Rng, out *Out, n int) {
	for h := 0; h < n; h++ {
		g := &gctx{rng: rng, alpha: []rune{'a', 'b', 'c'}, talph: []rune{'a', 'b', 'c', 'x'}}
		w1 := g.word(4)
		if h%5 == 4 {
			w1 = append([]rune{star}, w1...) // a wildcard word
		}
		// an unrelated word over other letters, and bystanders
		u := &gctx{rng: rng, alpha: []rune{'p', 'q', '世'}}
		w2, w3 := u.word(4), u.word(3)
		for string(w3) == string(w2) {
			w3 = u.word(4)
		}
		inst := func(w []rune) []rune { // an instance of w ('*' replaced)
			r := append([]rune{}, w...)
			for i := range r {
				if r[i] == star {
					r[i] = 'z'
				}
			}
			return r
		}
		texts := [][]rune{
			inst(w1), // ExactMatch flips, too
			append(append([]rune{'x'}, inst(w1)...), 'x', 'y'),
			append(append(append([]rune{}, inst(w2)...), 'x'), inst(w1)...),
		}
		var ops []Sx
		code := func(c int) int64 {
			if rng.Chance(1, 2) {
				return int64(c + 10) // without a WordsCount() call
			}
			return int64(c)
		}
		add := func(w []rune) { ops = append(ops, List(Int(code(0)), sxRunes(w))) }
		rem := func(w []rune) { ops = append(ops, List(Int(code(1)), sxRunes(w))) }
		ask := func() {
			for _, x := range texts {
				ops = append(ops, List(Int(3), sxRunes(x)))
			}
			if rng.Bool() { // and once more, back to back
				ops = append(ops, List(Int(3), sxRunes(texts[rng.Intn(len(texts))])))
			}
		}
		if rng.Bool() {
			add(w3)
		}
		switch h % 6 {
		case 0: // the matching word leaves, an unrelated one arrives: same count
			add(w1)
			ask()
			rem(w1)
			add(w2)
			ask()
		case 1: // the other way round
			add(w2)
			ask()
			add(w1)
			rem(w2)
			ask()
		case 2: // arrives first, then the other leaves (count passes through +1)
			add(w1)
			ask()
			add(w2)
			rem(w1)
			ask()
			add(w1)
			rem(w2)
			ask()
		case 3: // the same word removed and added again; then removed, re-queried, added
			add(w1)
			ask()
			rem(w1)
			add(w1)
			ask()
			rem(w1)
			ask()
			add(w1)
			ask()
		case 4: // Reset and refill to the same count with other words
			add(w1)
			add(w2)
			ask()
			ops = append(ops, List(Int(2)))
			add(w2)
			add(w3)
			ask()
			ops = append(ops, List(Int(2)))
			add(w1)
			add(w3)
			ask()
		case 5: // several swaps in a row, lookups only at the ends
			add(w1)
			ask()
			for k := 0; k < 3; k++ {
				rem(w1)
				add(w2)
				rem(w2)
				add(w1)
			}
			rem(w1)
			add(w2)
			ask()
		}
		ops = append(ops, List(Int(13)), List(Int(4), sxRunes(w1)), List(Int(4), sxRunes(w2)))
		in := ListOf(ops)
		out.Case("requery", true, in, run(in))
	}
}

func genBytes(rng *Rng, out *Out, n int) {
	for h := 0; h < n; h++ {
		var pool []string
		for len(pool) < rng.Range(2, 6) {
			pool = append(pool, byteWord(rng, 3))
		}
		var ops []Sx
		for k := rng.Range(6, 30); k > 0; k-- {
			w := pool[rng.Intn(len(pool))]
			switch r := rng.Intn(10); {
			case r < 3:
				ops = append(ops, List(Int(5), Str(w)))
			case r < 5:
				ops = append(ops, List(Int(6), Str(w)))
				for _, v := range pool {
					ops = append(ops, List(Int(9), Str(v)))
				}
			case r < 8:
				x := ""
				for len(x) < rng.Intn(14) {
					if rng.Bool() {
						x += pool[rng.Intn(len(pool))]
					} else {
						x += byteWord(rng, 2)
					}
				}
				ops = append(ops, List(Int(8), Str(x)))
			default:
				ops = append(ops, List(Int(7), Str(byteWord(rng, 6))))
			}
		}
		in := ListOf(ops)
		out.Case("bytes", true, in, run(in))
	}
	// decoder only: every fragment, every pair of fragments' bytes cut anywhere, random bytes
	var ops []Sx
	for _, f := range frags {
		ops = append(ops, List(Int(7), Str(f)))
		for _, g := range frags {
			fg := f + g
			ops = append(ops, List(Int(7), Str(fg[:rng.Range(1, len(fg))])))
		}
	}
	for k := 0; k < 300; k++ {
		ops = append(ops, List(Int(7), Bytes(rng.Bytes(rng.Intn(9)))))
	}
	for i := 0; i < len(ops); i += 200 {
		j := i + 200
		if j > len(ops) {
			j = len(ops)
		}
		in := ListOf(ops[i:j])
		out.Case("decode", true, in, run(in))
		out.CountN("op:decode", j-i)
	}
}

func gen(a Args, out *Out) {
	rng := NewRng(a.Seed).Fork()
	nHist := 520
	if a.Thorough() {
		nHist = 12000
	}
	lit := []rune{'a', 'b', 'c', '世', 'é'}
	all := []rune{'a', 'b', 'c', star, '世', 'é'}
	for h := 0; h < nHist; h++ {
		g := &gctx{rng: rng}
		kind := []string{"literal", "literal", "literal", "wildcard", "wildcard-any"}[rng.Intn(5)]
		switch kind {
		case "literal":
			g.alpha, g.talph = lit, all
			if rng.Chance(1, 10) { // the neighbours of '*' (41, 43) and rune 0
				g.alpha, g.talph = []rune{')', '+', 'a', 0}, []rune{')', '+', 'a', 0, star}
			} else if rng.Chance(1, 8) { // runes that coincide when truncated to 8 or 16 bits
				g.alpha, g.talph = []rune{'a', 0x161, 0x10061, 0xF600, 0x1F600}, []rune{'a', 0x161, 0x10061, 0xF600, 0x1F600, 'b'}
			} else if rng.Chance(1, 8) { // what invalid UTF-8 decodes to, and a rune outside the BMP
				g.alpha, g.talph = []rune{'a', 0xFFFD, 0x1F600}, []rune{'a', 'b', star, 0xFFFD, 0x1F600}
			}
			if rng.Chance(1, 3) {
				g.alpha, g.talph = []rune{'a', 'b'}, []rune{'a', 'b', 'c'}
			}
		default:
			g.alpha, g.talph = all, all
			if rng.Chance(1, 3) {
				g.alpha, g.talph = []rune{'a', 'b', star}, []rune{'a', 'b', 'c', star}
			}
		}
		pool := g.pool(rng.Range(2, 9))
		if rng.Chance(1, 12) { // a long word and a long prefix of it
			var lw []rune
			for len(lw) < 40 {
				lw = append(lw, g.word(5)...)
			}
			pool = append(pool, lw, lw[:37])
			out.Count("long-words")
		}
		phased := false
		if kind == "wildcard" {
			if rng.Bool() { // a sub-pool whose literal and wildcard branches never compete
				var p [][]rune
				for _, w := range pool {
					ok := true
					for _, v := range p {
						ok = ok && compat(w, v)
					}
					if ok {
						p = append(p, w)
					}
				}
				pool = p
			} else { // any pool; members that compete with a new word are removed before it is added
				phased = true
			}
		}
		cur := map[string]bool{}
		var texts [][]rune
		quietMut := rng.Chance(1, 3) // mutators mostly without a WordsCount() call afterwards
		mut := func(code int) int64 {
			if quietMut && rng.Chance(3, 4) {
				return int64(code + 10)
			}
			return int64(code)
		}
		var ops []Sx
		probeAll := func() {
			for _, w := range pool {
				ops = append(ops, List(Int(4), sxRunes(w)))
			}
		}
		nops := rng.Range(4, 36)
		removes, queries := 0, 0
		for len(ops) < nops {
			r := rng.Intn(100)
			switch {
			case r < 36:
				w := pool[rng.Intn(len(pool))]
				if phased {
					for v := range cur {
						if !compat(w, []rune(v)) {
							ops = append(ops, List(Int(1), sxRunes([]rune(v))))
							delete(cur, v)
							out.Count("op:remove-competitor")
						}
					}
				}
				cur[string(w)] = true
				ops = append(ops, List(Int(mut(0)), sxRunes(w)))
				out.Count("op:add")
			case r < 58:
				w := pool[rng.Intn(len(pool))]
				if rng.Chance(1, 6) {
					if kind == "literal" {
						w = g.word(4)
					} else {
						w = g.text(pool) // e.g. an instance of a wildcard word
						if len(w) > 5 {
							w = w[:5]
						}
					}
				}
				ops = append(ops, List(Int(mut(1)), sxRunes(w)))
				delete(cur, string(w))
				out.Count("op:remove")
				removes++
				if rng.Chance(2, 3) {
					probeAll()
				}
			case r < 90:
				x := g.text(pool)
				if len(texts) > 0 && rng.Bool() { // the same texts again and again, across mutations
					x = texts[rng.Intn(len(texts))]
				} else if len(texts) < 4 {
					texts = append(texts, x)
				}
				ops = append(ops, List(Int(3), sxRunes(x)))
				out.Count("op:query")
				queries++
				switch rng.Intn(6) { // queries must leave the dictionary alone
				case 0:
					ops = append(ops, List(Int(3), sxRunes(x)), List(Int(13)))
				case 1:
					probeAll()
				}
			case r < 96:
				ops = append(ops, List(Int(4), sxRunes(pool[rng.Intn(len(pool))])))
				out.Count("op:probe")
			case r < 97:
				ops = append(ops, List(Int(12)), List(Int(13)))
				out.Count("op:string")
			case r < 98:
				ops = append(ops, List(Int(2)))
				cur = map[string]bool{}
				out.Count("op:reset")
			default: // the empty word: AddWord("") is ignored, Remove("") reports false, never a member
				ops = append(ops, List(Int(int64(rng.PickInt(0, 0, 1, 4, 10, 11))), sxRunes(nil)))
				out.Count("op:empty-word")
			}
		}
		// every pool word is queried as a text and probed at the end
		for _, w := range pool {
			ops = append(ops, List(Int(3), sxRunes(w)))
		}
		probeAll()
		in := ListOf(ops)
		before := stuckCalls
		ob := run(in)
		out.Case(kind, removes > 0 && queries > 0, in, ob)
		if stuckCalls > before {
			out.Violation("C14/hang/"+kind, "a call (Contains/ExactMatch/Filter/AddWord/Remove) did not return within 3 s", List(in, ob))
		}
		if stuckCalls >= 2 {
			out.Note("generation stopped: %d calls did not return", stuckCalls)
			return
		}
	}
	nb := 40
	if a.Thorough() {
		nb = 1000
	}
	genBytes(rng, out, nb)
	genPhases(rng, out, nb/2)
	genRequery(rng, out, nb*3/2)
	// Go-side exhaustive sweeps over small literal dictionaries
	ws := allStrings([]rune{'a', 'b'}, 2)[1:] // a b aa ab ba bb
	sweep(out, "sweep", ws, allStrings([]rune{'a', 'b', 'c'}, 5))
	sweep(out, "sweep", []string{"a", "aa", "aaa", "aab", "世", "世世", "b世"}, allStrings([]rune{'a', 'b', '世'}, 5))
	if a.Thorough() {
		ws3 := append(allStrings([]rune{'a', 'b'}, 2)[1:], "aaa", "aba", "abb", "bab")
		sweep(out, "sweep", ws3, allStrings([]rune{'a', 'b', 'c'}, 7))
	}
}
