// C14 harness: the word-filter dictionary (collections/trie/hashtrie.go).
//
// input    = (op ...), words and texts are lists of runes
//            (0 w) AddWord | (1 w) Remove | (2) Reset | (3 text) query | (4 w) probe
// observed = one entry per op:
//            (0 w) -> (count)   (1 w) -> (ret count)   (2) -> (count)
//            (3 t) -> (contains exact (filtered runes))   (4 w) -> (has)
//            a panic inside a call is recorded as the value -9
package main

import (
	"io"
	"log"

	"qchen.fun/fatchoy/collections/trie"
	. "verifharness/common"
)

func runesOf(s Sx) []rune {
	r := make([]rune, s.Len())
	for i := range r {
		r[i] = rune(s.At(i).Int64())
	}
	return r
}

func sxRunes(r []rune) Sx {
	v := make([]int64, len(r))
	for i, c := range r {
		v[i] = int64(c)
	}
	return Ints(v...)
}

func run(in Sx) Sx {
	t := trie.NewHashTrie()
	obs := make([]Sx, 0, in.Len())
	for _, o := range in.L {
		var ob Sx
		if p, _ := Catch(func() {
			switch o.At(0).AsInt() {
			case 0:
				t.AddWord(string(runesOf(o.At(1))))
				ob = Ints(int64(t.WordsCount()))
			case 1:
				r := t.Remove(string(runesOf(o.At(1))))
				ob = List(Bool(r), Int(int64(t.WordsCount())))
			case 2:
				t.Reset()
				ob = Ints(int64(t.WordsCount()))
			case 3:
				s := string(runesOf(o.At(1)))
				ob = List(Bool(t.Contains(s)), Bool(t.ExactMatch(s)), sxRunes([]rune(t.Filter(s))))
			case 4:
				ob = List(Bool(t.VerifHas(string(runesOf(o.At(1))))))
			default:
				ob = Ints(-9)
			}
		}); p {
			ob = Ints(-9)
		}
		obs = append(obs, ob)
	}
	return ListOf(obs)
}

func main() {
	log.SetOutput(io.Discard)
	Main(run, gen)
}

const star = '*'

type gctx struct {
	rng   *Rng
	alpha []rune // alphabet of the words
	talph []rune // alphabet of the texts
}

func (g *gctx) word(maxLen int) []rune {
	n := g.rng.Range(1, maxLen)
	w := make([]rune, n)
	for i := range w {
		if i > 0 && g.rng.Chance(1, 3) {
			w[i] = w[i-1] // repeated letters
		} else {
			w[i] = g.alpha[g.rng.Intn(len(g.alpha))]
		}
	}
	return w
}

// pool of words with shared prefixes, words that are prefixes of other words, repeated letters
func (g *gctx) pool(n int) [][]rune {
	var p [][]rune
	add := func(w []rune) {
		if len(w) == 0 || len(w) > 6 {
			return
		}
		for _, v := range p {
			if string(v) == string(w) {
				return
			}
		}
		p = append(p, append([]rune{}, w...))
	}
	for tries := 0; len(p) < n && tries < 10*n; tries++ {
		if len(p) == 0 || g.rng.Chance(1, 3) {
			add(g.word(5))
			continue
		}
		b := p[g.rng.Intn(len(p))]
		switch g.rng.Intn(6) {
		case 0:
			add(b[:g.rng.Range(1, len(b))]) // a prefix
		case 1:
			add(append(append([]rune{}, b...), b[len(b)-1])) // repeat the last letter
		case 2:
			add(append(append([]rune{}, b...), g.alpha[g.rng.Intn(len(g.alpha))]))
		case 3: // same prefix, other tail
			k := g.rng.Intn(len(b))
			add(append(append([]rune{}, b[:k]...), g.word(3)...))
		case 4:
			add(append(append([]rune{}, b...), b[0]))
		case 5:
			add(b[g.rng.Intn(len(b)):]) // a suffix
		}
	}
	return p
}

func compat(a, b []rune) bool {
	for i := 0; i < len(a) && i < len(b); i++ {
		if a[i] != b[i] {
			return a[i] != star && b[i] != star
		}
	}
	return true
}

func (g *gctx) text(pool [][]rune) []rune {
	n := g.rng.Intn(13)
	var s []rune
	for len(s) < n {
		switch {
		case len(pool) > 0 && g.rng.Chance(1, 3): // embed a pool word (wildcards instantiated)
			for _, c := range pool[g.rng.Intn(len(pool))] {
				if c == star && g.rng.Chance(3, 4) {
					c = g.talph[g.rng.Intn(len(g.talph))]
				}
				s = append(s, c)
			}
		case len(pool) > 0 && g.rng.Chance(1, 4): // a near miss: a pool word cut short
			w := pool[g.rng.Intn(len(pool))]
			s = append(s, w[:g.rng.Intn(len(w))]...)
		default:
			s = append(s, g.talph[g.rng.Intn(len(g.talph))])
		}
	}
	if len(s) > 14 {
		s = s[:14]
	}
	return s
}

func gen(a Args, out *Out) {
	rng := NewRng(a.Seed).Fork()
	nHist := 520
	if a.Thorough() {
		nHist = 12000
	}
	lit := []rune{'a', 'b', 'c', '世', 'é'}
	all := []rune{'a', 'b', 'c', star, '世', 'é'}
	for h := 0; h < nHist; h++ {
		g := &gctx{rng: rng}
		kind := []string{"literal", "literal", "literal", "wildcard", "wildcard-any"}[rng.Intn(5)]
		switch kind {
		case "literal":
			g.alpha, g.talph = lit, all
			if rng.Chance(1, 3) {
				g.alpha, g.talph = []rune{'a', 'b'}, []rune{'a', 'b', 'c'}
			}
		default:
			g.alpha, g.talph = all, all
			if rng.Chance(1, 3) {
				g.alpha, g.talph = []rune{'a', 'b', star}, []rune{'a', 'b', 'c', star}
			}
		}
		pool := g.pool(rng.Range(2, 9))
		if kind == "wildcard" { // keep a sub-pool whose literal and wildcard branches never compete
			var p [][]rune
			for _, w := range pool {
				ok := true
				for _, v := range p {
					ok = ok && compat(w, v)
				}
				if ok {
					p = append(p, w)
				}
			}
			pool = p
		}
		var ops []Sx
		probeAll := func() {
			for _, w := range pool {
				ops = append(ops, List(Int(4), sxRunes(w)))
			}
		}
		nops := rng.Range(4, 36)
		removes, queries := 0, 0
		for len(ops) < nops {
			r := rng.Intn(100)
			switch {
			case r < 36:
				ops = append(ops, List(Int(0), sxRunes(pool[rng.Intn(len(pool))])))
				out.Count("op:add")
			case r < 58:
				w := pool[rng.Intn(len(pool))]
				if rng.Chance(1, 6) {
					if kind == "literal" {
						w = g.word(4)
					} else {
						w = g.text(pool) // e.g. an instance of a wildcard word
						if len(w) > 5 {
							w = w[:5]
						}
					}
				}
				ops = append(ops, List(Int(1), sxRunes(w)))
				out.Count("op:remove")
				removes++
				if rng.Chance(2, 3) {
					probeAll()
				}
			case r < 90:
				ops = append(ops, List(Int(3), sxRunes(g.text(pool))))
				out.Count("op:query")
				queries++
			case r < 98:
				ops = append(ops, List(Int(4), sxRunes(pool[rng.Intn(len(pool))])))
				out.Count("op:probe")
			case r < 99:
				ops = append(ops, List(Int(2)))
				out.Count("op:reset")
			default:
				ops = append(ops, List(Int(0), sxRunes(nil))) // AddWord("")
				out.Count("op:add-empty")
			}
		}
		// every pool word is queried as a text and probed at the end
		for _, w := range pool {
			ops = append(ops, List(Int(3), sxRunes(w)))
		}
		probeAll()
		in := ListOf(ops)
		out.Case(kind, removes > 0 && queries > 0, in, run(in))
	}
}
