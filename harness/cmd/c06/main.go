// C06 harness: timer cancellation and bookkeeping are atomic and never crash the
// scheduler.  Same machine and case language as C05 (coq/C05/Check.v, package drv); the
// histories here interleave cancels with the worker's own steps in every order: a cancel
// that overtakes its own start request, a cancel that meets the expiry tick, requests
// left unhandled, request channels filled to capacity.
package main

import (
	"io"
	"log"

	"verifharness/cmd/c05/drv"
	. "verifharness/common"
)

func main() {
	log.SetOutput(io.Discard)
	Main(drv.Run, gen)
}

func gen(a Args, out *Out) {
	rng := NewRng(a.Seed)
	scale := 1
	if a.Thorough() {
		scale = 40
	}
	emit := func(kind string, h *drv.Hist) {
		in := h.Sx()
		cancels, worker := 0, 0
		for _, o := range h.Ops {
			switch o.At(0).Int64() {
			case drv.OpCancel:
				cancels++
				out.Count("op:cancel")
			case drv.OpHandleAdd, drv.OpHandleDel, drv.OpTick:
				worker++
				out.Count("op:worker-step")
			case drv.OpStart, drv.OpEvery:
				out.Count("op:start")
			}
		}
		out.Case(kind, cancels > 0 && worker > 0, in, drv.Run(in))
		out.CountN("ops", len(h.Ops))
		if h.Impl == drv.ImplWheel {
			out.Count("impl:wheel")
		} else {
			out.Count("impl:heap")
		}
	}
	both := func(f func(impl int64)) {
		f(drv.ImplWheel)
		f(drv.ImplHeap)
	}
	pos := func(r *Rng) uint64 {
		return uint64(r.PickI64(0, 1, 255, 256, 1000, 16383, 16384, 1<<20-1, 1<<32-2, int64(r.Next()&0xFFFFFFFF)))
	}

	// 1. a cancel overtakes its own start request: every order of the two worker steps,
	// with and without other timers around, then ticks past the due time
	for k := 0; k < 12*scale; k++ {
		both(func(impl int64) {
			r := rng.Fork()
			h := drv.NewHist(impl, pos(r), int64(r.PickI64(0, 500)))
			others := k % 3
			for i := 0; i < others; i++ {
				h.Start(int64(r.Range(0, 8)))
				if r.Bool() {
					h.HandleAdd()
				}
			}
			for h.QueuedAdd > 0 && r.Bool() {
				h.HandleAdd()
			}
			var id int64
			if k%4 == 3 {
				id = h.Every(int64(r.Range(1, 5)))
			} else {
				id = h.Start(int64(r.Range(0, 6)))
			}
			h.Cancel(id)
			h.Size()
			h.IsSched(id)
			if k%2 == 0 {
				h.HandleDel()
				for h.QueuedAdd > 0 {
					h.HandleAdd()
				}
			} else {
				for h.QueuedAdd > 0 {
					h.HandleAdd()
				}
				h.HandleDel()
			}
			h.Probe()
			for s := 0; s < 4; s++ {
				h.Adv(int64(r.Range(1, 4)))
			}
			h.Size()
			h.Cancel(id)
			h.Probe()
			emit("overtake", h)
		})
	}

	// 2. a cancel meets the expiry: the worker expires the timer before it sees the cancel
	// request (or right after), one-shot and periodic
	for k := 0; k < 12*scale; k++ {
		both(func(impl int64) {
			r := rng.Fork()
			h := drv.NewHist(impl, pos(r), int64(r.PickI64(0, 500)))
			d := int64(r.Range(0, 5))
			var id int64
			if k%3 == 2 {
				if d == 0 {
					d = 1
				}
				id = h.Every(d)
			} else {
				id = h.Start(d)
			}
			if k%4 == 1 {
				h.Start(d) // another timer due on the same tick
				h.HandleAdd()
			}
			h.HandleAdd()
			if d > 1 && r.Bool() {
				h.Adv(d - 1)
			}
			h.Cancel(id)
			h.IsSched(id)
			h.Adv(d + int64(r.Range(0, 2))) // the expiry tick, cancel request still queued
			h.Size()
			h.HandleDel()
			h.Probe()
			h.Adv(int64(r.Range(1, 6)))
			h.Cancel(id)
			h.HandleDel()
			h.Size()
			emit("expiry-race", h)
		})
	}

	// 3. random histories over a handful of timers: API calls and worker steps in any
	// order, cancels of pending, delivered, cancelled and unknown ids
	for k := 0; k < 170*scale; k++ {
		both(func(impl int64) {
			r := rng.Fork()
			h := drv.NewHist(impl, pos(r), int64(r.PickI64(0, 9, 500)))
			maxT := int64(r.Range(1, 6))
			n := r.Range(4, 60)
			for i := 0; i < n; i++ {
				switch r.Intn(16) {
				case 0, 1:
					if h.NextID < maxT {
						h.Start(int64(r.Range(-1, 12)))
					}
				case 2:
					if h.NextID < maxT {
						h.Every(int64(r.Range(0, 6)))
					}
				case 3, 4, 5:
					h.Cancel(int64(r.Range(0, int(h.NextID)+1)))
				case 6:
					h.Size()
				case 7:
					h.IsSched(int64(r.Range(0, int(h.NextID)+1)))
				case 8, 9, 10:
					h.HandleAdd()
				case 11, 12:
					h.HandleDel()
				case 13:
					h.Pass(int64(r.Range(0, 4)))
				case 14:
					h.Adv(int64(r.Range(0, 5)))
				default:
					if r.Chance(1, 3) {
						h.Probe()
					} else {
						h.Tick()
					}
				}
			}
			h.Size()
			h.Probe()
			emit("random", h)
		})
	}

	// 4. request channels filled to capacity: 128 unhandled start requests, a 129th call,
	// then the worker's tick expires a timer that was accepted earlier
	for k := 0; k < 2*scale && k < 6; k++ {
		both(func(impl int64) {
			r := rng.Fork()
			h := drv.NewHist(impl, pos(r), 0)
			h.Start(2)
			h.HandleAdd()
			for i := 0; i < 128; i++ {
				h.Start(int64(r.Range(3, 30)))
			}
			h.Start(5) // the channel is full
			h.Size()
			h.Adv(2) // expires timer 1: needs the mutex
			h.HandleAdd()
			h.HandleAdd()
			h.Size()
			if k%2 == 1 {
				// fill the cancel channel as well
				for i := int64(2); i < 2+128; i++ {
					h.Cancel(i)
				}
				h.Cancel(130)
				h.Size()
				h.Adv(1)
				h.HandleDel()
				h.Size()
			}
			for h.QueuedAdd > 0 {
				h.HandleAdd()
			}
			h.Adv(40)
			h.Size()
			emit("full", h)
		})
	}
}
