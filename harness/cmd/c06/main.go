// C06 harness: timer cancellation and bookkeeping are atomic and never crash the
// scheduler.  Same machine and case language as C05 (coq/C05/Check.v, package drv); the
// histories here interleave cancels with the worker's own steps in every order: a cancel
// that overtakes its own start request, a cancel that meets the expiry tick, requests
// left unhandled, request channels filled to capacity.
package main

import (
	"fmt"
	"io"
	"log"
	"sort"

	"verifharness/cmd/c05/drv"
	. "verifharness/common"
)

func main() {
	log.SetOutput(io.Discard)
	drv.ChildMain() // real-worker scenarios run in a child process of this binary
	Main(drv.Run, gen)
}

func gen(a Args, out *Out) {
	rng := NewRng(a.Seed)
	scale := 1
	if a.Thorough() {
		scale = 40
	}
	emit := func(kind string, h *drv.Hist) {
		in := h.Sx()
		cancels, worker := 0, 0
		for _, o := range h.Ops {
			switch o.At(0).Int64() {
			case drv.OpCancel:
				cancels++
				out.Count("op:cancel")
			case drv.OpHandleAdd, drv.OpHandleDel, drv.OpTick:
				worker++
				out.Count("op:worker-step")
			case drv.OpStart, drv.OpEvery:
				out.Count("op:start")
			}
		}
		out.Case(kind, cancels > 0 && worker > 0, in, drv.Run(in))
		out.CountN("ops", len(h.Ops))
		if h.Impl == drv.ImplWheel {
			out.Count("impl:wheel")
		} else {
			out.Count("impl:heap")
		}
	}
	both := func(f func(impl int64)) {
		f(drv.ImplWheel)
		f(drv.ImplHeap)
	}
	pos := func(r *Rng) uint64 {
		return uint64(r.PickI64(0, 1, 255, 256, 1000, 16383, 16384, 1<<20-1, 1<<32-2, int64(r.Next()&0xFFFFFFFF)))
	}

	// 1. a cancel overtakes its own start request: every order of the two worker steps,
	// with and without other timers around, then ticks past the due time
	for k := 0; k < 12*scale; k++ {
		both(func(impl int64) {
			r := rng.Fork()
			h := drv.NewHist(impl, pos(r), int64(r.PickI64(0, 500)))
			others := k % 3
			for i := 0; i < others; i++ {
				h.Start(int64(r.Range(0, 8)))
				if r.Bool() {
					h.HandleAdd()
				}
			}
			for h.QueuedAdd > 0 && r.Bool() {
				h.HandleAdd()
			}
			var id int64
			if k%4 == 3 {
				id = h.Every(int64(r.Range(1, 5)))
			} else {
				id = h.Start(int64(r.Range(0, 6)))
			}
			h.Cancel(id)
			h.Size()
			h.IsSched(id)
			if k%2 == 0 {
				h.HandleDel()
				for h.QueuedAdd > 0 {
					h.HandleAdd()
				}
			} else {
				for h.QueuedAdd > 0 {
					h.HandleAdd()
				}
				h.HandleDel()
			}
			h.Probe()
			for s := 0; s < 4; s++ {
				h.Adv(int64(r.Range(1, 4)))
			}
			h.Size()
			h.Cancel(id)
			h.Probe()
			emit("overtake", h)
		})
	}

	// 2. a cancel meets the expiry: the worker expires the timer before it sees the cancel
	// request (or right after), one-shot and periodic
	for k := 0; k < 12*scale; k++ {
		both(func(impl int64) {
			r := rng.Fork()
			h := drv.NewHist(impl, pos(r), int64(r.PickI64(0, 500)))
			d := int64(r.Range(0, 5))
			var id int64
			if k%3 == 2 {
				if d == 0 {
					d = 1
				}
				id = h.Every(d)
			} else {
				id = h.Start(d)
			}
			if k%4 == 1 {
				h.Start(d) // another timer due on the same tick
				h.HandleAdd()
			}
			h.HandleAdd()
			if d > 1 && r.Bool() {
				h.Adv(d - 1)
			}
			h.Cancel(id)
			h.IsSched(id)
			h.Adv(d + int64(r.Range(0, 2))) // the expiry tick, cancel request still queued
			h.Size()
			h.HandleDel()
			h.Probe()
			h.Adv(int64(r.Range(1, 6)))
			h.Cancel(id)
			h.HandleDel()
			h.Size()
			emit("expiry-race", h)
		})
	}

	// 3. random histories over a handful of timers: API calls and worker steps in any
	// order, cancels of pending, delivered, cancelled and unknown ids
	for k := 0; k < 170*scale; k++ {
		both(func(impl int64) {
			r := rng.Fork()
			h := drv.NewHist(impl, pos(r), int64(r.PickI64(0, 9, 500)))
			maxT := int64(r.Range(1, 6))
			n := r.Range(4, 60)
			for i := 0; i < n; i++ {
				switch r.Intn(16) {
				case 0, 1:
					if h.NextID < maxT {
						h.Start(int64(r.Range(-1, 12)))
					}
				case 2:
					if h.NextID < maxT {
						h.Every(int64(r.Range(-2, 6)))
					}
				case 3, 4, 5:
					h.Cancel(int64(r.Range(0, int(h.NextID)+1)))
				case 6:
					h.Size()
				case 7:
					h.IsSched(int64(r.Range(0, int(h.NextID)+1)))
				case 8, 9, 10:
					h.HandleAdd()
				case 11, 12:
					h.HandleDel()
				case 13:
					h.Pass(int64(r.Range(-2, 4))) // also: the clock reading goes backwards
				case 14:
					h.Adv(int64(r.Range(0, 5)))
				default:
					if r.Chance(1, 3) {
						h.Probe()
					} else {
						h.Tick()
					}
				}
			}
			h.Size()
			h.Probe()
			emit("random", h)
		})
	}

	// 5. several timers in ONE bucket of the wheel (same due tick for the near wheel, due
	// ticks within one span of an outer level); one of them — the only node, the head, a
	// middle one, the tail — is cancelled; the worker unlinks it at once, or only after
	// the bucket has been cascaded (the cancelled node travels with the cascade and is
	// unlinked from the bucket it landed in), or not before its expiry; another timer is
	// then started into the same bucket; finally every due tick is visited: each timer
	// that was not cancelled must be delivered on its due tick and leave
	// Size()/IsScheduled().  (A bucket whose head/tail pointers went stale loses nodes.)
	sameSlot := func(impl int64, r *Rng, level, victimMode, delMode int) {
		cur0 := pos(r)
		tt0 := int64(r.PickI64(0, 500))
		h := drv.NewHist(impl, cur0, tt0)
		span := []int64{1, 256, 1 << 14, 1 << 20}[level]
		n := r.Range(2, 5)
		if victimMode == 0 {
			n = 1
		}
		var base int64
		if level == 0 {
			base = int64(r.Range(2, 250))
		} else {
			base = span*2 - int64(cur0)%span // the block of expiry ticks starts at a multiple of span
		}
		width := span
		if width > 5000 {
			width = 5000
		}
		delay := func() int64 {
			if level == 0 {
				return base
			}
			return base + int64(r.Intn(int(width)))
		}
		type tmr struct{ id, due int64 }
		var ts []tmr
		for i := 0; i < n; i++ {
			d := delay()
			id := h.Start(d)
			h.HandleAdd()
			ts = append(ts, tmr{id, tt0 + d})
		}
		victim := 0
		switch victimMode {
		case 2:
			victim = n / 2
		case 3:
			victim = n - 1 // the tail of the bucket
		}
		h.Cancel(ts[victim].id)
		if r.Chance(1, 4) {
			h.Probe()
		}
		now := tt0
		delDone := false
		if delMode == 0 {
			h.HandleDel()
			delDone = true
		}
		if delMode == 0 && r.Chance(1, 3) && level != 0 {
			e := int64(r.Range(1, 3))
			h.Adv(e)
			now += e
		}
		// more timers into the same bucket
		for j := 0; j < r.Range(1, 2); j++ {
			d := delay() - (now - tt0)
			id := h.Start(d)
			h.HandleAdd()
			ts = append(ts, tmr{id, now + d})
		}
		if r.Chance(1, 3) && delMode == 0 {
			// cancel the new tail as well and append once more
			last := len(ts) - 1
			h.Cancel(ts[last].id)
			h.HandleDel()
			ts[last].due = -1
			d := delay() - (now - tt0)
			id := h.Start(d)
			h.HandleAdd()
			ts = append(ts, tmr{id, now + d})
		}
		ts[victim].due = -1
		h.Probe()
		h.Size()
		if delMode == 1 && level != 0 {
			// let the bucket be cascaded with the cancelled node still linked, then unlink it
			h.Adv(tt0 + base - now)
			now = tt0 + base
			h.Probe()
			h.HandleDel()
			delDone = true
			h.Probe()
		}
		var dues []int64
		for _, t := range ts {
			if t.due >= 0 {
				dues = append(dues, t.due)
			}
		}
		sort.Slice(dues, func(a, b int) bool { return dues[a] < dues[b] })
		for _, due := range dues {
			if due <= now {
				continue
			}
			if due-1 > now {
				h.Adv(due - 1 - now)
			}
			h.Adv(1)
			now = due
		}
		h.Adv(int64(r.Range(1, 300)))
		if !delDone {
			h.HandleDel() // the node expired (dropped) long ago
		}
		h.Size()
		for _, t := range ts {
			h.IsSched(t.id)
		}
		h.Probe()
		out.Count([]string{"sameslot:near", "sameslot:tvec0", "sameslot:tvec1", "sameslot:tvec2"}[level])
		out.Count([]string{"sameslot:cancel-only", "sameslot:cancel-head", "sameslot:cancel-middle", "sameslot:cancel-tail"}[victimMode])
		out.Count([]string{"sameslot:unlink-at-once", "sameslot:unlink-after-cascade", "sameslot:unlink-after-expiry"}[delMode])
		emit("sameslot", h)
	}
	rounds := 1
	if a.Thorough() {
		rounds = 8
	}
	for round := 0; round < rounds; round++ {
		for level := 0; level < 3; level++ {
			for victimMode := 0; victimMode < 4; victimMode++ {
				for delMode := 0; delMode < 3; delMode++ {
					both(func(impl int64) { sameSlot(impl, rng.Fork(), level, victimMode, delMode) })
				}
			}
		}
		// tvec[2] against the model: more than 2^20 ticks to the due time, thorough tier only
		if a.Thorough() && round < 4 {
			sameSlot(drv.ImplWheel, rng.Fork(), 3, round%4, round%3)
		}
	}
	// 6. a cancelled timer between repeating neighbours in one near bucket; the tick that
	// expires the bucket is handled BEFORE the pending cancel request (the worker drops the
	// cancelled node at expiry), the cancel request is handled some ticks later, and the
	// neighbours go on for several periods, visited tick by tick: if the dropped node kept
	// stale links, unlinking it then corrupts the buckets its former neighbours moved to.
	for k := 0; k < 24*scale && k < 24*10; k++ {
		both(func(impl int64) {
			r := rng.Fork()
			tt0 := int64(r.PickI64(0, 500))
			h := drv.NewHist(impl, pos(r), tt0)
			// all of them first due at tt0 + due
			due := int64(r.Range(4, 9))
			nNeigh := r.Range(1, 3)
			victimPos := k % (nNeigh + 1) // position of the cancelled one among the neighbours
			now := tt0
			var victim int64
			startOne := func(isVictim bool) {
				left := tt0 + due - now
				if isVictim && r.Bool() {
					victim = h.Start(left)
				} else if isVictim {
					victim = h.Every(left)
				} else {
					h.Every(left) // period = distance to the common first due tick
				}
				h.HandleAdd()
			}
			for i := 0; i <= nNeigh; i++ {
				startOne(i == victimPos)
				if i < nNeigh && tt0+due-now > 2 {
					adv := int64(r.Range(1, 2))
					h.Adv(adv) // the next one gets a shorter period
					now += adv
				}
			}
			if r.Chance(1, 3) {
				h.Start(tt0 + due - now) // a one-shot neighbour as well
				h.HandleAdd()
			}
			h.Cancel(victim)
			h.Probe()
			for now < tt0+due { // the expiry tick, cancel request still queued
				h.Adv(1)
				now++
			}
			for j := 0; j < r.Range(0, 3); j++ {
				h.Adv(1)
				now++
			}
			h.HandleDel()
			h.Probe()
			for j := 0; j < 45; j++ {
				h.Adv(1)
			}
			h.Size()
			h.Probe()
			emit("stale-links", h)
		})
	}

	// 8. heap shapes: 5..15 pending timers with random deadlines (many array shapes); each
	// one in turn is cancelled on a fresh copy of the same heap and the worker unlinks it
	// (heap.Remove from the root, inner positions, leaves; the last element may come from
	// another subtree and have to move UP), the array is probed, then every deadline is
	// visited tick by tick: every remaining timer on its due tick, in due order.
	shapes := 7
	if a.Thorough() {
		shapes = 60
	}
	for sh := 0; sh < shapes; sh++ {
		r := rng.Fork()
		n := r.Range(5, 15)
		if sh == 0 {
			n = 7
		}
		dls := make([]int64, n)
		for i := range dls {
			dls[i] = int64(r.Range(1, 40))
		}
		if sh == 0 {
			dls = []int64{1, 10, 2, 11, 12, 20, 3} // array order = start order here
		} else if sh%2 == 1 {
			// lopsided: started in array order (no sifting), one subtree of the root with
			// large keys, the other with small ones, so that the last element moved into a
			// hole of the large subtree is smaller than the hole's parent
			big := r.Intn(2) // which child of the root heads the large subtree
			side := make([]int, n)
			dls[0] = 1
			for i := 1; i < n; i++ {
				par := (i - 1) / 2
				if par == 0 {
					side[i] = (i - 1 + big) % 2
				} else {
					side[i] = side[par]
				}
				if side[i] == 0 {
					dls[i] = dls[par] + int64(r.Range(6, 9))
				} else {
					dls[i] = dls[par] + int64(r.Range(0, 2))
				}
				if dls[i] > 40 {
					dls[i] = 40
				}
			}
		}
		extra := r.Chance(1, 3)
		for victim := 1; victim <= n; victim++ {
			both(func(impl int64) {
				h := drv.NewHist(impl, pos(r), 0)
				for _, d := range dls {
					h.Start(d)
					h.HandleAdd()
				}
				h.Probe()
				h.Cancel(int64(victim))
				h.HandleDel()
				h.Probe()
				if extra {
					h.Start(dls[victim-1]) // reuse the hole's key
					h.HandleAdd()
					h.Probe()
				}
				for tck := 0; tck < 42; tck++ {
					h.Adv(1)
				}
				h.Size()
				h.Probe()
				emit("heap-shapes", h)
			})
		}
	}

	// 8b. larger heap shapes (drv.HeapShapes): 8..30 pending timers, each position cancelled
	// and removed in turn, further starts afterwards, then tick by tick to the last deadline
	{
		srng := NewRng(a.Seed*69069 + 8)
		big := 3
		if a.Thorough() {
			big = 40
		}
		for sh := 0; sh < big; sh++ {
			for _, h := range drv.HeapShapes(srng.Fork(), sh) {
				emit("heap-shapes-large", h)
			}
		}
	}

	// 9. stale index: a due timer is cancelled, the tick is handled first (the worker drops
	// the node), then a start request is handled (a new node takes the freed array
	// position), and only THEN the old cancel request: it must not remove anybody; all
	// remaining timers still fire on their due ticks.
	for k := 0; k < 16*scale && k < 16*10; k++ {
		both(func(impl int64) {
			r := rng.Fork()
			h := drv.NewHist(impl, pos(r), 0)
			others := r.Range(1, 6)
			d := int64(r.Range(1, 4))
			var ids []int64
			vpos := r.Intn(others + 1)
			var victim int64
			for i := 0; i <= others; i++ {
				if i == vpos {
					victim = h.Start(d)
				} else {
					ids = append(ids, h.Start(d+int64(r.Range(1, 25))))
				}
				h.HandleAdd()
			}
			h.Cancel(victim)
			h.Adv(d) // expiry handled first: the cancelled node is dropped
			h.Probe()
			for j := 0; j < r.Range(1, 3); j++ {
				h.Start(int64(r.Range(1, 25)))
				h.HandleAdd()
			}
			h.Probe()
			h.HandleDel() // the stale cancel request
			h.Probe()
			if r.Bool() && len(ids) > 0 {
				h.Cancel(ids[r.Intn(len(ids))])
				h.HandleDel()
			}
			for tck := 0; tck < 52; tck++ {
				h.Adv(1)
			}
			h.Size()
			h.Probe()
			emit("stale-index", h)
		})
	}

	// 10. the id counter at the top of its range while small ids are still pending: the
	// start that wraps must skip the ids in use, and so must every start after it (ids
	// handed out are unique among pending timers); Size/IsScheduled/Cancel/deliveries
	// must stay those of distinct timers.  (The counter is positioned by the harness.)
	for k := 0; k < 16*scale && k < 160; k++ {
		both(func(impl int64) {
			r := rng.Fork()
			h := drv.NewHist(impl, pos(r), 0)
			n := r.Range(3, 8)
			// (the heap breaks ties among equal deadlines by the visible id, the model by the
			// node's key: after a wrap these differ, so the heap histories avoid equal deadlines)
			used := map[int64]bool{}
			pick := func(lo, hi int) int64 {
				for {
					d := int64(r.Range(lo, hi))
					if impl == drv.ImplWheel || !used[d] {
						used[d] = true
						return d
					}
				}
			}
			for i := 0; i < n; i++ {
				if r.Chance(1, 4) && impl == drv.ImplWheel {
					h.Every(int64(r.Range(3, 9)))
				} else {
					h.Start(pick(5, 60))
				}
				h.HandleAdd()
			}
			// free some of the small ids (cancelled and unlinked at once)
			for i := 1; i <= n; i++ {
				if r.Chance(1, 3) {
					h.Cancel(int64(i))
					h.HandleDel()
				}
			}
			h.Size()
			const maxInt = int64(^uint64(0) >> 1)
			h.Jump(maxInt - int64(r.Range(0, 2)))
			m := r.Range(2, 8)
			for i := 0; i < m; i++ {
				h.Start(pick(1, 60))
				h.HandleAdd()
				if r.Chance(1, 4) {
					h.Size()
				}
			}
			for i := int64(1); i <= int64(n+m); i++ {
				h.IsSched(i)
			}
			h.IsSched(maxInt)
			h.IsSched(maxInt - 1)
			h.Size()
			if r.Bool() {
				h.Cancel(int64(r.Range(1, n+m)))
				h.HandleDel()
				h.Cancel(maxInt)
				h.HandleDel()
			}
			h.Probe()
			for tck := 0; tck < 62; tck++ {
				h.Adv(1)
			}
			h.Size()
			h.Probe()
			emit("idwrap", h)
		})
	}

	// 11. the worker parked on its output (Chan() full, nobody reading) inside a tick that
	// has more to hand over, a Cancel arriving meanwhile (see drv.ParkedOnOutput): a
	// repeating timer whose Cancel returns true must not be handed over afterwards
	for _, pk := range [][2]int64{{drv.ImplParkWheel, 0}, {drv.ImplParkHeap, 0}, {drv.ImplParkWheel, 1}, {drv.ImplParkHeap, 1},
		{drv.ImplParkHeap, 2}, {drv.ImplParkWheel, 3}, {drv.ImplParkHeap, 3}} {
		in := List(Int(pk[0]), Int(pk[1]), Int(0), List())
		kind := "parked"
		if pk[1] == 0 || pk[1] == 2 {
			kind = "parked-repeating"
		} else if pk[1] == 3 {
			kind = "parked-shutdown"
		}
		out.Case(kind, true, in, drv.Run(in))
		out.Count("parked-on-output-scenarios")
	}

	// 12. shutdown, the worker's fourth input (see drv.ShutdownCase): Shutdown() on a quiet
	// scheduler, under API calls from client goroutines, and with the worker parked on its
	// output while callers sit in the sends on the full request channels; API calls after
	// it.  Nothing may panic, every call and Shutdown itself come back, and the bookkeeping
	// stays consistent (Size / IsScheduled / Cancel agree).
	for _, impl := range []int64{drv.ImplShutWheel, drv.ImplShutHeap} {
		for v := int64(0); v < 4; v++ {
			in := List(Int(impl), Int(v), Int(0), List())
			kind := "shutdown"
			if v >= 2 {
				kind = "shutdown-blocked-callers"
			}
			out.Case(kind, true, in, drv.Run(in))
			out.Count("shutdown-scenarios")
		}
	}

	// id reuse: a timer is cancelled but its node is still around — linked in the structure
	// with the cancel request not yet served, or still in the start queue — when the id
	// counter wraps and hands the SAME id to a new timer.  The old node must not pass for
	// the new timer: it is dropped silently when its slot comes up / when it is accepted,
	// the new timer fires on its own due tick and stays scheduled until then.  All orders
	// of the worker's ready inputs.  (The counter is positioned by the harness.)
	for k := 0; k < 24*scale && k < 24*8; k++ {
		both(func(impl int64) {
			r := rng.Fork()
			h := drv.NewHist(impl, pos(r), 0)
			const maxInt = int64(^uint64(0) >> 1)
			nPre := r.Range(0, 2)
			used := map[int64]bool{}
			pick := func(lo, hi int) int64 {
				for {
					d := int64(r.Range(lo, hi))
					if !used[d] {
						used[d] = true
						return d
					}
				}
			}
			for i := 0; i < nPre; i++ {
				h.Start(pick(20, 50))
				h.HandleAdd()
			}
			d1 := pick(3, 14)
			t1 := h.Start(d1) // visible id nPre+1
			mode := k % 4
			switch mode {
			case 0: // accepted; cancelled; cancel request NOT served before the reuse
				h.HandleAdd()
				h.Cancel(t1)
			case 1: // cancelled before accepted; neither request served before the reuse
				h.Cancel(t1)
			case 2: // cancelled before accepted; cancel request served, start request not
				h.Cancel(t1)
				h.HandleDel()
			default: // accepted; cancelled and unlinked: nothing of the old node is left
				h.HandleAdd()
				h.Cancel(t1)
				h.HandleDel()
			}
			h.IsSched(t1)
			// wrap: the counter is set so that the next start gets t1's id again
			if r.Bool() {
				h.Jump(t1 - 1)
			} else if nPre == 0 {
				h.Jump(maxInt) // MaxInt+1 wraps, restarts at 1 = t1
			} else {
				h.Jump(t1 - 1)
			}
			d2 := pick(2, 18)
			h.Start(d2) // the new owner of the id
			switch r.Intn(3) {
			case 0:
				h.HandleAdd()
				h.HandleAdd()
				h.HandleDel()
			case 1:
				h.HandleDel()
				h.HandleAdd()
				h.HandleAdd()
			default:
				h.HandleAdd()
			}
			h.IsSched(t1)
			h.Size()
			h.Probe()
			for tck := 0; tck < 20; tck++ {
				h.Adv(1)
				if tck == 5 {
					h.HandleAdd()
					h.HandleDel()
					h.IsSched(t1)
				}
			}
			h.HandleAdd()
			h.HandleDel()
			for tck := 0; tck < 34; tck++ {
				h.Adv(1)
			}
			h.Size()
			h.IsSched(t1)
			h.Probe()
			emit("idreuse", h)
		})
	}

	// 7. the REAL worker goroutine with nobody reading Chan(): the worker gets stuck
	// delivering, every id is cancelled, then Chan() is drained; counting only (see drv.Live)
	for k := 0; k < 1*scale && k < 4; k++ {
		for _, lv := range [][2]int64{{drv.ImplLiveWheel, 300}, {drv.ImplLiveHeap, 700}} {
			in := List(Int(lv[0]), Int(lv[1]+int64(rng.Intn(50))), Int(0), List())
			out.Case("live", true, in, drv.Run(in))
			out.Count("live-worker-scenarios")
		}
	}

	nilRunnable(out)
	probeLimit(out)
	deepSlots(a, rng.Fork(), out, 2)
	deepSlots(a, rng.Fork(), out, 3)

	// 4. request channels filled to capacity: 128 unhandled start requests, a 129th call,
	// then the worker's tick expires a timer that was accepted earlier
	for k := 0; k < 2*scale && k < 6; k++ {
		both(func(impl int64) {
			r := rng.Fork()
			h := drv.NewHist(impl, pos(r), 0)
			h.Start(2)
			h.HandleAdd()
			for i := 0; i < 128; i++ {
				h.Start(int64(r.Range(3, 30)))
			}
			h.Start(5) // the channel is full
			h.Size()
			h.Adv(2) // expires timer 1: needs the mutex
			h.HandleAdd()
			h.HandleAdd()
			h.Size()
			if k%2 == 1 {
				// fill the cancel channel as well
				for i := int64(2); i < 2+128; i++ {
					h.Cancel(i)
				}
				h.Cancel(130)
				h.Size()
				h.Adv(1)
				h.HandleDel()
				h.Size()
			}
			for h.QueuedAdd > 0 {
				h.HandleAdd()
			}
			h.Adv(40)
			h.Size()
			emit("full", h)
		})
	}
}

// deepSlots: the same scenario in a bucket of tvec[2] / tvec[3] (delays of at least 2^20 /
// 2^26 ticks), evaluated in Go only (the model cannot be ticked that far in reasonable time): timers
// sharing the bucket, one cancelled and unlinked (only / head / middle / tail), another
// one appended, then every due tick is visited; each surviving timer must be delivered
// exactly on its due tick and Size() must return to 0.
func deepSlots(a Args, rng *Rng, out *Out, tv int) {
	cases := 2
	if a.Thorough() {
		cases = 12
	}
	if tv == 2 {
		cases *= 2
	}
	for c := 0; c < cases; c++ {
		r := rng.Fork()
		victimMode := (c + int(a.Seed)) % 4
		cur0 := uint64(r.Next() & 0xFFFFFFFF)
		span := int64(1) << uint(8+6*tv)
		base := span*2 - int64(cur0)%span
		if c%2 == 1 {
			base = span + (span - int64(cur0)%span) // the first block that is at least 2^26 ticks away
		}
		n := r.Range(2, 4)
		if victimMode == 0 {
			n = 1
		}
		h := drv.NewHist(drv.ImplWheel, cur0, 0)
		d := drv.NewDriver(drv.ImplWheel, cur0, 0)
		t := d.Timer()
		type tmr struct {
			id  int
			due int64
			job *drv.Job
		}
		var ts []*tmr
		start := func(delay int64) {
			j := &drv.Job{Ord: int64(len(ts) + 1)}
			id := t.RunAfter(int(delay), j)
			d.HandleAdd()
			h.Start(delay)
			h.HandleAdd()
			ts = append(ts, &tmr{id, delay, j})
		}
		for i := 0; i < n; i++ {
			start(base + int64(r.Intn(4000)))
		}
		victim := 0
		switch victimMode {
		case 2:
			victim = n / 2
		case 3:
			victim = n - 1
		}
		fail := func(what string) {
			out.Violation("C06/deepslot", what, h.Sx())
		}
		p, _ := Catch(func() {
			if !t.Cancel(ts[victim].id) {
				fail("Cancel of a pending timer in an outer level returned false")
			}
			h.Cancel(int64(ts[victim].id))
			d.HandleDel()
			h.HandleDel()
			ts[victim].due = -1
			start(base + int64(r.Intn(4000)))
			start(base + int64(r.Intn(4000)))
			if _, ok := d.Probe(); !ok {
				fail("bucket links inconsistent after unlinking a node of an outer-level bucket")
			}
			var live []*tmr
			for _, x := range ts {
				if x.due >= 0 {
					live = append(live, x)
				}
			}
			sort.Slice(live, func(i, j int) bool { return live[i].due < live[j].due })
			now := int64(0)
			i := 0
			for i < len(live) {
				due := live[i].due
				j := i
				for j < len(live) && live[j].due == due {
					j++
				}
				if due-1 > now {
					d.Pass(due - 1 - now)
					h.Adv(due - 1 - now)
					if _, got := drv.TickDrain(d); len(got) != 0 {
						fail("a timer of an outer-level bucket was delivered before its due tick")
					}
				}
				drv.Alive()
				d.Pass(1)
				h.Adv(1)
				_, got := drv.TickDrain(d)
				out.GoChecked += int64(j - i)
				if len(got) != j-i {
					fail("timers of an outer-level bucket due on this tick were not delivered on it")
					return
				}
				now = due
				i = j
			}
			h.Size()
			if sz := t.Size(); sz != 0 {
				fail("Size() != 0 after every timer of the outer-level bucket was delivered or cancelled")
			}
		})
		if p {
			fail("scheduler panicked")
		}
		out.Count(fmt.Sprintf("deepslot:tvec%d", tv))
	}
}

// nilRunnable: a timer started with a nil Runnable must not hurt the scheduler (the heap
// drops it at expiry without sending, the wheel hands the nil over): no panic, and the
// timer leaves the bookkeeping at its due tick like any other.
func nilRunnable(out *Out) {
	for _, impl := range []int64{drv.ImplWheel, drv.ImplHeap} {
		h := drv.NewHist(impl, 1000, 0)
		d := drv.NewDriver(impl, 1000, 0)
		t := d.Timer()
		p, _ := Catch(func() {
			id := t.RunAfter(2, nil)
			t.RunAfter(2, &drv.Job{Ord: 2})
			d.HandleAdd()
			d.HandleAdd()
			d.Pass(2)
			done := make(chan struct{})
			n := 0
			go func() { d.Tick(); close(done) }()
			for fin := false; !fin; {
				select {
				case <-t.Chan():
					n++
				case <-done:
					fin = true
				}
			}
			out.GoChecked++
			if t.IsScheduled(id) || t.Size() != 0 {
				out.Violation("C06/nil-runnable", "a timer with a nil Runnable is still counted after its due tick", h.Sx())
			}
		})
		if p {
			out.Violation("C06/nil-runnable", "the scheduler panicked on a timer with a nil Runnable", h.Sx())
		}
	}
}

// probeLimit: after the id counter wrapped, nextID() must still hand out an id that is not
// in use when many consecutive ids are pending (it probes candidate after candidate).
// 10001 timers with the ids 1..10001 are pending, the counter is set back to 0, one more
// timer is started: its id must be new, and all 10002 timers must be counted.
func probeLimit(out *Out) {
	for _, impl := range []int64{drv.ImplWheel, drv.ImplHeap} {
		const n = 10001
		h := drv.NewHist(impl, 1000, 0)
		h.Jump(0)
		h.Start(1000000)
		d := drv.NewDriver(impl, 1000, 0)
		t := d.Timer()
		p, _ := Catch(func() {
			for i := 0; i < n; i++ {
				t.RunAfter(1000000, &drv.Job{})
				d.HandleAdd()
				if i%500 == 0 {
					drv.Alive()
				}
			}
			d.SetNextID(0)
			id := t.RunAfter(1000000, &drv.Job{})
			d.HandleAdd()
			out.GoChecked++
			if id >= 1 && id <= n {
				out.Violation("C06/probe-limit", fmt.Sprintf("with the ids 1..%d pending and the id counter wrapped, the next timer got id %d, which is in use", n, id), h.Sx())
			} else if sz := t.Size(); sz != n+1 {
				out.Violation("C06/probe-limit", fmt.Sprintf("Size() = %d with %d timers pending", sz, n+1), h.Sx())
			}
		})
		if p {
			out.Violation("C06/probe-limit", "the scheduler panicked", h.Sx())
		}
	}
}
