package main

import (
	"fmt"
	"time"

	"qchen.fun/fatchoy/sched"
)

type job struct{}

func (job) Run() error { return nil }

func try(name string, f func()) {
	defer func() {
		if r := recover(); r != nil {
			fmt.Printf("%s: PANIC %v\n", name, r)
		}
	}()
	f()
}

func main() {
	for i, mk := range []func() sched.Timer{
		func() sched.Timer { return sched.NewDefaultHHWheelTimer() },
		func() sched.Timer { return sched.NewDefaultTimerQueue() },
	} {
		t := mk()
		t.Start()
		id := t.RunAfter(1000, job{})
		time.Sleep(30 * time.Millisecond)
		t.Shutdown()
		fmt.Println("impl", i)
		try("Size", func() { fmt.Println("size", t.Size()) })
		try("IsScheduled", func() { fmt.Println("issched", t.IsScheduled(id)) })
		try("Cancel", func() { fmt.Println("cancel", t.Cancel(id)) })
		try("RunAfter", func() { fmt.Println("runafter", t.RunAfter(5, job{})) })
		try("RunEvery", func() { fmt.Println("runevery", t.RunEvery(5, job{})) })
		try("Chan", func() { fmt.Println("chan nil?", t.Chan() == nil) })
		try("Shutdown", func() { t.Shutdown() })
	}
}
