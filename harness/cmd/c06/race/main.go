// C06 thorough extra: the REAL worker goroutines of both schedulers (wall-clock ticker)
// under concurrent RunAfter / RunEvery / Cancel / Size / IsScheduled from several
// goroutines, meant to be run with -race.  Checks, per one-shot timer: it is either
// delivered exactly once or its Cancel returned true — never both, never neither; a
// periodic timer is not delivered any more once its Cancel has returned true and the
// deliveries decided before the cancel have been drained; no panic; Size() returns to 0.
// Exit status 1 on any failure (a data race makes the race runtime exit with 66).
package main

import (
	"fmt"
	"os"
	"sync"
	"sync/atomic"
	"time"

	"qchen.fun/fatchoy/sched"
)

type job struct {
	id        int64
	delivered int64
	cancelled int64 // Cancel returned true
}

func (j *job) Run() error { return nil }

func exercise(name string, t sched.Timer, seed uint64) (failures []string) {
	t.Start()
	var mu sync.Mutex
	var jobs []*job
	stopDrain := make(chan struct{})
	var drained sync.WaitGroup
	drained.Add(1)
	go func() {
		defer drained.Done()
		for {
			select {
			case r := <-t.Chan():
				atomic.AddInt64(&r.(*job).delivered, 1)
			case <-stopDrain:
				for { // what is still buffered was decided before
					select {
					case r := <-t.Chan():
						atomic.AddInt64(&r.(*job).delivered, 1)
					default:
						return
					}
				}
			}
		}
	}()
	var wg sync.WaitGroup
	for g := 0; g < 6; g++ {
		wg.Add(1)
		go func(g int) {
			defer wg.Done()
			s := seed*977 + uint64(g)*7919 + 1
			next := func() uint64 { s = s*6364136223846793005 + 1442695040888963407; return s >> 33 }
			for i := 0; i < 1500; i++ {
				j := &job{}
				id := t.RunAfter(int(next()%12), j)
				atomic.StoreInt64(&j.id, int64(id))
				mu.Lock()
				jobs = append(jobs, j)
				mu.Unlock()
				switch next() % 4 {
				case 0: // cancel at once: may overtake the start request
					if t.Cancel(id) {
						atomic.StoreInt64(&j.cancelled, 1)
					}
				case 1: // cancel around the expiry
					time.Sleep(time.Duration(next()%3) * time.Millisecond)
					if t.Cancel(id) {
						atomic.StoreInt64(&j.cancelled, 1)
					}
				case 2:
					t.Size()
					t.IsScheduled(id)
				}
				if i%50 == 0 {
					t.Cancel(1000000 + int(next()%1000)) // ids never handed out
					t.Cancel(-int(next() % 3))
				}
			}
		}(g)
	}
	// a periodic timer cancelled in the middle (no fixed sleeps: poll, so that a loaded
	// machine cannot turn slowness into a failure)
	waitFor := func(limit time.Duration, cond func() bool) bool {
		end := time.Now().Add(limit)
		for time.Now().Before(end) {
			if cond() {
				return true
			}
			time.Sleep(2 * time.Millisecond)
		}
		return cond()
	}
	pj := &job{}
	pid := t.RunEvery(2, pj)
	if !waitFor(20*time.Second, func() bool { return atomic.LoadInt64(&pj.delivered) >= 3 }) {
		failures = append(failures, name+": periodic timer did not fire 3 times within 20 s")
	}
	if !t.Cancel(pid) {
		failures = append(failures, name+": Cancel of a running periodic timer returned false")
	}
	// a delivery decided before the cancel may still be in flight: wait until the count is stable
	var after int64
	waitFor(20*time.Second, func() bool {
		a := atomic.LoadInt64(&pj.delivered)
		time.Sleep(40 * time.Millisecond)
		after = atomic.LoadInt64(&pj.delivered)
		return a == after
	})
	wg.Wait()
	// every remaining one-shot timer (delay <= 11 units) becomes due and leaves the map
	if !waitFor(30*time.Second, func() bool { return t.Size() == 0 }) {
		failures = append(failures, fmt.Sprintf("%s: Size() = %d, not 0, 30 s after the last start", name, t.Size()))
	}
	time.Sleep(50 * time.Millisecond) // let the drainer take what was decided last
	if n := atomic.LoadInt64(&pj.delivered); n != after {
		failures = append(failures, fmt.Sprintf("%s: periodic timer delivered %d more times after Cancel returned true", name, n-after))
	}
	close(stopDrain)
	drained.Wait()
	both, neither, twice := 0, 0, 0
	for _, j := range jobs {
		d, c := atomic.LoadInt64(&j.delivered), atomic.LoadInt64(&j.cancelled)
		switch {
		case d > 1:
			twice++
		case d == 1 && c == 1:
			both++
		case d == 0 && c == 0:
			neither++
		}
	}
	if both+neither+twice > 0 {
		failures = append(failures, fmt.Sprintf("%s: of %d one-shot timers %d delivered after a true Cancel, %d neither delivered nor cancelled, %d delivered twice", name, len(jobs), both, neither, twice))
	}
	// Shutdown while clients keep calling the API: no panic, no data race, every call returns
	var late sync.WaitGroup
	stopLate := make(chan struct{})
	var latePanics int64
	for g := 0; g < 3; g++ {
		g := g
		late.Add(1)
		go func() {
			defer late.Done()
			for i := 0; ; i++ {
				select {
				case <-stopLate:
					return
				default:
				}
				func() {
					defer func() {
						if recover() != nil {
							atomic.AddInt64(&latePanics, 1)
						}
					}()
					switch g {
					case 0:
						id := t.RunAfter(1000+i%5, &job{})
						t.IsScheduled(id)
					case 1:
						t.Cancel(i % 50)
						t.Size()
					default:
						t.RunEvery(1000, &job{})
					}
				}()
				time.Sleep(20 * time.Microsecond)
			}
		}()
	}
	time.Sleep(5 * time.Millisecond)
	t.Shutdown()
	time.Sleep(2 * time.Millisecond)
	close(stopLate)
	lateDone := make(chan struct{})
	go func() { late.Wait(); close(lateDone) }()
	select {
	case <-lateDone:
	case <-time.After(10 * time.Second):
		failures = append(failures, name+": API calls made around Shutdown never returned")
	}
	if n := atomic.LoadInt64(&latePanics); n > 0 {
		failures = append(failures, fmt.Sprintf("%s: %d API calls made around Shutdown panicked", name, n))
	}
	fmt.Printf("%s: %d one-shot timers, periodic fired %d times, failures %d\n", name, len(jobs), after, len(failures))
	return
}

func main() {
	var failures []string
	for round := uint64(1); round <= 3; round++ {
		failures = append(failures, exercise("wheel", sched.NewHHWheelTimer(time.Millisecond, time.Millisecond), round)...)
		failures = append(failures, exercise("heap", sched.NewTimerQueue(time.Millisecond, time.Millisecond), round)...)
	}
	for _, f := range failures {
		fmt.Println("FAIL:", f)
	}
	if len(failures) > 0 {
		os.Exit(1)
	}
	fmt.Println("ok")
}
