// C20 harness: node ids (nodeid.go).
// input    = (service instance)
// observed = (id svc inst backend str parsed_ok parsed)
package main

import (
	"fmt"
	"io"
	"log"
	"os"
	"os/exec"
	"strings"

	"qchen.fun/fatchoy"
	. "verifharness/common"
)

// NodeIDSet histories: input = ((op id) ...), op 0 Insert, 1 Delete, 2 Has, 3 Find
func runIDSet(ops Sx) Sx {
	var set fatchoy.NodeIDSet
	obs := make([]Sx, 0, ops.Len())
	for k := 0; k < ops.Len(); k++ {
		op, id := ops.At(k).At(0).AsInt(), int32(ops.At(k).At(1).Int64())
		res := int64(-1)
		panicked, _ := Catch(func() {
			switch op {
			case 0:
				set = set.Insert(id)
			case 1:
				set = set.Delete(id)
			case 2:
				if set.Has(id) {
					res = 1
				} else {
					res = 0
				}
			case 3:
				res = int64(set.Find(id))
			}
		})
		if panicked {
			res = -99
		}
		l := make([]Sx, len(set))
		for j, v := range set {
			l[j] = Int(int64(v))
		}
		obs = append(obs, List(ListOf(l), Int(res)))
	}
	return ListOf(obs)
}

// observe makes the calls the property speaks about for one (service, instance) pair
func observe(s uint8, i uint16) (id fatchoy.NodeID, str string, parsedOK bool, parsed fatchoy.NodeID) {
	id = fatchoy.MakeNodeID(s, i)
	str = id.String()
	panicked, _ := Catch(func() { parsed = fatchoy.MustParseNodeID(str) })
	return id, str, !panicked, parsed
}

// firstInProcess makes the same calls as the very first use of the package in a fresh process
// (this binary re-executed with VERIF_C20_FIRST=s,i): memo tables, pools and other package-level
// state are then in their initial condition
func firstInProcess(s uint8, i uint16) Sx {
	cmd := exec.Command(os.Args[0])
	cmd.Env = append(os.Environ(), fmt.Sprintf("VERIF_C20_FIRST=%d,%d", s, i))
	b, err := cmd.Output()
	f := strings.Split(strings.TrimRight(string(b), "\n"), "\t")
	id := fatchoy.MakeNodeID(s, i)
	if err != nil || len(f) != 3 {
		// the child died: report it as an unparsable, non-hex printed form
		return List(Uint(uint64(id)), Uint(uint64(id.Service())), Uint(uint64(id.Instance())),
			Bool(id.IsTypeBackend()), Str("!child process failed"), Bool(false), Uint(0))
	}
	var ok, parsed uint64
	fmt.Sscanf(f[1], "%d", &ok)
	fmt.Sscanf(f[2], "%d", &parsed)
	return List(Uint(uint64(id)), Uint(uint64(id.Service())), Uint(uint64(id.Instance())),
		Bool(id.IsTypeBackend()), Str(f[0]), Bool(ok == 1), Uint(parsed))
}

func childFirst(spec string) {
	var s, i int
	fmt.Sscanf(spec, "%d,%d", &s, &i)
	_, str, ok, parsed := observe(uint8(s), uint16(i))
	o := 0
	if ok {
		o = 1
	}
	fmt.Printf("%s\t%d\t%d\n", str, o, uint64(parsed))
}

func run(in Sx) Sx {
	if in.Len() == 1 {
		return runIDSet(in.At(0))
	}
	if in.Len() == 3 {
		return firstInProcess(uint8(in.At(0).Int64()), uint16(in.At(1).Int64()))
	}
	s, i := uint8(in.At(0).Int64()), uint16(in.At(1).Int64())
	id := fatchoy.MakeNodeID(s, i)
	str := id.String()
	// the printed form must stay what it is while other ids are printed (a string sharing a
	// reused buffer would change under our feet)
	_ = (id ^ 0x00555555).String()
	_ = fatchoy.NodeID(0).String()
	var parsed fatchoy.NodeID
	panicked, _ := Catch(func() { parsed = fatchoy.MustParseNodeID(str) })
	return List(Uint(uint64(id)), Uint(uint64(id.Service())), Uint(uint64(id.Instance())),
		Bool(id.IsTypeBackend()), Str(str), Bool(!panicked), Uint(uint64(parsed)))
}

// the property itself, evaluated in Go (used for the exhaustive sweep)
func holds(s uint8, i uint16) (bool, string) {
	id := fatchoy.MakeNodeID(s, i)
	if id.Service() != s || id.Instance() != i {
		return false, "unpack"
	}
	if !id.IsTypeBackend() {
		return false, "backend"
	}
	if uint32(id) != uint32(s)<<16|uint32(i) {
		return false, "injective"
	}
	str := id.String()
	_ = (id ^ 0x00AAAAAA).String()
	if len(str) == 0 {
		return false, "print"
	}
	for _, c := range []byte(str) {
		if !(c >= '0' && c <= '9' || c >= 'a' && c <= 'f') {
			return false, "print"
		}
	}
	var parsed fatchoy.NodeID
	if p, _ := Catch(func() { parsed = fatchoy.MustParseNodeID(str) }); p || parsed != id {
		return false, "parse"
	}
	return true, ""
}

func concurrentStrings(out *Out, seed uint64) {
	const workers, rounds = 8, 40000
	type bad struct{ s, i int64 }
	res := make(chan bad, workers)
	for w := 0; w < workers; w++ {
		go func(w int) {
			r := NewRng(seed + uint64(w))
			first := bad{-1, -1}
			for k := 0; k < rounds; k++ {
				// ids that collide in small tables: equal low bytes / equal xor-folds
				// all workers print the same small families (same service, same low instance
				// byte, varying high byte; and same instance, varying service)
				s := uint8(7)
				i := uint16(r.Intn(16))<<8 | 0x42
				if k%5 == 1 {
					s, i = uint8(r.Intn(16)*16+3), 0x1234
				}
				if k%5 == 0 {
					s, i = uint8(r.Intn(256)), uint16(r.Intn(65536))
				}
				id := fatchoy.MakeNodeID(s, i)
				str := id.String()
				var parsed fatchoy.NodeID
				p, _ := Catch(func() { parsed = fatchoy.MustParseNodeID(str) })
				if (p || parsed != id) && first.s < 0 {
					first = bad{int64(s), int64(i)}
				}
			}
			res <- first
		}(w)
	}
	for w := 0; w < workers; w++ {
		b := <-res
		out.GoChecked += rounds
		if b.s >= 0 {
			out.Violation("C20/concurrent-print", "printed form of an id printed concurrently with other ids does not parse back to it", Ints(b.s, b.i))
		}
	}
}

func main() {
	log.SetOutput(io.Discard)
	if spec := os.Getenv("VERIF_C20_FIRST"); spec != "" {
		childFirst(spec)
		return
	}
	Main(run, gen)
}

func gen(a Args, out *Out) {
	rng := NewRng(a.Seed)
	bounds := []int64{0, 1, 2, 15, 16, 255, 256, 257, 4095, 4096, 32767, 32768, 65534, 65535}
	emit := func(kind string, s, i int64) {
		in := Ints(s, i)
		out.Case(kind, s != 0 || i != 0, in, run(in))
		if s >= 128 {
			out.Count("service>=128")
		}
	}
	// first use in a fresh process, for ids a zero-valued memo or table would "match"
	for _, p := range [][2]int64{{0, 0}, {0, 1}, {1, 0}, {255, 65535}, {0, 10}, {int64(rng.Intn(256)), int64(rng.Intn(65536))}} {
		in := Ints(p[0], p[1], 1)
		out.Case("first-in-process", true, in, run(in))
	}
	for s := int64(0); s < 256; s++ {
		for _, i := range bounds {
			emit("boundary", s, i)
		}
	}
	nrand := 2000
	if a.Thorough() {
		nrand = 20000
	}
	for k := 0; k < nrand; k++ {
		emit("random", int64(rng.Intn(256)), int64(rng.Intn(65536)))
	}
	// NodeIDSet histories over small and extreme id universes
	nset := 300
	if a.Thorough() {
		nset = 6000
	}
	extremes := []int64{-2147483648, -2147483647, -1, 0, 1, 2147483646, 2147483647}
	for h := 0; h < nset; h++ {
		universe := rng.Range(2, 12)
		nops := rng.Range(1, 60)
		ops := make([]Sx, nops)
		for k := range ops {
			id := int64(rng.Intn(universe))
			if h%4 == 3 {
				id = extremes[rng.Intn(len(extremes))]
			} else if h%4 == 2 {
				id = int64(int32(rng.Next()))
			}
			var code int64
			switch d := rng.Intn(10); {
			case d < 4:
				code = 0
			case d < 7:
				code = 1
			case d < 9:
				code = 2
			default:
				code = 3
			}
			ops[k] = Ints(code, id)
			out.Count([]string{"idset:insert", "idset:delete", "idset:has", "idset:find"}[code])
		}
		in := List(ListOf(ops))
		out.Case("idset", nops >= 3, in, run(in))
	}
	// Go-side sweep of the property itself: every service x a seed-chosen stride of
	// instances (quick), all 2^24 pairs (thorough).
	step := 64
	if a.Thorough() {
		step = 1
	}
	off := rng.Intn(step)
	for s := 0; s < 256; s++ {
		for i := off; i < 65536; i += step {
			out.GoChecked++
			if ok, what := holds(uint8(s), uint16(i)); !ok {
				out.Violation("C20/"+what, "node id property fails: "+what, Ints(int64(s), int64(i)))
			}
		}
	}
	// concurrent printing: NodeID values are plain integers, so String() on different ids
	// from different goroutines is ordinary use; every printed form must be the id's own
	// (a cache or shared buffer inside String() shows only here)
	concurrentStrings(out, rng.Next())
	if step == 1 {
		out.Note("exhaustive Go-side sweep of all 2^24 (service, instance) pairs")
	}
}
