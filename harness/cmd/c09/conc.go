package main

import (
	"bytes"
	"runtime"
	"sort"
	"strconv"
	"sync"
	"time"

	"qchen.fun/fatchoy/x/uuid"
	. "verifharness/common"
)

// Concurrent callers of one generator under the scripted clock.  The clock hook hands out the
// readings of the script one by one under its own lock and logs which call took which reading
// (the caller is identified by its goroutine id, the call by a per-caller serial number).
// Next reads the clock while it holds the generator's mutex, so the readings of one call are
// contiguous and the calls are linearised by their first reading; the outcomes in that order
// must be what the model computes for the script — whoever made the calls.
var concViolation string // set by runGenConcurrent when the log itself shows a broken exclusion

func goid() int64 {
	var buf [64]byte
	b := buf[:runtime.Stack(buf[:], false)]
	b = bytes.TrimPrefix(b, []byte("goroutine "))
	if i := bytes.IndexByte(b, ' '); i > 0 {
		n, _ := strconv.ParseInt(string(b[:i]), 10, 64)
		return n
	}
	return -1
}

type logEntry struct {
	gid, serial int64
	idx         int
}

type concCall struct {
	gid, serial int64
	o           outcome
	first       int
}

func runGenConcurrent(s script) (auto int64, outs []outcome) {
	clockMu.Lock()
	defer clockMu.Unlock()
	defer func() { uuid.VerifClock = nil }()
	auto = autoID
	rd := s.readings()
	uuid.VerifClock = func() int64 { return s.nano(-1, s.t0) }
	sf := uuid.NewSnowflake(uint16(s.mid))
	var hmu sync.Mutex
	pos := 0
	serial := map[int64]int64{}
	var log []logEntry
	uuid.VerifClock = func() int64 {
		hmu.Lock()
		defer hmu.Unlock()
		if pos >= len(rd) {
			panic(clockDry{})
		}
		g := goid()
		log = append(log, logEntry{g, serial[g], pos})
		t := rd[pos]
		pos++
		return s.nano(pos-1, t)
	}
	var wg sync.WaitGroup
	res := make([][]concCall, s.callers)
	gids := make([]int64, s.callers)
	finished := make([]bool, s.callers)
	ready := make(chan struct{}, s.callers)
	start := make(chan struct{})
	for c := 0; c < int(s.callers); c++ {
		wg.Add(1)
		go func(c int) {
			defer wg.Done()
			defer func() { hmu.Lock(); finished[c] = true; hmu.Unlock() }()
			g := goid()
			gids[c] = g
			ready <- struct{}{}
			<-start
			for n := int64(1); ; n++ {
				hmu.Lock()
				dry := pos >= len(rd)
				serial[g] = n
				hmu.Unlock()
				if dry {
					return
				}
				var id int64
				var err error
				panicked, val := Catch(func() { id, err = sf.Next() })
				var o outcome
				switch {
				case panicked:
					if _, d := val.(clockDry); d {
						o.kind = 4
					} else {
						o.kind = 5
					}
				case err == nil:
					o.kind, o.value = 0, id
				case err == uuid.ErrTimeUnitOverflow:
					o.kind = 1
				case err == uuid.ErrClockGoneBackwards:
					o.kind = 2
				case err == uuid.ErrUUIDIntOverflow:
					o.kind = 3
				default:
					o.kind = 5
				}
				hmu.Lock()
				res[c] = append(res[c], concCall{gid: g, serial: n, o: o, first: -1})
				hmu.Unlock()
				if panicked {
					return
				}
			}
		}(c)
	}
	for c := 0; c < int(s.callers); c++ {
		<-ready
	}
	close(start)
	allDone := make(chan struct{})
	go func() { wg.Wait(); close(allDone) }()
	blocked := 0
waiting:
	for {
		select {
		case <-allDone:
			break waiting
		case <-time.After(25 * time.Millisecond):
		}
		// are all remaining callers parked on the generator's mutex with nobody inside Next?
		hmu.Lock()
		left := map[int64]bool{}
		for c := range finished {
			if !finished[c] {
				left[gids[c]] = true
			}
		}
		hmu.Unlock()
		if len(left) > 0 && ConfirmedStuck(nextFrame, left) {
			blocked = len(left)
			break waiting
		}
	}
	hmu.Lock()
	defer hmu.Unlock()
	// which readings did each call take?
	type key struct{ g, n int64 }
	idxs := map[key][]int{}
	for _, e := range log {
		k := key{e.gid, e.serial}
		idxs[k] = append(idxs[k], e.idx)
	}
	var calls []concCall
	for c := range res {
		prev := -1
		for _, cc := range res[c] {
			ix := idxs[key{cc.gid, cc.serial}]
			if len(ix) == 0 {
				// the script ended before this call read the clock: not a call of the history
				if cc.o.kind != 4 {
					concViolation = "a call returned without reading the clock"
				}
				continue
			}
			cc.first = ix[0]
			cc.o.consumed = int64(len(ix))
			for j := 1; j < len(ix); j++ {
				if ix[j] != ix[j-1]+1 {
					concViolation = "the clock readings of two calls interleave (Next is not atomic)"
				}
			}
			if cc.first < prev {
				concViolation = "calls of one caller are out of order"
			}
			prev = cc.first
			calls = append(calls, cc)
		}
	}
	sort.SliceStable(calls, func(i, j int) bool { return calls[i].first < calls[j].first })
	// per-caller monotonicity of the ids (a consequence of the linear order, checked directly)
	last := map[int64]int64{}
	for _, cc := range calls {
		if cc.o.kind == 0 {
			if v, ok := last[cc.gid]; ok && v >= cc.o.value {
				concViolation = "ids of one caller are not increasing"
			}
			last[cc.gid] = cc.o.value
		}
		outs = append(outs, cc.o)
	}
	if blocked > 0 {
		outs = append(outs, outcome{kind: 6}) // the callers that never returned
	}
	return
}
