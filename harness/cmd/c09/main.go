// C09 harness: snowflake ids (x/uuid/snowflake.go) under a scripted clock.
//
// input    = (gen ...)                1 or 2 generators, run one after the other
// gen      = (mid t0 ((t n) ...))     machine id, the reading NewSnowflake sees, then the
//
//	readings of currentTimeUnit(), run-length encoded
//
// observed = (obs ...)
// obs      = (auto ((kind value consumed rep) ...))
//
//	kind 0 Ok, 1 ErrTimeUnitOverflow, 2 ErrClockGoneBackwards, 3 ErrUUIDIntOverflow,
//	4 the scripted clock ran dry inside the call (the model's Blocked), 5 other panic
//
// The clock hook (x/uuid/clock_verif.go, build tag verif) is fed from the case: reading t is
// handed to the code as t*TimeUnit+CustomEpoch nanoseconds.  Next is called as long as
// readings remain.
package main

import (
	"fmt"
	"io"
	"log"
	"os"
	"strings"
	"sync"

	"qchen.fun/fatchoy/x/uuid"
	. "verifharness/common"
)

type clockDry struct{}

// okStore: a counter store that always answers (uuid.Init needs one for the segment generator)
type okStore struct{}

func (okStore) Incr() (int64, error) { return 1, nil }
func (okStore) Close() error         { return nil }

type script struct {
	mid     int64
	t0      int64
	clock   [][2]int64 // (reading, count)
	callers int64      // > 1: that many goroutines share the generator (conc.go); -1: through the package API
	jseed   int64      // != 0: every reading gets a nanosecond offset inside its time unit (nano)
}

func (s script) sx() Sx {
	l := make([]Sx, len(s.clock))
	for i, e := range s.clock {
		l[i] = Ints(e[0], e[1])
	}
	if s.jseed != 0 {
		return List(Int(s.mid), Int(s.t0), ListOf(l), Int(s.callers), Int(s.jseed))
	}
	if s.callers > 1 || s.callers < 0 {
		return List(Int(s.mid), Int(s.t0), ListOf(l), Int(s.callers))
	}
	return List(Int(s.mid), Int(s.t0), ListOf(l))
}

func scriptOf(in Sx) script {
	s := script{mid: in.At(0).Int64(), t0: in.At(1).Int64()}
	for _, e := range in.At(2).L {
		s.clock = append(s.clock, [2]int64{e.At(0).Int64(), e.At(1).Int64()})
	}
	if in.Len() > 3 {
		s.callers = in.At(3).Int64()
	}
	if in.Len() > 4 {
		s.jseed = in.At(4).Int64()
	}
	return s
}

func (s script) readings() []int64 {
	var r []int64
	for _, e := range s.clock {
		for k := int64(0); k < e[1]; k++ {
			r = append(r, e[0])
		}
	}
	return r
}

type outcome struct {
	kind, value, consumed int64
}

var clockMu sync.Mutex

// the frame of Snowflake.Next in a goroutine dump, and the worker the calls run on
// (common/watch.go: a call blocked for good on the generator's mutex is outcome kind 6)
const nextFrame = "qchen.fun/fatchoy/x/uuid.(*Snowflake).Next("

var nextWatcher *Watcher

// what NewSnowflake(0) picks on this host (lower 16 bits of a private IPv4 address, or 0)
var autoID = int64(uuid.VerifPrivateIP4())

func nanos(t int64) int64 { return t*uuid.TimeUnit + uuid.CustomEpoch }

// nano is the wall-clock value handed to the code for the i-th reading (i = -1: the reading of
// NewSnowflake) whose time unit is t.  With jseed = 0 it is the exact start of the unit.
// Otherwise a nanosecond offset inside the unit is added — 0, 1, TimeUnit-2, TimeUnit-1 (the unit
// boundaries +- 1 ns) or anything in between, independently per reading, so consecutive
// readings of one unit wobble forwards and backwards by up to 10 ms.  currentTimeUnit divides a
// signed difference with truncation, so a unit t < 0 is reached from below (offset <= 0) and
// unit 0 from both sides: instants up to TimeUnit-1 ns BEFORE the epoch also read as unit 0.
// The model works on time units: the offsets must not change any answer.
func (s script) nano(i int, t int64) int64 {
	if s.jseed == 0 {
		return nanos(t)
	}
	h := NewRng(uint64(s.jseed) ^ uint64(i+7)*0x9E3779B97F4A7C15).Next()
	var off int64
	switch h % 8 {
	case 0:
		off = 0
	case 1:
		off = uuid.TimeUnit - 1
	case 2:
		off = 1
	case 3:
		off = uuid.TimeUnit - 2
	default:
		off = int64((h >> 8) % uint64(uuid.TimeUnit))
	}
	if t < 0 || t == 0 && (h>>4)&1 == 1 {
		off = -off
	}
	return nanos(t) + off
}

// genRun is one generator being driven through its script with the real code.
type genRun struct {
	s    script
	rd   []int64
	pos  int
	sf   *uuid.Snowflake
	outs []outcome
	done bool
}

// newGenRun creates the generator (NewSnowflake, or uuid.Init in API mode) under the reading t0.
func newGenRun(s script) *genRun {
	g := &genRun{s: s, rd: s.readings()}
	uuid.VerifClock = func() int64 { return s.nano(-1, s.t0) }
	if s.callers == -1 {
		// through the package-level API: Init(workerId, store) creates the global generator,
		// NextUUID() is MustNext() on it (it panics with the error)
		if err := uuid.Init(uint16(s.mid), okStore{}); err != nil {
			panic(err)
		}
	} else {
		g.sf = uuid.NewSnowflake(uint16(s.mid))
	}
	return g
}

// step makes one call of Next; false when the script is used up (or the generator is dead).
func (g *genRun) step() bool {
	if g.done || g.pos >= len(g.rd) {
		return false
	}
	s, sf := g.s, g.sf
	uuid.VerifClock = func() int64 {
		if g.pos >= len(g.rd) {
			panic(clockDry{})
		}
		t := g.rd[g.pos]
		g.pos++
		return s.nano(g.pos-1, t)
	}
	before := g.pos
	var id int64
	var err error
	var panicked bool
	var val interface{}
	if nextWatcher == nil {
		nextWatcher = NewWatcher(nextFrame)
	}
	if nextWatcher.Call(func() {
		panicked, val = Catch(func() {
			if sf != nil {
				id, err = sf.Next()
			} else {
				id = uuid.NextUUID()
			}
		})
	}) {
		// the call never returns: parked on the generator's mutex, nobody inside Next
		nextWatcher = nil
		g.outs = append(g.outs, outcome{kind: 6})
		g.done = true
		return false
	}
	if e, ok := val.(error); panicked && ok && sf == nil {
		if _, dry := val.(clockDry); !dry {
			panicked, err = false, e
		}
	}
	o := outcome{consumed: int64(g.pos - before)}
	switch {
	case panicked:
		if _, dry := val.(clockDry); dry {
			o.kind = 4
		} else {
			o.kind = 5
		}
	case err == nil:
		o.kind, o.value = 0, id
	case err == uuid.ErrTimeUnitOverflow:
		o.kind = 1
	case err == uuid.ErrClockGoneBackwards:
		o.kind = 2
	case err == uuid.ErrUUIDIntOverflow:
		o.kind = 3
	default:
		o.kind = 5
	}
	g.outs = append(g.outs, o)
	if panicked {
		g.done = true
	}
	return !g.done
}

// runGen drives one generator through its script with the real code.
func runGen(s script) (auto int64, outs []outcome) {
	if s.callers > 1 {
		return runGenConcurrent(s)
	}
	clockMu.Lock()
	defer clockMu.Unlock()
	defer func() { uuid.VerifClock = nil }()
	g := newGenRun(s)
	for g.step() {
	}
	return autoID, g.outs
}

// runInterleaved: two generators alive at once in one goroutine, their calls alternating (each
// has its own clock script): nothing of one may leak into the other through package state.
func runInterleaved(a, b script) (outsA, outsB []outcome) {
	clockMu.Lock()
	defer clockMu.Unlock()
	defer func() { uuid.VerifClock = nil }()
	ga := newGenRun(a)
	gb := newGenRun(b)
	for moreA, moreB := true, true; moreA || moreB; {
		moreA = ga.step()
		moreB = gb.step()
		if (a.jseed+b.jseed)%3 == 0 { // uneven alternation
			moreA = ga.step() || moreA
		}
	}
	return ga.outs, gb.outs
}

func obsSx(auto int64, outs []outcome) Sx {
	var l []Sx
	for i := 0; i < len(outs); {
		o := outs[i]
		rep := 1
		if o.consumed == 1 && o.kind != 4 {
			// ids counting up by one, or the same error again
			for i+rep < len(outs) && outs[i+rep].kind == o.kind && outs[i+rep].consumed == 1 &&
				(o.kind == 0 && outs[i+rep].value == o.value+int64(rep) || o.kind != 0 && outs[i+rep].value == o.value) {
				rep++
			}
		}
		l = append(l, Ints(o.kind, o.value, o.consumed, int64(rep)))
		i += rep
	}
	return List(Int(auto), ListOf(l))
}

type result struct {
	auto int64
	outs []outcome
}

func runScripts(ss []script) ([]result, Sx) {
	res := make([]result, len(ss))
	obs := make([]Sx, len(ss))
	if len(ss) == 2 && ss[0].callers == -2 && ss[1].callers == -2 {
		oa, ob := runInterleaved(ss[0], ss[1])
		res[0], res[1] = result{autoID, oa}, result{autoID, ob}
		obs[0], obs[1] = obsSx(autoID, oa), obsSx(autoID, ob)
		return res, ListOf(obs)
	}
	for i, s := range ss {
		a, o := runGen(s)
		res[i] = result{a, o}
		obs[i] = obsSx(a, o)
	}
	return res, ListOf(obs)
}

func run(in Sx) Sx {
	var ss []script
	for _, g := range in.L {
		ss = append(ss, scriptOf(g))
	}
	_, obs := runScripts(ss)
	return obs
}

func inputOf(ss []script) Sx {
	l := make([]Sx, len(ss))
	for i, s := range ss {
		l[i] = s.sx()
	}
	return ListOf(l)
}

// ---- the property restated in Go (used for the volume sweeps) ----
// Field geometry from the widths only (not from the masks/shifts of the code).
const (
	seqBits  = uuid.SequenceBits
	machBits = uuid.MachineIDBits
	timeBits = uuid.TimeUnitBits
	maxTU    = int64(1)<<timeBits - 1
)

func goCheck(ss []script, res []result) (string, bool) {
	for gi, s := range ss {
		eff := s.mid
		if eff == 0 {
			eff = res[gi].auto
		}
		rd := s.readings()
		nonneg := s.t0 >= 0
		inrange := s.t0 >= 0 && s.t0 <= maxTU
		sane := s.t0 >= -(1 << 39) // below that the shifted time wraps: the field sentences do not apply
		for _, t := range rd {
			if t < -(1 << 39) {
				sane = false
			}
			if t < 0 {
				nonneg, inrange = false, false
			}
			if t > maxTU {
				inrange = false
			}
		}
		last, nback, prev := s.t0, int64(0), int64(0)
		pos := 0
		for _, o := range res[gi].outs {
			if o.kind == 6 {
				return "blocked", false
			}
			first := rd[pos]
			final := first
			if o.consumed > 0 {
				final = rd[pos+int(o.consumed)-1]
			}
			pos += int(o.consumed)
			beyond := first > maxTU
			backward := !beyond && first < last
			refused := backward && nback >= 3
			if backward && !refused {
				nback++
			}
			if beyond && o.kind != 1 {
				return "beyond-range", false
			}
			if o.kind == 0 && final > maxTU {
				return "beyond-range", false
			}
			if nonneg && refused && o.kind != 2 {
				return "rollbacks-exhausted", false
			}
			if o.kind == 0 {
				v := o.value
				if v <= 0 {
					return "fields", false
				}
				sq := v & (1<<seqBits - 1)
				m := (v >> seqBits) & (1<<machBits - 1)
				t := (v >> (seqBits + machBits)) & (1<<timeBits - 1)
				b := v >> (seqBits + machBits + timeBits)
				_ = sq
				if sane && (t != final || m != eff&(1<<machBits-1) || (nonneg && b != nback)) {
					return "fields", false
				}
				if v <= prev {
					return "increasing", false
				}
				prev = v
				last = final
			}
			if inrange && !(o.kind == 0 || o.kind == 4 || (o.kind == 2 && refused)) {
				return "spurious", false
			}
		}
	}
	for i := range ss {
		for j := i + 1; j < len(ss); j++ {
			mi, mj := effOf(ss[i], res[i])&uuid.MachineIDMask, effOf(ss[j], res[j])&uuid.MachineIDMask
			if mi == mj {
				continue
			}
			seen := map[int64]bool{}
			for _, o := range res[i].outs {
				if o.kind == 0 {
					seen[o.value] = true
				}
			}
			for _, o := range res[j].outs {
				if o.kind == 0 && seen[o.value] {
					return "collision", false
				}
			}
		}
	}
	return "", true
}

func effOf(s script, r result) int64 {
	if s.mid == 0 {
		return r.auto
	}
	return s.mid
}

func main() {
	log.SetOutput(io.Discard)
	if len(os.Args) > 1 && os.Args[1] == "concurrent" {
		concurrent()
		return
	}
	Main(run, gen)
}

// ---- generators ----

type tgen struct {
	rng *Rng
	out *Out
}

func (g *tgen) base() int64 {
	switch g.rng.Intn(6) {
	case 0:
		return int64(g.rng.Intn(5)) // the epoch itself
	case 1:
		return maxTU - int64(g.rng.Range(3000, 9000)) // close to the end of the range
	case 2:
		return int64(1)<<36 + int64(g.rng.Intn(1<<20))*2 // even, bit 36 set
	default:
		return 20000000000 + int64(g.rng.Intn(1<<30)) // around 2026
	}
}

// trajectory builds a run-length encoded clock.  style: 0 forward only, 1 with <= 3
// rollbacks, 2 many rollbacks, 3 long stall (sequence exhaustion), 4 the end of the range,
// 5 out of the supported range (negative readings).
func (g *tgen) trajectory(style int) (t0 int64, clk [][2]int64) {
	r := g.rng
	t := g.base()
	if style == 4 {
		t = maxTU - int64(r.Range(1, 6))
	}
	t0 = t
	push := func(v, n int64) {
		if n <= 0 {
			return
		}
		if len(clk) > 0 && clk[len(clk)-1][0] == v {
			clk[len(clk)-1][1] += n
		} else {
			clk = append(clk, [2]int64{v, n})
		}
	}
	steps := r.Range(2, 14)
	backs := 0
	bigUsed := false
	for i := 0; i < steps; i++ {
		c := r.Intn(10)
		switch {
		case c < 3: // stall
			push(t, int64(r.Range(1, 6)))
			g.out.Count("step:stall")
		case c < 5:
			t++
			push(t, 1)
			g.out.Count("step:+1")
		case c < 7:
			t += int64(r.Range(2, 5000))
			push(t, int64(r.Range(1, 3)))
			g.out.Count("step:+k")
		case c < 9 && (style == 1 && backs < 3 || style == 2 || style == 5 || style == 3 && backs < 2 && r.Bool()):
			d := int64(r.Range(1, 3000))
			if style != 5 && t-d < 0 {
				d = t
			}
			if d > 0 {
				t -= d
				backs++
				push(t, int64(r.Range(1, 3)))
				g.out.Count("step:-k")
			}
		case style == 3 || (style == 4 && r.Chance(1, 3)):
			n := int64(1023 + r.Range(0, 4)) // around the 10-bit sequence
			push(t, n)
			push(t, int64(r.Range(0, 3))) // readings of the wait loop that do not advance
			if r.Chance(1, 2) {
				// the clock steps back while the caller waits: the wait must go on until a
				// unit later than t, and no rollback is counted for what it skipped
				d := int64(r.Range(1, 3))
				if style != 5 && t-d < 0 {
					d = t
				}
				if d > 0 {
					push(t-d, int64(r.Range(1, 2)))
					if r.Bool() {
						push(t-d+1, 1)
					}
					if r.Bool() {
						push(t, 1)
					}
					g.out.Count("step:backward-inside-wait")
				}
			}
			g.out.Count("step:long-stall")
			if r.Chance(1, 6) {
				return // the clock ends inside the wait loop (the model's Blocked) or just before
			}
			t += int64(r.Range(1, 3))
			push(t, 1)
		case style == 4:
			t = maxTU + int64(r.Range(-2, 2))
			if t <= maxTU && !bigUsed {
				// once per trajectory: coming back to an exhausted unit would spend a
				// millisecond of real sleep per reading in the wait loop
				bigUsed = true
				push(t, int64(r.PickInt(1, 2, 1024, 1025, 1026)))
			} else if t <= maxTU {
				push(t, int64(r.Range(1, 2)))
			} else {
				push(t, int64(r.Range(1, 3)))
			}
			t++ // leave the exhausted unit at once: every further reading in it costs a sleep
			push(t, int64(r.Range(1, 2)))
			g.out.Count("step:range-edge")
		case style == 5:
			t = -int64(r.Range(0, 100000))
			if r.Chance(1, 3) {
				// around and below -2^39 units: the shifted time wraps in int64 (the model
				// wraps too; the decode sentences do not speak about such clocks)
				t = r.PickI64(-(1 << 39), -(1<<39)-1, -(1<<39)+1, -600000000000, -900000000000)
				g.out.Count("step:far-negative")
			}
			push(t, int64(r.Range(1, 3)))
			g.out.Count("step:negative")
		default:
			t++
			push(t, 1)
			g.out.Count("step:+1")
		}
	}
	return
}

var styleName = []string{"forward", "rollback3", "rollbacks", "stall", "edge", "outofrange"}

// focus: VERIF_FOCUS_KINDS (set by bin/check's extended search) names the kinds of cases on
// which the correspondence broke; the run then emits those kinds only, and more of them.
var focus = map[string]bool{}

func want(kind string) bool { return len(focus) == 0 || focus[kind] }

func (g *tgen) emit(kind string, ss []script) {
	if !want(kind) {
		return
	}
	for i := range ss {
		if ss[i].jseed == 0 && g.rng.Chance(3, 4) {
			ss[i].jseed = int64(g.rng.Next()>>2) | 1
			g.out.Count("jittered-scripts")
		}
	}
	in := inputOf(ss)
	res, obs := runScripts(ss)
	calls := 0
	for _, r := range res {
		calls += len(r.outs)
		for _, o := range r.outs {
			g.out.Count(fmt.Sprintf("outcome:%d", o.kind))
			if o.consumed > 1 {
				g.out.Count("wait-loop")
			}
		}
	}
	g.out.Case(kind, calls >= 2, in, obs)
	g.out.GoChecked++
	if what, ok := goCheck(ss, res); !ok {
		g.out.Violation("C09/go-"+what+"/"+kind, "snowflake property fails (Go-side restatement): "+what, List(in, obs))
	}
	if concViolation != "" {
		g.out.Violation("C09/go-exclusion/"+kind, concViolation, List(in, obs))
		concViolation = ""
	}
}

func machineIDs(r *Rng) []int64 {
	return []int64{0, 1, 1<<14 - 1, 1 << 14, 1<<14 + 1, 65535, int64(r.Range(2, 1<<14-2)), int64(r.Range(1<<14+2, 65534))}
}

func gen(a Args, out *Out) {
	g := &tgen{rng: NewRng(a.Seed), out: out}
	r := g.rng
	for _, k := range strings.Split(os.Getenv("VERIF_FOCUS_KINDS"), ",") {
		if k != "" && k != "corpus" && k != "replay" {
			focus[k] = true
		}
	}
	ntraj := 240
	if a.Thorough() {
		ntraj = 2400
	}
	if len(focus) > 0 {
		out.Note("focused on kinds %v", focus)
		ntraj *= 3
	}
	// single generators: every style x the boundary machine ids
	for k := 0; k < ntraj; k++ {
		style := k % 6
		t0, clk := g.trajectory(style)
		mids := machineIDs(r)
		if style == 3 || style == 4 {
			// the long stalls cost a millisecond per wait-loop reading: fewer machines
			mids = []int64{mids[r.Intn(len(mids))], mids[r.Intn(len(mids))]}
		}
		for _, m := range mids {
			out.Count(fmt.Sprintf("machine:%s", midClass(m)))
			g.emit(styleName[style], []script{{m, t0, clk, 0, 0}})
		}
	}
	// the exact range edge: the sequence runs out during the last supported time unit
	for _, m := range []int64{1, 1<<14 - 1, 65535} {
		g.emit("edge", []script{{m, maxTU - 1, [][2]int64{{maxTU, 1025}, {maxTU + 1, 1}}, 0, 0}})
		g.emit("edge", []script{{m, maxTU, [][2]int64{{maxTU, 1024}, {maxTU + 1, 2}}, 0, 0}})
	}
	// generators created while the clock is already at / beyond the end of the range, then
	// called in that same unit (NewSnowflake seeds lastTimeUnit from the clock unchecked)
	for _, d := range []int64{-1, 0, 1, 2, 1 << 20, 1 << 37} {
		for _, n := range []int64{1, 3} {
			t0 := maxTU + d
			clk := [][2]int64{{t0, n}, {t0 + 1, 2}}
			if r.Bool() {
				clk = append(clk, [2]int64{t0, 1}, [2]int64{maxTU - 1, 2})
			}
			mids := machineIDs(r)
			g.emit("born-late", []script{{mids[1+r.Intn(len(mids)-1)], t0, clk, 0, 0}})
		}
	}
	// through uuid.Init / uuid.NextUUID
	napi := 24
	if a.Thorough() {
		napi = 240
	}
	for k := 0; k < napi; k++ {
		t0, clk := g.trajectory(k % 3)
		mids := machineIDs(r)
		g.emit("api", []script{{mids[1+r.Intn(len(mids)-1)], t0, clk, -1, 0}})
	}
	// concurrent callers of one generator, linearised by the clock readings they consumed
	nconc := 40
	if a.Thorough() {
		nconc = 400
	}
	for k := 0; k < nconc; k++ {
		style := k % 4 // forward, <=3 rollbacks, many rollbacks, stall
		t0, clk := g.trajectory(style)
		// more readings per step so that callers really contend
		for i := range clk {
			if clk[i][1] < 1000 {
				clk[i][1] += int64(r.Range(0, 40))
			}
		}
		mids := machineIDs(r)
		out.CountN("concurrent:callers", 1)
		g.emit("concurrent", []script{{mids[1+r.Intn(len(mids)-1)], t0, clk, int64(r.Range(2, 8)), 0}})
	}
	// pairs of generators: machine ids that differ only above bit 14 on clocks shifted by
	// one unit, and unrelated machine ids on the same clock
	npair := 60
	if a.Thorough() {
		npair = 600
	}
	for k := 0; k < npair; k++ {
		t0, clk := g.trajectory(k % 2)
		m1 := int64(r.Range(1, 65535))
		var m2 int64
		var clk2 [][2]int64
		switch k % 3 {
		case 0:
			m2 = m1 ^ (int64(r.Range(1, 3)) << 14)
			for _, e := range clk {
				clk2 = append(clk2, [2]int64{e[0] + 1, e[1]})
			}
			g.emit("pair-high-bits", []script{{m1, t0, clk, 0, 0}, {m2, t0 + 1, clk2, 0, 0}})
		case 1:
			m2 = m1 ^ (int64(r.Range(1, 3)) << 14)
			g.emit("pair-high-bits", []script{{m1, t0, clk, 0, 0}, {m2, t0, clk, 0, 0}})
		default:
			m2 = int64(r.Range(1, 65535))
			g.emit("pair-random", []script{{m1, t0, clk, 0, 0}, {m2, t0, clk, 0, 0}})
			// the same two generators alive at once, calls alternating, each on its own clock
			t1, clk1 := g.trajectory(k % 3)
			g.emit("pair-interleaved", []script{{m1, t0, clk, -2, 0}, {m2, t1, clk1, -2, 0}})
		}
	}
	// Go-side sweep over every machine id: a short trajectory each (quick), 8 trajectories
	// including rollbacks each (thorough; the stall/edge styles are sampled, they sleep)
	if len(focus) > 0 && !focus["sweep"] && !focus["all-machines"] {
		return
	}
	per := 3
	if a.Thorough() {
		per = 8
	}
	for j := 0; j < per; j++ {
		t0, clk := g.trajectory(j % 3)
		if j == 0 {
			// even time units and one step: the shape on which overlapping fields collide
			t0 = t0 &^ 1
			clk = [][2]int64{{t0 + 2, 2}, {t0 + 3, 1}, {t0 + 4, 3}}
		}
		for m := int64(0); m < 65536; m++ {
			ss := []script{{m, t0, clk, 0, (m*7919 + int64(j)) | 1}}
			res, obs := runScripts(ss)
			out.GoChecked++
			if what, ok := goCheck(ss, res); !ok {
				out.Violation("C09/go-"+what+"/sweep", "snowflake property fails (Go-side restatement): "+what, List(inputOf(ss), obs))
				if len(out.GoViol) >= 50 {
					break
				}
			}
			// neighbouring machine ids / ids 2^14 apart on clocks one unit apart
			if m >= 1<<14 && j == 0 {
				var clk2 [][2]int64
				for _, e := range clk {
					clk2 = append(clk2, [2]int64{e[0] + 1, e[1]})
				}
				ps := []script{{m, t0, clk, 0, 0}, {m - 1<<14, t0 + 1, clk2, 0, 0}}
				pres, pobs := runScripts(ps)
				out.GoChecked++
				if what, ok := goCheck(ps, pres); !ok {
					out.Violation("C09/go-"+what+"/sweep-pair", "snowflake property fails (Go-side restatement): "+what, List(inputOf(ps), pobs))
				}
			}
		}
	}
	out.Note("Go-side sweep: all 65536 machine ids x %d trajectories, plus every machine id >= 2^14 paired with the id 2^14 below it", per)
	if a.Thorough() {
		// every machine id once through the model as well (a short trajectory with a rollback)
		for m := int64(0); m < 65536; m++ {
			t0 := g.base()
			clk := [][2]int64{{t0, int64(r.Range(1, 3))}, {t0 + int64(r.Range(1, 9)), 2}, {t0 - int64(r.Range(0, 5)), 1}}
			if clk[2][0] < 0 {
				clk[2][0] = 0
			}
			g.emit("all-machines", []script{{m, t0, clk, 0, 0}})
		}
	}
	if a.Thorough() {
		// stall / edge styles over a stride of machine ids
		for j := 0; j < 4; j++ {
			t0, clk := g.trajectory(3 + j%2)
			for m := int64(r.Intn(64)); m < 65536; m += 64 {
				ss := []script{{m, t0, clk, 0, 0}}
				res, obs := runScripts(ss)
				out.GoChecked++
				if what, ok := goCheck(ss, res); !ok {
					out.Violation("C09/go-"+what+"/sweep-stall", "snowflake property fails (Go-side restatement): "+what, List(inputOf(ss), obs))
				}
			}
		}
	}
}

func midClass(m int64) string {
	switch {
	case m == 0:
		return "0(auto)"
	case m < 1<<14:
		return "<2^14"
	default:
		return ">=2^14"
	}
}

// concurrent: m goroutines share one generator under the real clock; every id must be
// distinct and each caller's ids increasing.  Run under -race in the thorough tier.
func concurrent() {
	// scripted clock, linearised by the readings consumed, checked against the Go restatement
	rr := NewRng(1)
	tmp, _ := os.MkdirTemp("", "c09conc")
	defer os.RemoveAll(tmp)
	tg := &tgen{rng: rr, out: NewOut(Args{OutDir: tmp})}
	ncalls := 0
	for k := 0; k < 60; k++ {
		t0, clk := tg.trajectory(k % 3)
		for i := range clk {
			clk[i][1] += int64(rr.Range(0, 60))
		}
		ss := []script{{int64(rr.Range(1, 65535)), t0, clk, int64(rr.Range(2, 8)), int64(rr.Next()>>2) | 1}}
		res, _ := runScripts(ss)
		ncalls += len(res[0].outs)
		if what, ok := goCheck(ss, res); !ok || concViolation != "" {
			fmt.Println("FAIL:", what, concViolation, inputOf(ss).String())
			os.Exit(1)
		}
	}
	fmt.Printf("concurrent: 60 scripted scenarios, %d linearised calls, property holds\n", ncalls)
	const callers, each = 8, 20000
	sf := uuid.NewSnowflake(4321)
	var wg sync.WaitGroup
	got := make([][]int64, callers)
	for c := 0; c < callers; c++ {
		wg.Add(1)
		go func(c int) {
			defer wg.Done()
			for i := 0; i < each; i++ {
				id, err := sf.Next()
				if err != nil {
					fmt.Println("FAIL: error under the real clock:", err)
					os.Exit(1)
				}
				got[c] = append(got[c], id)
			}
		}(c)
	}
	wg.Wait()
	seen := make(map[int64]bool, callers*each)
	for c := range got {
		for i, id := range got[c] {
			if seen[id] {
				fmt.Println("FAIL: duplicate id", id)
				os.Exit(1)
			}
			seen[id] = true
			if i > 0 && got[c][i-1] >= id {
				fmt.Println("FAIL: ids of one caller not increasing")
				os.Exit(1)
			}
		}
	}
	fmt.Printf("concurrent: %d callers x %d ids distinct, per-caller increasing\n", callers, each)
}
