// C02 harness: the decoders on malformed / damaged input (codec/v1_codec.go, v2_codec.go,
// marshal.go, codec.go).  fmt: 1 = V1, 2 = V2, 3 = length-prefixed helper.
//
// input    (10 fmt cipher keyseed #stream (chunk ...) nreads expect)   arbitrary stream; ReadHeadBody
// observed ((dec) (unzip) (rres ...))                                   then UnmarshalPacket (as qnet)
//            rres = (panicked errkind pkt|#data consumed wanted maxcap retcap allocflag)
//              retcap    capacity of the payload buffer ReadHeadBody / ReadLenData handed back (-1: none)
//              allocflag 1: the run-time's allocation counter (GC off, single goroutine) exceeded the
//                        format's maximum plus slack on two consecutive measurements of this input;
//                        2: on one only (inconclusive, counted in the histogram, never a verdict); 0: fine
// input    (11 fmt cipher keyseed #frame mode lo hi)                   a valid frame damaged:
// observed ((dec) (unzip) (panicked errkind) (res ...))                 mode 0 flips bit i, mode 1 cuts
//            res = (panicked errkind consumed wanted maxcap allocflag)  after i bytes, lo <= i < hi
// input    (12 fmt #template #tail lo hi)                              length field := L, lo <= L < hi
// observed ((dec) (unzip) (res ...))
// input    (13 fmt #stream)                                            a qnet.TcpConn reading from a loopback
// observed (nerr errkind (pkt ...) closed timedout late dcount dkind)   connection that is sent the stream, then EOF
// input    (14 fmt #part1 #part2 pause_ms)                             the same with a 1 s read timeout: the peer
// observed (nerr errkind (pkt ...) closed timedout late)                writes part1, pauses longer than the timeout
//                                                                       in the middle of a frame, writes part2 (the
//                                                                       tail of the frame's body, itself a valid frame)
// input    (15 fmt nref total seed flag)                               a complete frame of `total` bytes with a VALID
// observed (panicked errkind consumed wanted maxcap nrefs bodylen)      checksum, nref references and a regenerated
//                                                                       body, around the size limit (sizes only)
// input    (16 fmt nref announced sent seed)                           a frame that announces `announced` bytes, of
// observed (panicked errkind consumed wanted maxcap bodylen)            which only `sent` arrive before the stream ends;
//                                                                       the checksum field is VALID for what was sent
// panicked = 2 in a res: the decoder was not run (memory guard, see guard()).
package main

import (
	"encoding/binary"
	"errors"
	"hash/crc32"
	"io"
	"log"
	"net"
	"runtime"
	"runtime/debug"
	"sync"
	"sync/atomic"
	"time"

	"qchen.fun/fatchoy"
	"qchen.fun/fatchoy/qnet"

	"qchen.fun/fatchoy/codec"
	"qchen.fun/fatchoy/packet"
	"qchen.fun/fatchoy/x/cipher"
	. "verifharness/c01lib"
	. "verifharness/common"
)

// ---------------------------------------------------------------------------------------
// memory guard.  A V2 header whose length field is below the header size makes an unrepaired
// ReadHeadBody allocate about 4 GiB.  The first such input of a process is run for real (the
// allocation is virtual memory until touched) so that the defect is observed, not predicted;
// if it did allocate, later such inputs are not run (a second 4 GiB buffer would be zeroed,
// i.e. touched).  If the code refused it, all of them are run.
var hugeSeen, lowLenSafe bool

const hugeAlloc = 64 << 20

func dangerous(fmtc int, rest []byte) bool {
	return fmtc == 2 && len(rest) >= codec.V2HeaderSize && (int(rest[0])<<16|int(rest[1])<<8|int(rest[2])) < codec.V2HeaderSize
}

type dres struct {
	pn, kind                        int
	consumed, wanted, maxcap, retcap int
	pkt                             *packet.Packet
	data                            []byte
	head, body                      []byte
}

// one decode on the reader.  split: ReadHeadBody + UnmarshalPacket with the allocation of the
// first measured; otherwise ReadPacket.
func decode(fmtc int, r *ChunkReader, dec cipher.BlockCryptor, split bool) dres {
	d := dres{retcap: -1}
	risky := dangerous(fmtc, r.Data[r.Pos:]) && !lowLenSafe
	if risky && hugeSeen {
		d.pn = 2
		return d
	}
	r.Begin()
	var err error
	var p bool
	switch {
	case fmtc == 3:
		p, _ = Catch(func() { d.data, err = codec.ReadLenData(r) })
		if !p && err == nil {
			d.retcap = cap(d.data)
		}
	case split:
		enc := NewEncoder(fmtc, 0)
		d.pkt = packet.Make()
		p, _ = Catch(func() { d.head, d.body, err = enc.ReadHeadBody(r) })
		if !p && err == nil {
			d.retcap = cap(d.body)
			p, _ = Catch(func() { err = enc.UnmarshalPacket(d.head, d.body, dec, d.pkt) })
		}
	default:
		enc := NewEncoder(fmtc, 0)
		d.pkt = packet.Make()
		p, _ = Catch(func() { err = enc.ReadPacket(r, dec, d.pkt) })
	}
	if p {
		d.pn = 1
	}
	d.kind = ErrKind(err)
	d.consumed, d.wanted, d.maxcap = r.Pos, r.Wanted-r.Start, r.MaxCap
	if risky {
		if r.MaxCap > hugeAlloc {
			hugeSeen = true
			d.head, d.body = nil, nil
			debug.FreeOSMemory()
		} else {
			lowLenSafe = true
		}
	}
	return d
}

// allocBound: what ReadHeadBody / ReadLenData may allocate at most, with generous slack for
// size-class rounding and small objects
func allocBound(fmtc int) uint64 {
	max := uint64(65535)
	if fmtc == 1 {
		max = codec.V1MaxPayloadBytes
	} else if fmtc == 2 {
		max = codec.V2MaxPayloadBytes
	}
	return max + max/4 + 64<<10
}

// measureAlloc: bytes allocated (runtime.MemStats.TotalAlloc) by one ReadHeadBody / ReadLenData on a
// private copy of the reader, garbage collector switched off, nothing else running; also the
// largest buffer the decoder visibly used (handed to Read)
func measureAlloc(fmtc int, r ChunkReader) (uint64, uint64) {
	old := debug.SetGCPercent(-1)
	defer debug.SetGCPercent(old)
	var m0, m1 runtime.MemStats
	enc := NewEncoder(1, 0)
	if fmtc == 2 {
		enc = NewEncoder(2, 0)
	}
	r.Begin()
	runtime.ReadMemStats(&m0)
	if fmtc == 3 {
		Catch(func() { codec.ReadLenData(&r) })
	} else {
		Catch(func() { enc.ReadHeadBody(&r) })
	}
	runtime.ReadMemStats(&m1)
	return m1.TotalAlloc - m0.TotalAlloc, uint64(r.MaxCap)
}

var allocInconclusive, allocMeasured int

// allocFlag (a verdict only when two consecutive measurements of the same input agree):
//   1  more than the format's maximum (plus slack) was allocated
//   3  much more was allocated than the buffers the decoder visibly used (hidden allocation)
//   2  one measurement was over, the next was not: inconclusive, counted, never a verdict
func allocFlag(fmtc int, r ChunkReader) int {
	allocMeasured++
	over := func() (bool, bool) {
		d, vis := measureAlloc(fmtc, r)
		return d > allocBound(fmtc), d > vis+vis/4+24<<10
	}
	a1, h1 := over()
	if !a1 && !h1 {
		return 0
	}
	a2, h2 := over()
	switch {
	case a1 && a2:
		return 1
	case h1 && h2:
		return 3
	}
	allocInconclusive++
	return 2
}

func (d dres) short(aflag int) Sx {
	return List(Int(int64(d.pn)), Int(int64(d.kind)), Int(int64(d.consumed)), Int(int64(d.wanted)), Int(int64(d.maxcap)), Int(int64(aflag)))
}

// measured reports the allocation flag of a decode of data from its start (0 when the input is
// of the class the memory guard protects against)
func measured(fmtc int, data []byte, want bool) int {
	if !want || dangerous(fmtc, data) {
		return 0
	}
	return allocFlag(fmtc, *NewChunkReader(data, nil))
}

// zlib oracle entries for one decode that got as far as decompression (result ok or
// "decompress" error): whatever Decrypt returned, and the wire body of the frame that was read
func feedUnzip(fmtc int, d dres, data []byte, rec *Recorder, before int, unzipT *Table) {
	if fmtc == 3 || !(d.kind == 0 || d.kind == 6) || d.pn != 0 {
		return
	}
	if rec != nil {
		for _, v := range rec.Dec.Vals()[before:] {
			AddUnzip(unzipT, v)
		}
	}
	hs := HeaderSize(fmtc)
	if len(data) < hs {
		return
	}
	var l, flag, nref int
	if fmtc == 1 {
		l, flag = int(binary.BigEndian.Uint16(data)), int(data[3])
	} else {
		l, flag, nref = int(data[0])<<16|int(data[1])<<8|int(data[2]), int(data[4]), int(data[5])
	}
	if flag&1 == 0 || l < hs || l > len(data) || hs+4*nref > l {
		return
	}
	AddUnzip(unzipT, data[hs+4*nref:l])
}

func HeaderSizeOf(fmtc int) int {
	if fmtc == 3 {
		return 2
	}
	return HeaderSize(fmtc)
}

func MaxOf(fmtc int) int {
	switch fmtc {
	case 1:
		return codec.V1MaxPayloadBytes
	case 2:
		return codec.V2MaxPayloadBytes
	}
	return 65535
}

func sizesOf(s Sx) []int {
	r := make([]int, s.Len())
	for i := range r {
		r[i] = s.At(i).AsInt()
	}
	return r
}

func recOf(cidx int, keyseed uint64) *Recorder {
	if cidx == 0 {
		return nil
	}
	return NewRecorder(NewCipher(cidx, keyseed))
}

func tables(rec *Recorder, unzipT *Table) (Sx, Sx) {
	if rec == nil {
		return ListOf(nil), unzipT.OSx()
	}
	return rec.Dec.Sx(), unzipT.OSx()
}

func nDec(rec *Recorder) int {
	if rec == nil {
		return 0
	}
	return len(rec.Dec.Keys())
}

func runSingle(in Sx) Sx {
	fmtc, cidx, keyseed := in.At(1).AsInt(), in.At(2).AsInt(), in.At(3).Uint64()
	data, sizes, nreads := in.At(4).AsBytes(), sizesOf(in.At(5)), in.At(6).AsInt()
	rec := recOf(cidx, keyseed)
	unzipT := NewTable()
	r := NewChunkReader(data, sizes)
	var rres []Sx
	for i := 0; i < nreads; i++ {
		before := nDec(rec)
		start := r.Pos
		flag := 0
		if !dangerous(fmtc, r.Data[r.Pos:]) {
			flag = allocFlag(fmtc, *r)
		}
		d := decode(fmtc, r, rec.AsCryptor(), true)
		feedUnzip(fmtc, d, data[start:], rec, before, unzipT)
		var res Sx
		if fmtc == 3 {
			res = Bytes(d.data)
		} else {
			res = PacketSx(d.pkt, BodyToSx(d.pkt.Body_))
		}
		rres = append(rres, List(Int(int64(d.pn)), Int(int64(d.kind)), res, Int(int64(d.consumed)), Int(int64(d.wanted)), Int(int64(d.maxcap)), Int(int64(d.retcap)), Int(int64(flag))))
	}
	// after whatever this stream did to the decoder: a good frame on a fresh stream still decodes
	// (the codec keeps no state between calls)
	after := 1
	if fmtc != 3 {
		good := craft(fmtc, 1, 0, 0, 7, 8, 9, []byte("still fine"), -1, false)
		q := packet.Make()
		var gerr error
		if p, _ := Catch(func() { gerr = NewEncoder(fmtc, 0).ReadPacket(NewChunkReader(good, nil), nil, q) }); p || gerr != nil || q.Cmd != 9 {
			after = 0
		}
	}
	dt, ut := tables(rec, unzipT)
	return List(dt, ut, ListOf(rres), Int(int64(after)))
}

func flipBit(frame []byte, i int) []byte {
	b := append([]byte(nil), frame...)
	if i/8 < len(b) {
		b[i/8] ^= 1 << uint(i%8)
	}
	return b
}

func runDamaged(in Sx) Sx {
	fmtc, cidx, keyseed := in.At(1).AsInt(), in.At(2).AsInt(), in.At(3).Uint64()
	frame, mode, lo, hi := in.At(4).AsBytes(), in.At(5).AsInt(), in.At(6).AsInt(), in.At(7).AsInt()
	rec := recOf(cidx, keyseed)
	unzipT := NewTable()
	one := func(data []byte) dres {
		before := nDec(rec)
		d := decode(fmtc, NewChunkReader(data, nil), rec.AsCryptor(), false)
		feedUnzip(fmtc, d, data, rec, before, unzipT)
		return d
	}
	base := one(frame)
	var rs []Sx
	for i := lo; i < hi; i++ {
		var data []byte
		if mode == 0 {
			data = flipBit(frame, i)
		} else if i <= len(frame) {
			data = frame[:i]
		} else {
			data = frame
		}
		rs = append(rs, one(data).short(measured(fmtc, data, i < 32 || i%64 == 0)))
	}
	dt, ut := tables(rec, unzipT)
	return List(dt, ut, List(Int(int64(base.pn)), Int(int64(base.kind))), ListOf(rs))
}

func setLength(fmtc int, l int, template []byte) []byte {
	var b []byte
	if fmtc == 2 {
		b = append(b, byte(l>>16), byte(l>>8), byte(l))
		return append(b, template[3:]...)
	}
	b = append(b, byte(l>>8), byte(l))
	return append(b, template[2:]...)
}

func runSweep(in Sx) Sx {
	fmtc, template, tail, lo, hi := in.At(1).AsInt(), in.At(2).AsBytes(), in.At(3).AsBytes(), in.At(4).AsInt(), in.At(5).AsInt()
	unzipT := NewTable()
	var rs []Sx
	for l := lo; l < hi; l++ {
		data := append(setLength(fmtc, l, template), tail...)
		d := decode(fmtc, NewChunkReader(data, nil), nil, false)
		feedUnzip(fmtc, d, data, nil, 0, unzipT)
		near := l <= HeaderSizeOf(fmtc)+1 || l%512 == 0 || (l >= MaxOf(fmtc)-1 && l <= MaxOf(fmtc)+2) || l >= 1<<16-2
		rs = append(rs, d.short(measured(fmtc, data, near)))
	}
	return List(ListOf(nil), unzipT.OSx(), ListOf(rs))
}

// runConn: the reader pump of a real connection (qnet/tcp_conn.go readPump/readPacket).  The peer
// writes the stream and half-closes; observed are the frames delivered, the errors notified, and
// whether the peer saw the connection closed.  Scenarios that do not finish within generous
// time limits are reported as timed out (inconclusive), never as a failure.
var connTimeouts int64

func runConn(in Sx) Sx {
	ver, data := in.At(1).AsInt(), in.At(2).AsBytes()
	// what the decoder itself does with these bytes, without a connection
	dcount, dkind := 0, 0
	{
		r := NewChunkReader(data, nil)
		enc := NewEncoder(ver, 0)
		for {
			var derr error
			if p, _ := Catch(func() { derr = enc.ReadPacket(r, nil, packet.Make()) }); p {
				dkind = -1
				break
			}
			if derr != nil {
				dkind = ErrKind(derr)
				break
			}
			dcount++
		}
	}
	direct := []Sx{Int(int64(dcount)), Int(int64(dkind))}
	timedOut := func() Sx {
		atomic.AddInt64(&connTimeouts, 1)
		return ListOf(append([]Sx{Int(0), Int(0), ListOf(nil), Int(0), Int(1), Int(0)}, direct...))
	}
	ln, err := net.Listen("tcp", "127.0.0.1:0")
	if err != nil {
		return timedOut()
	}
	defer ln.Close()
	cli, err := net.Dial("tcp", ln.Addr().String())
	if err != nil {
		return timedOut()
	}
	defer cli.Close()
	srv, err := ln.Accept()
	if err != nil {
		return timedOut()
	}
	defer srv.Close()
	errCh := make(chan error, 16)
	incoming := make(chan fatchoy.IPacket, 256)
	readerExit := make(chan struct{}, 4)
	var cur atomic.Value // *qnet.TcpConn; only this scenario's connection counts (goroutines of an
	// earlier one may still be passing their last schedule points)
	qnet.VerifSetHook(func(t *qnet.TcpConn, name string) {
		if c, _ := cur.Load().(*qnet.TcpConn); name == "reader.exit" && c == t {
			select {
			case readerExit <- struct{}{}:
			default:
			}
		}
	})
	defer qnet.VerifSetHook(nil)
	tc := qnet.NewTcpConn(fatchoy.NodeID(1), srv, NewEncoder(ver, 0), errCh, incoming, 8, nil)
	cur.Store(tc)
	tc.Go(fatchoy.EndpointReader)
	if len(data) > 0 {
		if _, err := cli.Write(data); err != nil {
			return timedOut()
		}
	}
	cli.(*net.TCPConn).CloseWrite()
	// the reader either notifies an error (ForceClose does so before the reader returns) or leaves
	// silently: the reader.exit schedule point with an empty error channel is "no error reported"
	var first error
	nerr := 0
	select {
	case first = <-errCh:
		nerr = 1
	case <-readerExit:
		select {
		case first = <-errCh:
			nerr = 1
		default:
		}
	case <-time.After(30 * time.Second):
		return timedOut()
	}
	kind := 9
	var qe *qnet.Error
	if errors.As(first, &qe) {
		kind = ErrKind(qe.Err)
	}
	if nerr == 0 {
		// silent exit: nothing closed the connection; report what was delivered
		var pk []Sx
		for more := true; more; {
			select {
			case p := <-incoming:
				if pp, ok := p.(*packet.Packet); ok {
					pk = append(pk, PacketSx(pp, BodyToSx(pp.Body_)))
				}
			default:
				more = false
			}
		}
		return ListOf(append([]Sx{Int(0), Int(0), ListOf(pk), Int(0), Int(0), Int(0)}, direct...))
	}
	var pkts []Sx
	drain := func() int {
		n := 0
		for {
			select {
			case p := <-incoming:
				if pp, ok := p.(*packet.Packet); ok {
					pkts = append(pkts, PacketSx(pp, BodyToSx(pp.Body_)))
				}
				n++
			default:
				return n
			}
		}
	}
	drain()
	delivered := len(pkts)
	// the peer must see the connection closed
	closed := 0
	cli.SetReadDeadline(time.Now().Add(30 * time.Second))
	var buf [16]byte
	if _, rerr := cli.Read(buf[:]); rerr == io.EOF {
		closed = 1
	} else if ne, ok := rerr.(net.Error); ok && ne.Timeout() {
		return timedOut()
	}
	// nothing may follow the first error
	time.Sleep(20 * time.Millisecond)
	late := drain()
	for more := true; more; {
		select {
		case <-errCh:
			nerr++
			late++
		default:
			more = false
		}
	}
	return ListOf(append([]Sx{Int(int64(nerr)), Int(int64(kind)), ListOf(pkts[:delivered]), Int(int64(closed)), Int(0), Int(int64(late))}, direct...))
}

// runTimeout: a read deadline that fires in the middle of a frame.  The verdict is about WHICH
// packets are delivered (only frames the peer really sent, in order), not about when.
var (
	toMu    sync.Mutex
	toUsers int
	toSaved int
)

func shortReadTimeout() func() {
	toMu.Lock()
	if toUsers == 0 {
		toSaved = qnet.TConnReadTimeout
		qnet.TConnReadTimeout = 1
	}
	toUsers++
	toMu.Unlock()
	return func() {
		toMu.Lock()
		toUsers--
		if toUsers == 0 {
			qnet.TConnReadTimeout = toSaved
		}
		toMu.Unlock()
	}
}

func runTimeout(in Sx) Sx {
	ver, part1, part2, pause := in.At(1).AsInt(), in.At(2).AsBytes(), in.At(3).AsBytes(), in.At(4).AsInt()
	defer shortReadTimeout()()
	inconclusive := List(Int(0), Int(0), ListOf(nil), Int(0), Int(1), Int(0))
	ln, err := net.Listen("tcp", "127.0.0.1:0")
	if err != nil {
		return inconclusive
	}
	defer ln.Close()
	cli, err := net.Dial("tcp", ln.Addr().String())
	if err != nil {
		return inconclusive
	}
	defer cli.Close()
	srv, err := ln.Accept()
	if err != nil {
		return inconclusive
	}
	defer srv.Close()
	errCh := make(chan error, 16)
	incoming := make(chan fatchoy.IPacket, 256)
	tc := qnet.NewTcpConn(fatchoy.NodeID(1), srv, NewEncoder(ver, 0), errCh, incoming, 8, nil)
	tc.Go(fatchoy.EndpointReader)
	go func() {
		cli.Write(part1)
		time.Sleep(time.Duration(pause) * time.Millisecond)
		cli.Write(part2) // may fail: the other side has closed by now
		if c, ok := cli.(*net.TCPConn); ok {
			c.CloseWrite()
		}
	}()
	var first error
	select {
	case first = <-errCh:
	case <-time.After(60 * time.Second):
		atomic.AddInt64(&connTimeouts, 1)
		return inconclusive
	}
	kind := 9
	var qe *qnet.Error
	if errors.As(first, &qe) {
		kind = ErrKind(qe.Err)
	}
	var pkts []Sx
	drain := func() int {
		n := 0
		for {
			select {
			case p := <-incoming:
				if pp, ok := p.(*packet.Packet); ok {
					pkts = append(pkts, PacketSx(pp, BodyToSx(pp.Body_)))
				}
				n++
			default:
				return n
			}
		}
	}
	drain()
	delivered := len(pkts)
	closed := 0
	cli.SetReadDeadline(time.Now().Add(30 * time.Second))
	var buf [16]byte
	if _, rerr := cli.Read(buf[:]); rerr != nil {
		if ne, ok := rerr.(net.Error); ok && ne.Timeout() {
			atomic.AddInt64(&connTimeouts, 1)
			return inconclusive
		}
		closed = 1 // EOF, or a reset because our late write hit the closed side
	}
	time.Sleep(time.Duration(pause+200) * time.Millisecond) // part2 has been written by now
	late := drain()
	nerr := 1
	for more := true; more; {
		select {
		case <-errCh:
			nerr++
			late++
		default:
			more = false
		}
	}
	return List(Int(int64(nerr)), Int(int64(kind)), ListOf(pkts[:delivered]), Int(int64(closed)), Int(0), Int(int64(late)))
}

// runWhole: a well-formed frame (valid CRC) of a given total size with references, fed to ReadPacket
// followed by three more bytes; only sizes are recorded, so that 8 MiB frames stay in Go
func runWhole(in Sx) Sx {
	ver, nref, total, seed, flag := in.At(1).AsInt(), in.At(2).AsInt(), in.At(3).AsInt(), in.At(4).Uint64(), in.At(5).AsInt()
	hs := HeaderSize(ver)
	refs := 0
	if ver == 2 {
		refs = 4 * nref
	}
	bl := total - hs - refs
	if bl < 0 {
		bl = 0
	}
	payload := append(GenBytes(uint32(seed>>8)|1, refs, 255), GenBytes(uint32(seed)|1, bl, 255)...)
	frame := craft(ver, 1, byte(flag), byte(nref), uint16(seed), uint32(seed>>3), uint32(seed>>5), payload, total, false)
	r := NewChunkReader(append(frame, 1, 2, 3), nil)
	r.Begin()
	pkt := packet.Make()
	var err error
	p, _ := Catch(func() { err = NewEncoder(ver, 0).ReadPacket(r, nil, pkt) })
	pn := 0
	if p {
		pn = 1
	}
	got := 0
	if b, ok := pkt.Body_.([]byte); ok {
		got = len(b)
	}
	return List(Int(int64(pn)), Int(int64(ErrKind(err))), Int(int64(r.Pos)), Int(int64(r.Wanted-r.Start)), Int(int64(r.MaxCap)),
		Int(int64(len(pkt.Refers_))), Int(int64(got)))
}

// runShort: the stream ends in the middle of a frame whose checksum matches the bytes that did
// arrive (sizes only: announced lengths go up to the maximum)
func runShort(in Sx) Sx {
	fmtc, nref, announced, sent, seed := in.At(1).AsInt(), in.At(2).AsInt(), in.At(3).AsInt(), in.At(4).AsInt(), in.At(5).Uint64()
	var data []byte
	if fmtc == 3 {
		data = append([]byte{byte(announced >> 8), byte(announced)}, GenBytes(uint32(seed)|1, sent-2, 255)...)
	} else {
		hs := HeaderSize(fmtc)
		refs := 0
		if fmtc == 2 {
			refs = 4 * nref
		}
		n := sent - hs
		payload := GenBytes(uint32(seed)|1, n, 255)
		_ = refs
		data = craft(fmtc, 1, 0, byte(nref), uint16(seed), uint32(seed>>3), uint32(seed>>5), payload, announced, false)
	}
	r := NewChunkReader(data, nil)
	r.Begin()
	pkt := packet.Make()
	var err error
	var got []byte
	var p bool
	if fmtc == 3 {
		p, _ = Catch(func() { got, err = codec.ReadLenData(r) })
	} else {
		p, _ = Catch(func() { err = NewEncoder(fmtc, 0).ReadPacket(r, nil, pkt) })
		if b, ok := pkt.Body_.([]byte); ok {
			got = b
		}
	}
	pn := 0
	if p {
		pn = 1
	}
	return List(Int(int64(pn)), Int(int64(ErrKind(err))), Int(int64(r.Pos)), Int(int64(r.Wanted-r.Start)), Int(int64(r.MaxCap)), Int(int64(len(got))))
}

func run(in Sx) Sx {
	switch in.At(0).Int64() {
	case 16:
		return runShort(in)
	case 15:
		return runWhole(in)
	case 14:
		return runTimeout(in)
	case 13:
		return runConn(in)
	case 10:
		return runSingle(in)
	case 11:
		return runDamaged(in)
	case 12:
		return runSweep(in)
	}
	panic("c02: unknown case " + in.String())
}

func main() {
	log.SetOutput(io.Discard)
	Main(run, gen)
}

// ---------------------------------------------------------------------------------------
// generators

type wbuf struct{ b []byte }

func (w *wbuf) Write(p []byte) (int, error) { w.b = append(w.b, p...); return len(p), nil }

// a valid frame made by the real encoder
func validFrame(rng *Rng, ver, cidx int, keyseed uint64, bodyLen int, compress bool) []byte {
	p := packet.Make()
	p.Cmd = int32(rng.Next())
	p.Seq_ = uint16(rng.Next())
	p.Flg = 0
	if rng.Chance(1, 3) {
		p.Flg |= 0x20
	}
	p.Type_ = 1
	p.Node_ = 0x010203
	if ver == 2 {
		for i := rng.Intn(4); i > 0; i-- {
			p.AddRefers(0x0a0b0c00 + 7)
		}
	}
	thr := 1 << 24
	mask := byte(255)
	if compress {
		thr, mask = 8, 1
	}
	if rng.Chance(1, 6) && bodyLen > 0 {
		p.Flg |= 0x10
		p.Body_ = int64(rng.Next())
	} else if bodyLen > 0 {
		p.Body_ = GenBytes(uint32(rng.Next())|1, bodyLen, mask)
	}
	w := &wbuf{}
	if _, err := NewEncoder(ver, thr).WritePacket(w, NewCipher(cidx, keyseed), p); err != nil {
		panic(err)
	}
	return w.b
}

// a frame put together by hand (independent of the encoder): header fields, payload as given,
// checksum correct unless badcrc, length field as given (-1: the true length)
func craft(ver int, typ, flag, nref byte, seq uint16, node, cmd uint32, payload []byte, length int, badcrc bool) []byte {
	hs := HeaderSize(ver)
	h := make([]byte, hs)
	if length < 0 {
		length = hs + len(payload)
	}
	if ver == 1 {
		binary.BigEndian.PutUint16(h, uint16(length))
		h[2], h[3] = typ, flag
		binary.BigEndian.PutUint16(h[4:], seq)
		binary.BigEndian.PutUint32(h[6:], cmd)
	} else {
		h[0], h[1], h[2] = byte(length>>16), byte(length>>8), byte(length)
		h[3], h[4], h[5] = typ, flag, nref
		binary.BigEndian.PutUint16(h[6:], seq)
		binary.BigEndian.PutUint32(h[8:], node)
		binary.BigEndian.PutUint32(h[12:], cmd)
	}
	c := crc32.NewIEEE()
	c.Write(h[:hs-4])
	c.Write(payload)
	sum := c.Sum32()
	if badcrc {
		sum ^= 0x00100000
	}
	binary.BigEndian.PutUint32(h[hs-4:], sum)
	return append(h, payload...)
}

func refsBytes(rng *Rng, n int) []byte {
	b := make([]byte, 4*n)
	for i := range b {
		b[i] = byte(rng.Next())
	}
	return b
}

func genSizes(rng *Rng) Sx {
	var l []Sx
	switch rng.Intn(4) {
	case 0:
	case 1:
		for i := 0; i < 200; i++ {
			l = append(l, Int(1))
		}
	case 2:
		for i := 0; i < 20; i++ {
			l = append(l, Int(int64(rng.Range(0, 30))))
		}
	case 3:
		l = append(l, Int(int64(rng.PickInt(2, 13, 14, 15, 19, 20, 21))), Int(int64(rng.Range(1, 40))))
	}
	return ListOf(l)
}

func gen(a Args, out *Out) {
	rng := NewRng(a.Seed)
	emit := func(kind string, in Sx) {
		if Focus(kind) {
			out.Case(kind, true, in, run(in))
		}
	}
	thorough := a.Thorough()

	// 1. every value of the length field.  V1 and the length-prefixed helper: all 65536 values in
	// blocks of 256; V2: everything below the header size, around the maximum, at the top of the
	// 24-bit range and seeded samples in between (thorough: more samples)
	for _, fmtc := range []int{1, 3} {
		var template, tail []byte
		if fmtc == 1 {
			f := validFrame(rng, 1, 0, 0, 40, false)
			template, tail = f[:14], append(f[14:], rng.Bytes(16)...)
		} else {
			template, tail = []byte{0, 0}, rng.Bytes(40)
		}
		for lo := 0; lo < 65536; lo += 256 {
			emit("lenfield", List(Int(12), Int(int64(fmtc)), Bytes(template), Bytes(tail), Int(int64(lo)), Int(int64(lo+256))))
		}
		out.CountN("lenfield-values:fmt"+string(rune('0'+fmtc)), 65536)
	}
	{
		f := validFrame(rng, 2, 0, 0, 40, false)
		template, tail := f[:20], append(f[20:], rng.Bytes(16)...)
		ranges := [][2]int{{0, 20}, {20, 128}, {codec.V2MaxPayloadBytes - 40, codec.V2MaxPayloadBytes + 1}, {codec.V2MaxPayloadBytes + 1, codec.V2MaxPayloadBytes + 64}, {1<<24 - 64, 1 << 24}}
		n := 40
		if thorough {
			n = 600
		}
		for i := 0; i < n; i++ {
			lo := rng.Intn(1<<24 - 16)
			ranges = append(ranges, [2]int{lo, lo + 16})
		}
		for _, rg := range ranges {
			kind := "lenfield"
			if rg[1] <= 20 {
				kind = "lenfield-v2-short"
			}
			emit(kind, List(Int(12), Int(2), Bytes(template), Bytes(tail), Int(int64(rg[0])), Int(int64(rg[1]))))
			out.CountN("lenfield-values:fmt2", rg[1]-rg[0])
		}
		// every refused V2 length above the maximum, checked directly (stride in the quick tier)
		stride := 61
		if thorough {
			stride = 1
		}
		enc := NewEncoder(2, 0)
		started, nth := time.Now(), 0
		budget := 90 * time.Second
		if thorough {
			budget = 900 * time.Second
		}
		for l := codec.V2MaxPayloadBytes + 1 + rng.Intn(stride); l < 1<<24; l += stride {
			data := append(setLength(2, l, template), tail...)
			// a refused length must not cost an allocation: measured on the first few and then
			// now and then; a decoder that allocates first would also make this loop crawl
			if nth < 4 || nth%8192 == 0 {
				if f := measured(2, data, true); f == 1 || f == 3 {
					out.Violation("C02/v2-long-length-alloc", "V2 length field above the maximum: payload buffer allocated before the refusal",
						List(List(Int(12), Int(2), Bytes(template), Bytes(tail), Int(int64(l)), Int(int64(l+1))), ListOf(nil)))
					break
				}
			}
			nth++
			if nth%1024 == 0 && time.Since(started) > budget {
				out.Note("sweep of the V2 lengths above the maximum stopped after %v at %d of %d values", budget, nth, (1<<24-codec.V2MaxPayloadBytes)/stride)
				break
			}
			r := NewChunkReader(data, nil)
			r.Begin()
			var err error
			p, _ := Catch(func() { err = enc.ReadPacket(r, nil, packet.Make()) })
			out.GoChecked++
			if p || ErrKind(err) != 3 || r.MaxCap > codec.V2HeaderSize || r.Pos != codec.V2HeaderSize {
				out.Violation("C02/v2-long-length", "V2 length field above the maximum not refused before allocating", List(List(Int(12), Int(2), Bytes(template), Bytes(tail), Int(int64(l)), Int(int64(l+1))), ListOf(nil)))
				break
			}
		}
	}

	// 1b. the limits are a function of the whole header: the same sweeps of the length field for
	// several reference counts, flags and types, (a) header only, then end of stream: a refused
	// length must be refused from the header alone, nothing allocated, nothing more requested;
	// (b) with some bytes behind
	for _, ver := range []int{1, 2} {
		hs, max := HeaderSize(ver), MaxOf(ver)
		nrefs := []int{0}
		if ver == 2 {
			nrefs = []int{0, 1, 255}
		}
		for _, nref := range nrefs {
			for _, fl := range []byte{0, byte(rng.PickInt(1, 2, 3)), byte(rng.PickInt(0x10, 0x30, 0xFF))} {
				h := craft(ver, byte(rng.Next()), fl, byte(nref), uint16(rng.Next()), uint32(rng.Next()), uint32(rng.Next()), nil, hs, false)
				ranges := [][2]int{{0, hs + 2}, {max - 2, max + 4*nref + 3}}
				if 4*nref > 2 {
					ranges = append(ranges, [2]int{hs + 4*nref - 2, hs + 4*nref + 2})
				}
				if ver == 1 {
					ranges = append(ranges, [2]int{1<<16 - 3, 1 << 16})
				} else {
					ranges = append(ranges, [2]int{1<<24 - 3, 1 << 24})
				}
				for _, rg := range ranges {
					for _, tail := range [][]byte{nil, rng.Bytes(24)} {
						emit("lenfield-x-header", List(Int(12), Int(int64(ver)), Bytes(h), Bytes(tail), Int(int64(rg[0])), Int(int64(rg[1]))))
						out.CountN("lenfield-x-header-values", rg[1]-rg[0])
					}
				}
			}
		}
		// (c) complete frames with a VALID checksum whose size straddles the limit, with references
		for _, nref := range nrefs {
			for _, total := range []int{max - 1, max, max + 1, max + 4*nref, max + 4*nref + 1, hs + 4*nref, hs + 4*nref + 1} {
				if ver == 1 && total > 65535 {
					continue
				}
				emit("whole-frame-at-limit", List(Int(15), Int(int64(ver)), Int(int64(nref)), Int(int64(total)), Uint(rng.Next()&0xFFFFFFFF), Int(int64(rng.PickInt(0, 0x20)))))
			}
		}
	}

	// 1c. the stream ends inside a frame whose checksum is valid for the bytes that arrived: announced
	// length x sent length, on both sides of the powers of two a reader might switch strategy at
	for _, fmtc := range []int{1, 2, 3} {
		hs, max := HeaderSizeOf(fmtc), MaxOf(fmtc)
		var anns []int
		for _, t := range []int{hs + 1, hs + 2, 100, 4096, 32768, 65535, 65536, 65537, 65536 + hs, 65537 + hs, 1 << 20, 1<<20 + hs + 1, 4 << 20, max - 1, max} {
			if t > hs && t <= max {
				anns = append(anns, t)
			}
		}
		for _, ann := range anns {
			for _, sent := range []int{hs, hs + 1, (ann + hs) / 2, ann - 1} {
				if sent < hs || sent >= ann {
					continue
				}
				nref := 0
				if fmtc == 2 && sent-hs >= 4 {
					nref = rng.PickInt(0, 1)
				}
				emit("short-valid-crc", List(Int(16), Int(int64(fmtc)), Int(int64(nref)), Int(int64(ann)), Int(int64(sent)), Uint(rng.Next()&0xFFFFFFFF)))
			}
		}
	}

	// 2. valid frames, every single-bit flip and every truncation point
	nframes := 36
	if thorough {
		nframes = 400
	}
	for i := 0; i < nframes; i++ {
		ver := rng.PickInt(1, 2)
		cidx := rng.PickInt(0, 0, rng.Intn(len(CipherNames)))
		keyseed := rng.Next() & 0xFFFFFFFF
		bl := rng.PickInt(0, 1, 5, rng.Intn(40), rng.Intn(40), rng.Intn(120))
		if i%12 == 11 {
			bl = 200 + rng.Intn(180)
		}
		compress := rng.Chance(1, 4) && bl > 20
		frame := validFrame(rng, ver, cidx, keyseed, bl, compress)
		out.Count("frames:ver" + string(rune('0'+ver)))
		if compress {
			out.Count("frames:compressed")
		}
		if cidx != 0 {
			out.Count("frames:encrypted")
		}
		nbits := 8 * len(frame)
		for lo := 0; lo < nbits; lo += 64 {
			hi := lo + 64
			if hi > nbits {
				hi = nbits
			}
			emit("bitflip", List(Int(11), Int(int64(ver)), Int(int64(cidx)), Uint(keyseed), Bytes(frame), Int(0), Int(int64(lo)), Int(int64(hi))))
			out.CountN("bitflips", hi-lo)
		}
		emit("truncate", List(Int(11), Int(int64(ver)), Int(int64(cidx)), Uint(keyseed), Bytes(frame), Int(1), Int(0), Int(int64(len(frame)))))
		out.CountN("truncations", len(frame))
	}
	// 2b. the extremes of the checksum VALUE: a frame whose true CRC-32 is 0 (four body bytes are
	// chosen so; verified here) with all its single-bit flips and truncations, for both formats
	for _, ver := range []int{1, 2} {
		hs := HeaderSize(ver)
		nref := 0
		if ver == 2 {
			nref = 1
		}
		payload := append(refsBytes(rng, nref), rng.Bytes(6+rng.Intn(10))...)
		f := craft(ver, 1, 0x20, byte(nref), uint16(rng.Next()), uint32(rng.Next()), uint32(rng.Next()), append(payload, 0, 0, 0, 0), -1, false)
		covered := append(append([]byte(nil), f[:hs-4]...), f[hs:len(f)-4]...)
		copy(f[len(f)-4:], ForgeCRC(covered, 0))
		c := crc32.NewIEEE()
		c.Write(f[:hs-4])
		c.Write(f[hs:])
		if c.Sum32() != 0 {
			out.Note("could not build a frame with CRC-32 0 (format %d)", ver)
			continue
		}
		binary.BigEndian.PutUint32(f[hs-4:], 0)
		nbits := 8 * len(f)
		for lo := 0; lo < nbits; lo += 64 {
			hi := lo + 64
			if hi > nbits {
				hi = nbits
			}
			emit("bitflip-crc0", List(Int(11), Int(int64(ver)), Int(0), Uint(0), Bytes(f), Int(0), Int(int64(lo)), Int(int64(hi))))
			out.CountN("bitflips", hi-lo)
		}
		emit("truncate", List(Int(11), Int(int64(ver)), Int(0), Uint(0), Bytes(f), Int(1), Int(0), Int(int64(len(f)))))
		out.Count("frames:crc32=0")
	}
	// length-prefixed records: truncations
	for i := 0; i < 6; i++ {
		w := &wbuf{}
		codec.WriteLenData(w, rng.Bytes(rng.Intn(50)))
		emit("truncate", List(Int(11), Int(3), Int(0), Int(0), Bytes(w.b), Int(1), Int(0), Int(int64(len(w.b)))))
	}

	// 2c. every guard that relates two quantities of a frame, on both sides of its exact boundary and
	// every residue in between, in frames with a VALID checksum (so that they reach UnmarshalPacket)
	single := func(kind string, fmtc, cidx int, data []byte, expect int) {
		emit(kind, List(Int(10), Int(int64(fmtc)), Int(int64(cidx)), Uint(rng.Next()&0xFFFFFFFF), Bytes(data), genSizes(rng), Int(2), Int(int64(expect))))
	}
	hdr := func() (byte, uint16, uint32, uint32) {
		return byte(rng.Next()), uint16(rng.Next()), uint32(rng.Next()), uint32(rng.Next())
	}
	// reference count vs. payload length: 0 and 4r-4 .. 4r+1
	for _, r := range []int{1, 2, 3, 255} {
		for _, n := range []int{0, 4*r - 4, 4*r - 3, 4*r - 2, 4*r - 1, 4 * r, 4*r + 1} {
			typ, seq, node, cmd := hdr()
			exp := 0
			if n < 4*r {
				exp = 1
			}
			single("guard-refcount", 2, 0, craft(2, typ, byte(rng.PickInt(0, 0x20)), byte(r), seq, node, cmd, rng.Bytes(n), -1, false), exp)
		}
	}
	for _, ver := range []int{1, 2} {
		// error flag: a ten-byte varint cut after each byte, and over-long ones
		full := []byte{0xff, 0xff, 0xff, 0xff, 0xff, 0xff, 0xff, 0xff, 0xff, 0x01, 0x80, 0x80, 0x01}
		for k := 0; k <= len(full); k++ {
			typ, seq, node, cmd := hdr()
			single("guard-varint", ver, 0, craft(ver, typ, 0x10, 0, seq, node, cmd, full[:k], -1, false), 0)
		}
		// compressed flag: a valid zlib stream cut after 0..n bytes (only the whole one decodes)
		w := &wbuf{}
		pk := packet.Make()
		pk.Body_ = GenBytes(uint32(rng.Next())|1, 40, 1)
		NewEncoder(1, 8).WritePacket(w, nil, pk)
		z := w.b[14:]
		for k := 0; k <= len(z); k++ {
			typ, seq, node, cmd := hdr()
			exp := 1
			if k == len(z) {
				exp = 0
			}
			single("guard-zlib-prefix", ver, 0, craft(ver, typ, byte(0x01|rng.PickInt(0, 0x10)), 0, seq, node, cmd, z[:k], -1, false), exp)
		}
		// flags vs. body: every combination of the marshalling bits (and the error flag) on bodies of
		// 0, 1, 2 bytes, without and with a decryptor
		for _, fl := range []int{0, 1, 2, 3} {
			for _, ef := range []int{0, 0x10} {
				for n := 0; n <= 2; n++ {
					for _, cidx := range []int{0, 1 + rng.Intn(len(CipherNames)-1)} {
						typ, seq, node, cmd := hdr()
						exp := 0
						if (fl&2 != 0 && cidx == 0) || fl&1 != 0 {
							exp = 1 // undecryptable; 0..2 bytes are never a zlib stream
						}
						single("guard-flags", ver, cidx, craft(ver, typ, byte(fl|ef), 0, seq, node, cmd, rng.Bytes(n), -1, false), exp)
					}
				}
			}
		}
	}

	// 3. single hostile streams
	nsingle := 400
	if thorough {
		nsingle = 6000
	}
	for i := 0; i < nsingle; i++ {
		fmtc := rng.PickInt(1, 2, 1, 2, 1, 2, 3)
		cidx := rng.PickInt(0, 0, rng.Intn(len(CipherNames)))
		keyseed := rng.Next() & 0xFFFFFFFF
		var data []byte
		kind := "garbage"
		expect := 0
		nreads := 2
		if fmtc == 3 {
			switch rng.Intn(3) {
			case 0:
				data = rng.Bytes(rng.Intn(12))
			case 1:
				n := rng.Intn(60)
				data = append([]byte{byte((n + 2) >> 8), byte(n + 2)}, rng.Bytes(n+rng.Intn(5))...)
				kind = "lendata"
			default:
				data = append([]byte{0, byte(rng.Intn(3))}, rng.Bytes(rng.Intn(8))...)
				kind = "lendata-short"
			}
			cidx = 0
		} else {
			ver := fmtc
			typ, seq, node, cmd := byte(rng.Next()), uint16(rng.Next()), uint32(rng.Next()), uint32(rng.Next())
			switch rng.Intn(12) {
			case 11: // a valid frame (damaged or not) whose checksum FIELD is replaced by a special value
				f := validFrame(rng, ver, 0, 0, 1+rng.Intn(40), false)
				hs := HeaderSize(ver)
				nref := 0
				if ver == 2 {
					nref = int(f[5])
				}
				full := binary.BigEndian.Uint32(f[hs-4:])
				sum := func(parts ...[]byte) uint32 {
					c := crc32.NewIEEE()
					for _, p := range parts {
						c.Write(p)
					}
					return c.Sum32()
				}
				var v uint32
				switch rng.Intn(6) {
				case 0:
					v = 0
				case 1:
					v = 0xFFFFFFFF
				case 2:
					v = sum(f[:hs-4]) // header only
				case 3:
					v = sum(f[hs:]) // payload only
				case 4:
					v = sum(f[:hs-4], f[hs+4*nref:]) // without the references
				default:
					v = sum(f[:hs], f[hs:]) // including the checksum field itself
				}
				if rng.Bool() { // plus damage elsewhere
					f[hs-5] ^= 0x10
					if len(f) > hs {
						f[len(f)-1] ^= 1
					}
					full = sum(f[:hs-4], f[hs:])
				}
				binary.BigEndian.PutUint32(f[hs-4:], v)
				data = f
				cidx = 0
				kind = "crc-replaced"
				if v != full {
					expect = 1
				}
			case 10: // marshalling flags on an EMPTY body (V2: nothing after the references)
				fl := byte(rng.PickInt(1, 2, 3)) | byte(rng.PickInt(0, 0x10, 0x20))
				nref := 0
				if ver == 2 {
					nref = rng.PickInt(0, 0, 1, 3)
				}
				data = craft(ver, typ, fl, byte(nref), seq, node, cmd, refsBytes(rng, nref), -1, false)
				kind = "flags-empty-body"
				// encrypted without a decryptor is undecryptable; an empty string is not decompressible
				if (fl&2 != 0 && cidx == 0) || fl&1 != 0 {
					expect = 1
				}
			case 0:
				data = rng.Bytes(rng.Intn(80))
			case 1: // plausible header, anything in flags and reference count
				nref := byte(rng.PickInt(0, 0, 1, 2, rng.Intn(256)))
				data = craft(ver, typ, byte(rng.Next()), nref, seq, node, cmd, rng.Bytes(rng.Intn(60)), -1, false)
				kind = "plausible"
			case 2: // encrypted flag, no decryptor
				cidx = 0
				data = craft(ver, typ, 0x02|byte(rng.PickInt(0, 1, 0x10, 0x20)), 0, seq, node, cmd, rng.Bytes(1+rng.Intn(40)), -1, false)
				kind, expect = "mismatch-encrypted", 1
			case 3: // compressed flag, body is not zlib
				cidx = 0
				data = craft(ver, typ, 0x01|byte(rng.PickInt(0, 0x10, 0x20)), 0, seq, node, cmd, rng.Bytes(1+rng.Intn(40)), -1, false)
				kind, expect = "mismatch-compressed", 1
			case 4: // reference count larger than the body
				if ver == 2 {
					nref := 1 + rng.Intn(255)
					data = craft(2, typ, 0, byte(nref), seq, node, cmd, rng.Bytes(rng.Intn(4*nref)), -1, false)
					kind, expect = "mismatch-refcount", 1
				} else {
					data = craft(1, typ, 0, 0, seq, node, cmd, rng.Bytes(rng.Intn(40)), -1, true)
					kind, expect = "badcrc", 1
				}
			case 5: // compressed body cut short, checksum correct
				f := validFrame(rng, ver, 0, 0, 60+rng.Intn(60), true)
				hs := HeaderSize(ver)
				nref := 0
				if ver == 2 {
					nref = int(f[5])
				}
				body := f[hs+4*nref:]
				cut := 1 + rng.Intn(len(body)-1)
				fl := f[3]
				if ver == 2 {
					fl = f[4]
				}
				data = craft(ver, typ, fl, byte(nref), seq, node, cmd, append(append([]byte(nil), f[hs:hs+4*nref]...), body[:cut]...), -1, false)
				cidx = 0
				// (a frame with an integer body may be too short to have been compressed: then
				// the cut body is just another varint, nothing to refuse)
				kind = "body-cut"
				if fl&1 != 0 {
					kind, expect = "zlib-truncated", 1
				}
			case 6: // error flag, body is an arbitrary varint (also over-long ones)
				b := rng.Bytes(1 + rng.Intn(12))
				if rng.Bool() {
					for j := range b {
						b[j] |= 0x80
					}
					if rng.Bool() {
						b[len(b)-1] &= 0x7f
					}
				}
				cidx = 0
				data = craft(ver, typ, 0x10, 0, seq, node, cmd, b, -1, false)
				kind = "errflag-varint"
			case 7: // a valid frame, then garbage
				data = append(validFrame(rng, ver, cidx, keyseed, rng.Intn(50), rng.Chance(1, 3)), rng.Bytes(rng.Intn(30))...)
				kind, nreads = "valid+garbage", 3
			case 8: // wrong length field around a valid frame
				f := validFrame(rng, ver, cidx, keyseed, rng.Intn(50), false)
				l := len(f) + rng.PickInt(-3, -2, -1, 1, 2, 100)
				data = setLength(ver, l, f)
				kind = "wrong-length"
			default: // encrypted flag with a decryptor present, payload never encrypted
				if cidx == 0 {
					cidx = 1 + rng.Intn(len(CipherNames)-1)
				}
				data = craft(ver, typ, 0x02|byte(rng.PickInt(0, 1)), 0, seq, node, cmd, rng.Bytes(1+rng.Intn(40)), -1, false)
				kind = "decrypt-garbage"
			}
		}
		emit(kind, List(Int(10), Int(int64(fmtc)), Int(int64(cidx)), Uint(keyseed), Bytes(data), genSizes(rng), Int(int64(nreads)), Int(int64(expect))))
	}
	// 4. the reader pump of a real connection: valid frames, something bad (or just the end of the
	// stream), more valid frames that must never be delivered
	nconn := 40
	if thorough {
		nconn = 400
	}
	for i := 0; i < nconn; i++ {
		ver := rng.PickInt(1, 2)
		var data []byte
		for k := rng.Intn(4); k > 0; k-- {
			data = append(data, validFrame(rng, ver, 0, 0, rng.Intn(60), false)...)
		}
		kind := "conn-eof"
		switch rng.Intn(6) {
		case 0:
		case 1:
			data = append(data, rng.Bytes(1+rng.Intn(40))...)
			kind = "conn-garbage"
		case 2:
			data = append(data, craft(ver, 1, 0, 0, 7, 8, 9, rng.Bytes(rng.Intn(30)), -1, true)...)
			kind = "conn-badcrc"
		case 3:
			data = append(data, setLength(ver, rng.Intn(HeaderSize(ver)), validFrame(rng, ver, 0, 0, 20, false))...)
			kind = "conn-short-length"
		case 4:
			f := validFrame(rng, ver, 0, 0, 10+rng.Intn(40), false)
			data = append(data, f[:1+rng.Intn(len(f)-1)]...)
			kind = "conn-truncated"
		case 5:
			data = append(data, craft(ver, 1, 0x02, 0, 7, 8, 9, rng.Bytes(1+rng.Intn(30)), -1, false)...)
			kind = "conn-needs-decrypt"
		}
		if kind != "conn-eof" && kind != "conn-truncated" {
			for k := rng.Intn(3); k > 0; k-- {
				data = append(data, validFrame(rng, ver, 0, 0, rng.Intn(40), false)...)
			}
		}
		emit(kind, List(Int(13), Int(int64(ver)), Bytes(data)))
	}
	// 5. a read deadline firing in the middle of a frame whose body tail is itself a valid frame:
	// the connection must be closed, the tail must never be delivered as a packet.  The scenarios
	// wait for real time, so they run side by side
	{
		nto := 2
		if thorough {
			nto = 8
		}
		ins := make([]Sx, nto)
		obs := make([]Sx, nto)
		var wg sync.WaitGroup
		for i := 0; i < nto; i++ {
			ver := 1 + i%2
			var pre []byte
			for k := rng.Intn(3); k > 0; k-- {
				pre = append(pre, validFrame(rng, ver, 0, 0, rng.Intn(40), false)...)
			}
			inner := craft(ver, 1, 0, 0, 666, 0x0a0b0c0d, 666, rng.Bytes(1+rng.Intn(20)), -1, false)
			outer := craft(ver, 1, 0, 0, 42, 0x01020304, 777, append(rng.Bytes(1+rng.Intn(30)), inner...), -1, false)
			cut := len(outer) - len(inner)
			ins[i] = List(Int(14), Int(int64(ver)), Bytes(append(pre, outer[:cut]...)), Bytes(outer[cut:]), Int(1700))
			wg.Add(1)
			go func(i int) {
				defer wg.Done()
				obs[i] = run(ins[i])
			}(i)
		}
		wg.Wait()
		for i := range ins {
			out.Case("conn-read-timeout", true, ins[i], obs[i])
		}
	}
	out.CountN("conn-timeouts(inconclusive)", int(atomic.LoadInt64(&connTimeouts)))
	out.CountN("alloc-measured(MemStats)", allocMeasured)
	out.CountN("alloc-inconclusive(MemStats)", allocInconclusive)
	if hugeSeen {
		out.Note("memory guard: a V2 length field below the header size made ReadHeadBody allocate more than 64 MiB; later inputs of that class were not run")
	}
}
