#!/bin/bash
# C07, thorough tier: the concurrent stress (separate packets on 8 goroutines) under the race
# detector.  Exit 1 only for a genuine finding (DATA RACE report, read-back failure, crash);
# a race-enabled toolchain that is missing or too slow is "INCONCLUSIVE: ..." with exit 0.
set -u
cd "$(dirname "$0")/../.." || exit 0
W=../work/C07_race
mkdir -p "$W" ../work/bin
BUILD_T=${C07_RACE_BUILD_TIMEOUT:-900}
RUN_T=${C07_RACE_RUN_TIMEOUT:-600}
timeout "$BUILD_T" go build -race -tags verif -o ../work/bin/c07_race ./cmd/c07 >"$W/build.log" 2>&1
rc=$?
if [ $rc -eq 124 ] || [ $rc -eq 137 ]; then echo "INCONCLUSIVE: -race build timed out after ${BUILD_T}s"; exit 0; fi
if [ $rc -ne 0 ]; then
  if grep -qiE "race is not supported|requires cgo|cannot find package|C compiler|gcc" "$W/build.log"; then
    echo "INCONCLUSIVE: no race-enabled toolchain here: $(tail -c 300 "$W/build.log" | tr '\n' ' ')"; exit 0
  fi
  echo "FAIL: the harness does not build with -race: $(tail -c 600 "$W/build.log" | tr '\n' ' ')"; exit 1
fi
S=${VERIF_SEED:-1}
printf '((10 %s 8 4000) ())\n((10 %s 8 4000) ())\n' "$((S * 7919 + 1))" "$((S * 104729 + 3))" >"$W/replay.sx"
rm -f "$W/cases.sx"
timeout "$RUN_T" ../work/bin/c07_race -replay "$W/replay.sx" -out "$W" >"$W/run.log" 2>&1
rc=$?
if [ $rc -eq 124 ] || [ $rc -eq 137 ]; then echo "INCONCLUSIVE: -race run timed out after ${RUN_T}s"; exit 0; fi
if grep -q "DATA RACE" "$W/run.log"; then echo "FAIL: data race between goroutines using separate packets: $(grep -A12 'DATA RACE' "$W/run.log" | head -14 | tr '\n' ' ' | cut -c1-700)"; exit 1; fi
if [ $rc -ne 0 ]; then echo "FAIL: -race harness exited with status $rc: $(tail -c 500 "$W/run.log" | tr '\n' ' ')"; exit 1; fi
if grep -qv '(10 0)' "$W/cases.sx"; then echo "FAIL: concurrent read-back failed under -race: $(grep -v '(10 0)' "$W/cases.sx" | head -2)"; exit 1; fi
echo "race run OK: $(grep -c . "$W/cases.sx") concurrent runs, no race report"
