// C07 harness: packet values (packet/packet.go, packet/packet_encode.go, codec/marshal.go).
// The case language is described at the top of /verif/coq/C07/Run.v.
package main

import (
	"bytes"
	"encoding/binary"
	"encoding/json"
	"errors"
	"fmt"
	"io"
	"log"
	"math"
	"net"
	"runtime"
	"strconv"
	"strings"
	"sync"
	"sync/atomic"
	"time"

	"google.golang.org/protobuf/proto"
	"google.golang.org/protobuf/types/known/wrapperspb"
	"qchen.fun/fatchoy"
	"qchen.fun/fatchoy/codec"
	"qchen.fun/fatchoy/packet"
	"qchen.fun/fatchoy/qnet"
	"qchen.fun/fatchoy/x/cipher"
	. "verifharness/common"
)

// ---- Go values -------------------------------------------------------------------------

const (
	iInt = iota
	iUint
	iI8
	iI16
	iI32
	iI64
	iU8
	iU16
	iU32
	iU64
)

var ikindName = []string{"int", "uint", "int8", "int16", "int32", "int64", "uint8", "uint16", "uint32", "uint64"}

func widen32(bits uint32) uint64 { return math.Float64bits(float64(math.Float32frombits(bits))) }

// the Go value a gov S-expression denotes
func goValue(g Sx) interface{} {
	switch g.At(0).AsInt() {
	case 0:
		return nil
	case 1:
		v := g.At(2)
		switch g.At(1).AsInt() {
		case iInt:
			return int(v.Int64())
		case iUint:
			return uint(v.Uint64())
		case iI8:
			return int8(v.Int64())
		case iI16:
			return int16(v.Int64())
		case iI32:
			return int32(v.Int64())
		case iI64:
			return v.Int64()
		case iU8:
			return uint8(v.Uint64())
		case iU16:
			return uint16(v.Uint64())
		case iU32:
			return uint32(v.Uint64())
		case iU64:
			return v.Uint64()
		}
	case 2:
		return g.At(1).AsBool()
	case 3:
		return math.Float32frombits(uint32(g.At(1).Uint64()))
	case 4:
		return math.Float64frombits(g.At(1).Uint64())
	case 5:
		return g.At(1).AsString()
	case 6:
		return append([]byte{}, g.At(1).AsBytes()...)
	case 7:
		return protoValue(g.At(1).AsInt(), g.At(2).AsBytes())
	}
	panic("bad gov")
}

// registered message ids (packet.VerifRegister, build tag verif)
const (
	idString  = 201 // wrapperspb.StringValue
	idInt64   = 202 // wrapperspb.Int64Value
	idPingReq = 300 // main.PingReq, paired with
	idPingAck = 301 // main.PingAck
)

// named only so that the registry sees a ...Req / ...Ack pair; never unmarshalled into
type PingReq struct{ *wrapperspb.StringValue }
type PingAck struct{ *wrapperspb.StringValue }

func init() {
	packet.VerifRegister(idString, &wrapperspb.StringValue{})
	packet.VerifRegister(idInt64, &wrapperspb.Int64Value{})
	packet.VerifRegister(idPingReq, &PingReq{&wrapperspb.StringValue{}})
	packet.VerifRegister(idPingAck, &PingAck{&wrapperspb.StringValue{}})
}

// a stock message: 0 StringValue(payload) 1 Int64Value(LE64 of payload) 2 BytesValue(payload, unregistered)
func protoValue(kind int, payload []byte) proto.Message {
	switch kind {
	case 0:
		return wrapperspb.String(strings.ToValidUTF8(string(payload), "?"))
	case 1:
		var b [8]byte
		copy(b[:], payload)
		return wrapperspb.Int64(int64(binary.LittleEndian.Uint64(b[:])))
	}
	return wrapperspb.Bytes(append([]byte{}, payload...))
}

func protoID(kind int) int32 {
	switch kind {
	case 0:
		return idString
	case 1:
		return idInt64
	}
	return 0
}

func mustMarshal(m proto.Message) []byte {
	b, err := proto.Marshal(m)
	if err != nil {
		panic(err)
	}
	return b
}

func protoGov(kind int, payload []byte) Sx {
	return List(Int(7), Int(int64(kind)), Bytes(payload), Bytes(mustMarshal(protoValue(kind, payload))))
}

func bodySx(b interface{}) Sx {
	switch v := b.(type) {
	case nil:
		return Ints(0)
	case int64:
		return List(Int(1), Int(v))
	case float64:
		return List(Int(2), Uint(math.Float64bits(v)))
	case string:
		return List(Int(3), Str(v))
	case []byte:
		return List(Int(4), Bytes(v))
	case proto.Message:
		if m, err := proto.Marshal(v); err == nil {
			return List(Int(5), Bytes(m))
		}
	}
	return Ints(9)
}

// the Go value a body S-expression denotes (ReplyWith takes normalised bodies)
func bodyValue(b Sx) interface{} {
	switch b.At(0).AsInt() {
	case 0:
		return nil
	case 1:
		return b.At(1).Int64()
	case 2:
		return math.Float64frombits(b.At(1).Uint64())
	case 3:
		return b.At(1).AsString()
	case 4:
		return append([]byte{}, b.At(1).AsBytes()...)
	}
	panic("bad body")
}

func res(f func() Sx) Sx {
	var v Sx
	if p, _ := Catch(func() { v = f() }); p {
		return Ints(2)
	}
	return List(Int(1), v)
}

type hdr struct {
	cmd    int32
	seq    uint16
	typ    int8
	flg    uint8
	node   uint32
	refers []fatchoy.NodeID
}

func hdrOf(s Sx) hdr {
	h := hdr{cmd: int32(s.At(0).Int64()), seq: uint16(s.At(1).Int64()), typ: int8(s.At(2).Int64()),
		flg: uint8(s.At(3).Int64()), node: uint32(s.At(4).Int64())}
	r := s.At(5)
	for i := 0; i < r.Len(); i++ {
		h.refers = append(h.refers, fatchoy.NodeID(r.At(i).Int64()))
	}
	return h
}

func (h hdr) sx() Sx {
	r := make([]Sx, len(h.refers))
	for i, n := range h.refers {
		r[i] = Uint(uint64(n))
	}
	return List(Int(int64(h.cmd)), Uint(uint64(h.seq)), Int(int64(h.typ)), Uint(uint64(h.flg)), Uint(uint64(h.node)), ListOf(r))
}

func hdrOfPkt(p fatchoy.IPacket) hdr {
	return hdr{p.Command(), p.Seq(), int8(p.Type()), uint8(p.Flag()), uint32(p.Node()), p.Refers()}
}

func (h hdr) packet() *packet.Packet {
	p := packet.New(h.cmd, h.seq, fatchoy.PacketFlag(h.flg), nil)
	p.SetType(fatchoy.PacketType(h.typ))
	p.SetNode(fatchoy.NodeID(h.node))
	if len(h.refers) > 0 {
		p.SetRefers(append([]fatchoy.NodeID{}, h.refers...))
	}
	return p
}

// ---- large bodies ---------------------------------------------------------------------------
// bigBody(kind, size, seed, codec, thr, enc): a text (kind 0) or byte (kind 1) body of `size`
// bytes regenerated from the seed must read back verbatim through Body / BodyToString /
// BodyToBytes, and (codec 1 / 2) arrive verbatim through the codec whenever the frame fits.
// Returns 0 ok | 1 read-back differs | 3 wire form or the body after the wire differs, or a
// frame that fits was refused.
func lcgBytes(seed uint64, n int) []byte {
	b := make([]byte, n)
	x := seed*6364136223846793005 + 1442695040888963407
	for i := range b {
		x = x*6364136223846793005 + 1442695040888963407
		b[i] = byte(x >> 56)
	}
	return b
}

// kinds 0 text / 1 bytes: incompressible pseudo-random content; kinds 2 text / 3 bytes: highly
// compressible content (64 KiB runs whose value depends on the run index and the seed), so that
// bodies far larger than any frame limit still fit a frame once deflated.
func bigContent(kind, size int, seed uint64) []byte {
	if kind < 2 {
		return lcgBytes(seed, size)
	}
	b := make([]byte, size)
	for i := range b {
		b[i] = byte(uint64(i>>16)*131 + seed)
	}
	return b
}

func bigBody(kind, size int, seed uint64, cd, thr int, encb bool) (code int, got int) {
	body := bigContent(kind, size, seed)
	got = -1
	code = bigBody1(kind%2, body, cd, thr, encb, kind >= 2, &got)
	return
}

func bigBody1(kind int, body []byte, cd, thr int, encb, compressible bool, got *int) int {
	size := len(body)
	p := packet.New(77, 9, 0, nil)
	if kind == 0 {
		p.SetBody(string(body))
		if v, ok := p.Body().(string); !ok || v != string(body) {
			return 1
		}
	} else {
		p.SetBody(append([]byte{}, body...))
		if v, ok := p.Body().([]byte); !ok || !bytes.Equal(v, body) {
			return 1
		}
	}
	if p.BodyToString() != string(body) {
		return 1
	}
	if !bytes.Equal(p.BodyToBytes(), body) {
		return 3
	}
	if cd == 0 {
		return 0
	}
	var enc codec.Encoder
	limit := codec.V1MaxPayloadBytes - codec.V1HeaderSize
	if cd == 1 {
		enc = codec.NewV1Encoder(thr)
	} else {
		enc = codec.NewV2Encoder(thr)
		limit = codec.V2MaxPayloadBytes - codec.V2HeaderSize
	}
	var ec, dc cipher.BlockCryptor
	if encb {
		ec, dc = cipher.NewAESCFB(aesKey, aesIV), cipher.NewAESCFB(aesKey, aesIV)
	}
	// must cross: uncompressed frames that fit, compressed ones with 1 KiB to spare
	must := compressible || (size <= limit && (thr >= size || size+1024 <= limit))
	var buf bytes.Buffer
	q := packet.Make()
	_, werr := enc.WritePacket(&buf, ec, p)
	if werr != nil {
		if must {
			return 3
		}
		return 0
	}
	if err := enc.ReadPacket(&buf, dc, q); err != nil {
		return 3
	}
	if size == 0 {
		if q.Body() != nil {
			return 3
		}
		return 0
	}
	if v, ok := q.Body().([]byte); ok {
		*got = len(v)
	}
	if v, ok := q.Body().([]byte); !ok || !bytes.Equal(v, body) {
		return 3
	}
	if !bytes.Equal(q.BodyToBytes(), body) || q.BodyToString() != string(body) {
		return 3
	}
	return 0
}

// ---- separate packets on separate goroutines -------------------------------------------------
// concurrentBodies(seed, g, iters): g goroutines, each with its own packets and value stream,
// set integer / float bodies and error codes, take the wire form, let the others run, then
// check that the wire form still decodes to the value and that the packet crosses both codecs
// with the value intact.  Nothing is shared between the goroutines.
// Returns 0 ok | 3 a wire form does not give the value back | 4 an error code is not delivered | 5 panic.
func concurrentBodies(seed uint64, g, iters int) (code int, checked int64) {
	var wg sync.WaitGroup
	var bad, n int64
	for id := 0; id < g; id++ {
		wg.Add(1)
		go func(id int) {
			defer wg.Done()
			pn, _ := Catch(func() {
				r := NewRng(seed + uint64(id)*104729)
				// the process-wide registered instances, as the servers hand them to every connection
				encs := []codec.Encoder{codec.GetEncoder("V1"), codec.GetEncoder("V2")}
				for i := 0; i < iters && atomic.LoadInt64(&bad) == 0; i++ {
					v := int64(r.Next()) >> uint(r.Intn(64))
					bits := r.Next()
					ec := int32(r.Next())
					pa, pb, pc := packet.Make(), packet.Make(), packet.Make()
					pa.SetBody(v)
					pb.SetBody(math.Float64frombits(bits))
					pc.SetErrno(ec)
					wa, wb, wc := pa.BodyToBytes(), pb.BodyToBytes(), pc.BodyToBytes()
					runtime.Gosched()
					x, na := binary.Varint(wa)
					y, nb := binary.Uvarint(wb)
					z, nc := binary.Varint(wc)
					if na != len(wa) || x != v || nb != len(wb) || y != bits || nc != len(wc) || z != int64(ec) {
						atomic.CompareAndSwapInt64(&bad, 0, 3)
						return
					}
					var buf bytes.Buffer
					q := packet.Make()
					e := encs[i%2]
					if _, err := e.WritePacket(&buf, nil, pc); err != nil {
						atomic.CompareAndSwapInt64(&bad, 0, 4)
						return
					}
					if err := e.ReadPacket(&buf, nil, q); err != nil || q.Errno() != ec {
						atomic.CompareAndSwapInt64(&bad, 0, 4)
						return
					}
					// a refusal of this goroutine's own request through the shared encoder
					req := packet.New(int32(1000+id), uint16(i), 0, nil)
					rec := &recorder{}
					req.SetEndpoint(rec)
					req.RefuseWith(int32(2000+id), ec)
					buf.Reset()
					q = packet.Make()
					if len(rec.sent) != 1 {
						atomic.CompareAndSwapInt64(&bad, 0, 4)
						return
					}
					if _, err := e.WritePacket(&buf, nil, rec.sent[0]); err != nil {
						atomic.CompareAndSwapInt64(&bad, 0, 4)
						return
					}
					if err := e.ReadPacket(&buf, nil, q); err != nil || q.Errno() != ec || q.Seq() != uint16(i) || q.Command() != int32(2000+id) {
						atomic.CompareAndSwapInt64(&bad, 0, 4)
						return
					}
					buf.Reset()
					q = packet.Make()
					if _, err := e.WritePacket(&buf, nil, pa); err != nil {
						atomic.CompareAndSwapInt64(&bad, 0, 3)
						return
					}
					if err := e.ReadPacket(&buf, nil, q); err != nil {
						atomic.CompareAndSwapInt64(&bad, 0, 3)
						return
					}
					if w, ok := q.Body().([]byte); !ok {
						atomic.CompareAndSwapInt64(&bad, 0, 3)
						return
					} else if x, nx := binary.Varint(w); nx != len(w) || x != v {
						atomic.CompareAndSwapInt64(&bad, 0, 3)
						return
					}
					atomic.AddInt64(&n, 6)
				}
			})
			if pn {
				atomic.CompareAndSwapInt64(&bad, 0, 5)
			}
		}(id)
	}
	wg.Wait()
	return int(atomic.LoadInt64(&bad)), atomic.LoadInt64(&n)
}

// ---- the library's own request/response helpers (qnet/util.go) over a pipe --------------------
// pipeEndpoint sends through a codec onto a connection, as a connection's writer does
type pipeEndpoint struct {
	recorder
	conn net.Conn
	enc  codec.Encoder
}

func (e *pipeEndpoint) SendPacket(p fatchoy.IPacket) error {
	_, err := e.enc.WritePacket(e.conn, nil, p)
	return err
}

// pipeExchange(codec, cmd, mode, arg): the client calls qnet.RequestProtoMessage(cmd, "ping");
// the server reads the request with the codec, binds it to its endpoint and answers with
// mode 0 Refuse(arg = code) | 1 ReplyWith(cmd, arg = a proto gov) | 2 RefuseWith(cmd+1, code).
// observed (1 #marshalled response) | (0 #error text) | (9) stuck or panicked
func pipeExchange(cd int, cmd int32, mode int, arg Sx) Sx {
	qnet.RequestReadTimeout = 5
	var enc codec.Encoder
	if cd == 1 {
		enc = codec.NewV1Encoder(0)
	} else {
		enc = codec.NewV2Encoder(0)
	}
	cc, sc := net.Pipe()
	defer cc.Close()
	defer sc.Close()
	done := make(chan Sx, 1)
	go func() { // server
		Catch(func() {
			sc.SetDeadline(time.Now().Add(5 * time.Second))
			req := packet.Make()
			if err := enc.ReadPacket(sc, nil, req); err != nil {
				return
			}
			req.SetEndpoint(&pipeEndpoint{conn: sc, enc: enc})
			switch mode {
			case 0:
				req.Refuse(int32(arg.Int64()))
			case 1:
				req.ReplyWith(cmd, goValue(arg))
			default:
				req.RefuseWith(cmd+1, int32(arg.Int64()))
			}
		})
	}()
	go func() { // client
		res := Ints(9)
		Catch(func() {
			resp := &wrapperspb.StringValue{}
			cc.SetWriteDeadline(time.Now().Add(5 * time.Second))
			if err := qnet.RequestProtoMessage(cc, enc, cmd, wrapperspb.String("ping"), resp); err != nil {
				res = List(Int(0), Str(err.Error()))
				return
			}
			res = List(Int(1), Bytes(mustMarshal(resp)))
		})
		done <- res
	}()
	select {
	case r := <-done:
		return r
	case <-time.After(12 * time.Second):
		return Ints(9)
	}
}

// recording endpoint
// the endpoint a request is bound to is part of the input: it may report that it is no longer
// running (closing / draining) while SendPacket still takes packets, and SendPacket may fail
type recorder struct {
	sent    []fatchoy.IPacket
	stopped bool  // IsRunning() == false
	result  error // what SendPacket returns (after recording the packet)
}

var errSendRefused = errors.New("endpoint: send refused")

func (r *recorder) NodeID() fatchoy.NodeID             { return 0 }
func (r *recorder) SetNodeID(fatchoy.NodeID)           {}
func (r *recorder) RemoteAddr() string                 { return "" }
func (r *recorder) SendPacket(p fatchoy.IPacket) error { r.sent = append(r.sent, p); return r.result }
func (r *recorder) Close() error                       { return nil }
func (r *recorder) ForceClose(error)                   {}
func (r *recorder) IsRunning() bool                    { return !r.stopped }
func (r *recorder) SetUserData(interface{})            {}
func (r *recorder) UserData() interface{}              { return nil }

var aesKey = []byte("0123456789abcdef")
var aesIV = []byte("fedcba9876543210")

// run never lets a panic of the library escape: calls whose panic is an outcome of its own are
// caught where they are made; anything else that panics (SetBody, SetErrno, Errno, the codecs'
// constructors ...) turns the whole observation into (-1), which the check reads as "a packet
// operation panicked where the property demands a defined result".
func run(in Sx) (obs Sx) {
	if pn, _ := Catch(func() { obs = run1(in) }); pn {
		return List(Int(-1))
	}
	return obs
}

func run1(in Sx) Sx {
	switch in.At(0).AsInt() {
	case 0:
		p := packet.Make()
		if pn, _ := Catch(func() { p.SetBody(goValue(in.At(1))) }); pn {
			return List(Ints(9), Ints(2), Ints(2), Ints(2), Ints(2))
		}
		return List(bodySx(p.Body()),
			res(func() Sx { return Int(p.BodyToInt()) }),
			res(func() Sx { return Uint(math.Float64bits(p.BodyToFloat())) }),
			res(func() Sx { return Str(p.BodyToString()) }),
			res(func() Sx { return Bytes(p.BodyToBytes()) }))
	case 1:
		p := packet.New(7, 1, fatchoy.PacketFlag(in.At(1).Int64()), nil)
		p.SetErrno(int32(in.At(2).Int64()))
		return List(Uint(uint64(p.Flag())), bodySx(p.Body()), Int(int64(p.Errno())))
	case 2:
		p := packet.New(7, 1, fatchoy.PacketFlag(in.At(1).Int64())&^fatchoy.PFlagError, nil)
		p.SetBody(goValue(in.At(2)))
		return List(Int(int64(p.Errno())))
	case 3:
		var enc codec.Encoder
		thr := in.At(2).AsInt()
		if in.At(1).AsInt() == 1 {
			enc = codec.NewV1Encoder(thr)
		} else {
			enc = codec.NewV2Encoder(thr)
		}
		var ec, dc cipher.BlockCryptor
		if in.At(3).AsBool() {
			ec, dc = cipher.NewAESCFB(aesKey, aesIV), cipher.NewAESCFB(aesKey, aesIV)
		}
		if in.At(3).AsInt() == 2 { // the receiver has no cipher
			dc = nil
		}
		p := hdrOf(in.At(4)).packet()
		what := in.At(5)
		if what.At(0).AsInt() == 0 {
			p.SetErrno(int32(what.At(1).Int64()))
		} else {
			p.SetBody(goValue(what.At(1)))
		}
		var buf bytes.Buffer
		q := packet.Make()
		ok := false
		var frame []byte
		pn, _ := Catch(func() {
			if _, err := enc.WritePacket(&buf, ec, p); err != nil {
				return
			}
			frame = append([]byte{}, buf.Bytes()...)
			if err := enc.ReadPacket(&buf, dc, q); err != nil {
				return
			}
			ok = true
		})
		if pn || !ok {
			return List(Int(0))
		}
		obs := []Sx{Int(1), hdrOfPkt(q).sx(), bodySx(q.Body()), Int(int64(q.Errno())),
			res(func() Sx { return Bytes(q.BodyToBytes()) })}
		// a relay that forwards a copy: the frame decoded once more, Clone(), the clone sent on
		cl := List(Int(0))
		Catch(func() {
			qq := packet.Make()
			if err := enc.ReadPacket(bytes.NewBuffer(frame), dc, qq); err != nil {
				return
			}
			c := qq.Clone()
			var b2 bytes.Buffer
			q3 := packet.Make()
			if _, err := enc.WritePacket(&b2, ec, c); err != nil {
				return
			}
			if err := enc.ReadPacket(&b2, dc, q3); err != nil {
				return
			}
			cl = List(Int(1), hdrOfPkt(q3).sx(), bodySx(q3.Body()))
		})
		// send the decoded packet on again, as a forwarding node would
		q2 := packet.Make()
		ok = false
		buf.Reset()
		pn, _ = Catch(func() {
			if _, err := enc.WritePacket(&buf, ec, q); err != nil {
				return
			}
			if err := enc.ReadPacket(&buf, dc, q2); err != nil {
				return
			}
			ok = true
		})
		if pn || !ok {
			obs = append(obs, List(Int(0)))
		} else {
			obs = append(obs, List(Int(1), hdrOfPkt(q2).sx(), bodySx(q2.Body())))
		}
		return ListOf(append(obs, cl))
	case 9:
		// several numeric wire forms alive at the same time (a batching writer): BodyToBytes on A,
		// B and C first, the three slices are looked at only afterwards; then A crosses the codec
		// after B's wire form has been produced again
		var ps [3]*packet.Packet
		for i := range ps {
			ps[i] = packet.New(int32(100+i), uint16(i), 0, nil)
			w := in.At(1 + i)
			if w.At(0).AsInt() == 0 {
				ps[i].SetErrno(int32(w.At(1).Int64()))
			} else {
				ps[i].SetBody(goValue(w.At(1)))
			}
		}
		var ws [3][]byte
		for i := range ps {
			ws[i] = ps[i].BodyToBytes()
		}
		held := []Sx{Bytes(ws[0]), Bytes(ws[1]), Bytes(ws[2])}
		var buf bytes.Buffer
		enc := codec.NewV2Encoder(0)
		_ = ps[1].BodyToBytes()
		q := packet.Make()
		ok := false
		Catch(func() {
			if _, err := enc.WritePacket(&buf, nil, ps[0]); err != nil {
				return
			}
			_ = ps[2].BodyToBytes()
			if err := enc.ReadPacket(&buf, nil, q); err != nil {
				return
			}
			ok = true
		})
		d := List(Int(0))
		if ok {
			d = List(Int(1), hdrOfPkt(q).sx(), bodySx(q.Body()), Int(int64(q.Errno())))
		}
		return List(Int(1), held[0], held[1], held[2], d)
	case 10:
		code, _ := concurrentBodies(in.At(1).Uint64(), in.At(2).AsInt(), in.At(3).AsInt())
		return List(Int(10), Int(int64(code)))
	case 8:
		// the same packet object encoded again after an encrypted encode (resend / broadcast)
		mk := func(cd, thr int) codec.Encoder {
			if cd == 1 {
				return codec.NewV1Encoder(thr)
			}
			return codec.NewV2Encoder(thr)
		}
		cd, thr := in.At(1).AsInt(), in.At(2).AsInt()
		p := hdrOf(in.At(3)).packet()
		what := in.At(4)
		if what.At(0).AsInt() == 0 {
			p.SetErrno(int32(what.At(1).Int64()))
		} else {
			p.SetBody(goValue(what.At(1)))
		}
		w0 := append([]byte{}, p.BodyToBytes()...)
		s0 := p.BodyToString()
		through := func(cd int) Sx {
			var buf bytes.Buffer
			q := packet.Make()
			ok := false
			pn, _ := Catch(func() {
				if _, err := mk(cd, thr).WritePacket(&buf, cipher.NewAESCFB(aesKey, aesIV), p); err != nil {
					return
				}
				if err := mk(cd, thr).ReadPacket(&buf, cipher.NewAESCFB(aesKey, aesIV), q); err != nil {
					return
				}
				ok = true
			})
			if pn || !ok {
				return List(Int(0))
			}
			return List(Int(1), hdrOfPkt(q).sx(), bodySx(q.Body()), Int(int64(q.Errno())))
		}
		q1 := through(cd)
		w1 := res(func() Sx { return Bytes(p.BodyToBytes()) })
		s1 := res(func() Sx { return Str(p.BodyToString()) })
		q2 := through(cd)
		q3 := through(3 - cd)
		return List(Int(1), Bytes(w0), Str(s0), w1, s1, q1, q2, q3)
	case 7:
		code, got := bigBody(in.At(1).AsInt(), in.At(2).AsInt(), in.At(3).Uint64(), in.At(4).AsInt(), in.At(5).AsInt(), in.At(6).AsBool())
		return List(Int(7), Int(int64(code)), Int(int64(got)))
	case 4:
		h := hdrOf(in.At(1))
		p := h.packet()
		e1 := &recorder{}
		// optional 6th element: the endpoint's state, bit 0 = not running, bit 1 = SendPacket fails
		if in.Len() > 5 {
			st := in.At(5).AsInt()
			e1.stopped = st&1 != 0
			if st&2 != 0 {
				e1.result = errSendRefused
			}
		}
		p.SetEndpoint(e1)
		mode, command, arg := in.At(2).AsInt(), int32(in.At(3).Int64()), in.At(4)
		var ret error
		pn, _ := Catch(func() {
			switch mode {
			case 0:
				ret = p.ReplyWith(command, bodyValue(arg))
			case 1:
				ret = p.RefuseWith(command, int32(arg.Int64()))
			case 2:
				ret = p.Refuse(int32(arg.Int64()))
			case 3:
				ret = p.Reply(goValue(arg).(proto.Message))
			default:
				ret = p.ReplyWith(command, goValue(arg))
			}
		})
		// handed to SendPacket of exactly this endpoint exactly once, SendPacket's own result returned
		if pn || len(e1.sent) != 1 || ret != e1.result {
			return List(Int(0))
		}
		e1.result = nil
		q := e1.sent[len(e1.sent)-1]
		// the exported views nobody else looks at: the request is still bound to its endpoint, the
		// reply is not bound to any, and both print
		if p.Endpoint() != fatchoy.MessageEndpoint(e1) || q.Endpoint() != nil || p.String() == "" || q.(*packet.Packet).String() == "" {
			return List(Int(0))
		}
		first := []Sx{Int(1), Int(int64(len(e1.sent))), hdrOfPkt(q).sx(), bodySx(q.Body()), Int(int64(q.Errno())),
			res(func() Sx { return Bytes(q.BodyToBytes()) })}
		// the endpoint only queued the reply; the request object is recycled for the next message
		// before the reply is encoded: what the reply carries must not change
		Catch(func() {
			p.Reset()
			for i := 0; i <= len(h.refers); i++ {
				p.AddRefers(fatchoy.NodeID(99999990 + i))
			}
			p.SetSeq(h.seq + 1)
			p.SetNode(fatchoy.NodeID(h.node + 1))
			p.SetType(fatchoy.PacketType(h.typ + 1))
			p.SetCommand(h.cmd + 1)
			p.SetBody("recycled")
			p.SetFlag(fatchoy.PacketFlag(^h.flg))
		})
		later := res(func() Sx { return List(hdrOfPkt(q).sx(), bodySx(q.Body()), Int(int64(q.Errno()))) })
		// the recycled object serves the next request: its reply carries the NEW fields
		recycledOK := false
		Catch(func() {
			e2 := &recorder{}
			p.SetEndpoint(e2)
			p.ReplyWith(h.cmd+2, "again")
			if len(e2.sent) != 1 || len(e1.sent) != int(first[1].Int64()) {
				return
			}
			r2 := e2.sent[0]
			want := hdr{h.cmd + 2, h.seq + 1, h.typ + 1, ^h.flg, h.node + 1, p.Refers()}
			got := hdrOfPkt(r2)
			if got.sx().String() == want.sx().String() && bodySx(r2.Body()).String() == List(Int(3), Str("again")).String() && len(got.refers) == len(h.refers)+1 {
				recycledOK = true
			}
		})
		if !recycledOK {
			return List(Int(0))
		}
		return ListOf(append(first, later))
	case 6:
		p := packet.New(7, 1, fatchoy.PacketFlag(in.At(1).Int64()), goValue(in.At(2)))
		return List(bodySx(p.Body()),
			res(func() Sx { return Int(p.BodyToInt()) }),
			res(func() Sx { return Uint(math.Float64bits(p.BodyToFloat())) }),
			res(func() Sx { return Str(p.BodyToString()) }),
			res(func() Sx { return Bytes(p.BodyToBytes()) }))
	case 5:
		var enc codec.Encoder
		if in.At(1).AsInt() == 1 {
			enc = codec.NewV1Encoder(0)
		} else {
			enc = codec.NewV2Encoder(0)
		}
		p := hdrOf(in.At(2)).packet()
		p.SetBody(goValue(in.At(3)))
		var buf bytes.Buffer
		q := packet.Make()
		ok := false
		pn, _ := Catch(func() {
			if _, err := enc.WritePacket(&buf, nil, p); err != nil {
				return
			}
			if err := enc.ReadPacket(&buf, nil, q); err != nil {
				return
			}
			ok = true
		})
		if pn || !ok {
			return List(Int(0))
		}
		// DecodeTo a StringValue first (it leaves the packet alone), then Decode()
		dt := Ints(2)
		Catch(func() {
			msg := &wrapperspb.StringValue{}
			if err := q.DecodeTo(msg); err != nil {
				dt = Ints(0)
				return
			}
			dt = List(Int(1), Bytes(mustMarshal(msg)))
		})
		var derr error
		if pn, _ := Catch(func() { derr = q.Decode() }); pn {
			return List(Int(1), Int(2), bodySx(q.Body()), dt)
		}
		return List(Int(1), Bool(derr == nil), bodySx(q.Body()), dt)
	case 12:
		return pipeExchange(in.At(1).AsInt(), int32(in.At(2).Int64()), in.At(3).AsInt(), in.At(4))
	}
	panic("bad scenario")
}

// ---- generators ------------------------------------------------------------------------

var f32Special = []uint64{0, 0x80000000, 0x7f800000, 0xff800000, 0x7fc00000, 0x7fa00000, 0x7f800001,
	0xffc12345, 0x00000001, 0x007fffff, 0x00800000, 0x3f800000, 0xbf800000, 0x7f7fffff, 0x7fffffff, 0xffffffff, 0x3dcccccd}
var f64Special = []uint64{0, 0x8000000000000000, 0x7ff0000000000000, 0xfff0000000000000, 0x7ff8000000000000,
	0x7ff4000000000000, 0x7ff0000000000001, 0xfff8123456789abc, 1, 0x000fffffffffffff, 0x0010000000000000,
	0x3ff0000000000000, 0xbff0000000000000, 0x7fefffffffffffff, 0x7fffffffffffffff, 0xffffffffffffffff,
	0x3fb999999999999a, 0x4340000000000000, 0x43e0000000000000, 0xc3e0000000000000}

var texts = []string{"", "0", "-1", "12345", "9223372036854775807", "-9223372036854775808", "9223372036854775808",
	"+7", "1.5", "hello", "héllo wörld", "日本語テキスト", "\x00\xff\xfe", "1e10", " 12", "0x10", "NaN", "😀 emoji"}

func intRange(k int) (lo int64, hi uint64) {
	switch k {
	case iI8:
		return math.MinInt8, math.MaxInt8
	case iI16:
		return math.MinInt16, math.MaxInt16
	case iI32:
		return math.MinInt32, math.MaxInt32
	case iInt:
		if strconv.IntSize == 32 {
			return math.MinInt32, math.MaxInt32
		}
		return math.MinInt64, math.MaxInt64
	case iUint:
		if strconv.IntSize == 32 {
			return 0, math.MaxUint32
		}
		return 0, math.MaxUint64
	case iI64:
		return math.MinInt64, math.MaxInt64
	case iU8:
		return 0, math.MaxUint8
	case iU16:
		return 0, math.MaxUint16
	case iU32:
		return 0, math.MaxUint32
	}
	return 0, math.MaxUint64
}

func genInt(rng *Rng, k int, boundary bool) Sx {
	lo, hi := intRange(k)
	if lo < 0 {
		h := int64(hi)
		if boundary {
			v := rng.PickI64(lo, lo+1, -1, 0, 1, h-1, h, 63, 64, -64, -65, 127, 128)
			if v > h {
				v = h
			}
			if v < lo {
				v = lo
			}
			return List(Int(1), Int(int64(k)), Int(v))
		}
		v := int64(rng.Next())
		// keep the sign, fit the width
		for v < lo || v > h {
			v >>= 8
		}
		return List(Int(1), Int(int64(k)), Int(v))
	}
	if boundary {
		return List(Int(1), Int(int64(k)), Uint(rng.PickU64(0, 1, hi-1, hi, hi>>1, hi>>1+1, 127, 128, 63, 64)&hi))
	}
	return List(Int(1), Int(int64(k)), Uint((rng.Next()>>uint(rng.Intn(64)))&hi))
}

func randText(rng *Rng) string {
	if rng.Chance(1, 2) {
		return texts[rng.Intn(len(texts))]
	}
	if rng.Chance(1, 3) {
		return strconv.FormatInt(int64(rng.Next())>>uint(rng.Intn(64)), 10)
	}
	return string(rng.Bytes(rng.Intn(40)))
}

func randBytes(rng *Rng) []byte {
	switch rng.Intn(6) {
	case 0:
		return []byte{}
	case 1:
		return rng.Bytes(rng.PickInt(1, 2, 4, 8))
	case 2:
		return rng.Bytes(rng.PickInt(3, 5, 7, 9, 10, 16))
	}
	return rng.Bytes(rng.Intn(64))
}

func bytesGov(b []byte) Sx {
	var w uint64
	if len(b) == 4 {
		w = widen32(binary.LittleEndian.Uint32(b))
	}
	return List(Int(6), Bytes(b), Uint(w))
}

func genGov(rng *Rng, out *Out) Sx {
	switch c := rng.Intn(16); {
	case c == 0:
		out.Count("gov:nil")
		return Ints(0)
	case c <= 6:
		k := rng.Intn(10)
		out.Count("gov:" + ikindName[k])
		return genInt(rng, k, rng.Bool())
	case c == 7:
		out.Count("gov:bool")
		return List(Int(2), Bool(rng.Bool()))
	case c <= 9:
		out.Count("gov:float32")
		b := rng.Next() & 0xffffffff
		if rng.Bool() {
			b = f32Special[rng.Intn(len(f32Special))]
		}
		return List(Int(3), Uint(b), Uint(widen32(uint32(b))))
	case c <= 11:
		out.Count("gov:float64")
		b := rng.Next()
		if rng.Bool() {
			b = f64Special[rng.Intn(len(f64Special))]
		}
		return List(Int(4), Uint(b))
	case c <= 13:
		out.Count("gov:string")
		return List(Int(5), Str(randText(rng)))
	}
	out.Count("gov:bytes")
	return bytesGov(randBytes(rng))
}

func genHdr(rng *Rng, wireSafe bool) hdr {
	h := hdr{}
	if rng.Bool() {
		h.cmd = int32(rng.PickI64(0, 1, -1, math.MaxInt32, math.MinInt32, 77, 1001))
		h.seq = uint16(rng.PickI64(0, 1, 255, 256, 65535, 32768))
		h.typ = int8(rng.PickI64(0, 1, 2, 127, -128, -1))
		h.node = uint32(rng.PickU64(0, 1, 0xffffffff, 0x80000000, 0x00010001))
	} else {
		h.cmd, h.seq, h.typ, h.node = int32(rng.Next()), uint16(rng.Next()), int8(rng.Next()), uint32(rng.Next())
	}
	h.flg = uint8(rng.Next())
	if rng.Bool() {
		h.flg = uint8(rng.PickI64(0, 0x10, 0x20, 0x30, 0x80, 0xf0))
	}
	if wireSafe {
		// compression/encryption marks are the codec's to set
		h.flg &^= uint8(fatchoy.PFlagCompressed | fatchoy.PFlagEncrypted)
	}
	switch rng.Intn(4) {
	case 0:
	case 1:
		h.refers = []fatchoy.NodeID{fatchoy.NodeID(rng.Next())}
	default:
		n := rng.Intn(6)
		if rng.Chance(1, 20) {
			n = 255
		}
		for i := 0; i < n; i++ {
			h.refers = append(h.refers, fatchoy.NodeID(rng.Next()))
		}
	}
	return h
}

func genErrno(rng *Rng) int64 {
	if rng.Bool() {
		return rng.PickI64(0, 1, 8, 23, 77, 127, 128, 255, 256, 65535, 65536, -1, -8, math.MaxInt32, math.MinInt32, math.MaxInt32-1)
	}
	return int64(int32(rng.Next()))
}

func main() {
	log.SetOutput(io.Discard)
	Main(run, gen)
}

func gen(a Args, out *Out) {
	rng := NewRng(a.Seed)
	scale := 1
	if a.Thorough() {
		scale = 20
	}
	emit := func(kind string, in Sx) { out.Case(kind, true, in, run(in)) }
	catchViol := func(sig, what string, in Sx, f func() bool) {
		out.GoChecked++
		ok := false
		if pn, _ := Catch(func() { ok = f() }); pn || !ok {
			out.Violation(sig, what, List(in, List()))
		}
	}

	// scenario 0: every integer kind at its boundaries, then random values of every kind
	for k := 0; k < 10; k++ {
		for j := 0; j < 10; j++ {
			emit("body-int", List(Int(0), genInt(rng, k, true)))
		}
	}
	// integers around every width boundary, through every accessor (a 32-bit int anywhere in a
	// conversion shows here on 32-bit builds)
	for _, v := range []int64{1 << 31, 1<<31 - 1, 1<<31 + 1, -(1 << 31), -(1 << 31) - 1, -(1 << 31) + 1, 1 << 32, 1<<32 - 1, 1<<32 + 1,
		-(1 << 32), 1 << 40, -(1 << 40), 1<<40 + 12345, 1 << 53, 1<<53 + 1, 1 << 62, math.MaxInt64, math.MaxInt64 - 1, math.MinInt64, math.MinInt64 + 1} {
		emit("body-int-edge", List(Int(0), List(Int(1), Int(iI64), Int(v))))
		emit("body-int-edge", List(Int(6), Int(0), List(Int(1), Int(iI64), Int(v))))
		if v >= 0 {
			emit("body-int-edge", List(Int(0), List(Int(1), Int(iU64), Int(v))))
			if v <= math.MaxUint32 {
				emit("body-int-edge", List(Int(0), List(Int(1), Int(iU32), Int(v))))
			}
		}
	}
	for _, v := range []uint64{1 << 63, 1<<63 + 1, math.MaxUint64, math.MaxUint64 - 1, 1<<63 - 1} {
		emit("body-int-edge", List(Int(0), List(Int(1), Int(iU64), Uint(v))))
	}
	for _, b := range f32Special {
		emit("body-float", List(Int(0), List(Int(3), Uint(b), Uint(widen32(uint32(b))))))
	}
	for _, b := range f64Special {
		emit("body-float", List(Int(0), List(Int(4), Uint(b))))
	}
	for _, s := range texts {
		emit("body-text", List(Int(0), List(Int(5), Str(s))))
		emit("body-bytes", List(Int(0), bytesGov([]byte(s))))
	}
	// int64 -> float64 rounding (ties to even above 2^53) and float64 -> int64 truncation
	for sh := uint(52); sh <= 62; sh++ {
		for _, d := range []int64{-3, -2, -1, 0, 1, 2, 3} {
			v := int64(1)<<sh + d<<(sh-52)/2 + d
			emit("body-int-big", List(Int(0), List(Int(1), Int(iI64), Int(v))))
			emit("body-int-big", List(Int(0), List(Int(1), Int(iI64), Int(-v))))
		}
	}
	for i := 0; i < 150*scale; i++ {
		v := int64(rng.Next()) >> uint(rng.Intn(12))
		emit("body-int-big", List(Int(0), List(Int(1), Int(iI64), Int(v))))
		// a double with an exponent around the integer range, random fraction
		e := uint64(1023 - 3 + rng.Intn(70))
		bits := uint64(rng.Intn(2))<<63 | e<<52 | rng.Next()>>12
		if rng.Chance(1, 4) {
			bits &^= (uint64(1) << uint(rng.Intn(52))) - 1 // integral values
		}
		emit("body-float-intrange", List(Int(0), List(Int(4), Uint(bits))))
	}
	emit("body-nil", List(Int(0), Ints(0)))
	emit("body-bool", List(Int(0), List(Int(2), Bool(true))))
	emit("body-bool", List(Int(0), List(Int(2), Bool(false))))
	kindOf := func(g Sx) string {
		switch g.At(0).AsInt() {
		case 0:
			return "nil"
		case 1:
			return "int"
		case 2:
			return "bool"
		case 3, 4:
			return "float"
		case 5:
			return "text"
		case 7:
			return "proto"
		}
		return "bytes"
	}
	genProto := func() Sx {
		k := rng.Intn(3)
		out.Count("gov:proto" + strconv.Itoa(k))
		switch rng.Intn(4) {
		case 0:
			return protoGov(k, nil) // the zero message: empty wire form
		case 1:
			return protoGov(k, []byte(texts[rng.Intn(len(texts))]))
		}
		return protoGov(k, rng.Bytes(rng.Intn(24)))
	}
	for i := 0; i < 40*scale; i++ {
		emit("body-proto", List(Int(0), genProto()))
	}
	for i := 0; i < 900*scale; i++ {
		g := genGov(rng, out)
		emit("body-"+kindOf(g), List(Int(0), g))
	}
	// scenarios 1, 2: error codes on a packet that does not travel
	for i := 0; i < 150*scale; i++ {
		emit("errno-local", List(Int(1), Uint(rng.Next()&0xff), Int(genErrno(rng))))
		emit("errno-unflagged", List(Int(2), Uint(rng.Next()&0xff), genGov(rng, out)))
	}
	// scenario 3: across both codecs
	thresholds := []int{1, 4, 9, 10, 64, 4096, 8192}
	for i := 0; i < 300*scale; i++ {
		h := genHdr(rng, rng.Bool()) // marks preset by the sender are dropped by the encoder
		cd := 1 + rng.Intn(2)
		thr := thresholds[rng.Intn(len(thresholds))]
		encb := rng.Bool()
		out.Count("wire:codec" + strconv.Itoa(cd))
		if encb {
			out.Count("wire:encrypted")
		}
		if rng.Bool() {
			emit("wire-errno", List(Int(3), Int(int64(cd)), Int(int64(thr)), Bool(encb), h.sx(), List(Int(0), Int(genErrno(rng)))))
		} else {
			g := genGov(rng, out)
			if rng.Chance(1, 8) {
				g = genProto()
			}
			emit("wire-"+kindOf(g), List(Int(3), Int(int64(cd)), Int(int64(thr)), Bool(encb), h.sx(), List(Int(1), g)))
		}
	}
	// scenario 9: three numeric wire forms alive at the same time
	numWhat := func() Sx {
		if rng.Chance(1, 3) {
			return List(Int(0), Int(genErrno(rng)))
		}
		for {
			g := genGov(rng, out)
			if t := g.At(0).AsInt(); t >= 1 && t <= 4 {
				return List(Int(1), g)
			}
		}
	}
	for i := 0; i < 120*scale; i++ {
		emit("hold", List(Int(9), numWhat(), numWhat(), numWhat()))
	}
	// scenario 10: separate packets on 8 goroutines at the same time
	citers := 4000
	if a.Thorough() {
		citers = 60000
	}
	for rep := 0; rep < 3; rep++ {
		cseed := rng.Next()
		code, checked := concurrentBodies(cseed, 8, citers)
		out.GoChecked += checked
		out.Count("concurrent runs")
		if code != 0 {
			what := map[int]string{3: "wire-form", 4: "errno", 5: "panic"}[code]
			out.Violation("C07/concurrent/"+what, "8 goroutines with their own packets: "+what+" fails", List(List(Int(10), Uint(cseed), Int(8), Int(int64(citers))), List()))
		}
		if rep == 0 {
			emit("concurrent", List(Int(10), Uint(cseed), Int(8), Int(300)))
		}
	}
	out.Note("concurrent stress: 3 x 8 goroutines x %d iterations on their own packets", citers)
	// every boundary error code through both codecs, with and without the cipher
	for _, ecode := range []int64{0, 1, -1, 127, 128, 32767, 32768, math.MaxInt32 - 1, math.MaxInt32, math.MinInt32, math.MinInt32 + 1, 1002} {
		for cd := 1; cd <= 2; cd++ {
			for e := 0; e < 2; e++ {
				h := genHdr(rng, true)
				emit("wire-errno", List(Int(3), Int(int64(cd)), Int(int64(thresholds[rng.Intn(len(thresholds))])), Bool(e == 1), h.sx(), List(Int(0), Int(ecode))))
			}
		}
	}
	// scenario 8: the same packet object is encoded again after an encrypted encode (resend,
	// broadcast to a second peer): numeric / nil / proto bodies and error codes are re-encoded
	// each time, so every send must deliver the value and the sender's own views must not change
	for i := 0; i < 150*scale; i++ {
		h := genHdr(rng, true)
		cd := 1 + rng.Intn(2)
		thr := thresholds[rng.Intn(len(thresholds))]
		var what Sx
		kind := "resend-errno"
		if rng.Chance(2, 5) {
			what = List(Int(0), Int(genErrno(rng)))
		} else {
			var g Sx
			for {
				g = genGov(rng, out)
				if rng.Chance(1, 6) {
					g = genProto()
				}
				if t := g.At(0).AsInt(); t != 5 && t != 6 {
					break
				}
			}
			what = List(Int(1), g)
			kind = "resend-" + kindOf(g)
		}
		emit(kind, List(Int(8), Int(int64(cd)), Int(int64(thr)), h.sx(), what))
	}
	// error-flagged packets whose payload is not a well-formed varint: what the receiver's
	// binary.Varint makes of it (overflow, truncation, trailing bytes) must match the model
	rep := func(b byte, n int, tail ...byte) []byte { return append(bytes.Repeat([]byte{b}, n), tail...) }
	malformed := [][]byte{rep(0xff, 9), rep(0xff, 10), rep(0xff, 11), rep(0x80, 9, 0x01), rep(0x80, 9, 0x02),
		rep(0x80, 9, 0x7f), rep(0xff, 9, 0x01), rep(0xff, 9, 0x00), rep(0x80, 10, 0x01), rep(0x80, 3), {0x80},
		{0x00, 0xff}, {0x01, 0x02, 0x03}, rep(0xff, 8, 0x7f), rep(0x80, 8, 0x80, 0x01, 0x55), rep(0xfe, 9, 0x01)}
	for i, b := range malformed {
		for cd := 1; cd <= 2; cd++ {
			h := genHdr(rng, true)
			h.flg |= uint8(fatchoy.PFlagError)
			thr := 4096
			if i%3 == 0 {
				thr = 4
			}
			emit("wire-errflag-bytes", List(Int(3), Int(int64(cd)), Int(int64(thr)), Bool(i%2 == 0), h.sx(), List(Int(1), bytesGov(b))))
		}
	}
	// scenario 4: replies and refusals through a recording endpoint
	for i := 0; i < 200*scale; i++ {
		h := genHdr(rng, false)
		command := int64(int32(rng.Next()))
		if rng.Bool() {
			command = rng.PickI64(0, 1, 77, -1, math.MaxInt32)
		}
		if rng.Chance(1, 3) {
			h.cmd = int32(rng.PickI64(idPingReq, idPingAck, idString, idInt64))
		}
		epState := rng.Intn(4) // running / closing x SendPacket succeeds / fails
		out.Count("endpoint-state:" + strconv.Itoa(epState))
		switch rng.Intn(5) {
		case 4:
			g := genGov(rng, out)
			emit("reply-value-"+kindOf(g), List(Int(4), h.sx(), Int(4), Int(command), g, Int(int64(epState))))
		case 3:
			g := genProto()
			var mid int32
			Catch(func() { mid = packet.GetMessageIDOf(goValue(g).(proto.Message)) })
			emit("reply-proto", List(Int(4), h.sx(), Int(3), Int(int64(mid)), g, Int(int64(epState))))
		case 0:
			var b Sx
			switch rng.Intn(5) {
			case 0:
				b = Ints(0)
			case 1:
				b = List(Int(1), Int(int64(rng.Next())))
			case 2:
				b = List(Int(2), Uint(rng.Next()))
			case 3:
				b = List(Int(3), Str(randText(rng)))
			default:
				b = List(Int(4), Bytes(randBytes(rng)))
			}
			emit("reply", List(Int(4), h.sx(), Int(0), Int(command), b, Int(int64(epState))))
		case 1:
			emit("refuse-with", List(Int(4), h.sx(), Int(1), Int(command), Int(genErrno(rng)), Int(int64(epState))))
		default:
			if rng.Bool() {
				h.cmd = idPingReq // a request whose paired Ack id is registered
			}
			var ack int32
			Catch(func() { ack = packet.GetPairingAckID(h.cmd) })
			emit("refuse", List(Int(4), h.sx(), Int(2), Int(int64(ack)), Int(genErrno(rng)), Int(int64(epState))))
		}
	}
	// the error branches of the marshal layer: a receiver without the cipher, and senders that set
	// the compression / encryption marks themselves on a body the codec then leaves alone
	for i := 0; i < 24*scale; i++ {
		h := genHdr(rng, true)
		cd := 1 + rng.Intn(2)
		g := List(Int(5), Str([]string{"hello", "0", "", "héllo wörld", "12345"}[rng.Intn(5)]))
		switch i % 3 {
		case 0:
			emit("wire-nocipher", List(Int(3), Int(int64(cd)), Int(4096), Int(2), h.sx(), List(Int(1), g)))
		case 1:
			h.flg |= uint8(fatchoy.PFlagCompressed)
			emit("wire-premarked", List(Int(3), Int(int64(cd)), Int(4096), Bool(rng.Bool()), h.sx(), List(Int(1), g)))
		default:
			h.flg |= uint8(fatchoy.PFlagEncrypted)
			emit("wire-premarked", List(Int(3), Int(int64(cd)), Int(4096), Bool(rng.Bool()), h.sx(), List(Int(1), g)))
		}
	}
	// scenario 12: the library's own helpers (qnet/util.go) over a pipe: request, refusal / reply
	for i := 0; i < 40*scale; i++ {
		cd := 1 + rng.Intn(2)
		cmd := int64(rng.PickI64(1, 77, 1001, idString, idPingAck, math.MaxInt32-1, -5))
		switch i % 4 {
		case 0, 1:
			emit("pipe-refuse", List(Int(12), Int(int64(cd)), Int(cmd), Int(0), Int(genErrno(rng))))
		case 2:
			emit("pipe-reply", List(Int(12), Int(int64(cd)), Int(cmd), Int(1), protoGov(0, []byte(texts[rng.Intn(len(texts))]))))
		default:
			emit("pipe-refuse-with", List(Int(12), Int(int64(cd)), Int(cmd), Int(2), Int(genErrno(rng))))
		}
	}
	// values outside the supported domain: whatever SetBody / New ACCEPT (return normally) must
	// then have a text and a wire form; pinned today: every one of these is rejected with a panic
	// and leaves the body as it was
	type myInt int32
	unsupported := []interface{}{complex64(1), []int{1}, map[string]int{}, struct{}{}, (*int)(nil), uintptr(5), [4]byte{},
		fmt.Errorf("x"), time.Duration(5), myInt(7), []string{"a"}, rune(0), json.Number("1"), []interface{}{1.0}, make(chan int)}
	for _, v := range unsupported {
		v := v
		if _, isRune := v.(int32); isRune { // rune is int32: supported
			continue
		}
		catchViol("C07/go/accepted-without-forms", fmt.Sprintf("SetBody/New accepted a %T but the packet then has no text or wire form", v), List(Int(0), Ints(0)), func() bool {
			p := packet.Make()
			p.SetBody("before")
			accepted, _ := Catch(func() { p.SetBody(v) })
			accepted = !accepted
			if !accepted {
				out.Count("unsupported value rejected by SetBody (panic)")
				if s, ok := p.Body().(string); !ok || s != "before" {
					return false
				}
			} else {
				p.BodyToString()
				p.BodyToBytes()
			}
			var q *packet.Packet
			if pn, _ := Catch(func() { q = packet.New(1, 1, 0, v) }); !pn {
				q.BodyToString()
				q.BodyToBytes()
			} else {
				out.Count("unsupported value rejected by New (panic)")
			}
			return true
		})
	}
	// pinned, outside the statement: a body put into the exported field directly, and a message
	// proto.Marshal refuses (invalid UTF-8 in a string field)
	Catch(func() {
		p := packet.Make()
		p.Body_ = int32(5)
		a1, _ := Catch(func() { p.BodyToInt() })
		a2, _ := Catch(func() { p.BodyToFloat() })
		a3, _ := Catch(func() { p.BodyToBytes() })
		out.Note("pinned: Body_ = int32(5) set directly: BodyToInt panics=%v BodyToFloat panics=%v BodyToBytes panics=%v BodyToString=%q", a1, a2, a3, p.BodyToString())
		p.SetBody(&wrapperspb.StringValue{Value: "\xff"})
		b1, _ := Catch(func() { p.BodyToBytes() })
		out.Note("pinned: a StringValue with invalid UTF-8 as body: BodyToBytes panics=%v BodyToString=%q", b1, p.BodyToString())
	})
	// typed nils and the shape of slice arguments
	catchViol("C07/go/typed-nil", "a nil []byte / nil proto message as body has no forms or does not cross", List(Int(0), bytesGov(nil)), func() bool {
		for cd := 1; cd <= 2; cd++ {
			for _, v := range []interface{}{[]byte(nil), (*wrapperspb.StringValue)(nil), proto.Message(nil), ""} {
				p := packet.New(5, 6, 0, v)
				if len(p.BodyToBytes()) != 0 {
					return false
				}
				p.BodyToString()
				enc := codec.NewV2Encoder(0)
				if cd == 1 {
					enc = codec.NewV1Encoder(0)
				}
				var buf bytes.Buffer
				q := packet.Make()
				if _, err := enc.WritePacket(&buf, cipher.NewAESCFB(aesKey, aesIV), p); err != nil {
					return false
				}
				if err := enc.ReadPacket(&buf, cipher.NewAESCFB(aesKey, aesIV), q); err != nil || q.Body() != nil || q.Command() != 5 || q.Seq() != 6 || q.Errno() != 0 {
					return false
				}
			}
		}
		return true
	})
	for i := 0; i < 60*scale; i++ {
		size, off, spare := rng.PickInt(0, 1, 5, 16, 17, 100, 5000), rng.Intn(20), rng.PickInt(0, 1, 15, 16, 4096)
		thr := rng.PickInt(4, 4096)
		withCipher := rng.Bool()
		cd := 1 + rng.Intn(2)
		seed := rng.Next()
		in := List(Int(7), Int(1), Int(int64(size)), Uint(seed), Int(int64(cd)), Int(int64(thr)), Bool(withCipher))
		catchViol("C07/go/slice-neighbours", "a []byte body that is a window of a larger array: bytes outside the window changed, or (without a cipher) the window itself", in, func() bool {
			big := lcgBytes(seed^0x5555, off+size+spare)
			orig := append([]byte{}, big...)
			body := big[off : off+size : off+size+spare]
			p := packet.New(9, 9, 0, body)
			enc := codec.NewV2Encoder(thr)
			if cd == 1 {
				enc = codec.NewV1Encoder(thr)
			}
			var ec, dc cipher.BlockCryptor
			if withCipher {
				ec, dc = cipher.NewAESCFB(aesKey, aesIV), cipher.NewAESCFB(aesKey, aesIV)
			}
			var buf bytes.Buffer
			q := packet.Make()
			if _, err := enc.WritePacket(&buf, ec, p); err != nil {
				return false
			}
			if err := enc.ReadPacket(&buf, dc, q); err != nil {
				return false
			}
			if size > 0 {
				if v, ok := q.Body().([]byte); !ok || !bytes.Equal(v, orig[off:off+size]) {
					return false
				}
			}
			if !bytes.Equal(big[:off], orig[:off]) || !bytes.Equal(big[off+size:], orig[off+size:]) {
				return false
			}
			// in-place encryption of the caller's slice is the known hazard; compression and a
			// plain send must leave the window alone
			return withCipher || bytes.Equal(big[off:off+size], orig[off:off+size])
		})
	}
	// scenario 6: the constructor with a body of any supported kind
	for i := 0; i < 100*scale; i++ {
		g := genGov(rng, out)
		emit("new-"+kindOf(g), List(Int(6), Uint(rng.Next()&0xff), g))
	}
	// scenario 5: a message crosses the wire and is decoded by its registered id
	for i := 0; i < 120*scale; i++ {
		h := genHdr(rng, true)
		h.cmd = int32(rng.PickI64(idString, idInt64, 999))
		if rng.Chance(3, 4) {
			h.flg &^= uint8(fatchoy.PFlagError)
		}
		var g Sx
		switch rng.Intn(4) {
		case 0:
			g = genGov(rng, out)
		case 1:
			g = genProto()
		default: // the type registered under the command
			k := 0
			if h.cmd == idInt64 {
				k = 1
			}
			g = protoGov(k, rng.Bytes(rng.Intn(12)))
		}
		// the oracles: is a type registered under the command, does it accept the payload
		registered, valid, validS := false, false, false
		Catch(func() {
			p := h.packet()
			p.SetBody(goValue(g))
			w := append([]byte{}, p.BodyToBytes()...)
			if h.flg&uint8(fatchoy.PFlagError) != 0 && len(w) > 0 {
				x, _ := binary.Varint(w)
				var tmp [binary.MaxVarintLen64]byte
				w = tmp[:binary.PutVarint(tmp[:], x)]
			}
			registered = packet.GetMessageNameByID(h.cmd) != ""
			if msg := packet.CreateMessageByID(h.cmd); msg != nil {
				valid = proto.Unmarshal(w, msg) == nil
			}
			validS = proto.Unmarshal(w, &wrapperspb.StringValue{}) == nil
		})
		emit("decode-"+kindOf(g), List(Int(5), Int(int64(1+rng.Intn(2))), h.sx(), g, Bool(registered), Bool(valid), Bool(validS)))
	}
	// large text / byte bodies: sizes around every limit the code knows (255, 1 KiB, the
	// compression thresholds, the V1 frame limit) and beyond, locally and through both codecs
	sizes := []int{0, 1, 254, 255, 256, 257, 1023, 1024, 1025, 4095, 4096, 4097, 8191, 8192, 8193, 20000,
		61425, 61426, 61427, 65535, 65536, 100000}
	if a.Thorough() {
		sizes = append(sizes, 1<<20, 8<<20-20, 8<<20)
	}
	for _, size := range sizes {
		for kind := 0; kind < 2; kind++ {
			for cd := 0; cd <= 2; cd++ {
				thr := 1 << 30 // no compression
				if rng.Bool() && size+1024 <= 61426 {
					thr = rng.PickInt(1, 64, 4096, 8192)
				}
				in := List(Int(7), Int(int64(kind)), Int(int64(size)), Uint(rng.Next()), Int(int64(cd)), Int(int64(thr)), Bool(rng.Bool()))
				obs := run(in)
				out.GoChecked++
				out.Count("big-body runs")
				if size <= 1025 || (obs.Len() == 2 && obs.At(1).AsInt() != 0) || obs.Len() != 2 {
					out.Case("big-body", true, in, obs)
				}
			}
		}
	}
	// highly compressible bodies far beyond every constant of the codec package (8 MiB is the V2
	// frame limit; the frame limit applies to the deflated size): they fit a frame of either
	// codec once deflated and must arrive verbatim
	csizes := []int{8<<20 - 1, 8 << 20, 8<<20 + 1, 9 << 20}
	if a.Thorough() {
		csizes = append(csizes, 61440, 61441, 1<<20+1, 16<<20, 16<<20+1, 33<<20)
	}
	for _, size := range csizes {
		for cd := 1; cd <= 2; cd++ {
			kind := 2 + (size+cd)%2
			in := List(Int(7), Int(int64(kind)), Int(int64(size)), Uint(rng.Next()), Int(int64(cd)), Int(0), Bool(size%3 == 0))
			out.GoChecked++
			out.Count("big-body runs")
			out.Case("big-compressible", true, in, run(in))
		}
	}
	// volume: the numeric wire/text forms and the error-code path evaluated directly in Go
	nvol := 30000
	if a.Thorough() {
		nvol = 1000000
	}
	vr := rng.Fork()
	for i := 0; i < nvol; i++ {
		v := int64(vr.Next()) >> uint(vr.Intn(64))
		if i < 256 {
			v = int64(1)<<uint(i%64) - int64(i/64) // powers of two and their neighbours: varint length changes
			if i >= 128 {
				v = -v
			}
		}
		catchViol("C07/go/int-forms", "integer body: varint or decimal text does not give the value back", List(Int(0), List(Int(1), Int(iI64), Int(v))), func() bool {
			p := packet.Make()
			p.SetBody(v)
			w := p.BodyToBytes()
			x, n := binary.Varint(w)
			t, err := strconv.ParseInt(p.BodyToString(), 10, 64)
			// asking again gives the same answers
			again := bytes.Equal(p.BodyToBytes(), w) && p.BodyToString() == strconv.FormatInt(v, 10) && p.BodyToInt() == v
			return n == len(w) && x == v && err == nil && t == v && p.BodyToInt() == v && again
		})
		bits := vr.Next()
		catchViol("C07/go/float-forms", "float body: uvarint of the bits or the text does not give the value back", List(Int(0), List(Int(4), Uint(bits))), func() bool {
			p := packet.Make()
			f := math.Float64frombits(bits)
			p.SetBody(f)
			w := p.BodyToBytes()
			x, n := binary.Uvarint(w)
			t, err := strconv.ParseFloat(p.BodyToString(), 64)
			return n == len(w) && x == bits && math.Float64bits(p.BodyToFloat()) == bits && err == nil && (t == f || f != f && t != t)
		})
	}
	// float32 bodies: narrowing the float64 read back gives the pattern set (a signalling NaN
	// comes back quiet)
	for i := 0; i < nvol; i++ {
		b32 := uint32(vr.Next())
		switch i % 8 {
		case 0:
			b32 &= 0x807fffff // subnormals and zeros
		case 1:
			b32 |= 0x7f800000 // NaNs and infinities
		}
		catchViol("C07/go/float32-readback", "float32 body does not read back as the value set", List(Int(0), List(Int(3), Uint(uint64(b32)), Uint(widen32(b32)))), func() bool {
			p := packet.Make()
			p.SetBody(math.Float32frombits(b32))
			f := p.BodyToFloat()
			if b32&0x7f800000 == 0x7f800000 && b32&0x007fffff != 0 {
				return f != f // a NaN stays a NaN; sign and payload are the platform's business
			}
			return math.Float32bits(float32(f)) == b32
		})
	}
	var encs []codec.Encoder
	Catch(func() { encs = []codec.Encoder{codec.NewV1Encoder(0), codec.NewV2Encoder(0)} })
	for i := 0; i < nvol/10; i++ {
		ec := int32(vr.Next())
		cd := i % 2
		h := hdr{cmd: int32(vr.Next()), seq: uint16(vr.Next()), flg: uint8(vr.Next()) &^ 3}
		in := List(Int(3), Int(int64(cd+1)), Int(int64(4096*(cd+1))), Bool(false), h.sx(), List(Int(0), Int(int64(ec))))
		catchViol("C07/go/errno-wire", "the error code read after the wire is not the code placed on the packet", in, func() bool {
			p := h.packet()
			p.SetErrno(ec)
			var buf bytes.Buffer
			q := packet.Make()
			if _, err := encs[cd].WritePacket(&buf, nil, p); err != nil {
				return false
			}
			if err := encs[cd].ReadPacket(&buf, nil, q); err != nil {
				return false
			}
			return p.Errno() == ec && q.Errno() == ec
		})
	}
}
