// C15 harness: the RPC client (qnet/rpc.go).
//
// input    (c0 (op ...))    c0 = where the 16-bit sequence counter stands at the start (hook)
//
//	op     (0 sync adj)          Call on its own goroutine (sync = 1) / AsyncCall; adj = 0 keeps the
//	                             deadline the code computed (now + 60 s), else the hook puts it at
//	                             start + adj ms
//	       (1 seq rid err dec)   Dispatch(response rid): sequence number, error code (0 = reply body),
//	                             dec = 1 the command id is a registered message (Decode succeeds)
//	       (2 now)               expiry sweep at start + now ms (hook VerifSweep)
//	       (3)                   ReapTimeout()
//	       (4 n)                 n times: AsyncCall, Dispatch of a good reply to the request just queued
//
// observed one (a b ((cid how code rid) ...)) per op, see coq/C15/Run.v
package main

import (
	"context"
	"errors"
	"fmt"
	"io"
	"log"
	"os"
	"runtime"
	"sort"
	"strconv"
	"strings"
	"sync"
	"sync/atomic"
	"time"

	"google.golang.org/protobuf/proto"
	"google.golang.org/protobuf/types/known/wrapperspb"

	"qchen.fun/fatchoy"
	"qchen.fun/fatchoy/codes"
	"qchen.fun/fatchoy/packet"
	"qchen.fun/fatchoy/qnet"
	. "verifharness/common"
)

const (
	msgID      = 1001 // wrapperspb.StringValue, registered through the hook
	unknownMsg = 9999 // no message registered: Decode fails
	fCall      = "qnet.(*RpcClient).Call("
)

type comp struct{ cid, how, code, rid int64 }

// rec is what was observed for one op
type rec struct {
	a, b  int64
	comps []comp
	ran   bool
	stuck bool // the owner dead-locked while working on this op
}

// nestSpec: ops to run from inside the k-th completion callback of the op being executed
type nestSpec struct {
	k    int
	ops  Sx
	recs []*rec
	seen int
}

type syncCall struct {
	gid  int32
	done int32
}

type hist struct {
	cli     *qnet.RpcClient
	t0      time.Time
	mu      sync.Mutex
	recs    []*rec // one record per executed (or skipped) op, in the order of the input (outer op, then its nested ops)
	top     *rec   // the outer op the owner is working on
	stuckAt *rec   // the op during which the owner was found dead-locked
	ncomps  int    // completions logged so far
	cur     *rec   // the op being executed: completions are attributed to it
	nest    *nestSpec
	bad     bool // a blocking caller neither returned nor parked
	syncs   []*syncCall
	pkts    map[fatchoy.IPacket]int64 // response packets handed to Dispatch -> rid
	ncall   int64
}

func newHist(c0 uint16, qsize int) *hist {
	h := &hist{cli: qnet.NewRpcClient(context.Background(), qsize), t0: time.Now(), pkts: map[fatchoy.IPacket]int64{}}
	h.cli.VerifSetCounter(c0)
	return h
}

func (h *hist) at(ms int64) time.Time { return h.t0.Add(time.Duration(ms) * time.Millisecond) }

func (h *hist) log(c comp) {
	h.mu.Lock()
	h.ncomps++
	if h.cur != nil {
		h.cur.comps = append(h.cur.comps, c)
	}
	h.mu.Unlock()
}

func ridOf(msg proto.Message) int64 {
	if sv, ok := msg.(*wrapperspb.StringValue); ok && strings.HasPrefix(sv.Value, "r") {
		if v, err := strconv.ParseInt(sv.Value[1:], 10, 64); err == nil {
			return v
		}
	}
	return -99
}

func (h *hist) callback(cid int64) qnet.RpcHandler {
	return func(msg proto.Message, code int32) error {
		rid := int64(-1)
		if msg != nil {
			rid = ridOf(msg)
		}
		h.log(comp{cid, 1, int64(code), rid})
		// events that land while this completion is in flight (another dispatcher, the reaper's sweep):
		// the history may ask for some to be issued right here, from inside the callback
		if n := h.nest; n != nil {
			n.seen++
			if n.seen == n.k {
				h.nest = nil
				// blocking callers released so far log their completion under the op that released them
				if !h.settle() {
					h.bad = true
				}
				for j := 0; j < n.ops.Len(); j++ {
					h.exec(n.ops.At(j), n.recs[j])
				}
			}
		}
		if cid%5 == 3 { // some callbacks fail: Dispatch hands their error back, ReapTimeout logs it and goes on
			return errCallback
		}
		return nil
	}
}

var errCallback = errors.New("callback failed")

// response builds the packet a peer would send back.
func response(seq uint16, rid int64, errno int32, decKind int) *packet.Packet {
	dec := decKind != 0
	cmd := int32(msgID)
	if !dec {
		cmd = unknownMsg
	}
	if errno == 0 && decKind == 2 { // an in-process reply: the body already is the message
		return packet.New(cmd, seq, fatchoy.PFlagRpc, wrapperspb.String("r"+strconv.FormatInt(rid, 10)))
	}
	if errno != 0 {
		p := packet.New(cmd, seq, fatchoy.PFlagRpc, nil)
		p.SetErrno(errno)
		return p
	}
	body, _ := proto.Marshal(wrapperspb.String("r" + strconv.FormatInt(rid, 10)))
	return packet.New(cmd, seq, fatchoy.PFlagRpc, body)
}

// settle waits until every blocking caller has either returned (and logged) or is parked in
// Call's channel receive (goroutine dump).  Returns false if that could not be established.
func (h *hist) settle() bool {
	deadline := time.Now().Add(5 * time.Second)
	pause := 20 * time.Microsecond
	for {
		open := false
		for _, s := range h.syncs {
			if atomic.LoadInt32(&s.done) == 0 {
				open = true
			}
		}
		if !open {
			return true
		}
		d := GDump()
		ok := true
		for _, s := range h.syncs {
			if atomic.LoadInt32(&s.done) != 0 {
				continue
			}
			gid := int(atomic.LoadInt32(&s.gid))
			g := d[gid]
			if gid == 0 || g == nil || !waitingInCall(g) {
				ok = false
			}
		}
		if ok {
			return true
		}
		if time.Now().After(deadline) {
			return false
		}
		time.Sleep(pause)
		if pause < time.Millisecond {
			pause *= 2
		}
	}
}

func (r *rec) sx() Sx {
	if !r.ran {
		return List(Int(-9), Int(0), List())
	}
	cs := append([]comp(nil), r.comps...)
	sort.Slice(cs, func(i, j int) bool { return cs[i].cid < cs[j].cid })
	l := make([]Sx, len(cs))
	for i, c := range cs {
		l[i] = Ints(c.cid, c.how, c.code, c.rid)
	}
	if r.stuck {
		return List(Int(-8), Int(0), ListOf(l))
	}
	return List(Int(r.a), Int(r.b), ListOf(l))
}

// waitingInCall: the goroutine is a blocking caller waiting for its completion - parked in a channel
// receive (or a select) directly inside RpcClient.Call, past makeCall
func waitingInCall(g *GInfo) bool {
	return g != nil && (g.State == "chan receive" || g.State == "select") && strings.Contains(g.Text, fCall) &&
		!strings.Contains(g.Text, "makeCall")
}

// lockCalledByClient: the innermost frame below the sync/runtime frames belongs to the RPC client,
// i.e. the mutex the goroutine waits for is the client's own.
func lockCalledByClient(text string) bool {
	for _, l := range strings.Split(text, "\n") {
		if l == "" || l[0] == '\t' {
			continue
		}
		if strings.HasPrefix(l, "sync.") || strings.HasPrefix(l, "runtime.") || strings.HasPrefix(l, "internal/") {
			continue
		}
		return strings.Contains(l, "qnet.(*RpcClient).")
	}
	return false
}

func flatLen(ops Sx) int {
	n := 0
	for i := 0; i < ops.Len(); i++ {
		n++
		if _, nested, ok := nestedOf(ops.At(i)); ok {
			n += nested.Len()
		}
	}
	return n
}

// watch waits for the owner to finish.  stuck: the owner is parked in sync.Mutex.Lock inside the
// client and no other goroutine of the history can be holding that mutex (goroutine dump).
func (h *hist) watch(done chan struct{}, ownerGid *int32) (stuck, slow bool) {
	deadline := time.Now().Add(40 * time.Second)
	pause := 200 * time.Microsecond
	for {
		select {
		case <-done:
			return false, false
		case <-time.After(pause):
		}
		if pause < 5*time.Millisecond {
			pause *= 2
		}
		if time.Now().After(deadline) {
			return false, true
		}
		gid := int(atomic.LoadInt32(ownerGid))
		d := GDump()
		g := d[gid]
		if g == nil || g.State != "sync.Mutex.Lock" || !lockCalledByClient(g.Text) {
			continue
		}
		others := true
		h.mu.Lock()
		syncs := append([]*syncCall(nil), h.syncs...)
		h.mu.Unlock()
		for _, s := range syncs {
			if atomic.LoadInt32(&s.done) != 0 {
				continue
			}
			sg := d[int(atomic.LoadInt32(&s.gid))]
			if sg == nil || !waitingInCall(sg) {
				others = false
			}
		}
		if others {
			// a dead-lock stays: the same picture (owner's stack, the op it works on, the completions logged)
			// must be seen three more times, 50 ms apart, before it counts
			h.mu.Lock()
			top0, n0 := h.top, h.ncomps
			h.mu.Unlock()
			same := true
			for k := 0; k < 3 && same; k++ {
				select {
				case <-done:
					return false, false
				case <-time.After(50 * time.Millisecond):
				}
				g2 := GDump()[gid]
				h.mu.Lock()
				same = g2 != nil && g2.State == g.State && g2.Text == g.Text && h.top == top0 && h.ncomps == n0
				h.mu.Unlock()
			}
			if same {
				h.mu.Lock()
				h.stuckAt = top0
				h.mu.Unlock()
				return true, false
			}
		}
	}
}

var node = fatchoy.MakeNodeID(3, 7)

// takeRequest reads the request packet makeCall queued (none if the call was refused).
// reqSeq checks the request packet makeCall put on the queue - command = the registered id of the
// request message, RPC flag, packet type, destination node, the request itself as body - and returns
// its sequence number (0 = some field is wrong; a call never carries 0)
func reqSeq(p fatchoy.IPacket) uint16 {
	ok := false
	switch b := p.Body().(type) {
	case *wrapperspb.StringValue: // the registered request type
		ok = p.Command() == msgID && b.GetValue() == "q"
	case *wrapperspb.Int32Value: // a request type without a registered message id: command 0
		ok = p.Command() == 0 && b.GetValue() == 7
	}
	if !ok || p.Flag()&fatchoy.PFlagRpc == 0 || p.Flag()&fatchoy.PFlagError != 0 ||
		p.Type() != fatchoy.PTypePacket || p.Node() != node {
		return 0
	}
	return p.Seq()
}

// request: every fourth call (number 2, 6, 10, ...) sends a message type that has no registered id -
// the time-out path (ReapTimeout looks up the pairing ack of every expired call) must cope with it
func request(cid int64) proto.Message {
	if cid%4 == 2 {
		return wrapperspb.Int32(7)
	}
	return wrapperspb.String("q")
}

func (h *hist) takeRequest(wait *syncCall) (uint16, bool) {
	if wait == nil {
		select {
		case p := <-h.cli.PendingQueue():
			return reqSeq(p), true
		default:
			return 0, false
		}
	}
	deadline := time.After(5 * time.Second)
	for {
		select {
		case p := <-h.cli.PendingQueue():
			return reqSeq(p), true
		case <-deadline:
			return 0, false
		default:
			if atomic.LoadInt32(&wait.done) != 0 {
				select {
				case p := <-h.cli.PendingQueue():
					return reqSeq(p), true
				default:
					return 0, false
				}
			}
			time.Sleep(10 * time.Microsecond)
		}
	}
}

// nestedOf: (1 seq rid err dec (nested...)) -> first callback; (3 k (nested...)) -> k-th callback
func nestedOf(op Sx) (int, Sx, bool) {
	switch {
	case op.At(0).AsInt() == 1 && op.Len() == 6 && op.At(5).Len() > 0:
		return 1, op.At(5), true
	case op.At(0).AsInt() == 3 && op.Len() == 3 && op.At(2).Len() > 0:
		return op.At(1).AsInt(), op.At(2), true
	}
	return 0, Sx{}, false
}

// exec performs one op (outer, or nested = called from inside a completion callback) and fills r.
func (h *hist) exec(op Sx, r *rec) {
	h.mu.Lock()
	prev := h.cur
	h.cur = r
	h.mu.Unlock()
	r.ran = true
	var a, b int64
	switch op.At(0).AsInt() {
	case 0:
		cid := h.ncall
		h.ncall++
		adj := op.At(2).Int64()
		var seq uint16
		var queued bool
		if op.At(1).AsBool() {
			sc := &syncCall{}
			h.mu.Lock()
			h.syncs = append(h.syncs, sc)
			h.mu.Unlock()
			go func() {
				atomic.StoreInt32(&sc.gid, int32(Goid()))
				var ctx *qnet.RpcContext
				p, _ := Catch(func() { ctx = h.cli.Call(node, request(cid)) })
				if p || ctx == nil {
					h.log(comp{cid, 0, -98, -98})
				} else {
					ack := ctx.VerifAck()
					h.mu.Lock()
					rid, ours := h.pkts[ack]
					h.mu.Unlock()
					if !ours {
						rid = -1
					}
					code := int64(ack.Errno())
					// what the caller does with the context: DecodeAck gives the reply or the error named by the code
					if msg, err := ctx.DecodeAck(); code > 0 {
						if msg != nil || err == nil || err.Error() != codes.Code(code).String() {
							code = -97
						}
					} else if err == nil && ours && ridOf(msg) != rid {
						code = -97
					}
					h.log(comp{cid, 0, code, rid})
				}
				atomic.StoreInt32(&sc.done, 1)
			}()
			seq, queued = h.takeRequest(sc)
		} else {
			Catch(func() { h.cli.AsyncCall(node, request(cid), h.callback(cid)) })
			seq, queued = h.takeRequest(nil)
		}
		if queued && adj != 0 {
			h.cli.VerifSetDeadline(seq, h.at(adj))
		}
		a = int64(seq)
	case 1:
		var p *packet.Packet
		h.mu.Lock()
		for q, r := range h.pkts { // the same response object delivered again (a retransmission kept by the caller)
			if r == op.At(2).Int64() {
				if pp, ok := q.(*packet.Packet); ok && pp.Seq() == uint16(op.At(1).Uint64()) {
					p = pp
				}
			}
		}
		h.mu.Unlock()
		if p == nil {
			p = response(uint16(op.At(1).Uint64()), op.At(2).Int64(), int32(op.At(3).Int64()), op.At(4).AsInt())
		}
		h.mu.Lock()
		h.pkts[p] = op.At(2).Int64()
		h.mu.Unlock()
		var err error
		if pn, _ := Catch(func() { err = h.cli.Dispatch(p) }); pn {
			b = 2
		} else if err == errCallback {
			b = 3 // the callback's own error, handed back by Dispatch
		} else if err != nil {
			b = 1
		}
	case 2:
		h.cli.VerifSweep(h.at(op.At(1).Int64()))
	case 3:
		if p, _ := Catch(func() { b = int64(h.cli.ReapTimeout()) }); p {
			b = -1 // the owner thread panicked inside ReapTimeout
		}
	case 4:
		a, b = h.burst(op.At(1).AsInt())
	}
	if !h.settle() {
		h.bad = true
	}
	r.a, r.b = a, b
	h.mu.Lock()
	h.cur = prev
	h.mu.Unlock()
}

func run(in Sx) Sx {
	if in.Len() == 2 && in.At(1).Kind == 'i' { // (7 seed): the client's own reaper goroutine
		code, what := reaperRun(in.At(1).Uint64())
		return List(Int(-6), Int(code), Str(what))
	}
	if in.Len() == 3 && in.At(1).Kind == 'i' && in.At(0).AsInt() == 3 { // (3 trials seed): a sweep racing a response and a new call
		code, what := sweepRace(in.At(1).AsInt(), in.At(2).Uint64())
		return List(Int(-4), Int(code), Str(what))
	}
	if in.Len() == 4 { // (2 ncallers percaller seed): concurrent callers, evaluated on the Go side
		code, what := stress(in.At(1).AsInt(), in.At(2).AsInt(), in.At(3).Uint64())
		return List(Int(-3), Int(code), Str(what))
	}
	if in.Len() == 1 { // (c0): the full-table scenario, evaluated on the Go side
		code, what := watched(func() (int64, string) { return fullTable(uint16(in.At(0).Uint64())) },
			"the refused call's callback re-entered the client and never came back: the refusal is delivered under the client's mutex (goroutine dump: parked in sync.Mutex.Lock called from the client, nobody else can hold it)")
		if code == 11 {
			return List(Int(-2), Int(code), Str(what))
		}
		return List(Int(-2), Int(code), Str(what))
	}
	if in.Len() == 3 && in.At(1).Kind == 'i' && in.At(0).AsInt() == 8 { // (8 trials seed): responses racing the caller's park
		code, what := syncRace(in.At(1).AsInt(), in.At(2).Uint64())
		return List(Int(-7), Int(code), Str(what))
	}
	if in.Len() == 3 && in.At(1).Kind == 'i' && in.At(0).AsInt() == 6 { // (6 n seed): time-to-live at sub-second resolution
		code, what := ttlEdges(in.At(1).AsInt(), in.At(2).Uint64())
		return List(Int(-5), Int(code), Str(what))
	}
	qsize := 16
	if in.Len() == 3 { // (c0 ops q): request queue of capacity q (0 = a call waits in makeCall until its request is taken)
		qsize = in.At(2).AsInt()
	}
	h := newHist(uint16(in.At(0).Uint64()), qsize)
	ops := in.At(1)
	// the ops run on an "owner" goroutine (the thread that calls Dispatch / ReapTimeout); the
	// controller watches it: an owner parked in the client's mutex while nobody else can hold it
	// (every blocking caller returned or parked in Call's receive) will never move again
	done := make(chan struct{})
	var ownerGid int32
	go func() {
		defer close(done)
		atomic.StoreInt32(&ownerGid, int32(Goid()))
		for i := 0; i < ops.Len(); i++ {
			op := ops.At(i)
			r := &rec{}
			h.mu.Lock()
			h.recs = append(h.recs, r)
			h.top = r
			// reserve the records of the nested ops right behind (they stay "not run" if no callback fires)
			var n *nestSpec
			if k, nested, ok := nestedOf(op); ok {
				n = &nestSpec{k: k, ops: nested}
				for j := 0; j < nested.Len(); j++ {
					nr := &rec{}
					n.recs = append(n.recs, nr)
					h.recs = append(h.recs, nr)
				}
			}
			h.mu.Unlock()
			h.nest = n
			h.exec(op, r)
			h.nest = nil
		}
	}()
	stuck, slow := h.watch(done, &ownerGid)
	h.mu.Lock()
	if stuck && h.stuckAt != nil {
		h.stuckAt.stuck = true
	}
	recs := append([]*rec(nil), h.recs...)
	for len(recs) < flatLen(ops) { // ops the owner never reached
		recs = append(recs, &rec{})
	}
	h.mu.Unlock()
	h.recs = recs
	if slow {
		h.bad = true
	}
	inconclusive := h.bad
	obs := make([]Sx, len(h.recs))
	for i, r := range h.recs {
		obs[i] = r.sx()
	}
	// deadlines the code computed itself are start + 60 s + (time since start); the sweeps meant to
	// expire them are at >= 90 s and the others at <= 45 s, so a history may take up to 15 s of real
	// time without changing any outcome; a slower one is not evaluated
	if time.Since(h.t0) > 15*time.Second {
		inconclusive = true
	}
	if inconclusive {
		atomic.AddInt32(&nInconclusive, 1)
		return List(Int(-1))
	}
	return ListOf(obs)
}

var nInconclusive int32

// burst: n times AsyncCall + Dispatch of a good reply to the request just queued.
func (h *hist) burst(n int) (lastSeq, bad int64) {
	busy := map[uint16]bool{}
	seqs, _ := h.cli.VerifPending()
	for _, s := range seqs {
		busy[s] = true
	}
	var fired, okfired int
	cb := func(msg proto.Message, code int32) error {
		fired++
		if code == 0 && msg != nil && ridOf(msg) == -2 {
			okfired++
		}
		return nil
	}
	reply, _ := proto.Marshal(wrapperspb.String("r-2"))
	for i := 0; i < n; i++ {
		h.ncall++
		fired, okfired = 0, 0
		h.cli.AsyncCall(node, wrapperspb.String("q"), cb)
		seq, queued := h.takeRequest(nil)
		lastSeq = int64(seq)
		good := queued && seq != 0 && !busy[seq] && fired == 0
		err := h.cli.Dispatch(packet.New(msgID, seq, fatchoy.PFlagRpc, reply))
		if !(good && err == nil && fired == 1 && okfired == 1) {
			bad++
		}
	}
	return
}

// ---------------------------------------------------------------- generators

// a small bookkeeping of the intended behaviour, used only to aim responses at sequence
// numbers that are (probably) outstanding; a wrong guess merely becomes an unmatched response
type aim struct {
	counter uint16
	out     []uint16
	dl      []int64
	used    []uint16
}

func (m *aim) next() uint16 {
	for {
		m.counter++
		if m.counter == 0 {
			m.counter++
		}
		free := true
		for _, s := range m.out {
			if s == m.counter {
				free = false
			}
		}
		if free {
			return m.counter
		}
	}
}

func (m *aim) call(dl int64) uint16 {
	seq := m.next()
	m.out = append(m.out, seq)
	m.dl = append(m.dl, dl)
	return seq
}

func (m *aim) drop(i int) {
	m.used = append(m.used, m.out[i])
	m.out = append(m.out[:i], m.out[i+1:]...)
	m.dl = append(m.dl[:i], m.dl[i+1:]...)
}

func (m *aim) sweep(now int64) {
	for i := len(m.out) - 1; i >= 0; i-- {
		if m.dl[i] < now {
			m.drop(i)
		}
	}
}

func genHistory(rng *Rng) Sx {
	c0 := uint16(rng.PickInt(0, 0, 1, 65533, 65534, 65535, 65535, rng.Intn(65536), rng.Intn(65536)))
	m := &aim{counter: c0}
	var ops []Sx
	rid := int64(0)
	n := rng.Range(3, 40)
	sweeps := []int64{500, 1000, 1001, 5000, 5001, 30000, 30001, 45000, 90000, 100000}
	lastResp := map[uint16]Sx{}
	for i := 0; i < n; i++ {
		switch k := rng.Intn(20); {
		case k < 8:
			// -5000: the deadline is already past in real time as well (a response before the next
			// sweep still finds the call in the table and completes it)
			adj := rng.PickI64(0, 0, 0, 1000, 5000, 30000, -5000, -5000)
			ops = append(ops, Ints(0, int64(rng.Intn(10)/7), adj))
			if adj == 0 {
				adj = 60000
			}
			m.call(adj)
		case k < 15:
			var seq uint16
			switch j := rng.Intn(10); {
			case j < 6 && len(m.out) > 0:
				x := rng.Intn(len(m.out))
				seq = m.out[x]
				m.drop(x)
			case j < 8 && len(m.used) > 0:
				seq = m.used[rng.Intn(len(m.used))] // duplicate / late response
				if prev, ok := lastResp[seq]; ok && rng.Bool() {
					ops = append(ops, prev) // the very same packet object once more
					continue
				}
			case j == 8:
				seq = 0
			default:
				seq = uint16(rng.Intn(65536))
			}
			errno := int64(0)
			if rng.Chance(3, 10) {
				errno = int64(rng.Range(1, 23))
				if rng.Chance(1, 8) {
					errno = rng.PickI64(24, 1000, 1<<30, 1<<31-1) // codes without a name
				}
			}
			dec := rng.PickI64(0, 1, 1, 1, 1, 2, 2)
			if rng.Chance(1, 4) {
				// while this response's callback runs: a duplicate of it arrives on another dispatcher,
				// the reaper's sweep passes, ReapTimeout runs
				var nested []Sx
				if rng.Bool() {
					nested = append(nested, Ints(1, int64(seq), rid+1000, 0, 1))
				}
				if rng.Bool() {
					now := sweeps[rng.Intn(len(sweeps))]
					nested = append(nested, Ints(2, now))
					m.sweep(now)
				}
				if rng.Bool() {
					nested = append(nested, Ints(3))
				}
				if rng.Chance(1, 3) {
					nested = append(nested, Ints(1, int64(seq), rid+2000, int64(rng.Range(0, 3)), 1))
				}
				ops = append(ops, List(Int(1), Int(int64(seq)), Int(rid), Int(errno), Int(dec), ListOf(nested)))
			} else {
				ops = append(ops, Ints(1, int64(seq), rid, errno, dec))
				lastResp[seq] = Ints(1, int64(seq), rid, errno, dec)
			}
			rid++
		case k < 18:
			now := sweeps[rng.Intn(len(sweeps))]
			ops = append(ops, Ints(2, now))
			m.sweep(now)
		case k < 19:
			if rng.Chance(1, 2) {
				// a sweep (and more) lands while ReapTimeout is working through its batch
				now := sweeps[rng.Intn(len(sweeps))]
				var nested []Sx
				if rng.Bool() { // the usual "retry on REQUEST_TIMEOUT": the callback calls again
					nadj := rng.PickI64(0, 1000, -5000)
					nested = append(nested, Ints(0, 0, nadj))
					if nadj == 0 {
						nadj = 60000
					}
					m.call(nadj)
				}
				nested = append(nested, Ints(2, now))
				m.sweep(now)
				if rng.Bool() {
					nested = append(nested, Ints(3))
				}
				if rng.Bool() && len(m.out) > 0 {
					nested = append(nested, Ints(1, int64(m.out[rng.Intn(len(m.out))]), rid+3000, 0, 1))
				}
				ops = append(ops, List(Int(3), Int(int64(rng.Range(1, 3))), ListOf(nested)))
			} else {
				ops = append(ops, Ints(3))
			}
		default:
			nb := rng.Range(1, 30)
			ops = append(ops, Ints(4, int64(nb)))
			for j := 0; j < nb; j++ {
				m.counter = m.next()
			}
		}
	}
	// late responses to everything, after everything was swept and reaped
	ops = append(ops, Ints(2, 200000), Ints(3))
	for _, s := range m.out {
		if rng.Chance(1, 2) {
			ops = append(ops, Ints(1, int64(s), rid, 0, 1))
			rid++
		}
	}
	ops = append(ops, Ints(3))
	return List(Uint(uint64(c0)), ListOf(ops))
}

// events landing while a completion is in flight, directed
func genNested(rng *Rng) Sx {
	c0 := uint16(rng.PickInt(0, 65534, rng.Intn(65536)))
	m := &aim{counter: c0}
	var ops []Sx
	if rng.Bool() {
		// answered call: while its callback runs a duplicate response arrives and the sweep passes
		n := rng.Range(1, 4)
		var seqs []uint16
		for i := 0; i < n; i++ {
			ops = append(ops, Ints(0, int64(rng.Intn(3)/2), rng.PickI64(0, 1000, 5000, -5000, -5000)))
			seqs = append(seqs, m.call(0))
		}
		x := rng.Intn(n)
		nested := []Sx{Ints(1, int64(seqs[x]), 50, 0, 1), Ints(2, 200000), Ints(1, int64(seqs[x]), 51, int64(rng.Range(0, 2)), 1)}
		if rng.Bool() {
			nested = append(nested, Ints(3))
		}
		ops = append(ops, List(Int(1), Int(int64(seqs[x])), Int(7), Int(int64(rng.PickInt(0, 0, 9))), Int(1), ListOf(nested)))
		ops = append(ops, Ints(3), Ints(1, int64(seqs[x]), 52, 0, 1), Ints(3))
	} else {
		// two batches of expired calls: the second batch expires while ReapTimeout works on the first
		n1, n2 := rng.Range(2, 5), rng.Range(1, 5)
		for i := 0; i < n1; i++ {
			ops = append(ops, Ints(0, int64(rng.Intn(4)/3), 1000))
		}
		for i := 0; i < n2; i++ {
			ops = append(ops, Ints(0, int64(rng.Intn(4)/3), 5000))
		}
		ops = append(ops, Ints(2, 2000))
		nested := []Sx{Ints(2, 6000)}
		if rng.Bool() { // the timeout callback calls again and looks at the table
			nested = []Sx{Ints(0, 0, rng.PickI64(0, 1000)), Ints(2, 6000), Ints(1, 0, 60, 0, 1)}
		}
		ops = append(ops, List(Int(3), Int(int64(rng.Range(1, 2))), ListOf(nested)))
		ops = append(ops, Ints(3), Ints(2, 200000), Ints(3))
	}
	return List(Uint(uint64(c0)), ListOf(ops))
}

// one call is left outstanding while the counter goes once around
func genWrap(rng *Rng) Sx {
	c0 := uint16(rng.Intn(65536))
	var ops []Sx
	pre := rng.Range(0, 3)
	for i := 0; i < pre; i++ {
		ops = append(ops, Ints(0, 0, 0))
	}
	ops = append(ops, Ints(0, int64(rng.Intn(2)), 0)) // the call that stays outstanding
	ops = append(ops, Ints(4, int64(65535-pre-1-rng.Intn(3))))
	ops = append(ops, Ints(4, int64(rng.Range(3, 12)))) // across the point where the number comes round
	// the answer to the old call arrives now
	m := &aim{counter: c0}
	var victim uint16
	for i := 0; i <= pre; i++ {
		victim = m.call(60000)
	}
	ops = append(ops, Ints(1, int64(victim), 7, 0, 1))
	ops = append(ops, Ints(2, 200000), Ints(3))
	return List(Uint(uint64(c0)), ListOf(ops))
}

// a call times out (swept and reaped, its late reply never arrives); the counter goes once round and
// a new call is given the same number: the response to the NEW call must complete it
func genWrapTimedOut(rng *Rng) Sx {
	c0 := uint16(rng.Intn(65536))
	m := &aim{counter: c0}
	var ops []Sx
	old := m.call(1000)
	ops = append(ops, Ints(0, int64(rng.Intn(2)), 1000), Ints(2, 2000))
	if rng.Bool() {
		ops = append(ops, Ints(3)) // completed with the time-out before the number comes round ...
	}
	ops = append(ops, Ints(4, 65534))                 // the counter now stands just below the old number
	ops = append(ops, Ints(0, int64(rng.Intn(2)), 0)) // the new call is given the old number
	if rng.Bool() {
		ops = append(ops, Ints(2, 30000)) // a sweep that must not touch the new call
	}
	ops = append(ops, Ints(3)) // ... or only now
	errno := int64(rng.PickInt(0, 0, 9))
	ops = append(ops, Ints(1, int64(old), 7, errno, 1)) // the reply to the new call
	ops = append(ops, Ints(1, int64(old), 8, 0, 1))     // a duplicate of it: unmatched
	ops = append(ops, Ints(2, 200000), Ints(3))
	return List(Uint(uint64(c0)), ListOf(ops))
}

// watched runs a single-goroutine Go-side scenario and watches it: a goroutine parked in
// sync.Mutex.Lock called from the client, in a scenario that has no other goroutine, holds that
// mutex itself and will never move (code 11); code 9 = neither finished nor parked within 120 s.
func watched(f func() (int64, string), stuckWhat string) (int64, string) {
	type res struct {
		code int64
		what string
	}
	done := make(chan res, 1)
	var gid int32
	go func() {
		atomic.StoreInt32(&gid, int32(Goid()))
		c, w := f()
		done <- res{c, w}
	}()
	deadline := time.Now().Add(120 * time.Second)
	pause := time.Millisecond
	for {
		select {
		case r := <-done:
			return r.code, r.what
		case <-time.After(pause):
		}
		if pause < 50*time.Millisecond {
			pause *= 2
		}
		if time.Now().After(deadline) {
			return 9, "the scenario neither finished nor came to rest"
		}
		g := GDump()[int(atomic.LoadInt32(&gid))]
		if g != nil && g.State == "sync.Mutex.Lock" && lockCalledByClient(g.Text) {
			// look twice: the state must be the same 20 ms later
			time.Sleep(20 * time.Millisecond)
			g2 := GDump()[int(atomic.LoadInt32(&gid))]
			if g2 != nil && g2.State == "sync.Mutex.Lock" && g2.Text == g.Text {
				return 11, stuckWhat
			}
		}
	}
}

// ttlEdges: the time-to-live is one minute, to the nanosecond.  Calls are issued at chosen
// sub-second phases of the wall clock (.0 .35 .65 .999); t0 / t1 are read just before / after the
// call, so the deadline makeCall computed lies in [t0+60s, t1+60s].  A sweep at t0+60s-eps (eps from
// 1 ns to 0.999 s) and at exactly t0+60s must leave the call alone (and its response then completes
// it); a sweep at t1+60s+eps must expire it.  The deadline itself is also read back (VerifDeadline).
// returns 0 ok | 5 expired before its time-to-live was over / not expired after it | 3 in-time response rejected | 7 other
func ttlEdges(n int, seed uint64) (int64, string) {
	phases := []time.Duration{0, 350 * time.Millisecond, 650 * time.Millisecond, 999 * time.Millisecond}
	eps := []time.Duration{1, time.Millisecond, 300 * time.Millisecond, 700 * time.Millisecond, 999 * time.Millisecond}
	type res struct {
		code int64
		what string
	}
	out := make(chan res, len(phases))
	for pi, ph := range phases {
		go func(pi int, ph time.Duration) {
			cli := qnet.NewRpcClient(context.Background(), 8)
			cli.VerifSetCounter(uint16(seed) + uint16(1000*pi))
			// wait for the wall clock to stand at the phase
			now := time.Now()
			wait := ph - time.Duration(now.Nanosecond())
			if wait < 0 {
				wait += time.Second
			}
			time.Sleep(wait)
			for k := 0; k < n; k++ {
				var count, gotCode int32
				t0 := time.Now()
				cli.AsyncCall(node, wrapperspb.String("q"), func(m proto.Message, code int32) error {
					atomic.AddInt32(&count, 1)
					atomic.StoreInt32(&gotCode, code)
					return nil
				})
				t1 := time.Now()
				p := <-cli.PendingQueue()
				seq := p.Seq()
				where := "call issued at wall-clock phase ." + strconv.Itoa(t0.Nanosecond()/1000000) + ": "
				atomic.AddInt64(&fullChecked, 1)
				if d, ok := cli.VerifDeadline(seq); !ok || d.Before(t0.Add(time.Minute)) || d.After(t1.Add(time.Minute)) {
					out <- res{5, where + "its deadline is not issue instant + 60 s (off by " + d.Sub(t0.Add(time.Minute)).String() + ")"}
					return
				}
				for _, e := range append(eps, 0) {
					cli.VerifSweep(t0.Add(time.Minute - e))
					if _, exp := cli.VerifPending(); exp != 0 || cli.ReapTimeout() != 0 || atomic.LoadInt32(&count) != 0 {
						out <- res{5, where + "expired by a sweep " + e.String() + " BEFORE its time-to-live of 60 s was over"}
						return
					}
				}
				if k%2 == 0 { // the response arrives in time
					body, _ := proto.Marshal(wrapperspb.String("r1"))
					if err := cli.Dispatch(packet.New(msgID, seq, fatchoy.PFlagRpc, body)); err != nil || atomic.LoadInt32(&count) != 1 || atomic.LoadInt32(&gotCode) != 0 {
						out <- res{3, where + "the response arriving within the time-to-live was not delivered"}
						return
					}
					continue
				}
				cli.VerifSweep(t1.Add(time.Minute + eps[k%len(eps)]))
				if n := cli.ReapTimeout(); n != 1 || atomic.LoadInt32(&count) != 1 || atomic.LoadInt32(&gotCode) != int32(codes.RequestTimeout) {
					out <- res{5, where + "not completed once with RequestTimeout by a sweep after its time-to-live"}
					return
				}
			}
			out <- res{0, ""}
		}(pi, ph)
	}
	r := res{}
	for range phases {
		if x := <-out; x.code != 0 && r.code == 0 {
			r = x
		}
	}
	return r.code, r.what
}

// reaperRun: the client's own reaper goroutine (Go(): a 3 s ticker calling the sweep with the tick's
// time) - an overdue call is moved to the expired list by it, the owner's ReapTimeout completes it once
// with RequestTimeout, a call that is not overdue stays; cancelling the context ends the goroutine.
// returns 0 ok | 5 not expired by the reaper after 3 ticks / wrong completion | 3 other call disturbed | 7 goroutine left | 9 inconclusive
func reaperRun(seed uint64) (int64, string) {
	const fReaper = "qnet.(*RpcClient).reaper"
	count := func() int {
		n := 0
		for _, g := range GDump() {
			if strings.Contains(g.Text, fReaper) {
				n++
			}
		}
		return n
	}
	before := count()
	ctx, cancel := context.WithCancel(context.Background())
	defer cancel()
	cli := qnet.NewRpcClient(ctx, 8)
	cli.VerifSetCounter(uint16(seed))
	cli.Go()
	var aCount, aCode, bCount, bCode int32
	cli.AsyncCall(node, wrapperspb.String("q"), func(m proto.Message, code int32) error {
		atomic.AddInt32(&aCount, 1)
		atomic.StoreInt32(&aCode, code)
		return nil
	})
	a := (<-cli.PendingQueue()).Seq()
	cli.AsyncCall(node, wrapperspb.String("q"), func(m proto.Message, code int32) error {
		atomic.AddInt32(&bCount, 1)
		atomic.StoreInt32(&bCode, code)
		return nil
	})
	b := (<-cli.PendingQueue()).Seq()
	cli.VerifSetDeadline(a, time.Now().Add(-time.Second))
	start := time.Now()
	for {
		seqs, exp := cli.VerifPending()
		if exp == 1 && len(seqs) == 1 && seqs[0] == b {
			break
		}
		if exp > 1 || len(seqs) == 0 || (len(seqs) == 1 && seqs[0] != b) {
			return 3, "the reaper's sweep touched a call that is not overdue"
		}
		if time.Since(start) > 10*time.Second { // more than three ticks
			return 5, "an overdue call was not moved to the expired list by the client's reaper goroutine within three of its ticks"
		}
		time.Sleep(20 * time.Millisecond)
	}
	if n := cli.ReapTimeout(); n != 1 || atomic.LoadInt32(&aCount) != 1 || atomic.LoadInt32(&aCode) != int32(codes.RequestTimeout) {
		return 5, "the call expired by the reaper goroutine was not completed once with RequestTimeout"
	}
	body, _ := proto.Marshal(wrapperspb.String("r1"))
	if err := cli.Dispatch(packet.New(msgID, b, fatchoy.PFlagRpc, body)); err != nil || atomic.LoadInt32(&bCount) != 1 || atomic.LoadInt32(&bCode) != 0 {
		return 3, "the response to the other call was not delivered"
	}
	// two more calls are outstanding when the client's context is cancelled: cancelling ends the
	// reaper goroutine and nothing else - the calls are completed by their response / a later sweep,
	// exactly once, not by the cancellation
	var cGid, cBack, cCode, dCount, dCode int32
	var cRid int64
	go func() {
		atomic.StoreInt32(&cGid, int32(Goid()))
		ctx := cli.Call(node, wrapperspb.String("q"))
		atomic.StoreInt32(&cCode, ctx.VerifAck().Errno())
		if msg, err := ctx.DecodeAck(); err == nil {
			atomic.StoreInt64(&cRid, ridOf(msg))
		}
		atomic.AddInt32(&cBack, 1)
	}()
	cSeq := (<-cli.PendingQueue()).Seq()
	cli.AsyncCall(node, wrapperspb.String("q"), func(m proto.Message, code int32) error {
		atomic.AddInt32(&dCount, 1)
		atomic.StoreInt32(&dCode, code)
		return nil
	})
	dSeq := (<-cli.PendingQueue()).Seq()
	cancel()
	for dl := time.Now().Add(5 * time.Second); count() > before; time.Sleep(10 * time.Millisecond) {
		if time.Now().After(dl) {
			return 7, "the reaper goroutine is still there 5 s after its context was cancelled"
		}
	}
	// the reaper is gone; the blocking caller must still be waiting (parked in Call's receive)
	if waitBackOrParked(&cBack, &cGid) && atomic.LoadInt32(&cBack) != 0 {
		return 7, "a blocking Call outstanding when the client's context was cancelled was released (code " + strconv.Itoa(int(atomic.LoadInt32(&cCode))) + ") by neither its response nor a time-out"
	}
	if atomic.LoadInt32(&dCount) != 0 {
		return 7, "an asynchronous call outstanding when the client's context was cancelled was completed by the cancellation"
	}
	body2, _ := proto.Marshal(wrapperspb.String("r2"))
	if err := cli.Dispatch(packet.New(msgID, cSeq, fatchoy.PFlagRpc, body2)); err != nil {
		return 3, "after the cancellation the response to the outstanding blocking call is unmatched"
	}
	for dl := time.Now().Add(5 * time.Second); atomic.LoadInt32(&cBack) == 0; time.Sleep(time.Millisecond) {
		if time.Now().After(dl) {
			return 9, "the blocking caller did not come back after its response"
		}
	}
	if atomic.LoadInt32(&cBack) != 1 || atomic.LoadInt32(&cCode) != 0 || atomic.LoadInt64(&cRid) != 2 {
		return 3, "after the cancellation the blocking call was not released once with its own reply"
	}
	cli.VerifSetDeadline(dSeq, time.Now().Add(-time.Second))
	cli.VerifSweep(time.Now())
	if n := cli.ReapTimeout(); n != 1 || atomic.LoadInt32(&dCount) != 1 || atomic.LoadInt32(&dCode) != int32(codes.RequestTimeout) {
		return 5, "after the cancellation the overdue asynchronous call was not completed once with RequestTimeout"
	}
	if cli.Dispatch(packet.New(msgID, cSeq, fatchoy.PFlagRpc, body2)) == nil || cli.Dispatch(packet.New(msgID, dSeq, fatchoy.PFlagRpc, body2)) == nil {
		return 7, "a duplicate / late response after the cancellation was matched"
	}
	atomic.AddInt64(&fullChecked, 8)
	return 0, ""
}

// waitBackOrParked waits until the goroutine has set *back, or is parked in Call's channel receive
// (goroutine dump, seen three times 30 ms apart).  false = parked for good.
func waitBackOrParked(back, gid *int32) bool {
	deadline := time.Now().Add(10 * time.Second)
	for pause := 50 * time.Microsecond; ; {
		if atomic.LoadInt32(back) != 0 {
			return true
		}
		if time.Now().After(deadline) {
			return true // inconclusive: the caller decides
		}
		time.Sleep(pause)
		if pause < 5*time.Millisecond {
			pause *= 2
			continue
		}
		parked := 0
		for k := 0; k < 3; k++ {
			g := GDump()[int(atomic.LoadInt32(gid))]
			if g != nil && waitingInCall(g) && atomic.LoadInt32(back) == 0 {
				parked++
			}
			time.Sleep(30 * time.Millisecond)
		}
		if parked == 3 && atomic.LoadInt32(back) == 0 {
			return false
		}
	}
}

// syncRace: a responder answers a blocking Call the moment its request appears on the queue - the
// completion may arrive before the caller has reached its receive; the caller must be released with
// that reply all the same.
// returns 0 ok | 3 released with something else | 12 never released (parked in Call, entry gone) | 9 inconclusive
// A request type with a registered pairing (XxxReq -> XxxAck): a response is matched by its sequence
// number alone - whatever command id it carries (the Ack's, the request's own: Packet.Reply's
// fall-back, none, something else), with or without an error code - and completes the call once.
type PairEchoReq struct{ *wrapperspb.StringValue }
type PairEchoAck struct{ *wrapperspb.StringValue }

const (
	pairReqID = 1101
	pairAckID = 1102
)

func pairedReplies(c0 uint16) (int64, string) {
	cli := qnet.NewRpcClient(context.Background(), 4)
	cli.VerifSetCounter(c0)
	for _, errno := range []int32{0, 3} {
		for _, cmd := range []int32{pairAckID, pairReqID, 0, msgID, 4242, -1} {
			var done, gotCode int32
			gotCode = -1
			cli.AsyncCall(node, &PairEchoReq{wrapperspb.String("q")}, func(m proto.Message, code int32) error {
				atomic.AddInt32(&done, 1)
				atomic.StoreInt32(&gotCode, code)
				return nil
			})
			var req fatchoy.IPacket
			select {
			case req = <-cli.PendingQueue():
			case <-time.After(2 * time.Second):
				return 9, "paired request: no request on the queue"
			}
			ack := packet.New(cmd, req.Seq(), fatchoy.PFlagRpc, nil)
			if errno > 0 {
				ack.SetErrno(errno)
			}
			err := cli.Dispatch(ack)
			// a reply that cannot be decoded (a command id naming no message type) is delivered as an
			// internal error: the code is compared only where the reply is decodable or carries an error
			codeOK := atomic.LoadInt32(&gotCode) == errno || (errno == 0 && cmd != pairAckID && cmd != pairReqID)
			if err != nil || atomic.LoadInt32(&done) != 1 || !codeOK {
				return 3, fmt.Sprintf("a call of a request type with a registered pairing Ack, answered with its own sequence number %d and command id %d (errno %d): Dispatch returned %v, the callback ran %d time(s) with code %d - want nil, once, code %d",
					req.Seq(), cmd, errno, err, done, gotCode, errno)
			}
			if seqs, _ := cli.VerifPending(); len(seqs) != 0 {
				return 3, fmt.Sprintf("paired request answered (command id %d): still outstanding %v", cmd, seqs)
			}
			if cli.Dispatch(ack) == nil || atomic.LoadInt32(&done) != 1 {
				return 3, fmt.Sprintf("paired request (command id %d): the duplicate response was not reported as unmatched or completed the call again", cmd)
			}
		}
	}
	return 0, ""
}

func syncRace(trials int, seed uint64) (int64, string) {
	if code, what := pairedReplies(uint16(seed >> 3)); code != 0 {
		return code, what
	}
	cli := qnet.NewRpcClient(context.Background(), 0)
	cli.VerifSetCounter(uint16(seed))
	for tr := 0; tr < trials; tr++ {
		var gid, back, code int32
		var rid int64
		go func() {
			atomic.StoreInt32(&gid, int32(Goid()))
			ctx := cli.Call(node, wrapperspb.String("q"))
			ack := ctx.VerifAck()
			atomic.StoreInt32(&code, ack.Errno())
			if msg, err := ctx.DecodeAck(); err == nil {
				atomic.StoreInt64(&rid, ridOf(msg))
			}
			atomic.StoreInt32(&back, 1)
		}()
		p := <-cli.PendingQueue() // the caller is inside makeCall; it has not reached its receive yet
		body, _ := proto.Marshal(wrapperspb.String("r" + strconv.Itoa(tr)))
		if err := cli.Dispatch(packet.New(msgID, p.Seq(), fatchoy.PFlagRpc, body)); err != nil {
			return 3, "trial " + strconv.Itoa(tr) + ": the response to the call just queued is unmatched"
		}
		atomic.AddInt64(&fullChecked, 1)
		if !waitBackOrParked(&back, &gid) {
			if seqs, _ := cli.VerifPending(); len(seqs) == 0 {
				return 12, "trial " + strconv.Itoa(tr) + ": the response was dispatched (entry gone) before the blocking caller reached its receive: the caller is never released (goroutine dump: parked in Call's receive)"
			}
			return 9, "caller parked but its entry is still pending"
		}
		if atomic.LoadInt32(&back) == 0 {
			return 9, "the caller neither returned nor parked"
		}
		if atomic.LoadInt32(&code) != 0 || atomic.LoadInt64(&rid) != int64(tr) {
			return 3, "trial " + strconv.Itoa(tr) + ": the blocking caller was not released with its own reply"
		}
	}
	return 0, ""
}

// every sequence number outstanding: checked on the Go side only (a 65535-entry table is
// beyond what the association-list model evaluates in reasonable time)
func fullTable(c0 uint16) (code int64, what string) {
	cli := qnet.NewRpcClient(context.Background(), 4)
	cli.VerifSetCounter(c0)
	seen := make(map[uint16]int, 65536)
	completions := make([]int32, 65550)
	codesSeen := make([]int32, 65550)
	cb := func(i int) qnet.RpcHandler {
		return func(msg proto.Message, code int32) error {
			completions[i]++
			codesSeen[i] = code
			return nil
		}
	}
	checked := 0
	defer func() { atomic.AddInt64(&fullChecked, int64(checked)) }()
	for i := 0; i < 65535; i++ {
		cli.AsyncCall(node, wrapperspb.String("q"), cb(i))
		var p fatchoy.IPacket
		select {
		case p = <-cli.PendingQueue():
		default:
			return 1, "call " + strconv.Itoa(i) + " of 65535 queued no request"
		}
		checked++
		if p.Seq() == 0 {
			return 2, "sequence number 0 issued"
		}
		if j, dup := seen[p.Seq()]; dup {
			return 3, "call " + strconv.Itoa(i) + " got sequence number " + strconv.Itoa(int(p.Seq())) + " of outstanding call " + strconv.Itoa(j)
		}
		seen[p.Seq()] = i
	}
	// all 65535 numbers are taken: one more call cannot get one.  Its completion callback re-enters
	// the client the way callbacks do (looks at the table, retries the call, dispatches, reaps): the
	// refusal must be delivered like every other completion, outside the client's mutex
	cli.AsyncCall(node, wrapperspb.String("q"), func(msg proto.Message, code int32) error {
		completions[65535]++
		codesSeen[65535] = code
		cli.VerifPending()
		cli.AsyncCall(node, wrapperspb.String("q"), cb(65540))    // the retry: refused as well
		cli.Dispatch(packet.New(msgID, 0, fatchoy.PFlagRpc, nil)) // number 0 is never outstanding
		cli.ReapTimeout()
		return nil
	})
	checked++
	if completions[65540] != 1 || codesSeen[65540] != int32(codes.ResourceExhausted) {
		return 5, "table full: the retry issued from the refused call's callback was not completed once with ResourceExhausted"
	}
	// a BLOCKING call is refused the same way: it must come back at once, released with the refusal
	{
		var gid, back, code int32
		go func() {
			atomic.StoreInt32(&gid, int32(Goid()))
			ctx := cli.Call(node, wrapperspb.String("q"))
			atomic.StoreInt32(&code, ctx.VerifAck().Errno())
			atomic.StoreInt32(&back, 1)
		}()
		if !waitBackOrParked(&back, &gid) {
			return 12, "table full: the refused blocking Call never returns (goroutine dump: parked in Call's receive, nothing can release it)"
		}
		if atomic.LoadInt32(&back) == 1 && atomic.LoadInt32(&code) != int32(codes.ResourceExhausted) {
			return 5, "table full: the refused blocking Call was released with code " + strconv.Itoa(int(atomic.LoadInt32(&code)))
		}
		if atomic.LoadInt32(&back) == 0 {
			return 9, "the refused blocking Call neither returned nor parked"
		}
	}
	select {
	case p := <-cli.PendingQueue():
		return 4, "table full, yet the call was queued with the busy sequence number " + strconv.Itoa(int(p.Seq()))
	default:
	}
	if completions[65535] != 1 || codesSeen[65535] != int32(codes.ResourceExhausted) {
		return 5, "table full: the call was not completed once with ResourceExhausted"
	}
	// free one number: the next call gets exactly that one
	victim := uint16(1 + (uint32(c0)*40503+12345)%65535)
	reply, _ := proto.Marshal(wrapperspb.String("r1"))
	victimCall := seen[victim]
	if err := cli.Dispatch(packet.New(msgID, victim, fatchoy.PFlagRpc, reply)); err != nil || completions[seen[victim]] != 1 {
		return 6, "response to an outstanding call in a full table not delivered"
	}
	cli.AsyncCall(node, wrapperspb.String("q"), cb(65536))
	checked++
	select {
	case p := <-cli.PendingQueue():
		if p.Seq() != victim {
			return 7, "the only free sequence number was not chosen"
		}
	default:
		return 8, "a free sequence number exists, yet the call was refused"
	}
	// the table is full again; now free the number the counter stands on: it is the LAST one the
	// search reaches (the 65535th probe)
	seen[victim] = 65536
	last := cli.VerifCounter()
	if err := cli.Dispatch(packet.New(msgID, last, fatchoy.PFlagRpc, reply)); err != nil || completions[seen[last]] != 1 {
		return 6, "response to an outstanding call in a full table not delivered"
	}
	cli.AsyncCall(node, wrapperspb.String("q"), cb(65537))
	checked++
	select {
	case p := <-cli.PendingQueue():
		if p.Seq() != last {
			return 7, "the only free sequence number was not chosen"
		}
	default:
		return 10, "the only free sequence number is the 65535th probe, yet the call was refused"
	}
	answered := map[int]bool{seen[victim]: false, seen[last]: true}
	for i := 0; i < 65535; i++ {
		want := int32(0)
		if i == victimCall || answered[i] {
			want = 1
		}
		if completions[i] != want {
			return 9, "call completed although nothing answered it"
		}
	}
	return 0, ""
}

var fullChecked int64

// stress: ncallers goroutines issue Call / AsyncCall at the same time; one owner goroutine (as the
// code intends) takes the requests off the queue, answers most of them through Dispatch, lets the
// others time out (sweep + ReapTimeout).  Afterwards: every call completed exactly once, answered
// calls with their own reply, the others with RequestTimeout; no two outstanding requests ever
// carried the same sequence number, none carried 0.
// returns 0 ok | 1 zero seq | 2 duplicate outstanding seq | 3 wrong reply / code | 5 wrong timeout |
//
//	7 completion count != 1 | 9 inconclusive (a blocking caller neither returned nor parked)
func stress(ncallers, per int, seed uint64) (int64, string) {
	total := ncallers * per
	// the queue holds every request: makeCall sends on it while holding the table mutex, so a full
	// queue would block Dispatch behind a blocked caller (outside the statement; see props/C15.json)
	cli := qnet.NewRpcClient(context.Background(), total+8)
	cli.VerifSetCounter(uint16(seed))
	rng := NewRng(seed)
	answer := make([]bool, total)
	blocking := make([]bool, total)
	for i := range answer {
		answer[i] = !rng.Chance(1, 5)
		blocking[i] = rng.Chance(1, 4)
	}
	count := make([]int32, total)
	gotCode := make([]int32, total)
	gotRid := make([]int64, total)
	var checked int64
	defer func() { atomic.AddInt64(&fullChecked, atomic.LoadInt64(&checked)) }()
	var wg sync.WaitGroup
	var issued int64
	syncs := make([]*syncCall, 0, total)
	var smu sync.Mutex
	for g := 0; g < ncallers; g++ {
		wg.Add(1)
		go func(g int) {
			defer wg.Done()
			for i := 0; i < per; i++ {
				id := g*per + i
				req := wrapperspb.String("q" + strconv.Itoa(id))
				if blocking[id] {
					sc := &syncCall{}
					smu.Lock()
					syncs = append(syncs, sc)
					smu.Unlock()
					go func() {
						atomic.StoreInt32(&sc.gid, int32(Goid()))
						atomic.AddInt64(&issued, 1)
						ctx := cli.Call(node, req)
						ack := ctx.VerifAck()
						atomic.StoreInt32(&gotCode[id], ack.Errno())
						rid := int64(-1)
						if ack.Errno() == 0 {
							if err := ack.Decode(); err == nil {
								rid = ridOf(ack.Body().(proto.Message))
							}
						}
						atomic.StoreInt64(&gotRid[id], rid)
						atomic.AddInt32(&count[id], 1)
						atomic.StoreInt32(&sc.done, 1)
					}()
				} else {
					atomic.AddInt64(&issued, 1)
					cli.AsyncCall(node, req, func(msg proto.Message, code int32) error {
						atomic.StoreInt32(&gotCode[id], code)
						rid := int64(-1)
						if msg != nil {
							rid = ridOf(msg)
						}
						atomic.StoreInt64(&gotRid[id], rid)
						atomic.AddInt32(&count[id], 1)
						return nil
					})
				}
			}
		}(g)
	}
	// the owner
	outstanding := map[uint16]int{}
	handled := 0
	deadline := time.Now().Add(20 * time.Second)
	for handled < total && time.Now().Before(deadline) {
		select {
		case p := <-cli.PendingQueue():
			handled++
			atomic.AddInt64(&checked, 1)
			seq := p.Seq()
			sv, _ := p.Body().(*wrapperspb.StringValue)
			id, _ := strconv.Atoi(strings.TrimPrefix(sv.GetValue(), "q"))
			if seq == 0 {
				return 1, "request of call " + strconv.Itoa(id) + " carries sequence number 0"
			}
			if other, dup := outstanding[seq]; dup {
				return 2, "calls " + strconv.Itoa(other) + " and " + strconv.Itoa(id) + " outstanding with the same sequence number " + strconv.Itoa(int(seq))
			}
			if answer[id] {
				body, _ := proto.Marshal(wrapperspb.String("r" + strconv.Itoa(id)))
				if err := cli.Dispatch(packet.New(msgID, seq, fatchoy.PFlagRpc, body)); err != nil {
					return 3, "response to outstanding call " + strconv.Itoa(id) + " not matched: " + err.Error()
				}
			} else {
				outstanding[seq] = id
				cli.VerifSetDeadline(seq, time.Now().Add(-time.Second)) // this one is overdue from now on
			}
			if handled%97 == 0 { // the calls the owner left unanswered time out; all others have 60 s left
				cli.VerifSweep(time.Now())
				cli.ReapTimeout()
				outstanding = map[uint16]int{}
			}
		default:
			time.Sleep(20 * time.Microsecond)
		}
	}
	if handled < total {
		return 9, "not all requests arrived within 20 s"
	}
	wg.Wait()
	cli.VerifSweep(time.Now())
	cli.ReapTimeout()
	h := &hist{syncs: syncs}
	if !h.settle() {
		return 9, "a blocking caller neither returned nor parked"
	}
	for id := 0; id < total; id++ {
		atomic.AddInt64(&checked, 1)
		if c := atomic.LoadInt32(&count[id]); c != 1 {
			return 7, "call " + strconv.Itoa(id) + " completed " + strconv.Itoa(int(c)) + " times"
		}
		code, rid := atomic.LoadInt32(&gotCode[id]), atomic.LoadInt64(&gotRid[id])
		if answer[id] && (code != 0 || rid != int64(id)) {
			return 3, "call " + strconv.Itoa(id) + " answered, completed with code " + strconv.Itoa(int(code)) + " reply " + strconv.FormatInt(rid, 10)
		}
		if !answer[id] && code != int32(codes.RequestTimeout) {
			return 5, "call " + strconv.Itoa(id) + " not answered, completed with code " + strconv.Itoa(int(code))
		}
	}
	return 0, ""
}

// sweepRace: the expiry sweep runs on its own goroutine (as the reaper does) over a big table while
// the owner dispatches the late response of the one overdue call A and at once makes a new call B
// that is given A's sequence number (the counter stands just below it).  Whatever the interleaving:
// A is completed exactly once (by its response or by the time-out), B - whose deadline is a minute
// away - is never completed with RequestTimeout and its own response completes it.
// returns 0 ok | 3 wrong completion of A or B's response unmatched | 5 B timed out | 7 completed twice
// lateAfterIdle: call A times out and is reaped, leaving the table empty; one new call B is issued;
// then A's response arrives.  It is late: it must be reported as unmatched and complete nothing -
// in particular not B (numbering must not start over just because nothing is outstanding).
func lateAfterIdle(c0 uint16) (int64, string) {
	cli := qnet.NewRpcClient(context.Background(), 8)
	cli.VerifSetCounter(c0)
	var aCount, bCount int32
	take := func() (uint16, bool) {
		select {
		case p := <-cli.PendingQueue():
			return p.Seq(), true
		case <-time.After(2 * time.Second):
			return 0, false
		}
	}
	cli.AsyncCall(node, wrapperspb.String("a"), func(proto.Message, int32) error { atomic.AddInt32(&aCount, 1); return nil })
	a, ok := take()
	if !ok {
		return 0, ""
	}
	cli.VerifSetDeadline(a, time.Now().Add(-time.Second))
	cli.VerifSweep(time.Now())
	cli.ReapTimeout()
	if n := atomic.LoadInt32(&aCount); n != 1 {
		return 5, "a single overdue call was completed " + strconv.Itoa(int(n)) + " times by the sweep"
	}
	cli.AsyncCall(node, wrapperspb.String("b"), func(proto.Message, int32) error { atomic.AddInt32(&bCount, 1); return nil })
	b, ok := take()
	if !ok {
		return 0, ""
	}
	resp, _ := proto.Marshal(wrapperspb.String("r1"))
	err := cli.Dispatch(packet.New(msgID, a, fatchoy.PFlagRpc, resp))
	if err == nil || atomic.LoadInt32(&bCount) != 0 || atomic.LoadInt32(&aCount) != 1 {
		return 5, fmt.Sprintf("the response to call %d arrived after that call had timed out (the table was empty in between and ONE new call, numbered %d, was issued since): it was not treated as unmatched - Dispatch returned %v, the timed-out call was completed %d time(s), the new call %d time(s)",
			a, b, err, atomic.LoadInt32(&aCount), atomic.LoadInt32(&bCount))
	}
	if err := cli.Dispatch(packet.New(msgID, b, fatchoy.PFlagRpc, resp)); err != nil || atomic.LoadInt32(&bCount) != 1 {
		return 3, fmt.Sprintf("the new call %d was not completed once by its own response (Dispatch returned %v, %d completions)", b, err, atomic.LoadInt32(&bCount))
	}
	return 0, ""
}

func sweepRace(trials int, seed uint64) (int64, string) {
	if code, what := lateAfterIdle(uint16(seed >> 5)); code != 0 {
		return code, what
	}
	const fillers = 30000
	cli := qnet.NewRpcClient(context.Background(), 64)
	drain := func() {
		for {
			select {
			case <-cli.PendingQueue():
			default:
				return
			}
		}
	}
	nop := func(proto.Message, int32) error { return nil }
	for i := 0; i < fillers; i++ { // numbers 1..30000, deadlines a minute away: they make the sweep long
		cli.AsyncCall(node, wrapperspb.String("f"), nop)
		drain()
	}
	rng := NewRng(seed)
	var checked int64
	defer func() { atomic.AddInt64(&fullChecked, checked) }()
	for tr := 0; tr < trials; tr++ {
		x := uint16(40000 + tr)
		var aCount, bCount, aCode, bCode int32
		var bRid int64
		cli.VerifSetCounter(x - 1)
		cli.AsyncCall(node, wrapperspb.String("a"), func(m proto.Message, code int32) error {
			atomic.AddInt32(&aCount, 1)
			atomic.StoreInt32(&aCode, code)
			return nil
		})
		drain()
		cli.VerifSetDeadline(x, time.Now().Add(-time.Second)) // A is overdue
		cli.VerifSetCounter(x - 1)                            // the next call will be given x once it is free
		swept := make(chan struct{})
		go func() { cli.VerifSweep(time.Now()); close(swept) }()
		for k := rng.Intn(400); k > 0; k-- { // somewhere inside the sweep
			runtime.Gosched()
		}
		respA, _ := proto.Marshal(wrapperspb.String("r1"))
		errA := cli.Dispatch(packet.New(msgID, x, fatchoy.PFlagRpc, respA))
		cli.AsyncCall(node, wrapperspb.String("b"), func(m proto.Message, code int32) error {
			atomic.AddInt32(&bCount, 1)
			atomic.StoreInt32(&bCode, code)
			if m != nil {
				atomic.StoreInt64(&bRid, ridOf(m))
			}
			return nil
		})
		var bSeq uint16
		select {
		case p := <-cli.PendingQueue():
			bSeq = p.Seq()
		default:
		}
		<-swept
		cli.ReapTimeout()
		checked++
		what := "trial " + strconv.Itoa(tr) + ": "
		if n := atomic.LoadInt32(&aCount); n != 1 {
			return 7, what + "call A completed " + strconv.Itoa(int(n)) + " times"
		}
		if errA == nil && atomic.LoadInt32(&aCode) != 0 || errA != nil && atomic.LoadInt32(&aCode) != int32(codes.RequestTimeout) {
			return 3, what + "call A: response matched=" + strconv.FormatBool(errA == nil) + " but completed with code " + strconv.Itoa(int(atomic.LoadInt32(&aCode)))
		}
		if atomic.LoadInt32(&bCount) != 0 {
			if atomic.LoadInt32(&bCode) == int32(codes.RequestTimeout) {
				return 5, what + "call B (made during the sweep, deadline a minute away, number " + strconv.Itoa(int(bSeq)) + ") was completed with RequestTimeout"
			}
			return 7, what + "call B completed before anything answered it"
		}
		respB, _ := proto.Marshal(wrapperspb.String("r2"))
		if err := cli.Dispatch(packet.New(msgID, bSeq, fatchoy.PFlagRpc, respB)); err != nil {
			return 3, what + "the response to call B is unmatched: " + err.Error()
		}
		if atomic.LoadInt32(&bCount) != 1 || atomic.LoadInt32(&bCode) != 0 || atomic.LoadInt64(&bRid) != 2 {
			return 3, what + "call B not completed once with its own reply"
		}
		if bSeq == x {
			atomic.AddInt64(&sweepRaceReused, 1)
		}
	}
	return 0, ""
}

var sweepRaceReused int64

// all calls blocking, request queue of capacity 0: every call waits inside makeCall (holding the
// table mutex - the known hazard) until the harness takes its request
func genUnbuffered(rng *Rng) Sx {
	c0 := uint16(rng.PickInt(0, 65534, rng.Intn(65536)))
	m := &aim{counter: c0}
	var ops []Sx
	rid := int64(0)
	n := rng.Range(2, 10)
	for i := 0; i < n; i++ {
		switch k := rng.Intn(10); {
		case k < 5 || len(m.out) == 0:
			adj := rng.PickI64(0, 0, 1000, -5000)
			ops = append(ops, Ints(0, 1, adj))
			if adj == 0 {
				adj = 60000
			}
			m.call(adj)
		case k < 8:
			x := rng.Intn(len(m.out))
			ops = append(ops, Ints(1, int64(m.out[x]), rid, int64(rng.PickInt(0, 0, 9)), 1))
			rid++
			m.drop(x)
		default:
			now := rng.PickI64(2000, 90000)
			ops = append(ops, Ints(2, now), Ints(3))
			m.sweep(now)
		}
	}
	ops = append(ops, Ints(2, 200000), Ints(3))
	return List(Uint(uint64(c0)), ListOf(ops), Int(0))
}

func nontrivial(in Sx) bool {
	if in.Len() == 2 && in.At(1).Kind == 'i' {
		return true
	}
	if in.Len() == 1 || in.Len() == 4 || (in.Len() == 3 && in.At(1).Kind == 'i') {
		return true
	}
	calls := 0
	for i := 0; i < in.At(1).Len(); i++ {
		if k := in.At(1).At(i).At(0).AsInt(); k == 0 || k == 4 {
			calls++
		}
	}
	return calls > 0
}

// VERIF_FOCUS_KINDS=kind1,kind2 (set by bin/check's extended search): spend the run on these classes
func wantKind(kind string) bool {
	f := os.Getenv("VERIF_FOCUS_KINDS")
	if f == "" {
		return true
	}
	for _, k := range strings.Split(f, ",") {
		if k == kind {
			return true
		}
	}
	return false
}

func gen(a Args, out *Out) {
	rng := NewRng(a.Seed)
	// the reaper scenario waits for a real 3 s tick: it runs alongside everything else
	reaperIn := Ints(7, int64(rng.Fork().Intn(65536)))
	reaperOut := make(chan Sx, 1)
	go func() { reaperOut <- run(reaperIn) }()
	defer func() { out.Case("reaper", true, reaperIn, <-reaperOut) }()
	nhist, nwrap, nfull, nstress := 400, 3, 1, 12
	if a.Thorough() {
		nhist, nwrap, nfull, nstress = 8000, 30, 4, 300
	}
	emit := func(kind string, in Sx) {
		if !wantKind(kind) {
			return
		}
		obs := run(in)
		// an inconclusive history (too slow, or a blocking caller neither returned nor parked within the
		// settle budget) is run again, twice at most; what is still inconclusive is recorded, never alarmed
		for try := 0; try < 2 && obs.Len() == 1 && obs.At(0).Kind == 'i'; try++ {
			out.Count("inconclusive:retried")
			atomic.AddInt32(&nInconclusive, -1)
			obs = run(in)
		}
		out.Case(kind, nontrivial(in), in, obs)
		if in.Len() == 1 || in.Len() == 4 || (in.Len() == 3 && in.At(1).Kind == 'i') {
			return
		}
		var flat []Sx
		for i := 0; i < in.At(1).Len(); i++ {
			op := in.At(1).At(i)
			flat = append(flat, op)
			if _, nested, ok := nestedOf(op); ok {
				out.Count("op with events issued from inside its completion callback")
				for j := 0; j < nested.Len(); j++ {
					flat = append(flat, nested.At(j))
				}
			}
		}
		for i := 0; i < len(flat) && obs.Len() == len(flat); i++ {
			op := flat[i]
			if obs.At(i).At(0).Int64() == -9 {
				out.Count("nested op not run (no callback fired)")
				continue
			}
			out.Count("op:" + []string{"call", "dispatch", "sweep", "reap", "burst"}[op.At(0).AsInt()])
			if op.At(0).AsInt() == 0 && op.At(1).AsBool() {
				out.Count("call:blocking")
			}
			if op.At(0).AsInt() == 1 {
				if obs.At(i).At(1).AsInt() == 1 {
					out.Count("dispatch:unmatched")
				} else {
					out.Count("dispatch:matched")
				}
			}
			for j := 0; j < obs.At(i).At(2).Len(); j++ {
				out.Count("completion:code=" + strconv.Itoa(obs.At(i).At(2).At(j).At(2).AsInt()))
			}
		}
		if c0 := in.At(0).Uint64(); c0 >= 65500 {
			out.Count("counter starts within 36 of the wrap")
		}
	}
	r1, r2, r3 := rng.Fork(), rng.Fork(), rng.Fork()
	for i := 0; i < nwrap; i++ {
		emit("wrap", genWrap(r2))
		emit("wrap", genWrapTimedOut(r2))
	}
	r5 := rng.Fork()
	for i := 0; i < nhist/8; i++ {
		emit("nested", genNested(r5))
	}
	for i := 0; i < nhist; i++ {
		emit("history", genHistory(r1))
	}
	for i := 0; i < nfull; i++ {
		in := List(Uint(uint64(r3.Intn(65536))))
		if wantKind("full") {
			out.Case("full", true, in, run(in))
		}
	}
	r6, r7 := rng.Fork(), rng.Fork()
	for i := 0; i < nhist/8; i++ {
		emit("unbuffered", genUnbuffered(r6))
	}
	for i := 0; i < nfull; i++ {
		in := Ints(3, int64(60*nfull), int64(r7.Intn(1<<30)))
		if wantKind("sweeprace") {
			out.Case("sweeprace", true, in, run(in))
		}
	}
	out.CountN("sweeprace:call B was given A's number", int(atomic.LoadInt64(&sweepRaceReused)))
	for i := 0; i < nfull; i++ {
		in := Ints(6, 6, int64(r7.Intn(1<<30)))
		if wantKind("ttl") {
			out.Case("ttl", true, in, run(in))
		}
		if in2 := Ints(8, 1500, int64(r7.Intn(1<<30))); wantKind("syncrace") {
			out.Case("syncrace", true, in2, run(in2))
		}
	}
	r4 := rng.Fork()
	for i := 0; i < nstress; i++ {
		in := Ints(2, int64(r4.Range(2, 8)), int64(r4.Range(5, 120)), int64(r4.Intn(1<<30)))
		if !wantKind("stress") {
			continue
		}
		obs := run(in)
		out.Case("stress", true, in, obs)
		if obs.At(1).AsInt() == 9 {
			out.Count("inconclusive:stress")
		}
		out.CountN("stress:calls", in.At(1).AsInt()*in.At(2).AsInt())
	}
	out.GoChecked += atomic.LoadInt64(&fullChecked)
	out.CountN("inconclusive:total (histories not evaluated: too slow, or a blocking caller neither returned nor parked within 5 s)", int(atomic.LoadInt32(&nInconclusive)))
}

func main() {
	log.SetOutput(io.Discard)
	packet.VerifRegister(msgID, wrapperspb.String(""))
	packet.VerifRegister(pairReqID, &PairEchoReq{})
	packet.VerifRegister(pairAckID, &PairEchoAck{})
	Main(run, gen)
}
