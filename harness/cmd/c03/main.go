// C03 harness: one real qnet.TcpConn per scenario over loopback TCP, driven by
// verifharness/connsim (gated = serialized through the verifPoint gates, free = full speed).
// Scenarios run in child processes (a panic on a goroutine of the code under test is an
// observed outcome, not the end of the run).
// input    = scenario (see connsim.Cfg.Sx)
// observed = see coq/C03/Replay.v
package main

import (
	"io"
	"log"
	"os"
	"strconv"
	"strings"
	"sync"
	"time"

	. "verifharness/common"
	"verifharness/connsim"
)

func run(in Sx) Sx {
	obs, _ := connsim.RunIsolated(in)
	return obs
}

func main() {
	log.SetOutput(io.Discard)
	connsim.ChildMain()
	Main(run, gen)
}

type job struct {
	kind string
	cfg  connsim.Cfg
}

func gen(a Args, out *Out) {
	rng := NewRng(a.Seed)
	mult := 1
	if a.Thorough() {
		mult = 15
	}
	type genf func(*Rng) (string, connsim.Cfg)
	plan := []struct {
		n int
		f genf
	}{
		{30, connsim.GatedRandom},
		{25, connsim.GatedBacklog},
		{8, connsim.GatedInboundFull},
		{12, connsim.GatedReadError},
		{6, connsim.GatedSendVsTeardown},
		{6, connsim.GatedDoubleClose},
		{10, connsim.GatedOversizeBacklog},
		{8, connsim.GatedRefusedThenClose},
		{6, connsim.GatedReaderFirst},
		{10, connsim.GatedPartialFrameClose},
		{30, func(r *Rng) (string, connsim.Cfg) { return connsim.FreeStream(r, false) }},
		{10, func(r *Rng) (string, connsim.Cfg) { return connsim.FreeStream(r, true) }},
		{12, connsim.FreeRace},
		{10, connsim.FreeInbound},
		{14, connsim.FreeImmediate},
		{12, connsim.FreeOversizeTail},
		{12, connsim.WriteFail},
		{6, connsim.FreeUnreadInbound},
		{6, connsim.FreeLateInput},
		{3, connsim.FreeMidFrameTimeout},
		{3, connsim.FreeCoalesced},
		{8, connsim.FreeChunkedInbound},
		{4, connsim.FreeTransportBacklog},
		{5, connsim.FreeServerGC},
		{16, connsim.FreeEnv},
		{6, connsim.FreeReentrantConsumer},
		{6, connsim.FreePhases},
		{5, connsim.FreeZeroCapacities},
		{6, connsim.FreePartialFrameClose},
		{2, connsim.FreePeerPause},
		{2, connsim.FreeConsumerPause},
		{2, connsim.FreeSendDuringConsumerStall},
		{1, connsim.FreePeerPauseDefault},
	}
	var jobs []job
	var ins []Sx
	// VERIF_FOCUS_KINDS=kind1,kind2: spend the run on these generator classes only (used when a
	// correspondence broke on cases of these kinds: many varied cases near them instead of the
	// whole mix)
	focus := map[string]bool{}
	for _, k := range strings.Split(os.Getenv("VERIF_FOCUS_KINDS"), ",") {
		if k != "" {
			focus[k] = true
		}
	}
	rounds := 1
	if len(focus) > 0 {
		rounds = 12
	}
	for round := 0; round < rounds; round++ {
		for _, p := range plan {
			r := rng.Fork()
			for k := 0; k < p.n*mult; k++ {
				kind, c := p.f(r)
				if len(focus) > 0 && !focus[kind] {
					continue
				}
				jobs = append(jobs, job{kind, c})
				ins = append(ins, c.Sx())
			}
		}
	}
	rs := rng.Fork()
	for k := 0; k < 8*mult && (len(focus) == 0 || focus["server-multi"]); k++ {
		kind, in := connsim.ServerScenario(rs)
		jobs = append(jobs, job{kind, connsim.Cfg{Mode: 4}})
		ins = append(ins, in)
	}
	rr := rng.Fork()
	for k := 0; k < 10*mult && (len(focus) == 0 || focus["relay-v1"] || focus["relay-v2"]); k++ {
		kind, in := connsim.RelayScenario(rr)
		jobs = append(jobs, job{kind, connsim.Cfg{Mode: 5}})
		ins = append(ins, in)
	}
	// every case is recorded as soon as its scenario has completed (a run that is cut short still
	// carries what it found); no new scenario process is started once the budget is used up
	budget := 240 * time.Second
	if a.Thorough() {
		budget = 40 * time.Minute
	}
	var emu sync.Mutex
	emit := func(i int, r connsim.Result) {
		emu.Lock()
		defer emu.Unlock()
		j := jobs[i]
		c := j.cfg
		if c.Mode == 5 {
			out.Case(j.kind, true, ins[i], r.Obs)
			out.CountN("relayed-packets", ins[i].At(2).AsInt())
			for _, n := range r.Notes {
				out.Count("inconclusive-observation")
				out.Note("%s: inconclusive: %s", j.kind, n)
			}
			return
		}
		if c.Mode == 4 {
			out.Case(j.kind, true, ins[i], r.Obs)
			out.CountN("server-connections", ins[i].At(2).AsInt())
			for _, n := range r.Notes {
				out.Count("inconclusive-observation")
				out.Note("%s: inconclusive: %s", j.kind, n)
			}
			return
		}
		out.Case(j.kind, connsim.Nontrivial(c), ins[i], r.Obs)
		np := 0
		for _, s := range c.Senders {
			np += len(s)
			for _, p := range s {
				if p.Size >= 61427 {
					out.Count("packets-over-codec-limit")
				}
			}
		}
		out.CountN("packets-offered", np)
		out.CountN("inbound-frames-offered", len(c.Input))
		out.Count("codec:V" + strconv.Itoa(c.Codec))
		if c.Cipher {
			out.Count("cipher:on")
		} else {
			out.Count("cipher:off")
		}
		out.Count("ocap:" + strconv.Itoa(c.Ocap))
		for _, n := range r.Notes {
			switch {
			case strings.HasPrefix(n, "stuck:"):
				out.Count("stuck-state-established")
				out.Note("%s: %s", j.kind, n)
			case strings.HasPrefix(n, "crash:"):
				out.Count("scenario-process-crashed")
				out.Note("%s: %s", j.kind, n)
			default:
				out.Count("inconclusive-observation")
				out.Note("%s: inconclusive: %s", j.kind, n)
			}
		}
	}
	if notRun := connsim.RunStream(ins, budget, emit); notRun > 0 {
		out.CountN("scenarios-not-run-budget-exhausted", notRun)
		out.Note("the generator's time budget (%v) was used up: %d scenarios were not run", budget, notRun)
	}
}
