// C03 harness: one real qnet.TcpConn per scenario over loopback TCP, driven by
// verifharness/connsim (gated = serialized through the verifPoint gates, free = full speed).
// input    = scenario (see connsim.Cfg.Sx)
// observed = see coq/C03/Replay.v
package main

import (
	"io"
	"log"
	"strings"

	. "verifharness/common"
	"verifharness/connsim"
)

var lastNotes []string

func run(in Sx) Sx {
	obs, notes := connsim.Run(connsim.CfgOfSx(in))
	lastNotes = notes
	return obs
}

func main() {
	log.SetOutput(io.Discard)
	Main(run, gen)
}

func gen(a Args, out *Out) {
	rng := NewRng(a.Seed)
	mult := 1
	if a.Thorough() {
		mult = 15
	}
	emit := func(kind string, c connsim.Cfg) {
		in := c.Sx()
		obs := run(in)
		out.Case(kind, connsim.Nontrivial(c), in, obs)
		np := 0
		for _, s := range c.Senders {
			np += len(s)
		}
		out.CountN("packets-offered", np)
		out.CountN("inbound-frames-offered", len(c.Input))
		out.Count("codec:V" + string(rune('0'+c.Codec)))
		if c.Cipher {
			out.Count("cipher:on")
		} else {
			out.Count("cipher:off")
		}
		out.Count("ocap:" + itoa(c.Ocap))
		for _, n := range lastNotes {
			if strings.HasPrefix(n, "stuck:") {
				out.Count("stuck-state-established")
				out.Note("%s: %s", kind, n)
			} else {
				out.Count("inconclusive-observation")
				out.Note("%s: inconclusive: %s", kind, n)
			}
		}
	}
	type genf func(*Rng) (string, connsim.Cfg)
	plan := []struct {
		n int
		f genf
	}{
		{30, connsim.GatedRandom},
		{25, connsim.GatedBacklog},
		{8, connsim.GatedInboundFull},
		{12, connsim.GatedReadError},
		{6, connsim.GatedSendVsTeardown},
		{6, connsim.GatedDoubleClose},
		{30, func(r *Rng) (string, connsim.Cfg) { return connsim.FreeStream(r, false) }},
		{16, func(r *Rng) (string, connsim.Cfg) { return connsim.FreeStream(r, true) }},
		{12, connsim.FreeRace},
		{10, connsim.FreeInbound},
	}
	for _, p := range plan {
		r := rng.Fork()
		for k := 0; k < p.n*mult; k++ {
			kind, c := p.f(r)
			emit(kind, c)
		}
	}
}

func itoa(n int) string {
	if n == 0 {
		return "0"
	}
	s := ""
	neg := n < 0
	if neg {
		n = -n
	}
	for n > 0 {
		s = string(rune('0'+n%10)) + s
		n /= 10
	}
	if neg {
		s = "-" + s
	}
	return s
}
