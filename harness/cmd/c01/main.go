// C01 harness: wire codecs round trip and frame layout (codec/v1_*.go, v2_*.go, marshal.go,
// codec.go).
//
// input    (1 ver thrArg cipher keyseed (pkt ...) (chunk ...) mode)   a stream of frames; mode 0/2/4: ReadPacket,
// observed ((enc) (dec) (zip) (unzip) (wres ...) (rres ...))           1/3/5: ReadHeadBody + UnmarshalPacket (2,3: through bufio.Reader, 4,5: bufio of 64 bytes).  ALL
//            decoded packets are kept and looked at only after the whole stream (and a second pass over
//            it with the same codec) has been decoded
//            wres = (panicked ret err (#write ...) pkt_after crc_go)
//            rres = (panicked errkind pkt consumed wanted maxcap)
// input    (3 data (chunk ...))                                  WriteLenData / ReadLenData
// observed ((panicked ret err (#write ...)) (panicked errkind #data consumed wanted maxcap))
// input    (7 variant ver thrArg cipher keyseed pkt)              usage variants, evaluated here (observed: code, what;
// observed (code #what)                                          code 0 = fine, 4 = caller's data touched, 6 = round trip):
//            1 body is a sub-slice of a larger buffer (neighbours, spare capacity)   2 relay: decode, re-encode the
//            decoded packet with the other codec   3 decode into a used packet after Reset()   4 written in clear,
//            read by a reader holding a decryptor   5 UnmarshalPacket on sub-slices of one buffer   6 header accessors
//            7 two codecs decoding two streams alternately, GC in between, packets compared at the end
//            8 a protobuf body changed between encodes of the same packet object
// input    (8 ver thrArg cipher keyseed pkt k)                    WritePacket into a writer that fails after k bytes,
// observed ((enc) (zip) wres accepted wfailed wres2)             then the same packet (fresh object) into a good writer
// input    (9 data k)                                            WriteLenData into such a writer
// observed (panicked ret err (#write ...) accepted wfailed)
// input    (4 ver nref bodylen seed thrArg [pattern])            frame-size / reference-count limit probe:
// observed (panicked ret err nbytes nwrites decoded)             a packet with nref references and an
//                                                                incompressible body of bodylen bytes (regenerated
//                                                                from the seed), no cipher, thrArg >= bodylen so that
//                                                                nothing is compressed; only sizes are recorded, so
//                                                                that frames of 8 MiB stay out of the case file
package main

import (
	"bufio"
	"bytes"
	"hash/crc32"
	"io"
	"log"
	"math"
	"runtime"
	"sync"

	"google.golang.org/protobuf/proto"
	"google.golang.org/protobuf/types/known/wrapperspb"
	"qchen.fun/fatchoy"
	"qchen.fun/fatchoy/codec"
	"qchen.fun/fatchoy/packet"
	"qchen.fun/fatchoy/x/cipher"
	. "verifharness/c01lib"
	. "verifharness/common"
)

// recWriter records every Write call
type recWriter struct{ writes [][]byte }

func (w *recWriter) Write(p []byte) (int, error) {
	w.writes = append(w.writes, append([]byte(nil), p...))
	return len(p), nil
}
func (w *recWriter) all() []byte {
	var b []byte
	for _, x := range w.writes {
		b = append(b, x...)
	}
	return b
}
func writesSx(ws [][]byte) Sx {
	l := make([]Sx, len(ws))
	for i, x := range ws {
		l[i] = Bytes(x)
	}
	return ListOf(l)
}

func sizesOf(s Sx) []int {
	r := make([]int, s.Len())
	for i := range r {
		r[i] = s.At(i).AsInt()
	}
	return r
}

var bodyRewritten int

func runStream(in Sx) Sx {
	ver, thr, cidx, keyseed := in.At(1).AsInt(), in.At(2).AsInt(), in.At(3).AsInt(), in.At(4).Uint64()
	pkts, sizes := in.At(5), sizesOf(in.At(6))
	enc := NewEncoder(ver, thr)
	rec := NewRecorder(NewCipher(cidx, keyseed))
	zipT, unzipT := NewTable(), NewTable()
	var wres []Sx
	var stream []byte
	for i := 0; i < pkts.Len(); i++ {
		p := PacketFromSx(pkts.At(i))
		var body []byte
		if pb, _ := Catch(func() { body = append([]byte(nil), p.BodyToBytes()...) }); !pb {
			if t := EffThreshold(ver, thr); len(body) > t {
				AddZip(zipT, body)
			}
		}
		w := &recWriter{}
		var n int
		var err error
		panicked, _ := Catch(func() { n, err = enc.WritePacket(w, rec.AsCryptor(), p) })
		if bb, ok := p.Body_.([]byte); ok && !bytes.Equal(bb, body) {
			bodyRewritten++ // in-place encryption changed the caller's body slice (outside the statement)
		}
		frame := w.all()
		wres = append(wres, List(Bool(panicked), Int(int64(n)), Bool(err != nil), writesSx(w.writes),
			PacketSx(p, List(Int(0))), Uint(uint64(crc32.ChecksumIEEE(frame)))))
		stream = append(stream, frame...)
	}
	// read everything back through a second cipher object built from the same key
	decRec := NewRecorder(NewCipher(cidx, keyseed))
	r := NewChunkReader(stream, sizes)
	var rres []Sx
	nframes := 0
	for _, w := range wres {
		if !w.At(1+1).AsBool() && !w.At(0).AsBool() {
			nframes++
		}
	}
	// oracle entries for zlib on the decode side: the wire body of every frame whose flag has
	// the compressed bit (no cipher), resp. whatever Decrypt returned
	pos := 0
	for _, w := range wres {
		ws := w.At(3)
		var frame []byte
		for j := 0; j < ws.Len(); j++ {
			frame = append(frame, ws.At(j).AsBytes()...)
		}
		// (an empty body too: a frame flagged compressed is handed to zlib whatever its length)
		if b, c := WireBody(ver, frame); c && len(frame) >= HeaderSize(ver) {
			AddUnzip(unzipT, b)
		}
		pos += len(frame)
	}
	mode := 0
	if in.Len() > 7 {
		mode = in.At(7).AsInt()
	}
	// decode everything first, keep every packet, look at them afterwards
	type kept struct {
		pn, kind, pos, wanted, maxcap int
		pkt                          *packet.Packet
	}
	var keep []kept
	// modes 2..5: the same through a bufio.Reader (what a connection uses), default size and small
	var rd io.Reader = r
	var br *bufio.Reader
	switch mode {
	case 2, 3:
		br = bufio.NewReader(r)
	case 4, 5:
		br = bufio.NewReaderSize(r, 64)
	}
	if br != nil {
		rd = br
	}
	for i := 0; i < nframes+1; i++ {
		before := len(decRec.Dec.Keys())
		k := readOne(enc, rd, decRec.AsCryptor(), mode)
		for _, d := range decRec.Dec.Vals()[before:] {
			AddUnzip(unzipT, d)
		}
		if br != nil {
			// the decoder's position is the reader's minus what bufio holds; what it asked of
			// the underlying reader is bufio's business (-1: not compared)
			keep = append(keep, kept{k.pn, k.kind, r.Pos - br.Buffered(), -1, -1, k.pkt})
		} else {
			keep = append(keep, kept{k.pn, k.kind, r.Pos, r.Wanted - r.Start, r.MaxCap, k.pkt})
		}
	}
	// a second pass over the same bytes with the same codec (packets thrown away): decoding more
	// frames must not disturb the packets already handed out
	{
		r2 := NewChunkReader(stream, nil)
		c2 := NewCipher(cidx, keyseed)
		for i := 0; i < nframes; i++ {
			readOne(enc, r2, c2, 1-mode%2)
		}
	}
	for _, k := range keep {
		rres = append(rres, List(Int(int64(k.pn)), Int(int64(k.kind)), PacketSx(k.pkt, BodyToSx(k.pkt.Body_)),
			Int(int64(k.pos)), Int(int64(k.wanted)), Int(int64(k.maxcap))))
	}
	return List(rec.Enc.Sx(), decRec.Dec.Sx(), zipT.Sx(), unzipT.OSx(), ListOf(wres), ListOf(rres))
}

type oneRead struct {
	pn, kind int
	pkt      *packet.Packet
}

// readOne: one frame into a fresh packet, by ReadPacket (mode 0) or ReadHeadBody+UnmarshalPacket
func readOne(enc codec.Encoder, r io.Reader, dec cipher.BlockCryptor, mode int) oneRead {
	if cr, ok := r.(*ChunkReader); ok {
		cr.Begin()
	}
	pkt := packet.Make()
	var err error
	var p bool
	if mode%2 == 0 {
		p, _ = Catch(func() { err = enc.ReadPacket(r, dec, pkt) })
	} else {
		p, _ = Catch(func() {
			var head, body []byte
			if head, body, err = enc.ReadHeadBody(r); err == nil {
				err = enc.UnmarshalPacket(head, body, dec, pkt)
			}
		})
	}
	o := oneRead{kind: ErrKind(err), pkt: pkt}
	if p {
		o.pn = 1
	}
	return o
}

// ---------------------------------------------------------------------------------------
// (5 thrArg cipher keyseed pkt (ver ...))   the SAME packet object encoded once per listed codec version
// observed ((enc) (dec) (zip) (unzip) ((wres rres) ...))   each frame decoded into a fresh packet
func runReencode(in Sx) Sx {
	thr, cidx, keyseed := in.At(1).AsInt(), in.At(2).AsInt(), in.At(3).Uint64()
	vers := in.At(5)
	p := PacketFromSx(in.At(4))
	rec := NewRecorder(NewCipher(cidx, keyseed))
	decRec := NewRecorder(NewCipher(cidx, keyseed))
	zipT, unzipT := NewTable(), NewTable()
	var body []byte
	if pb, _ := Catch(func() { body = append([]byte(nil), p.BodyToBytes()...) }); !pb {
		AddZip(zipT, body)
	}
	var rounds []Sx
	for i := 0; i < vers.Len(); i++ {
		ver := vers.At(i).AsInt()
		enc := NewEncoder(ver, thr)
		w := &recWriter{}
		var n int
		var err error
		panicked, _ := Catch(func() { n, err = enc.WritePacket(w, rec.AsCryptor(), p) })
		frame := w.all()
		wr := List(Bool(panicked), Int(int64(n)), Bool(err != nil), writesSx(w.writes),
			PacketSx(p, List(Int(0))), Uint(uint64(crc32.ChecksumIEEE(frame))))
		if b, c := WireBody(ver, frame); c && len(frame) >= HeaderSize(ver) {
			AddUnzip(unzipT, b)
		}
		r := NewChunkReader(frame, nil)
		before := len(decRec.Dec.Keys())
		k := readOne(enc, r, decRec.AsCryptor(), i%2)
		for _, d := range decRec.Dec.Vals()[before:] {
			AddUnzip(unzipT, d)
		}
		rr := List(Int(int64(k.pn)), Int(int64(k.kind)), PacketSx(k.pkt, BodyToSx(k.pkt.Body_)),
			Int(int64(r.Pos)), Int(int64(r.Wanted-r.Start)), Int(int64(r.MaxCap)))
		rounds = append(rounds, List(Int(int64(ver)), wr, rr))
	}
	return List(rec.Enc.Sx(), decRec.Dec.Sx(), zipT.Sx(), unzipT.OSx(), ListOf(rounds))
}

// ---------------------------------------------------------------------------------------
// (6 ver thrArg workers iters seed)   concurrent use of ONE codec instance: every worker encodes its
// observed (frames failures first)     own packets into a private buffer and decodes them again
// (codec instances are shared by the writer pumps of all connections); no cipher.
func runStress(in Sx) Sx {
	ver, thr, workers, iters, seed := in.At(1).AsInt(), in.At(2).AsInt(), in.At(3).AsInt(), in.At(4).AsInt(), in.At(5).Uint64()
	enc := NewEncoder(ver, thr)
	type res struct {
		frames, fails int
		first         string
	}
	out := make([]res, workers)
	var wg sync.WaitGroup
	for wk := 0; wk < workers; wk++ {
		wg.Add(1)
		go func(wk int) {
			defer wg.Done()
			rng := NewRng(seed*1000 + uint64(wk))
			for it := 0; it < iters; it++ {
				n := rng.PickInt(0, 1, 50, 300, 5000, 9000, 20000, rng.Intn(12000))
				mask := byte(rng.PickInt(255, 3, 1, 0))
				body := GenBytes(uint32(rng.Next())|1, n, mask)
				p := packet.Make()
				p.Cmd, p.Seq_, p.Flg, p.Type_, p.Node_ = int32(rng.Next()), uint16(rng.Next()), 0x20, 1, fatchoy.NodeID(uint32(rng.Next()))
				p.Body_ = append([]byte(nil), body...)
				var w bytes.Buffer
				var err error
				pn, _ := Catch(func() { _, err = enc.WritePacket(&w, nil, p) })
				out[wk].frames++
				bad := ""
				if pn || err != nil {
					if n+24 <= codec.V1MaxPayloadBytes {
						bad = "write failed"
					}
				} else {
					q := packet.Make()
					pr, _ := Catch(func() { err = enc.ReadPacket(&w, nil, q) })
					var got []byte
					if q.Body_ != nil {
						got, _ = q.Body_.([]byte)
					}
					switch {
					case pr || err != nil:
						bad = "read failed"
					case q.Cmd != p.Cmd || q.Seq_ != p.Seq_ || q.Flg != 0x20 || !bytes.Equal(got, body):
						bad = "packet differs"
					}
				}
				if bad != "" {
					out[wk].fails++
					if out[wk].first == "" {
						out[wk].first = bad
					}
				}
			}
		}(wk)
	}
	wg.Wait()
	frames, fails, first := 0, 0, ""
	for _, r := range out {
		frames += r.frames
		fails += r.fails
		if first == "" {
			first = r.first
		}
	}
	return List(Int(int64(frames)), Int(int64(fails)), Str(first))
}

func runLenData(in Sx) Sx {
	data, sizes := DataFromSx(in.At(1)), sizesOf(in.At(2))
	w := &recWriter{}
	var n int
	var err error
	wp, _ := Catch(func() { n, err = codec.WriteLenData(w, data) })
	sent := w.all()
	r := NewChunkReader(sent, sizes)
	r.Begin()
	var got []byte
	var rerr error
	rp, _ := Catch(func() { got, rerr = codec.ReadLenData(r) })
	return List(List(Bool(wp), Int(int64(n)), Bool(err != nil), writesSx(w.writes)),
		List(Bool(rp), Int(int64(ErrKind(rerr))), Bytes(got), Int(int64(r.Pos)), Int(int64(r.Wanted-r.Start)), Int(int64(r.MaxCap))))
}

// countWriter keeps the bytes (for reading back) and counts the Write calls
type countWriter struct {
	b      []byte
	nwrite int
}

func (w *countWriter) Write(p []byte) (int, error) {
	w.b = append(w.b, p...)
	w.nwrite++
	return len(p), nil
}

// body patterns of the limit / size probes: 0 pseudo-random (incompressible), 1 zeros,
// 2 one 16-byte row repeated
func patternBody(seed uint64, n, pat int) []byte {
	switch pat {
	case 1:
		return make([]byte, n)
	case 2:
		row := GenBytes(uint32(seed)|1, 16, 255)
		b := make([]byte, n)
		for i := range b {
			b[i] = row[i%16]
		}
		return b
	}
	return GenBytes(uint32(seed)|1, n, 255)
}

func limitPacket(ver, nref, bodylen int, seed uint64, pat int) *packet.Packet {
	rng := NewRng(seed)
	p := packet.Make()
	p.Cmd = int32(rng.Next())
	p.Seq_ = uint16(rng.Next())
	p.Flg = 0x20
	p.Type_ = 2
	p.Node_ = 0x01020304
	for i := 0; i < nref; i++ {
		p.AddRefers(fatchoy.NodeID(uint32(rng.Next())))
	}
	if bodylen > 0 {
		p.Body_ = patternBody(seed, bodylen, pat)
	}
	return p
}

func runLimit(in Sx) Sx {
	ver, nref, bodylen, seed, thr := in.At(1).AsInt(), in.At(2).AsInt(), in.At(3).AsInt(), in.At(4).Uint64(), in.At(5).AsInt()
	pat := 0
	if in.Len() > 6 {
		pat = in.At(6).AsInt()
	}
	p := limitPacket(ver, nref, bodylen, seed, pat)
	orig := limitPacket(ver, nref, bodylen, seed, pat)
	enc := NewEncoder(ver, thr)
	w := &countWriter{}
	var n int
	var err error
	panicked, _ := Catch(func() { n, err = enc.WritePacket(w, nil, p) })
	decoded := false
	if !panicked && err == nil {
		frameLen := len(w.b)
		r := NewChunkReader(append(w.b, 1, 2, 3), nil)
		q := packet.Make()
		var rerr error
		if pn, _ := Catch(func() { rerr = enc.ReadPacket(r, nil, q) }); !pn && rerr == nil && r.Pos == frameLen {
			var got, want []byte
			if q.Body_ != nil {
				got = q.BodyToBytes()
			}
			if orig.Body_ != nil {
				want = orig.BodyToBytes()
			}
			decoded = q.Cmd == orig.Cmd && q.Seq_ == orig.Seq_ && q.Flg == orig.Flg && bytes.Equal(got, want)
			if ver == 2 {
				decoded = decoded && q.Type_ == orig.Type_ && q.Node_ == orig.Node_ && len(q.Refers_) == len(orig.Refers_)
				for i := range q.Refers_ {
					decoded = decoded && i < len(orig.Refers_) && q.Refers_[i] == orig.Refers_[i]
				}
			}
		}
	}
	return List(Bool(panicked), Int(int64(n)), Bool(err != nil), Int(int64(len(w.b))), Int(int64(w.nwrite)), Bool(decoded))
}

func samePacket(ver int, orig, q *packet.Packet, want []byte) bool {
	var got []byte
	if q.Body_ != nil {
		if pb, _ := Catch(func() { got = q.BodyToBytes() }); pb {
			return false
		}
	}
	if q.Cmd != orig.Cmd || q.Seq_ != orig.Seq_ || q.Flg != orig.Flg&^3 || !bytes.Equal(got, want) {
		return false
	}
	if ver == 2 {
		if q.Type_ != orig.Type_ || q.Node_ != orig.Node_ || len(q.Refers_) != len(orig.Refers_) {
			return false
		}
		for i := range q.Refers_ {
			if q.Refers_[i] != orig.Refers_[i] {
				return false
			}
		}
	}
	return true
}

func runVariant(in Sx) Sx {
	variant, ver, thr, cidx, keyseed := in.At(1).AsInt(), in.At(2).AsInt(), in.At(3).AsInt(), in.At(4).AsInt(), in.At(5).Uint64()
	res := func(code int, what string) Sx { return List(Int(int64(code)), Str(what)) }
	orig := PacketFromSx(in.At(6))
	var want []byte
	if orig.Body_ != nil {
		want = append([]byte(nil), orig.BodyToBytes()...)
	}
	enc := NewEncoder(ver, thr)
	other := NewEncoder(3-ver, thr)
	encode := func(e codec.Encoder, p *packet.Packet, c int) ([]byte, bool) {
		var w bytes.Buffer
		var err error
		pn, _ := Catch(func() { _, err = e.WritePacket(&w, NewCipher(c, keyseed), p) })
		return w.Bytes(), !pn && err == nil
	}
	decode := func(e codec.Encoder, frame []byte, c int, into *packet.Packet) bool {
		var err error
		pn, _ := Catch(func() { err = e.ReadPacket(bytes.NewReader(frame), NewCipher(c, keyseed), into) })
		return !pn && err == nil
	}
	switch variant {
	case 1: // the body is a window of a larger buffer
		b, ok := orig.Body_.([]byte)
		if !ok {
			return res(0, "")
		}
		spare := int(keyseed % 5 * 7)
		big := make([]byte, 8+len(b)+spare+8)
		for i := range big {
			big[i] = 0xA5
		}
		copy(big[8:], b)
		p := PacketFromSx(in.At(6))
		p.Body_ = big[8 : 8+len(b) : 8+len(b)+spare]
		frame, okw := encode(enc, p, cidx)
		for i := 0; i < 8; i++ {
			if big[i] != 0xA5 || big[len(big)-1-i] != 0xA5 {
				return res(4, "bytes next to the body window changed")
			}
		}
		for i := 8 + len(b); i < len(big); i++ {
			if big[i] != 0xA5 {
				return res(4, "spare capacity behind the body changed")
			}
		}
		q := packet.Make()
		if okw && (!decode(enc, frame, cidx, q) || !samePacket(ver, orig, q, want)) {
			return res(6, "sub-slice body did not round-trip")
		}
	case 2: // relay
		frame, okw := encode(enc, PacketFromSx(in.At(6)), cidx)
		if !okw {
			return res(0, "")
		}
		q := packet.Make()
		if !decode(enc, frame, cidx, q) {
			return res(6, "first hop did not decode")
		}
		q.Type_, q.Node_, q.Refers_ = orig.Type_, orig.Node_, orig.Refers_ // a V1 hop does not carry them
		frame2, ok2 := encode(other, q, 0)
		r := packet.Make()
		if ok2 && (!decode(other, frame2, 0, r) || !samePacket(3-ver, orig, r, want)) {
			return res(6, "relayed packet differs")
		}
	case 3: // a used packet after Reset
		frame, okw := encode(enc, PacketFromSx(in.At(6)), cidx)
		if !okw {
			return res(0, "")
		}
		used := packet.Make()
		filler := packet.Make()
		filler.Cmd, filler.Seq_, filler.Flg, filler.Type_, filler.Node_ = 7, 8, 0x30, 3, 99
		filler.AddRefers(1, 2, 3)
		filler.Body_ = int64(-5)
		f0, _ := encode(NewEncoder(2, 0), filler, 0)
		decode(NewEncoder(2, 0), f0, 0, used)
		used.Reset()
		if !decode(enc, frame, cidx, used) || !samePacket(ver, orig, used, want) {
			return res(6, "decode into a Reset packet differs")
		}
	case 4: // written in clear, the reader holds a decryptor
		frame, okw := encode(enc, PacketFromSx(in.At(6)), 0)
		q := packet.Make()
		c := cidx
		if c == 0 {
			c = 1
		}
		if okw && (!decode(enc, frame, c, q) || !samePacket(ver, orig, q, want)) {
			return res(6, "clear frame not readable by a reader with a decryptor")
		}
	case 5: // UnmarshalPacket on windows of one buffer
		frame, okw := encode(enc, PacketFromSx(in.At(6)), cidx)
		if !okw {
			return res(0, "")
		}
		hs := HeaderSize(ver)
		big := make([]byte, 5+len(frame)+9)
		for i := range big {
			big[i] = 0x5A
		}
		copy(big[5:], frame)
		q := packet.Make()
		var err error
		pn, _ := Catch(func() { err = enc.UnmarshalPacket(big[5:5+hs:5+hs], big[5+hs:5+len(frame)], NewCipher(cidx, keyseed), q) })
		if pn || err != nil || !samePacket(ver, orig, q, want) {
			return res(6, "UnmarshalPacket on sub-slices differs")
		}
		for i := 0; i < 5; i++ {
			if big[i] != 0x5A {
				return res(4, "bytes before the header window changed")
			}
		}
		for i := 5 + len(frame); i < len(big); i++ {
			if big[i] != 0x5A {
				return res(4, "bytes behind the payload window changed")
			}
		}
	case 6: // header accessors and codec constants
		p := PacketFromSx(in.At(6))
		frame, okw := encode(enc, p, cidx)
		if !okw {
			return res(0, "")
		}
		if enc.Version() != ver || enc.Name() != []string{"", "V1", "V2"}[ver] || codec.GetEncoder(enc.Name()) == nil || codec.GetEncoder(enc.Name()).Version() != ver {
			return res(6, "Version/Name/registry")
		}
		bad := false
		pn, _ := Catch(func() {
			if ver == 1 {
				h := codec.V1Header(frame[:codec.V1HeaderSize])
				bad = int(h.Len()) != len(frame) || h.Type() != byte(p.Type_) || h.Flag() != byte(p.Flg) || h.Seq() != p.Seq_ ||
					h.Command() != p.Cmd || h.Checksum() != h.CalcChecksum(frame[codec.V1HeaderSize:]) || len(h.MD5Sum()) != 32
			} else {
				h := codec.V2Header(frame[:codec.V2HeaderSize])
				bad = int(h.Len()) != len(frame) || h.Type() != byte(p.Type_) || h.Flag() != byte(p.Flg) || int(h.RefCount()) != len(p.Refers_) ||
					h.Seq() != p.Seq_ || h.Node() != p.Node_ || h.Command() != p.Cmd ||
					h.Checksum() != h.CalcChecksum(nil, frame[codec.V2HeaderSize:]) || len(h.MD5Sum()) != 32
			}
		})
		if pn || bad {
			return res(6, "header accessors disagree with the packet")
		}
	case 8: // a protobuf body changed between two encodes of the same packet: the wire carries the
		// message as it is at encode time (with and without cipher, same and other codec)
		p := PacketFromSx(in.At(6))
		msg, ok := p.Body_.(*wrapperspb.BytesValue)
		if !ok {
			return res(0, "")
		}
		for round, e := range []codec.Encoder{enc, enc, other} {
			if round > 0 {
				msg.Value = append(append([]byte(nil), msg.Value...), byte(round), 0xEE)
				if round == 2 && len(msg.Value) > 3 {
					msg.Value = msg.Value[2:]
				}
			}
			now, _ := proto.Marshal(msg)
			frame, okw := encode(e, p, cidx)
			if !okw {
				return res(0, "")
			}
			q := packet.Make()
			v := ver
			if round == 2 {
				v = 3 - ver
			}
			if !decode(e, frame, cidx, q) || !samePacket(v, orig, q, now) {
				return res(6, "protobuf body: the frame does not carry the message as it was at encode time")
			}
		}
	case 7: // two codecs, two streams, alternately; GC in between; compare at the end
		var sa, sb []byte
		var pa, pb []*packet.Packet
		for i := 0; i < 6; i++ {
			p := PacketFromSx(in.At(6))
			p.Seq_ += uint16(i)
			if b, ok := p.Body_.([]byte); ok && len(b) > 0 {
				b[0] ^= byte(i)
			}
			o := p.Clone().(*packet.Packet)
			o.Type_, o.Node_ = p.Type_, p.Node_
			if b, ok := p.Body_.([]byte); ok {
				o.Body_ = append([]byte(nil), b...)
			}
			if i%2 == 0 {
				f, ok := encode(enc, p, 0)
				if !ok {
					return res(0, "")
				}
				sa, pa = append(sa, f...), append(pa, o)
			} else {
				f, ok := encode(other, p, 0)
				if !ok {
					return res(0, "")
				}
				sb, pb = append(sb, f...), append(pb, o)
			}
		}
		ra, rb := bufio.NewReader(bytes.NewReader(sa)), bufio.NewReader(bytes.NewReader(sb))
		var qa, qb []*packet.Packet
		for i := 0; i < 3; i++ {
			q1, q2 := packet.Make(), packet.Make()
			var e1, e2 error
			Catch(func() { e1 = enc.ReadPacket(ra, nil, q1) })
			runtime.GC()
			Catch(func() { e2 = other.ReadPacket(rb, nil, q2) })
			if e1 != nil || e2 != nil {
				return res(6, "interleaved decode failed")
			}
			qa, qb = append(qa, q1), append(qb, q2)
		}
		runtime.GC()
		for i := 0; i < 3; i++ {
			wa, wb := []byte(nil), []byte(nil)
			if pa[i].Body_ != nil {
				wa = pa[i].BodyToBytes()
			}
			if pb[i].Body_ != nil {
				wb = pb[i].BodyToBytes()
			}
			if !samePacket(ver, pa[i], qa[i], wa) || !samePacket(3-ver, pb[i], qb[i], wb) {
				return res(6, "packets of two interleaved streams differ at the end")
			}
		}
	}
	return res(0, "")
}

// limWriter accepts k bytes in all; a Write that does not fit takes what fits and fails
type limWriter struct {
	left     int
	calls    [][]byte
	accepted int
	failed   bool
}

func (w *limWriter) Write(p []byte) (int, error) {
	w.calls = append(w.calls, append([]byte(nil), p...))
	if len(p) <= w.left {
		w.left -= len(p)
		w.accepted += len(p)
		return len(p), nil
	}
	n := w.left
	w.left = 0
	w.accepted += n
	w.failed = true
	return n, io.ErrShortWrite
}

func runFailingWriter(in Sx) Sx {
	ver, thr, cidx, keyseed, k := in.At(1).AsInt(), in.At(2).AsInt(), in.At(3).AsInt(), in.At(4).Uint64(), in.At(6).AsInt()
	enc := NewEncoder(ver, thr)
	rec := NewRecorder(NewCipher(cidx, keyseed))
	zipT := NewTable()
	one := func(w io.Writer, calls func() [][]byte) Sx {
		p := PacketFromSx(in.At(5))
		if pb, _ := Catch(func() { AddZip(zipT, append([]byte(nil), p.BodyToBytes()...)) }); pb {
			_ = pb
		}
		var n int
		var err error
		panicked, _ := Catch(func() { n, err = enc.WritePacket(w, rec.AsCryptor(), p) })
		var all []byte
		for _, c := range calls() {
			all = append(all, c...)
		}
		return List(Bool(panicked), Int(int64(n)), Bool(err != nil), writesSx(calls()), PacketSx(p, List(Int(0))), Uint(uint64(crc32.ChecksumIEEE(all))))
	}
	lw := &limWriter{left: k}
	w1 := one(lw, func() [][]byte { return lw.calls })
	good := &recWriter{}
	w2 := one(good, func() [][]byte { return good.writes }) // a later packet on a fresh writer
	return List(rec.Enc.Sx(), zipT.Sx(), w1, Int(int64(lw.accepted)), Bool(lw.failed), w2)
}

func runFailingLenData(in Sx) Sx {
	data, k := DataFromSx(in.At(1)), in.At(2).AsInt()
	lw := &limWriter{left: k}
	var n int
	var err error
	p, _ := Catch(func() { n, err = codec.WriteLenData(lw, data) })
	return List(Bool(p), Int(int64(n)), Bool(err != nil), writesSx(lw.calls), Int(int64(lw.accepted)), Bool(lw.failed))
}

func run(in Sx) Sx {
	switch in.At(0).Int64() {
	case 1:
		return runStream(in)
	case 3:
		return runLenData(in)
	case 4:
		return runLimit(in)
	case 7:
		return runVariant(in)
	case 8:
		return runFailingWriter(in)
	case 9:
		return runFailingLenData(in)
	case 5:
		return runReencode(in)
	case 6:
		return runStress(in)
	}
	panic("c01: unknown case " + in.String())
}

func main() {
	log.SetOutput(io.Discard)
	Main(run, gen)
}

// ---------------------------------------------------------------------------------------
// generators

type pktSpec struct {
	sx      Sx
	bodyLen int
}

var thrArgs = []int{0, 0, -1, 1, 16, 100, 4096, 8192, 1 << 24}

func genPacket(rng *Rng, ver, thr int, bodyLen int, kindHint int, out *Out) (Sx, string) {
	cmd := rng.PickI64(0, 1, -1, math.MinInt32, math.MaxInt32, 1234, int64(int32(rng.Next())), int64(int32(rng.Next())))
	seq := rng.PickI64(0, 1, 65535, int64(rng.Intn(65536)), int64(rng.Intn(65536)))
	flag := int64(0)
	for _, b := range []int64{0x04, 0x08, 0x20, 0x40, 0x80} {
		if rng.Chance(1, 4) {
			flag |= b
		}
	}
	typ := rng.PickI64(0, 1, 2, -1, -128, 127, int64(int8(rng.Next())))
	node := rng.PickU64(0, 1, 0xFFFFFFFF, 0x80000000, uint64(uint32(rng.Next())), uint64(uint32(rng.Next())))
	nref := rng.PickInt(0, 0, 0, 1, 2, 3, rng.Intn(20), rng.Intn(256))
	if rng.Chance(1, 40) {
		nref = rng.PickInt(255, 256, 300)
	}
	kind := "plain"
	if nref > 255 {
		kind = "refs>255"
		out.Count("refs>255")
	} else if nref == 255 {
		out.Count("refs=255")
	}
	refs := make([]Sx, nref)
	for i := range refs {
		refs[i] = Uint(rng.PickU64(0, 0xFFFFFFFF, uint64(uint32(rng.Next())), uint64(uint32(rng.Next()))))
	}
	var body Sx
	bk := kindHint
	if bk < 0 {
		bk = rng.PickInt(0, 1, 1, 1, 2, 3, 4, 5, 5, 9, 10)
	}
	if (bk == 1 || bk == 2) && bodyLen == 0 && rng.Bool() {
		bk += 6 // typed nil []byte / empty string instead of an empty non-nil slice
	}
	switch bk {
	case 7, 8:
		body = List(Int(int64(bk)))
		kind = "nilbody"
	case 0:
		body = List(Int(0))
		kind = "nilbody"
	case 1, 2, 5:
		mask := byte(rng.PickInt(255, 255, 3, 0))
		var d Sx
		d, _ = DataSx(uint32(rng.Next()), bodyLen, mask, 65)
		if d.Kind == 'b' {
			if bk == 2 {
				body = List(Int(2), d)
			} else {
				body = List(Int(1), d)
			}
		} else {
			body = d
		}
		if mask != 255 && bodyLen > 64 {
			out.Count("body:compressible")
		}
	case 9, 10: // a protobuf message (wrapperspb.BytesValue / StringValue); the string one ASCII
		mask := byte(255)
		if bk == 10 {
			mask = 0x7f
		}
		d, _ := DataSx(uint32(rng.Next()), bodyLen, mask, 65)
		body = List(Int(int64(bk)), d)
		out.Count("body:protobuf")
	case 3:
		v := rng.PickI64(0, 1, -1, 63, 64, -64, -65, math.MaxInt64, math.MinInt64, int64(rng.Next()), int64(rng.Next())>>uint(rng.Intn(64)))
		body = List(Int(3), Int(v))
		if rng.Chance(1, 2) {
			flag |= 0x10 // error flag with an integer body
			out.Count("errflag+int")
		}
	case 4:
		body = List(Int(4), Uint(rng.PickU64(0, math.Float64bits(1.5), math.Float64bits(-0.0), math.Float64bits(math.Inf(1)), rng.Next())))
	}
	if rng.Chance(1, 30) {
		// marshalling bits already set by the caller, or error flag on a non-integer body:
		// outside the round-trip premise, still compared with the model
		if rng.Bool() {
			flag |= int64(rng.PickInt(1, 2, 3))
			kind = "preset-bits"
		} else if bk != 3 {
			flag |= 0x10
			kind = "errflag-nonint"
		}
	}
	return List(Int(cmd), Int(seq), Int(flag), Int(typ), Uint(node), ListOf(refs), body), kind
}

func genSizes(rng *Rng, approx int) Sx {
	var l []Sx
	switch rng.Intn(6) {
	case 0: // everything at once
	case 1: // one byte per read (small streams only)
		n := approx + 8
		if n > 700 {
			n = 700
		}
		for i := 0; i < n; i++ {
			l = append(l, Int(1))
		}
	case 2:
		for i := 0; i < 40; i++ {
			l = append(l, Int(int64(rng.Range(1, 50))))
		}
	case 3: // cut exactly behind / inside headers
		l = append(l, Int(int64(rng.PickInt(13, 14, 15, 19, 20, 21, 2, 3))), Int(int64(rng.Range(0, 30))), Int(int64(rng.Range(1, 5000))))
	case 4: // with empty reads
		for i := 0; i < 30; i++ {
			l = append(l, Int(int64(rng.PickInt(0, 1, 2, 7, 100))))
		}
	case 5:
		for i := 0; i < 20; i++ {
			l = append(l, Int(int64(rng.Range(1, 20000))))
		}
	}
	return ListOf(l)
}

func bodyLens(rng *Rng, ver, thr int) int {
	t := EffThreshold(ver, thr)
	switch rng.Intn(10) {
	case 0, 1, 2, 3:
		return rng.Intn(33)
	case 4, 5:
		if t <= 100 || (t < 20000 && rng.Chance(1, 4)) {
			return rng.PickInt(t-1, t, t+1, t+2)
		}
		return rng.Intn(200)
	case 6:
		return rng.Intn(600)
	case 7:
		return rng.PickInt(0, 1, 7, 8, 9, 15, 16, 17, 63, 64, 65, 127, 128, 129)
	default:
		return rng.Intn(1500)
	}
}

func gen(a Args, out *Out) {
	rng := NewRng(a.Seed)
	nstream, nlen, nsweep := 500, 120, 4000
	if a.Thorough() {
		nstream, nlen, nsweep = 6000, 1500, 60000
	}
	emit := func(kind string, in Sx) {
		if !Focus(kind) {
			return
		}
		if in.At(0).Int64() == 1 && in.Len() == 7 {
			// how the stream is read back: ReadPacket, or ReadHeadBody + UnmarshalPacket
			in = ListOf(append(append([]Sx(nil), in.L...), Int(int64(rng.Intn(6)))))
		}
		out.Case(kind, true, in, run(in))
	}
	// 1. streams of 1..3 frames
	for i := 0; i < nstream; i++ {
		ver := rng.PickInt(1, 2)
		thr := thrArgs[rng.Intn(len(thrArgs))]
		cidx := rng.PickInt(0, 0, rng.Intn(len(CipherNames)), rng.Intn(len(CipherNames)))
		k := rng.PickInt(1, 1, 2, 3)
		var ps []Sx
		kind := "plain"
		approx := 0
		for j := 0; j < k; j++ {
			bl := bodyLens(rng, ver, thr)
			p, kd := genPacket(rng, ver, thr, bl, -1, out)
			if kd != "plain" && kind != "nilbody" {
				kind = kd
			}
			approx += bl + 24
			ps = append(ps, p)
			switch t := EffThreshold(ver, thr); {
			case bl == 0:
				out.Count("bodylen:0")
			case bl >= t-1 && bl <= t+2:
				out.Count("bodylen:threshold+-1")
			case bl <= 64:
				out.Count("bodylen:1..64")
			case bl <= 1024:
				out.Count("bodylen:65..1024")
			default:
				out.Count("bodylen:>1024")
			}
		}
		out.Count("ver:" + string(rune('0'+ver)))
		out.Count("cipher:" + CipherNames[cidx])
		if kind == "plain" {
			kind = "stream"
		}
		emit(kind, List(Int(1), Int(int64(ver)), Int(int64(thr)), Int(int64(cidx)), Uint(rng.Next()&0xFFFFFFFF), ListOf(ps), genSizes(rng, approx)))
	}
	// 1b. the default thresholds (NewV1Encoder / NewV2Encoder with threshold <= 0): bodies one below,
	// at and one above, compressible
	for _, ver := range []int{1, 2} {
		for _, thr := range []int{0, -1} {
			t := EffThreshold(ver, thr)
			for _, bl := range []int{t - 1, t, t + 1} {
				body := List(Int(5), Uint(uint64(uint32(rng.Next())|1)), Int(int64(bl)), Int(1))
				p := List(Int(int64(int32(rng.Next()))), Int(int64(rng.Intn(65536))), Int(0x40), Int(0), Uint(9), ListOf(nil), body)
				emit("default-threshold", List(Int(1), Int(int64(ver)), Int(int64(thr)), Int(int64(rng.PickInt(0, 3))), Uint(rng.Next()&0xFFFFFFFF), List(p), genSizes(rng, bl)))
			}
		}
	}
	// 1c. marshalling bits pre-set by the caller on an empty body (outside the round-trip premise;
	// the decoder hands such a frame to the decryptor / zlib whatever its length): model = code
	for _, ver := range []int{1, 2} {
		for _, bits := range []int64{1, 2, 3} {
			for _, cidx := range []int{0, 1 + rng.Intn(8)} {
				p := List(Int(5), Int(6), Int(bits|0x40), Int(1), Uint(2), ListOf(nil), List(Int(rng.PickI64(0, 1)), Bytes(nil)))
				if p.At(6).At(0).Int64() == 0 {
					p = List(Int(5), Int(6), Int(bits|0x40), Int(1), Uint(2), ListOf(nil), List(Int(0)))
				}
				emit("preset-bits", List(Int(1), Int(int64(ver)), Int(0), Int(int64(cidx)), Uint(rng.Next()&0xFFFFFFFF), List(p), ListOf(nil)))
			}
		}
	}
	// 1c'. bursts of 300 small uncompressed frames read through a bufio.Reader over chunked delivery
	// (a connection's reader), every packet looked at only after the whole stream
	for i, mode := range []int{2, 3, 2, 3} {
		ver := 1 + i/2
		var ps []Sx
		for j := 0; j < 300; j++ {
			d, _ := DataSx(uint32(rng.Next()), rng.Intn(40), 255, 65)
			ps = append(ps, List(Int(int64(int32(rng.Next()))), Int(int64(rng.Intn(65536))), Int(0x20), Int(1), Uint(uint64(uint32(rng.Next()))), ListOf(nil), List(Int(1), d)))
		}
		var sizes []Sx
		for j := 0; j < 40; j++ {
			sizes = append(sizes, Int(int64(rng.PickInt(1000, 1460, 700))))
		}
		cidx := 0
		if i%2 == 1 {
			cidx = 1 + rng.Intn(8)
		}
		emit("burst-bufio", List(Int(1), Int(int64(ver)), Int(1<<24), Int(int64(cidx)), Uint(rng.Next()&0xFFFFFFFF), ListOf(ps), ListOf(sizes), Int(int64(mode))))
	}
	// 1d. the SAME packet object encoded two or three times (retransmission, broadcast, one packet
	// through several codecs): every emitted frame must decode to the original packet.  Byte and
	// string bodies without cipher (in-place encryption of the caller's slice is the known hazard
	// outside the statement), numeric bodies with and without
	nre := 60
	if a.Thorough() {
		nre = 600
	}
	verLists := [][]int64{{1, 1}, {2, 2}, {1, 2, 1}, {2, 1, 2}, {1, 1, 1}, {2, 2, 2}}
	for i := 0; i < nre; i++ {
		thr := rng.PickInt(0, 16, 16, 100, 1<<24)
		t := EffThreshold(1, thr)
		if thr == 0 {
			t = 8192
		}
		bl := rng.PickInt(0, 1, 10, t-1, t, t+1, t+40, 2*t+3)
		if bl > 20000 {
			bl = rng.Intn(300)
		}
		cidx := 0
		bk := rng.PickInt(1, 1, 2, 3, 4, 9, 9, 10)
		if bk >= 3 && rng.Bool() {
			cidx = 1 + rng.Intn(len(CipherNames)-1)
		}
		p, kd := genPacket(rng, 2, thr, bl, bk, out)
		if kd != "plain" {
			continue
		}
		vl := verLists[rng.Intn(len(verLists))]
		vs := make([]Sx, len(vl))
		for j, v := range vl {
			vs[j] = Int(v)
		}
		emit("reencode", List(Int(5), Int(int64(thr)), Int(int64(cidx)), Uint(rng.Next()&0xFFFFFFFF), p, ListOf(vs)))
	}
	// 1e. one codec instance used by several goroutines at once (as the writer pumps of all
	// connections do): every frame must still decode to its own packet
	{
		// many more goroutines than processors, so that goroutines are switched on the same
		// processor in the middle of an encode
		iters, workers := 60, 64
		if a.Thorough() {
			iters = 600
		}
		for _, ver := range []int{1, 2} {
			for _, thr := range []int{0, 16} {
				in := List(Int(6), Int(int64(ver)), Int(int64(thr)), Int(int64(workers)), Int(int64(iters)), Uint(rng.Next()&0xFFFFFF))
				obs := run(in)
				out.Case("concurrent", true, in, obs)
				out.GoChecked += obs.At(0).Int64()
			}
		}
	}
	// 1g. usage variants (docs/LESSONS.md 5, 6, 7, 10, 11, 14): see runVariant
	nvar := 30
	if a.Thorough() {
		nvar = 300
	}
	for variant := 1; variant <= 8; variant++ {
		for i := 0; i < nvar; i++ {
			ver := rng.PickInt(1, 2)
			thr := rng.PickInt(0, 16, 1<<24)
			bk := rng.PickInt(1, 1, 2, 3, 5, 9, 10)
			if variant == 1 || variant == 7 {
				bk = 1
			}
			if variant == 8 {
				bk = 9
			}
			p, kd := genPacket(rng, ver, thr, rng.PickInt(0, 1, 9, 33, 64, 200, 5000), bk, out)
			if kd != "plain" {
				continue
			}
			cidx := rng.PickInt(0, 1+rng.Intn(len(CipherNames)-1))
			if variant == 2 || variant == 7 {
				if bk <= 2 || bk == 5 {
					cidx = 0 // in-place encryption of byte bodies is the known hazard outside the statement
				}
			}
			emit("variant", List(Int(7), Int(int64(variant)), Int(int64(ver)), Int(int64(thr)), Int(int64(cidx)), Uint(rng.Next()&0xFFFFFFFF), p))
			out.Count("variant:" + string(rune('0'+variant)))
		}
	}
	// 1f. a writer that fails after k bytes (before the header, inside it, between header and body,
	// inside the body, exactly at the end): the error must be reported, no call after the failing one;
	// the same packet then goes to a good writer through the same codec
	nfw := 60
	if a.Thorough() {
		nfw = 600
	}
	for i := 0; i < nfw; i++ {
		ver := rng.PickInt(1, 2)
		thr := rng.PickInt(0, 16, 1<<24)
		bl := rng.PickInt(0, 1, 20, 40, 300)
		p, kd := genPacket(rng, ver, thr, bl, rng.PickInt(1, 2, 3), out)
		if kd != "plain" {
			continue
		}
		hs := HeaderSize(ver)
		if ver == 2 {
			hs += 4 * p.At(5).Len()
		}
		k := rng.PickInt(0, 1, hs-1, hs, hs+1, hs+bl-1, hs+bl, hs+bl+5, rng.Intn(hs+bl+2))
		if k < 0 {
			k = 0
		}
		cidx := rng.PickInt(0, 0, 1+rng.Intn(len(CipherNames)-1))
		emit("failing-writer", List(Int(8), Int(int64(ver)), Int(int64(thr)), Int(int64(cidx)), Uint(rng.Next()&0xFFFFFFFF), p, Int(int64(k))))
	}
	for i := 0; i < 20; i++ {
		n := rng.PickInt(0, 1, 5, 40)
		d, _ := DataSx(uint32(rng.Next()), n, 255, 65)
		emit("failing-writer", List(Int(9), d, Int(int64(rng.PickInt(0, 1, 2, 3, n+1, n+2, n+3)))))
	}
	// 2. the frame-size limits: V1 at 60 KiB (body so that header+body = limit-1, limit, limit+1),
	// without and with cipher, with compression off (huge threshold) and on (incompressible
	// body grows, compressible shrinks)
	for _, d := range []int{-1, 0, 1} {
		cs := []int{0}
		if d == 0 || a.Thorough() {
			cs = []int{0, 1 + rng.Intn(8)}
		}
		for _, cidx := range cs {
			bl := codec.V1MaxPayloadBytes - codec.V1HeaderSize + d
			body := List(Int(5), Uint(uint64(uint32(rng.Next())|1)), Int(int64(bl)), Int(255))
			p := List(Int(int64(int32(rng.Next()))), Int(int64(rng.Intn(65536))), Int(0x20), Int(1), Uint(7), ListOf(nil), body)
			emit("v1-limit", List(Int(1), Int(1), Int(1<<24), Int(int64(cidx)), Uint(rng.Next()&0xFFFFFFFF), List(p), genSizes(rng, bl)))
			out.Count("v1-limit")
		}
	}
	{
		bl := 70000 // compressible: fits after compression; incompressible: refused
		for _, mask := range []int64{3, 255} {
			body := List(Int(5), Uint(uint64(uint32(rng.Next())|1)), Int(int64(bl)), Int(mask))
			p := List(Int(77), Int(9), Int(0), Int(0), Uint(0), ListOf(nil), body)
			emit("v1-limit", List(Int(1), Int(1), Int(0), Int(0), Uint(1), List(p), ListOf(nil)))
		}
	}
	// 2b. both limits of both formats, with references: total frame size limit-1, limit, limit+1 and
	// the same shifted by 4*nref (a size check that forgets or double-counts the reference bytes
	// shows exactly there); reference counts 255 / 256; sizes only (8 MiB frames stay in Go)
	for _, ver := range []int{1, 2} {
		hs, limit := codec.V1HeaderSize, codec.V1MaxPayloadBytes
		if ver == 2 {
			hs, limit = codec.V2HeaderSize, codec.V2MaxPayloadBytes
		}
		nrefs := []int{0, 1, 2, 255}
		if a.Thorough() {
			nrefs = append(nrefs, 3, 17, 100, 254, rng.Intn(256), rng.Intn(256))
		}
		for _, nref := range nrefs {
			for _, total := range []int{limit - 1, limit, limit + 1, limit + 4*nref - 1, limit + 4*nref, limit + 4*nref + 1, limit - 4*nref, limit - 4*nref + 1} {
				bl := total - hs
				if ver == 2 {
					bl -= 4 * nref
				}
				if bl < 0 {
					continue
				}
				emit("limit", List(Int(4), Int(int64(ver)), Int(int64(nref)), Int(int64(bl)), Uint(rng.Next()&0xFFFFFFFF), Int(1<<30)))
				out.Count("limit-probe:ver" + string(rune('0'+ver)))
			}
		}
		// the same boundary with the default threshold: the (incompressible) body is compressed, the
		// wire size is zlib's, so only the invariants are checked (an error writes nothing, a success
		// reports what it wrote, stays within the limit and decodes back)
		for _, nref := range []int{1, 255} {
			for _, d := range []int{-4 * nref, 0} {
				bl := limit - hs - 700 + d // zlib stores random data with a little overhead
				if ver == 1 {
					bl = limit - hs - 30 + d
				}
				if bl < 0 {
					continue
				}
				emit("limit", List(Int(4), Int(int64(ver)), Int(int64(nref)), Int(int64(bl)), Uint(rng.Next()&0xFFFFFFFF), Int(0)))
				out.Count("limit-probe:compressed")
			}
		}
		// big, highly compressible bodies (zeros, one row repeated), far above 1 MiB raw: their frames
		// are tiny, well within the limits, and must come back from the decoder
		bigs := []int{200 << 10, 1<<20 + 1, 2 << 20, 3<<20 + 17}
		if ver == 2 {
			bigs = append(bigs, 4<<20, 7<<20, limit-hs-4)
		}
		for i, bl := range bigs {
			pat := 1 + i%2
			emit("big-compressible", List(Int(4), Int(int64(ver)), Int(int64(i%2)), Int(int64(bl)), Uint(rng.Next()&0xFFFFFFFF), Int(0), Int(int64(pat))))
			out.Count("limit-probe:big-compressible")
		}
		for _, nref := range []int{255, 256, 257, 300} {
			emit("limit", List(Int(4), Int(int64(ver)), Int(int64(nref)), Int(int64(rng.Intn(100))), Uint(rng.Next()&0xFFFFFFFF), Int(1<<30)))
			out.Count("limit-probe:refs")
		}
	}
	// 3. the length-prefixed helper
	for i := 0; i < nlen; i++ {
		n := rng.PickInt(0, 1, 2, 3, rng.Intn(40), rng.Intn(300), rng.Intn(3000))
		if i < 5 {
			n = []int{65532, 65533, 65534, 65535, 70000}[i]
			out.Count("lendata:limit")
		}
		d, _ := DataSx(uint32(rng.Next()), n, 255, 65)
		emit("lendata", List(Int(3), d, genSizes(rng, n+2)))
	}
	// 4. volume: the round-trip property itself, evaluated in Go
	sweep(rng.Fork(), nsweep, a.Thorough(), out)
	if bodyRewritten > 0 {
		out.Note("observed hazard outside the statement: WritePacket with a cipher rewrote the caller's []byte body in place in %d of the generated packets (the body is not among the fields the property lists as untouched)", bodyRewritten)
	}
}

// the property on the implementation's outputs, without the model: write, read back, compare
func sweep(rng *Rng, n int, thorough bool, out *Out) {
	for i := 0; i < n; i++ {
		ver := rng.PickInt(1, 2)
		thr := thrArgs[rng.Intn(len(thrArgs))]
		cidx := rng.Intn(len(CipherNames))
		keyseed := rng.Next() & 0xFFFFFFFF
		bl := bodyLens(rng, ver, thr)
		if rng.Chance(1, 50) {
			bl = rng.PickInt(61425, 61426, 61427, 61440, 65535, 65536)
		}
		psx, kind := genPacket(rng, ver, thr, bl, rng.PickInt(1, 1, 2, 3, 5), nil2(out))
		if kind != "plain" {
			continue
		}
		in := List(Int(1), Int(int64(ver)), Int(int64(thr)), Int(int64(cidx)), Uint(keyseed), List(psx), ListOf(nil))
		out.GoChecked++
		if what := holds(ver, thr, cidx, keyseed, psx); what != "" {
			out.Violation("C01/sweep/"+what, "round-trip sweep: "+what, List(in, ListOf(nil)))
		}
	}
}

func nil2(o *Out) *Out { return &Out{Hist: map[string]int{}} }

func holds(ver, thr, cidx int, keyseed uint64, psx Sx) string {
	p := PacketFromSx(psx)
	orig := PacketFromSx(psx)
	var want []byte
	if pb, _ := Catch(func() { want = append([]byte(nil), orig.BodyToBytes()...) }); pb {
		return "panic-body"
	}
	enc := NewEncoder(ver, thr)
	var w bytes.Buffer
	var n int
	var err error
	if pn, _ := Catch(func() { n, err = enc.WritePacket(&w, NewCipher(cidx, keyseed), p) }); pn {
		return "panic-write"
	}
	hs := HeaderSize(ver)
	if err != nil {
		if w.Len() != 0 {
			return "error-with-bytes"
		}
		return ""
	}
	if n != w.Len() {
		return "reported-size"
	}
	max := codec.V1MaxPayloadBytes
	if ver == 2 {
		max = codec.V2MaxPayloadBytes
	}
	if w.Len() > max || w.Len() < hs {
		return "frame-size"
	}
	if p.Cmd != orig.Cmd || p.Seq_ != orig.Seq_ || p.Type_ != orig.Type_ || p.Node_ != orig.Node_ || len(p.Refers_) != len(orig.Refers_) || p.Flg&^3 != orig.Flg {
		return "caller-fields"
	}
	frameLen := w.Len()
	w.Write([]byte{1, 2, 3}) // trailing bytes must stay unread
	q := packet.Make()
	if pn, _ := Catch(func() { err = enc.ReadPacket(&w, NewCipher(cidx, keyseed), q) }); pn {
		return "panic-read"
	}
	if err != nil {
		return "read-error"
	}
	if w.Len() != 3 {
		return "consumption"
	}
	_ = frameLen
	var got []byte
	if q.Body_ != nil {
		got = q.BodyToBytes()
	}
	if q.Cmd != orig.Cmd || q.Seq_ != orig.Seq_ || q.Flg != orig.Flg || !bytes.Equal(got, want) {
		return "roundtrip-fields"
	}
	if ver == 2 {
		if q.Type_ != orig.Type_ || q.Node_ != orig.Node_ || len(q.Refers_) != len(orig.Refers_) {
			return "roundtrip-v2-fields"
		}
		for i := range q.Refers_ {
			if q.Refers_[i] != orig.Refers_[i] {
				return "roundtrip-v2-fields"
			}
		}
	}
	return ""
}
