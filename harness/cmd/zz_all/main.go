// zz_all imports every package a harness may need, so that go.mod/go.sum are complete
// and stable (never rewritten by concurrent builds).
package main

import (
	_ "google.golang.org/protobuf/types/known/wrapperspb"
	_ "qchen.fun/fatchoy"
	_ "qchen.fun/fatchoy/codec"
	_ "qchen.fun/fatchoy/codes"
	_ "qchen.fun/fatchoy/collections/consistent"
	_ "qchen.fun/fatchoy/collections/lru"
	_ "qchen.fun/fatchoy/collections/queue"
	_ "qchen.fun/fatchoy/collections/treemap"
	_ "qchen.fun/fatchoy/collections/trie"
	_ "qchen.fun/fatchoy/collections/zset"
	_ "qchen.fun/fatchoy/debug"
	_ "qchen.fun/fatchoy/packet"
	_ "qchen.fun/fatchoy/qnet"
	_ "qchen.fun/fatchoy/sched"
	_ "qchen.fun/fatchoy/x/cipher"
	_ "qchen.fun/fatchoy/x/fsutil"
	_ "qchen.fun/fatchoy/x/stats"
	_ "qchen.fun/fatchoy/x/uuid"
)

func main() {}
