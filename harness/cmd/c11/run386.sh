#!/bin/bash
# C11, thorough tier: the same harness built for GOARCH=386 (word size 4), its cases evaluated by
# the extracted runner, its Go-side sweeps checked.
# Exit status: 1 only for a genuine finding (a case the runner does not accept, a Go-side
# violation, a harness crash, a 386-specific compile error).  A toolchain that is missing or too
# slow (timeouts) is reported as "INCONCLUSIVE: ..." with exit status 0, so that a loaded machine
# cannot turn into a VIOLATION.
set -u
cd "$(dirname "$0")/../.." || exit 0
W=../work/C11_386
mkdir -p "$W" ../work/bin
BUILD_T=${C11_386_BUILD_TIMEOUT:-900}
RUN_T=${C11_386_RUN_TIMEOUT:-600}
timeout "$BUILD_T" env GOARCH=386 go build -tags verif -o ../work/bin/c11_386 ./cmd/c11 >"$W/build.log" 2>&1
rc=$?
if [ $rc -eq 124 ] || [ $rc -eq 137 ]; then echo "INCONCLUSIVE: GOARCH=386 build timed out after ${BUILD_T}s"; exit 0; fi
if [ $rc -ne 0 ]; then
  if grep -qiE "unsupported GOOS/GOARCH|cannot find package|cannot find GOROOT|no such tool|missing go.sum|dial tcp|GOPROXY" "$W/build.log"; then
    echo "INCONCLUSIVE: no usable GOARCH=386 toolchain here: $(tail -c 300 "$W/build.log" | tr '\n' ' ')"; exit 0
  fi
  echo "FAIL: the harness does not compile for GOARCH=386: $(tail -c 600 "$W/build.log" | tr '\n' ' ')"; exit 1
fi
rm -f "$W/cases.sx" "$W/report.json"
timeout "$RUN_T" ../work/bin/c11_386 -seed "${VERIF_SEED:-1}" -tier quick -out "$W" >"$W/run.log" 2>&1
rc=$?
if [ $rc -eq 124 ] || [ $rc -eq 137 ]; then echo "INCONCLUSIVE: 386 harness run timed out after ${RUN_T}s"; exit 0; fi
if [ $rc -eq 126 ] || grep -qi "exec format error" "$W/run.log"; then echo "INCONCLUSIVE: 386 binaries do not execute on this machine"; exit 0; fi
if [ $rc -ne 0 ] || [ ! -s "$W/report.json" ]; then echo "FAIL: 386 harness exited with status $rc: $(tail -c 600 "$W/run.log" | tr '\n' ' ')"; exit 1; fi
python3 - "$W/report.json" <<'PY' || exit 1
import json, sys
r = json.load(open(sys.argv[1]))
gv = r.get("go_violations") or []
for v in gv[:5]:
    print("FAIL: 386 Go-side violation %s: %s %s" % (v["signature"], v["what"], v["case"][:200]))
seen = set()
for v in gv:
    if v["signature"] in seen:
        continue
    seen.add(v["signature"])
    # picked up by bin/check: a failing input found by this run
    print("EXTRA-VIOLATION\t%s/386\t%s (GOARCH=386)\t%s" % (v["signature"], v["what"], v["case"]))
print("386 harness: %d cases, %d Go-side evaluations, notes: %s" % (r["cases"], r["go_checked"], "; ".join(r.get("notes") or [])))
sys.exit(1 if gv else 0)
PY
RUNNER=../work/runner/C11/runner
if [ ! -x "$RUNNER" ]; then echo "INCONCLUSIVE: extracted runner not built"; exit 0; fi
( ulimit -s unlimited 2>/dev/null; timeout "$RUN_T" "$RUNNER" "$W/cases.sx" ) >"$W/verdicts.txt" 2>&1
rc=$?
if [ $rc -eq 124 ] || [ $rc -eq 137 ]; then echo "INCONCLUSIVE: runner timed out on the 386 cases"; exit 0; fi
python3 - "$W/verdicts.txt" "$W/cases.sx" "$W/report.json" <<'PY'
import json, sys
verd, cases, rep = sys.argv[1:4]
lines = [l for l in open(cases).read().split("\n") if l and not l.startswith(";")]
kinds = (json.load(open(rep)).get("kinds") or [])
bad, done, seen = 0, None, set()
for l in open(verd):
    f = l.split()
    if f and f[0] == "DONE" and len(f) > 1:
        done = f[1]
    if len(f) == 3 and f[0].isdigit():
        bad += 1
        i = int(f[0])
        if bad <= 5:
            print("FAIL: 386 case %s verdict %s %s" % (f[0], f[1], f[2]))
        kind = kinds[i] if i < len(kinds) else "?"
        # verdict 2 = a sentence of the property fails on this output; 1 = the model disagrees
        sig = "C11/%s%s/%s/386" % ("prop" if f[1] == "2" else "mismatch", f[2], kind)
        if f[1] == "2" and sig not in seen and i < len(lines):
            seen.add(sig)
            print("EXTRA-VIOLATION\t%s\tsentence %s of the property fails on the output of the GOARCH=386 build\t%s" % (sig, f[2], lines[i]))
if bad:
    sys.exit(1)
if not done:
    print("FAIL: runner did not finish"); sys.exit(1)
print("386 cases accepted by the runner: " + done)
PY
