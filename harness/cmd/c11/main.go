// C11 harness: collections/zset — SortedSet over the skip list.
//
// input    = (seed ops)     seed seeds math/rand (node heights) so that a replay rebuilds the same lanes
//
//	op = (0 e s) Add | (1 e) Remove | (2 min max) RemoveRangeByScore | (3 start end) RemoveRangeByRank |
//	     (4 min max) Count | (5 e rev) GetRank | (6 e) GetScore | (7 start end rev) GetRange |
//	     (8 min max rev) GetRangeByScore | (9) Len | (10) probe
//
// observed = one result per op: (0 b) bool | (0 b h) Add: result and the height of the member's node | (1 z) int | (2 (members)) list | (3) run-time panic |
//
//	(4 (headspans headfwds) (nodes) tail length level dict)
//	node = (score member (spans) (forwards) backward), nodes numbered 1..n along level 0 (0 = nil),
//	dict = ((member score) ...) sorted by member
//
// Members are integers implementing collections.Comparable by integer comparison.
package main

import (
	"io"
	"log"
	"math"
	"math/rand"
	"sort"

	"qchen.fun/fatchoy/collections"
	"qchen.fun/fatchoy/collections/zset"
	. "verifharness/common"
)

// Members.  A member is an id; its Go value is a mem (an integer, compared by ==) or, when
// ptrMembers is set, a *pmem (a pointer, compared by identity: one pointer per id and case, as the
// package's own tests do with *testPlayer).  Both implement collections.Comparable by comparing ids.
type mem int64

type pmem struct{ id int64 }

// cmpMode selects what CompareTo returns (collections.Comparable promises only the sign):
// 0, 1: -1 / 0 / +1;  2: the difference of the ids (any magnitude);  3: the extremes of int
// (math.MinInt for "less", whose negation overflows, math.MaxInt for "greater").
// cmpMode, ptrMembers and decoy are derived from the case's seed (bits 0-1, 2, 3), so a replay
// uses the same comparator, member kind and interleaving.
var (
	cmpMode    int
	ptrMembers bool
	ptrs       map[int64]*pmem
)

func cmpIDs(m, r int64) int {
	switch cmpMode {
	case 2:
		return int(m - r) // ids are small: no overflow
	case 3:
		switch {
		case m < r:
			return math.MinInt
		case m > r:
			return math.MaxInt
		}
		return 0
	}
	switch {
	case m < r:
		return -1
	case m > r:
		return 1
	}
	return 0
}

func idOf(c collections.Comparable) int64 {
	switch v := c.(type) {
	case mem:
		return int64(v)
	case *pmem:
		return v.id
	}
	return -1 << 62
}

func (m mem) CompareTo(o collections.Comparable) int   { return cmpIDs(int64(m), idOf(o)) }
func (m *pmem) CompareTo(o collections.Comparable) int { return cmpIDs(m.id, idOf(o)) }

// mk returns the member value of an id
func mk(id int64) collections.Comparable {
	if !ptrMembers {
		return mem(id)
	}
	p, ok := ptrs[id]
	if !ok {
		p = &pmem{id}
		ptrs[id] = p
	}
	return p
}

func members(l []collections.Comparable) Sx {
	r := make([]int64, len(l))
	for i, x := range l {
		r[i] = idOf(x)
	}
	return Ints(r...)
}

func ints(v []int) Sx {
	r := make([]int64, len(v))
	for i, x := range v {
		r[i] = int64(x)
	}
	return Ints(r...)
}

func probe(s *zset.SortedSet) Sx {
	head, nodes, tail, length, level := s.VerifProbe()
	ns := make([]Sx, len(nodes))
	for i, n := range nodes {
		e := int64(-1 << 62)
		if n.Ele != nil {
			e = idOf(n.Ele)
		}
		ns[i] = List(Int(n.Score), Int(e), ints(n.Spans), ints(n.Forwards), Int(int64(n.Backward)))
	}
	d := s.VerifDict()
	keys := make([]int64, 0, len(d))
	byID := map[int64]int64{}
	for k, v := range d {
		keys = append(keys, idOf(k))
		byID[idOf(k)] = v
	}
	sort.Slice(keys, func(i, j int) bool { return keys[i] < keys[j] })
	ds := make([]Sx, len(keys))
	for i, k := range keys {
		ds[i] = Ints(k, byID[k])
	}
	return List(Int(4), List(ints(head.Spans), ints(head.Forwards)), ListOf(ns), Int(int64(tail)), Int(int64(length)), Int(int64(level)), ListOf(ds))
}

// a node pointer as (6 kind score member): kind 0 nil, 1 the header (no member), 2 a node
func nodeSx(n *zset.ZSkipListNode) Sx {
	switch {
	case n == nil:
		return Ints(6, 0, 0, 0)
	case n.Ele == nil:
		return Ints(6, 1, 0, 0)
	}
	return Ints(6, 2, n.Score, idOf(n.Ele))
}

func run(in Sx) Sx {
	seed := in.At(0).Int64()
	rand.Seed(seed)
	cmpMode = int(seed & 3)
	ptrMembers = seed&4 != 0
	ptrs = map[int64]*pmem{}
	decoy := seed&8 != 0
	ops := in.At(1)
	s := zset.NewSortedSet()
	// a second set used between the calls on s (only when decoy): anything the package shares
	// between sets would show on s
	other := zset.NewSortedSet()
	res := make([]Sx, 0, ops.Len())
	for k := 0; k < ops.Len(); k++ {
		op := ops.At(k)
		var r Sx
		arg := func(i int) int64 { return op.At(i).Int64() }
		if decoy && k >= 6 {
			Catch(func() {
				switch k % 5 {
				case 0, 1:
					other.Add(mk(int64(1000+k%17)), int64(k%3))
				case 2:
					other.Remove(mk(int64(1000 + (k+5)%17)))
				case 3:
					other.GetRank(mk(int64(1000+k%17)), k%2 == 0)
					other.GetRange(0, -1, false)
				default:
					other.RemoveRangeByRank(0, 1)
				}
			})
		}
		p, _ := Catch(func() {
			switch op.At(0).AsInt() {
			case 0:
				b := s.Add(mk(arg(1)), arg(2))
				r = List(Int(0), Bool(b), Int(int64(s.VerifHeightOf(mk(arg(1))))))
			case 1:
				r = List(Int(0), Bool(s.Remove(mk(arg(1)))))
			case 2:
				r = List(Int(1), Int(int64(s.RemoveRangeByScore(arg(1), arg(2)))))
			case 3:
				r = List(Int(1), Int(int64(s.RemoveRangeByRank(int(arg(1)), int(arg(2))))))
			case 4:
				r = List(Int(1), Int(int64(s.Count(arg(1), arg(2)))))
			case 5:
				r = List(Int(1), Int(int64(s.GetRank(mk(arg(1)), arg(2) != 0))))
			case 6:
				r = List(Int(1), Int(s.GetScore(mk(arg(1)))))
			case 7:
				r = List(Int(2), members(s.GetRange(int(arg(1)), int(arg(2)), arg(3) != 0)))
			case 8:
				r = List(Int(2), members(s.GetRangeByScore(arg(1), arg(2), arg(3) != 0)))
			case 9:
				r = List(Int(1), Int(int64(s.Len())))
			case 10:
				r = probe(s)
			case 11, 12: // walk the list through the exported node accessors
				zsl := s.VerifList()
				var l []Sx
				n := zsl.HeadNode()
				if op.At(0).AsInt() == 12 {
					n = zsl.TailNode()
				}
				for steps := 0; n != nil && steps <= zsl.Len()+2; steps++ {
					l = append(l, Ints(n.Score, idOf(n.Ele)))
					if op.At(0).AsInt() == 12 {
						n = n.Before()
					} else {
						n = n.Next()
					}
				}
				r = List(Int(5), ListOf(l))
			case 13:
				r = List(Int(1), Int(int64(s.VerifList().Height())))
			case 14:
				r = List(Int(1), Int(int64(s.VerifList().GetRank(arg(1), mk(arg(2))))))
			case 15:
				r = nodeSx(s.VerifList().GetElementByRank(int(arg(1))))
			case 16:
				r = List(Int(0), Bool(s.VerifList().IsInRange(arg(1), arg(2))))
			case 17:
				r = nodeSx(s.VerifList().FirstInRange(arg(1), arg(2)))
			case 18:
				r = nodeSx(s.VerifList().LastInRange(arg(1), arg(2)))
			case 19: // Delete of a member that is not in the set: nothing is unlinked, nil is returned
				r = List(Int(0), Bool(s.VerifList().Delete(arg(1), mk(arg(2))) != nil))
			default:
				panic("bad opcode")
			}
		})
		if p {
			r = List(Int(3))
		}
		res = append(res, r)
	}
	return ListOf(res)
}

func main() {
	log.SetOutput(io.Discard)
	Main(run, gen)
}

// ---------------------------------------------------------------- generator

type zgen struct {
	lastQuery Sx // the last read-only call issued (repeated right after mutating calls)
	hasQuery  bool
	Repeats   int
	Directs   int
	rng       *Rng
	ops       []Sx
	shadow    map[int64]int64 // member -> score (intended semantics; only used to aim the generator)
	univ      int
	scores    []int64
	tieOps    int
}

func (g *zgen) add(op Sx) {
	g.ops = append(g.ops, op)
	if c := op.At(0).AsInt(); c >= 4 && c <= 8 {
		g.lastQuery, g.hasQuery = op, true
	}
}

func (g *zgen) hasTie() bool {
	seen := map[int64]bool{}
	for _, s := range g.shadow {
		if seen[s] {
			return true
		}
		seen[s] = true
	}
	return false
}

func (g *zgen) member() int64 {
	if g.rng.Chance(1, 12) {
		return int64(g.univ + g.rng.Intn(3)) // never added
	}
	return int64(g.rng.Intn(g.univ))
}
func (g *zgen) score() int64 { return g.scores[g.rng.Intn(len(g.scores))] }

// a score bound: a score in use, one off it, below / above everything
func (g *zgen) bound() int64 {
	r := g.rng
	switch r.Intn(8) {
	case 0:
		return satAdd(g.scores[0], -1-int64(r.Intn(3)))
	case 1:
		return satAdd(g.scores[len(g.scores)-1], 1+int64(r.Intn(3)))
	case 2:
		return satAdd(g.score(), -1)
	case 3:
		return satAdd(g.score(), 1)
	}
	return g.score()
}

func (g *zgen) sortedScores() []int64 {
	var l []int64
	for _, s := range g.shadow {
		l = append(l, s)
	}
	sort.Slice(l, func(i, j int) bool { return l[i] < l[j] })
	return l
}

// extreme bounds: the int64 limits and their neighbours, and the values around zero
var extremes = []int64{math.MinInt64, math.MinInt64 + 1, -1, 0, 1, math.MaxInt64 - 1, math.MaxInt64}

func satAdd(a, d int64) int64 {
	if d > 0 && a > math.MaxInt64-d {
		return math.MaxInt64
	}
	if d < 0 && a < math.MinInt64-d {
		return math.MinInt64
	}
	return a + d
}

func (g *zgen) scoreRange() (int64, int64) {
	r := g.rng
	if r.Chance(1, 5) { // an extreme value as min and/or max (min > max included)
		a, b := extremes[r.Intn(len(extremes))], extremes[r.Intn(len(extremes))]
		switch r.Intn(3) {
		case 0:
			a = g.bound()
		case 1:
			b = g.bound()
		}
		if a > b && !r.Chance(1, 4) {
			a, b = b, a
		}
		return a, b
	}
	l := g.sortedScores()
	if len(l) > 0 {
		switch r.Intn(10) {
		case 0: // only the first member('s score)
			return l[0], l[0]
		case 1: // only the last
			return l[len(l)-1], l[len(l)-1]
		case 2: // everything
			return l[0], l[len(l)-1]
		case 3: // everything and more
			return satAdd(l[0], -5), satAdd(l[len(l)-1], 5)
		case 4: // empty: between two scores / outside
			return satAdd(l[len(l)-1], 1), satAdd(l[len(l)-1], 9)
		case 5:
			return satAdd(l[0], -9), satAdd(l[0], -1)
		}
	}
	a, b := g.bound(), g.bound()
	if a > b && !r.Chance(1, 6) { // min > max sometimes stays
		a, b = b, a
	}
	return a, b
}

// intExtremes: the limits of int and their neighbours (rank arguments)
var intExtremes = []int64{int64(math.MaxInt), int64(math.MaxInt) - 1, int64(math.MinInt), int64(math.MinInt) + 1} // int is 32 bit under GOARCH=386

// a (start, end) pair of rank arguments; now and then an ordinary start with an end at a limit of int
// (or the other way round)
func (g *zgen) rankPair() (int64, int64) {
	r := g.rng
	a, b := g.rankIdx(), g.rankIdx()
	switch r.Intn(8) {
	case 0:
		b = intExtremes[r.Intn(len(intExtremes))]
	case 1:
		a = intExtremes[r.Intn(len(intExtremes))]
	}
	return a, b
}

func (g *zgen) rankIdx() int64 {
	r := g.rng
	n := int64(len(g.shadow))
	if r.Chance(1, 9) {
		return intExtremes[r.Intn(len(intExtremes))]
	}
	switch r.Intn(10) {
	case 0:
		return 0
	case 1:
		return -1
	case 2:
		return n - 1
	case 3:
		return n
	case 4:
		return -n
	case 5:
		return -n - 1 - int64(r.Intn(3))
	case 6:
		return n + 1 + int64(r.Intn(50))
	case 7:
		return -int64(r.Intn(int(n) + 1))
	}
	return int64(r.Intn(int(n) + 1))
}

func b2i(b bool) int64 {
	if b {
		return 1
	}
	return 0
}

func (g *zgen) doAdd(e, s int64) {
	g.add(Ints(0, e, s))
	g.shadow[e] = s
}

// a cheap read-only call, mostly about one member that is in the set
func (g *zgen) smallQuery() Sx {
	r := g.rng
	e := g.member()
	if len(g.shadow) > 0 && r.Chance(3, 4) {
		k := r.Intn(len(g.shadow))
		keys := make([]int64, 0, len(g.shadow))
		for m := range g.shadow {
			keys = append(keys, m)
		}
		sort.Slice(keys, func(i, j int) bool { return keys[i] < keys[j] })
		e = keys[k]
	}
	switch r.Intn(8) {
	case 0, 1, 2, 3:
		return Ints(5, e, b2i(r.Bool()))
	case 4:
		return Ints(6, e)
	case 5:
		a, b := g.scoreRange()
		return Ints(4, a, b)
	case 6:
		a := g.rankIdx()
		return Ints(7, a, satAdd(a, int64(r.Intn(4))), b2i(r.Bool()))
	}
	a, _ := g.scoreRange()
	return Ints(8, a, a, b2i(r.Bool()))
}

// a direct, read-only call of an exported ZSkipList / ZSkipListNode method (through the probe)
func (g *zgen) direct() Sx {
	r := g.rng
	if r.Chance(1, 12) { // zsl.Delete of an id that is not in the set
		e := int64(g.univ + r.Intn(3))
		return Ints(19, g.bound(), e)
	}
	switch r.Intn(11) {
	case 0, 1:
		return Ints(11) // HeadNode().Next()...
	case 2, 3:
		return Ints(12) // TailNode().Before()...
	case 4:
		return Ints(13)
	case 5, 6: // zsl.GetRank(score, ele): a member with its score, or an id that is not in the set
		e := g.member()
		if sc, ok := g.shadow[e]; ok {
			return Ints(14, sc, e)
		}
		return Ints(14, g.bound(), e)
	case 7: // GetElementByRank: 0 (the header), 1..len, beyond, negative, the limits of int
		k := g.rankIdx()
		if r.Bool() {
			k = int64(r.Intn(len(g.shadow) + 2))
		}
		return Ints(15, k)
	case 8:
		a, b := g.scoreRange()
		return Ints(16, a, b)
	case 9:
		a, b := g.scoreRange()
		return Ints(17, a, b)
	}
	a, b := g.scoreRange()
	return Ints(18, a, b)
}

// empty the set completely (one of the four ways), look at the empty set, fill it again
func (g *zgen) drainAndReuse() {
	r := g.rng
	switch r.Intn(3) {
	case 0:
		g.add(Ints(3, 0, -1))
	case 1:
		g.add(Ints(2, math.MinInt64, math.MaxInt64))
	default:
		keys := make([]int64, 0, len(g.shadow))
		for m := range g.shadow {
			keys = append(keys, m)
		}
		sort.Slice(keys, func(i, j int) bool { return keys[i] < keys[j] })
		for _, m := range keys {
			g.add(Ints(1, m))
		}
	}
	g.shadow = map[int64]int64{}
	g.add(Ints(9))
	g.add(g.direct())
	g.add(Ints(7, 0, -1, b2i(r.Bool())))
	g.add(Ints(4, math.MinInt64, math.MaxInt64))
	if r.Bool() {
		g.add(Ints(10))
	}
	for k := 1 + r.Intn(6); k > 0; k-- {
		g.doAdd(g.member()%int64(g.univ), g.score())
	}
	g.add(g.direct())
}

// one step of a history.  Around every mutating call: now and then the same read-only call is
// issued right before and right after it, or the previous read-only call of the history is
// repeated right after it (stale memoised answers show exactly there)
// GetRank(e) of the top member; one mutating call of each kind that changes the ranks below it;
// GetRank(e) again at once, in both directions
func (g *zgen) rankSandwich() {
	r := g.rng
	if len(g.shadow) < 3 {
		return
	}
	type ent struct{ s, e int64 }
	var l []ent
	for e, s := range g.shadow {
		l = append(l, ent{s, e})
	}
	sort.Slice(l, func(i, j int) bool { return l[i].s < l[j].s || l[i].s == l[j].s && l[i].e < l[j].e })
	top := l[len(l)-1-r.Intn(2)]
	rev := b2i(r.Bool())
	g.add(Ints(5, top.e, rev))
	switch r.Intn(4) {
	case 0: // a new or moved member below
		e := g.member() % int64(g.univ)
		if e != top.e {
			g.doAdd(e, l[0].s)
		}
	case 1:
		g.add(Ints(1, l[0].e))
		delete(g.shadow, l[0].e)
	case 2:
		if l[0].s < top.s {
			g.add(Ints(2, l[0].s, l[0].s))
			for e, s := range g.shadow {
				if s == l[0].s {
					delete(g.shadow, e)
				}
			}
		}
	default:
		k := int64(r.Intn(2))
		g.add(Ints(3, 0, k))
		g.shadowRemoveRanks(0, k)
	}
	g.add(Ints(5, top.e, rev))
	g.add(Ints(5, top.e, 1-rev))
	g.Repeats++
}

func (g *zgen) mixed(allowBig bool) {
	r := g.rng
	if r.Chance(1, 8) {
		g.rankSandwich()
		return
	}
	if r.Chance(1, 6) {
		g.add(g.direct())
		g.Directs++
		return
	}
	if len(g.shadow) <= 40 && r.Chance(1, 60) {
		g.drainAndReuse()
		return
	}
	var q Sx
	before := r.Chance(1, 3)
	if before {
		q = g.smallQuery()
		g.add(q)
	}
	n0 := len(g.ops)
	g.mixed1(allowBig)
	if len(g.ops) > n0 && g.ops[n0].At(0).AsInt() <= 3 { // a mutating call was issued
		switch {
		case before:
			g.add(q)
			g.Repeats++
		case g.hasQuery && r.Chance(1, 2):
			g.add(g.lastQuery)
			g.Repeats++
		}
	}
}

func (g *zgen) mixed1(allowBig bool) {
	r := g.rng
	tie := g.hasTie()
	switch r.Intn(20) {
	case 0, 1, 2, 3:
		g.doAdd(g.member()%int64(g.univ), g.score())
	case 4:
		if e := g.member(); true {
			g.add(Ints(1, e))
			delete(g.shadow, e)
		}
	case 5:
		a, b := g.scoreRange()
		g.add(Ints(2, a, b))
		for e, s := range g.shadow {
			if a <= s && s <= b {
				delete(g.shadow, e)
			}
		}
		if tie {
			g.tieOps++
		}
	case 6:
		if r.Chance(1, 2) { // keep the set from emptying too fast
			a, b := g.rankPair()
			g.add(Ints(3, a, b))
			g.shadowRemoveRanks(a, b)
			if tie {
				g.tieOps++
			}
		} else {
			g.add(Ints(9))
		}
	case 7, 8:
		a, b := g.scoreRange()
		g.add(Ints(4, a, b))
		if tie {
			g.tieOps++
		}
	case 9, 10, 11:
		g.add(Ints(5, g.member(), b2i(r.Bool())))
		if tie {
			g.tieOps++
		}
	case 12:
		g.add(Ints(6, g.member()))
	case 13, 14, 15:
		if allowBig || len(g.shadow) < 40 {
			a, b := g.rankPair()
			g.add(Ints(7, a, b, b2i(r.Bool())))
		} else {
			a := g.rankIdx()
			g.add(Ints(7, a, satAdd(a, int64(r.Intn(6))), b2i(r.Bool())))
		}
		if tie {
			g.tieOps++
		}
	case 16, 17, 18:
		a, b := g.scoreRange()
		if !allowBig && len(g.shadow) >= 40 && r.Chance(2, 3) {
			b = a
		}
		g.add(Ints(8, a, b, b2i(r.Bool())))
		if tie {
			g.tieOps++
		}
	case 19:
		g.add(Ints(9))
	}
}

// intended semantics of RemoveRangeByRank on the shadow (only to keep the generator's idea of the
// set roughly right; the verdict never depends on it)
func (g *zgen) shadowRemoveRanks(a, b int64) {
	type ent struct{ s, e int64 }
	var l []ent
	for e, s := range g.shadow {
		l = append(l, ent{s, e})
	}
	sort.Slice(l, func(i, j int) bool { return l[i].s < l[j].s || l[i].s == l[j].s && l[i].e < l[j].e })
	n := int64(len(l))
	if a < 0 {
		a += n
	}
	if b < 0 {
		b += n
	}
	if a < 0 {
		a = 0
	}
	if b >= n {
		b = n - 1
	}
	for i := a; i <= b; i++ {
		delete(g.shadow, l[i].e)
	}
}

var repeatsTotal, directsTotal int

// seeds of math/rand for which one of the first four randLevel() calls returns 10, 11, 12, or
// more than ZSKIPLIST_MAXLEVEL (13, 14: the clamp) — found by an offline search over 2*10^7 seeds;
// a node that tall never appears otherwise (probability 4^-12 per node)
var tallSeeds = []int64{204056, 29694, 627879, 759575, 1251540, 1334128, 283992, 868134,
	1454918, 212281, 5900707, 6101084, 18440440, 2480283, 14463545, 16619191}

func genHistory(rng *Rng, kind string) (Sx, bool) {
	g := &zgen{rng: rng, shadow: map[int64]int64{}}
	nops := 0
	switch kind {
	case "small":
		g.univ = rng.Range(2, 6)
		nops = rng.Range(1, 6)
	case "medium":
		g.univ = rng.PickInt(6, 8, 10, 20, 30)
		nops = rng.Range(15, 50)
	case "tall":
		g.univ = rng.PickInt(6, 12, 30)
		nops = rng.Range(10, 40)
	default:
		g.univ = rng.PickInt(50, 100, 200)
		nops = rng.Range(20, 50)
	}
	ns := rng.Range(2, 5)
	if rng.Chance(1, 10) {
		ns = 1
	}
	base := rng.PickI64(-20, 0, 10, 1000)
	for i := 0; i < ns; i++ {
		g.scores = append(g.scores, base+int64(i)*rng.PickI64(1, 10))
	}
	if g.scores[ns-1] <= g.scores[0] && ns > 1 {
		for i := range g.scores {
			g.scores[i] = base + int64(i)*10
		}
	}
	if rng.Chance(1, 6) { // members at the limits of int64
		switch rng.Intn(3) {
		case 0:
			g.scores = append([]int64{math.MinInt64}, g.scores...)
		case 1:
			g.scores = append(g.scores, math.MaxInt64)
		default:
			g.scores = append(append([]int64{math.MinInt64}, g.scores...), math.MaxInt64)
		}
	}
	// populate
	fill := g.univ
	if kind == "small" {
		fill = rng.Range(1, g.univ)
	} else if rng.Chance(1, 3) {
		fill = rng.Range(g.univ/2, g.univ)
	}
	perm := make([]int, g.univ)
	for i := range perm {
		perm[i] = i
	}
	for i := len(perm) - 1; i > 0; i-- {
		j := rng.Intn(i + 1)
		perm[i], perm[j] = perm[j], perm[i]
	}
	for _, e := range perm[:fill] {
		g.doAdd(int64(e), g.score())
	}
	mid := -1
	if kind != "small" && rng.Bool() {
		mid = rng.Intn(nops)
	}
	for k := 0; k < nops; k++ {
		g.mixed(kind != "large")
		if k == mid {
			g.add(Ints(10))
		}
	}
	g.add(Ints(10))
	repeatsTotal += g.Repeats
	directsTotal += g.Directs
	seed := int64(rng.Intn(1 << 30))
	if kind == "tall" {
		seed = tallSeeds[rng.Intn(len(tallSeeds))]
	}
	return List(Int(seed), ListOf(g.ops)), g.tieOps > 0
}

func gen(a Args, out *Out) {
	defer func() {
		out.CountN("read-only call repeated right after a mutating call", repeatsTotal)
		out.CountN("direct calls of exported ZSkipList methods", directsTotal)
	}()
	rng := NewRng(a.Seed)
	counts := map[string]int{"small": 500, "medium": 260, "large": 40, "tall": 32}
	if a.Thorough() {
		counts = map[string]int{"small": 6000, "medium": 4000, "large": 400, "tall": 160}
	}
	names := []string{"", "Remove", "RemoveRangeByScore", "RemoveRangeByRank", "Count", "GetRank", "GetScore", "GetRange", "GetRangeByScore", "Len", "probe", "walk-forward", "walk-backward", "Height", "zsl.GetRank", "GetElementByRank", "IsInRange", "FirstInRange", "LastInRange", "zsl.Delete(absent)"}
	names[0] = "Add"
	for _, kind := range []string{"small", "medium", "large", "tall"} {
		r := rng.Fork()
		for k := 0; k < counts[kind]; k++ {
			in, nontrivial := genHistory(r, kind)
			obs := run(in)
			out.Count([]string{"comparator:-1/0/+1", "comparator:-1/0/+1", "comparator:id-difference", "comparator:MinInt/0/MaxInt"}[in.At(0).Int64()&3])
			if in.At(0).Int64()&4 != 0 {
				out.Count("members:pointers")
			}
			if in.At(0).Int64()&8 != 0 {
				out.Count("second-set-interleaved")
			}
			out.Case(kind, nontrivial, in, obs)
			ops := in.At(1)
			for i := 0; i < ops.Len(); i++ {
				out.Count("op:" + names[ops.At(i).At(0).AsInt()])
				if c := ops.At(i).At(0).AsInt(); c == 2 || c == 4 || c == 8 {
					for _, v := range []int64{ops.At(i).At(1).Int64(), ops.At(i).At(2).Int64()} {
						if v == math.MaxInt64 || v == math.MinInt64 {
							out.Count("score-range-op-with-int64-limit-bound")
							break
						}
					}
				}
				if c := ops.At(i).At(0).AsInt(); c == 3 || c == 7 {
					for _, v := range []int64{ops.At(i).At(1).Int64(), ops.At(i).At(2).Int64()} {
						if v >= int64(math.MaxInt)-1 || v <= int64(math.MinInt)+1 {
							out.Count("rank-range-op-with-int-limit-argument")
							break
						}
					}
				}
				if c := ops.At(i).At(0).AsInt(); c == 0 {
					if v := ops.At(i).At(2).Int64(); v == math.MaxInt64 || v == math.MinInt64 {
						out.Count("add-with-int64-limit-score")
					}
				}
				if obs.At(i).At(0).AsInt() == 3 {
					out.Count("runtime-panics")
				}
			}
			// level reached by the lanes at the final probe
			last := obs.At(obs.Len() - 1)
			if last.At(0).AsInt() == 4 {
				out.Count("final-level:" + last.At(5).String())
				n := last.At(4).AsInt()
				switch {
				case n == 0:
					out.Count("final-size:0")
				case n < 10:
					out.Count("final-size:1-9")
				case n < 50:
					out.Count("final-size:10-49")
				default:
					out.Count("final-size:50+")
				}
			}
		}
	}
}
