package main

import (
	"fmt"
	"runtime"
	"sort"
	"strings"
	"sync"
	"time"

	"qchen.fun/fatchoy/x/uuid"
	. "verifharness/common"
)

// Concurrent scenarios: real goroutines call Next on shared generators over one store.  The
// history is linearised afterwards and fed through the Coq model like any other history:
//
//	input    = (9 seed ngen callers each step delay)
//	observed = (events outs)          the linearised history and what every call returned
//
// Linearisation.  Every Storage.Incr call takes a ticket under the store's lock (Incr runs
// while the calling generator's mutex is held, so tickets order the store calls of one
// generator in lock order) and logs it for the calling goroutine, so the harness knows which
// operation made which store calls (and how many: the original makes at most one).  A call
// that did not reach the store returned an id; inside a segment ids are issued in order, after
// the store call that leased the segment and before the next store call of that generator.
// So the key of an operation that reached the store is (its first ticket, 0, 0) and the key
// of any other Next is (ticket of the lease of its segment, 1, id); events of different
// generators commute (each carries its own store answer).
//
// The callers use Next or MustNext (param must); dly 4 is the "hot" class: one generator, tiny
// steps, many callers hammering it with no delay in the store and consecutive counters, so
// that an id issued outside its segment comes back as a duplicate from the next lease.
// the frame of SeqIDGen.Next in a goroutine dump (common/watch.go)
const nextFrame = "qchen.fun/fatchoy/x/uuid.(*SeqIDGen).Next("

type concParams struct {
	seed                     uint64
	ngen, callers, each, dly int
	step                     int64
	must                     int // 1: callers use MustNext, 2: a mix, 0: Next
}

func (p concParams) sx() Sx {
	return List(Int(9), Uint(p.seed), Int(int64(p.ngen)), Int(int64(p.callers)), Int(int64(p.each)), Int(p.step), Int(int64(p.dly)), Int(int64(p.must)))
}

func concParamsOf(in Sx) concParams {
	p := concParams{seed: in.At(1).Uint64(), ngen: in.At(2).AsInt(), callers: in.At(3).AsInt(),
		each: in.At(4).AsInt(), step: in.At(5).Int64(), dly: in.At(6).AsInt()}
	if in.Len() > 7 {
		p.must = in.At(7).AsInt()
	}
	return p
}

type ticketErr struct {
	ticket int64
	after  bool
}

func (e *ticketErr) Error() string { return fmt.Sprintf("store failure at ticket %d", e.ticket) }

type concStore struct {
	mu      sync.Mutex
	rng     *Rng
	ticket  int64
	ctr     int64
	errRate int
	dly     int
	answers map[int64]answer // by ticket
	byCtr   map[int64]int64  // counter -> ticket of the successful call that returned it
	ctrGen  map[int64]int64  // counter -> generator it was handed to
	logs    map[int64]*callLog
	hot     bool
	gate    chan *parkedCall // gated.go: every store call waits here until the driver lets it return
}

// parkedCall: a store call that has taken its ticket and answer and waits to return
type parkedCall struct {
	gid, ticket int64
	release     chan struct{}
}

// callLog: the tickets taken by one goroutine (only that goroutine appends)
type callLog struct{ tickets []int64 }

// genStore is the Storage handed to generator g: the shared store, knowing who asks.
type genStore struct {
	g int64
	s *concStore
}

func (gs genStore) Incr() (int64, error) { return gs.s.incr(gs.g) }
func (gs genStore) Close() error         { return nil }

func (s *concStore) Incr() (int64, error) { return s.incr(-1) }

func (s *concStore) incr(g int64) (int64, error) {
	gid := CurGoid()
	s.mu.Lock()
	s.ticket++
	t := s.ticket
	lg := s.logs[gid]
	if lg == nil {
		lg = &callLog{}
		s.logs[gid] = lg
	}
	lg.tickets = append(lg.tickets, t)
	var a answer
	switch {
	case s.hot:
		s.ctr++
		a = answer{0, s.ctr}
		s.byCtr[s.ctr] = t
		s.ctrGen[s.ctr] = g
	case s.rng.Intn(100) >= s.errRate:
		s.ctr += int64(s.rng.Range(1, 3))
		s.ctrGen[s.ctr] = g
		a = answer{0, s.ctr}
		s.byCtr[s.ctr] = t
	case s.rng.Bool():
		a = answer{kind: 1}
	default:
		s.ctr++
		a = answer{2, s.ctr}
	}
	s.answers[t] = a
	d := s.dly
	n := s.rng.Range(1, 4)
	gate := s.gate
	s.mu.Unlock()
	if gate != nil {
		pc := &parkedCall{gid, t, make(chan struct{})}
		gate <- pc
		<-pc.release
	}
	// keep the caller inside Incr (its generator's mutex is held): the other callers of that
	// generator queue on the mutex at the segment roll-over
	switch d {
	case 1:
		for i := 0; i < n*3; i++ {
			runtime.Gosched()
		}
	case 2:
		time.Sleep(time.Duration(n*40) * time.Microsecond)
	case 3:
		if t%5 == 0 {
			time.Sleep(time.Millisecond)
		}
	}
	switch a.kind {
	case 0:
		return a.c, nil
	case 1:
		return 0, &ticketErr{t, false}
	}
	return 0, &ticketErr{t, true}
}

func (s *concStore) Close() error { return nil }

type concCall struct {
	g       int64
	id      int64
	err     error
	panic   bool
	pval    interface{}
	must    bool    // made through MustNext
	tickets []int64 // the store calls made during the operation
	blocked bool    // the call never returned: parked on the generator's mutex for good (watch.go)
}

// facts established directly on the concurrent run (not through the linearised history)
var concFacts []string

type keyed struct {
	k1, k2, k3 int64
	ev         event
	out        outc
}

// runConcurrent executes the scenario and returns the linearised history with its outputs.
func runConcurrent(p concParams) ([]event, []outc) {
	rng := NewRng(p.seed)
	st := &concStore{rng: rng.Fork(), ctr: int64(rng.Range(0, 40)), dly: p.dly, errRate: rng.PickInt(0, 0, 10, 30),
		answers: map[int64]answer{}, byCtr: map[int64]int64{}, ctrGen: map[int64]int64{}, logs: map[int64]*callLog{},
		hot: p.dly == 4}
	var seqno int64
	var all []keyed
	gens := make([]*uuid.SeqIDGen, p.ngen)
	// sequential events get the key (tickets so far, 2+n, 0): after everything that happened
	seqEvent := func(ev event, o outc) {
		seqno++
		st.mu.Lock()
		t := st.ticket
		st.mu.Unlock()
		all = append(all, keyed{t, 1 + seqno, 0, ev, o})
	}
	create := func(g int) {
		gens[g] = uuid.NewSeqIDGen(genStore{int64(g), st}, int32(p.step))
		seqEvent(event{op: 0, g: int64(g), step: p.step}, outc{})
		for {
			err := gens[g].Init()
			st.mu.Lock()
			t := st.ticket
			a := st.answers[t]
			st.mu.Unlock()
			o := outc{asked: true}
			if err == nil {
				o.kind = 1
			} else {
				o.kind = 3
			}
			all = append(all, keyed{t, 0, 0, event{op: 1, g: int64(g), a: a}, o})
			if err == nil {
				return
			}
		}
	}
	phase := func() {
		var wg sync.WaitGroup
		n := p.ngen * p.callers
		res := make([][]concCall, n)
		var resMu sync.Mutex
		gids := make([]int64, n)
		finished := make([]bool, n)
		start := make(chan struct{})
		ready := make(chan struct{}, n)
		for g := 0; g < p.ngen; g++ {
			for c := 0; c < p.callers; c++ {
				wg.Add(1)
				go func(g, k int) {
					defer wg.Done()
					gids[k] = CurGoid()
					lg := &callLog{}
					st.mu.Lock()
					st.logs[gids[k]] = lg
					st.mu.Unlock()
					must := p.must == 1 || p.must == 2 && k%2 == 1
					ready <- struct{}{}
					<-start
					sg := gens[g]
					mine := make([]concCall, 0, p.each)
					for i := 0; i < p.each; i++ {
						cc := concCall{g: int64(g), must: must}
						n0 := len(lg.tickets)
						if must {
							cc.panic, cc.pval = Catch(func() { cc.id = sg.MustNext() })
						} else {
							cc.panic, cc.pval = Catch(func() { cc.id, cc.err = sg.Next() })
						}
						cc.tickets = lg.tickets[n0:len(lg.tickets):len(lg.tickets)]
						mine = append(mine, cc)
					}
					resMu.Lock()
					res[k] = mine
					finished[k] = true
					resMu.Unlock()
				}(g, g*p.callers+c)
			}
		}
		for i := 0; i < n; i++ {
			<-ready
		}
		close(start)
		allDone := make(chan struct{})
		go func() { wg.Wait(); close(allDone) }()
	waiting:
		for {
			select {
			case <-allDone:
				break waiting
			case <-time.After(25 * time.Millisecond):
			}
			// nobody finished the phase yet: are all remaining callers parked on a generator's
			// mutex with nobody inside Next?  Then they never return.
			resMu.Lock()
			left := map[int64]bool{}
			for k := range finished {
				if !finished[k] {
					left[gids[k]] = true
				}
			}
			resMu.Unlock()
			if len(left) > 0 && ConfirmedStuck(nextFrame, left) {
				resMu.Lock()
				for k := range finished {
					if !finished[k] {
						res[k] = append(res[k], concCall{g: int64(k / p.callers), blocked: true})
					}
				}
				resMu.Unlock()
				break waiting
			}
		}
		resMu.Lock()
		defer resMu.Unlock()
		st.mu.Lock()
		defer st.mu.Unlock()
		all = append(all, keyedCalls(st, p.step, res)...)
	}
	for g := 0; g < p.ngen; g++ {
		create(g)
	}
	phase()
	// a crash and a re-creation between two concurrent phases
	g := rng.Intn(p.ngen)
	seqEvent(event{op: 3, g: int64(g)}, outc{})
	create(g)
	phase()
	sort.SliceStable(all, func(i, j int) bool {
		a, b := all[i], all[j]
		if a.k1 != b.k1 {
			return a.k1 < b.k1
		}
		if a.k2 != b.k2 {
			return a.k2 < b.k2
		}
		return a.k3 < b.k3
	})
	evs := make([]event, len(all))
	outs := make([]outc, len(all))
	for i, k := range all {
		evs[i], outs[i] = k.ev, k.out
	}
	return evs, outs
}

// keyedCalls gives every observed operation its place in the linear order (see the top of the
// file) and checks the direct facts; st.mu must be held.
func keyedCalls(st *concStore, step int64, res [][]concCall) []keyed {
	var all []keyed
	eff := step
	if eff <= 0 {
		eff = uuid.DefaultSeqStep
	}
	for k, calls := range res {
		prevID, hasPrev := int64(0), false
		for _, cc := range calls {
			ev := event{op: 2, g: cc.g, a: answer{kind: 1}}
			if cc.must {
				ev.op = 4
			}
			var o outc
			key := keyed{k1: 1 << 62}
			if len(cc.tickets) > 0 {
				// the operation reached the store: it stands where its first store call stands
				o.asked, o.ncalls = true, int64(len(cc.tickets))
				ev.a = st.answers[cc.tickets[0]]
				key = keyed{k1: cc.tickets[0]}
			}
			switch {
			case cc.blocked:
				o.kind = 6
			case cc.panic && cc.must:
				o.kind = classifyPanic(cc.pval)
			case cc.panic:
				o.kind = 5
			case cc.err != nil:
				if _, ok := cc.err.(*ticketErr); ok {
					o.kind = 3
				} else {
					o.kind = classify(cc.err)
				}
			default:
				o.kind, o.value = 2, cc.id
				// the counter whose segment holds the id: ceil(id/step) - 1
				c := (cc.id - 1) / eff
				if cc.id <= 0 {
					c = -((-cc.id)/eff + 1)
				}
				if len(cc.tickets) == 0 {
					if t, ok := st.byCtr[c]; ok {
						key = keyed{k1: t, k2: 1, k3: cc.id}
					}
				}
				// direct facts: the id lies in a segment the store handed to THIS generator,
				// and the ids of one caller strictly increase (the store's counters do)
				if g, ok := st.ctrGen[c]; !ok || g != cc.g {
					concFacts = append(concFacts, fmt.Sprintf("foreign-segment: generator %d issued id %d from the segment of counter %d, which the store never handed to it", cc.g, cc.id, c))
				}
				if hasPrev && cc.id <= prevID {
					concFacts = append(concFacts, fmt.Sprintf("caller-order: caller %d of generator %d received id %d after id %d", k, cc.g, cc.id, prevID))
				}
				prevID, hasPrev = cc.id, true
			}
			key.ev, key.out = ev, o
			all = append(all, key)
		}
	}
	return all
}

func concObserved(p concParams) ([]event, []outc, Sx) {
	evs, outs := runConcurrent(p)
	return evs, outs, List(eventsSx(evs), outsSx(outs))
}

// reportConcurrent checks one executed scenario on the Go side and records it.
func reportConcurrent(out *Out, kind string, p concParams, evs []event, outs []outc, obs Sx, asCase bool) bool {
	bad := false
	if asCase {
		out.Case(kind, true, p.sx(), obs)
	}
	out.GoChecked++
	if what, ok := goCheck(evs, outs); !ok {
		bad = true
		out.Violation("C08/go-"+what+"/"+kind, "segment id property fails on a linearised concurrent history: "+what, List(p.sx(), obs))
	}
	for _, f := range concFacts {
		bad = true
		out.Violation("C08/go-"+f[:strings.Index(f, ":")]+"/"+kind, "concurrent callers: "+f, List(p.sx(), obs))
	}
	concFacts = nil
	return bad
}

func genConcurrent(a Args, out *Out, r *Rng) {
	n := 14
	if a.Thorough() {
		n = 150
	}
	for k := 0; k < n; k++ {
		p := concParams{seed: r.Next() >> 1, ngen: r.Range(1, 3), callers: r.Range(2, 6), each: r.Range(10, 60),
			step: r.PickI64(1, 2, 2, 3, 3, 5, 8), dly: k % 4, must: k % 3}
		evs, outs, obs := concObserved(p)
		nasked := 0
		for i, o := range outs {
			if o.asked && evs[i].op != 1 {
				nasked++
			}
		}
		out.CountN("concurrent:calls", len(evs))
		out.CountN("concurrent:roll-overs", nasked)
		out.Count(fmt.Sprintf("concurrent:delay-style-%d", p.dly))
		reportConcurrent(out, "concurrent", p, evs, outs, obs, true)
	}
	// the hot class: ONE generator, steps 1..3, 4..16 callers with nothing between their calls,
	// a store that answers at once with consecutive counters.  Small ones go through the model,
	// the volume is checked on the Go side (distinct, in a segment leased by this generator,
	// consecutive, per-caller increasing); a failing one is written out as a case.
	nsmall, nbig, each := 6, 16, 800
	if a.Thorough() {
		nsmall, nbig, each = 40, 120, 4000
	}
	found := 0
	for k := 0; k < nsmall+nbig && found < 3; k++ {
		p := concParams{seed: r.Next() >> 1, ngen: 1, callers: r.PickInt(4, 6, 8, 12, 16), each: each,
			step: r.PickI64(1, 1, 2, 3), dly: 4, must: r.PickInt(0, 0, 1, 2)}
		if k < nsmall {
			p.each = r.Range(40, 150)
		}
		evs, outs, obs := concObserved(p)
		out.CountN("hot:calls", len(evs))
		out.Count("hot:scenarios")
		small := len(evs) <= 3000
		if k >= nsmall {
			// judge first, write the history out only if it fails
			if reportConcurrent(out, "hot", p, evs, outs, obs, false) {
				found++
				if len(evs) <= 40000 {
					out.Case("hot", true, p.sx(), obs)
				}
			}
			continue
		}
		if reportConcurrent(out, "hot", p, evs, outs, obs, small) {
			found++
		}
	}
}
