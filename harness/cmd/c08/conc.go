package main

import (
	"fmt"
	"runtime"
	"sort"
	"sync"
	"time"

	"qchen.fun/fatchoy/x/uuid"
	. "verifharness/common"
)

// Concurrent scenarios: real goroutines call Next on shared generators over one store.  The
// history is linearised afterwards and fed through the Coq model like any other history:
//
//	input    = (9 seed ngen callers each step delay)
//	observed = (events outs)          the linearised history and what every call returned
//
// Linearisation.  Every Storage.Incr call takes a ticket under the store's lock (Incr runs
// while the calling generator's mutex is held, so tickets order the store calls of one
// generator in lock order).  A call that did not reach the store returned an id; inside a
// segment ids are issued in lock order, after the store call that leased the segment and
// before the next store call of that generator.  So the key of a store call is
// (ticket, 0, 0) and the key of any other Next is (ticket of the lease of its segment, 1, id);
// events of different generators commute (each carries its own store answer).  A failed
// store call is identified by the ticket carried in its error value, a successful one by the
// counter it returned.
// the frame of SeqIDGen.Next in a goroutine dump (common/watch.go)
const nextFrame = "qchen.fun/fatchoy/x/uuid.(*SeqIDGen).Next("

type concParams struct {
	seed                     uint64
	ngen, callers, each, dly int
	step                     int64
}

func (p concParams) sx() Sx {
	return List(Int(9), Uint(p.seed), Int(int64(p.ngen)), Int(int64(p.callers)), Int(int64(p.each)), Int(p.step), Int(int64(p.dly)))
}

func concParamsOf(in Sx) concParams {
	return concParams{seed: in.At(1).Uint64(), ngen: in.At(2).AsInt(), callers: in.At(3).AsInt(),
		each: in.At(4).AsInt(), step: in.At(5).Int64(), dly: in.At(6).AsInt()}
}

type ticketErr struct {
	ticket int64
	after  bool
}

func (e *ticketErr) Error() string { return fmt.Sprintf("store failure at ticket %d", e.ticket) }

type concStore struct {
	mu      sync.Mutex
	rng     *Rng
	ticket  int64
	ctr     int64
	errRate int
	dly     int
	answers map[int64]answer // by ticket
	byCtr   map[int64]int64  // counter -> ticket of the successful call that returned it
}

func (s *concStore) Incr() (int64, error) {
	s.mu.Lock()
	s.ticket++
	t := s.ticket
	var a answer
	switch {
	case s.rng.Intn(100) >= s.errRate:
		s.ctr += int64(s.rng.Range(1, 3))
		a = answer{0, s.ctr}
		s.byCtr[s.ctr] = t
	case s.rng.Bool():
		a = answer{kind: 1}
	default:
		s.ctr++
		a = answer{2, s.ctr}
	}
	s.answers[t] = a
	d := s.dly
	n := s.rng.Range(1, 4)
	s.mu.Unlock()
	// keep the caller inside Incr (its generator's mutex is held): the other callers of that
	// generator queue on the mutex at the segment roll-over
	switch d {
	case 1:
		for i := 0; i < n*3; i++ {
			runtime.Gosched()
		}
	case 2:
		time.Sleep(time.Duration(n*40) * time.Microsecond)
	case 3:
		if t%5 == 0 {
			time.Sleep(time.Millisecond)
		}
	}
	switch a.kind {
	case 0:
		return a.c, nil
	case 1:
		return 0, &ticketErr{t, false}
	}
	return 0, &ticketErr{t, true}
}

func (s *concStore) Close() error { return nil }

type concCall struct {
	g       int64
	id      int64
	err     error
	panic   bool
	blocked bool // the call never returned: parked on the generator's mutex for good (watch.go)
}

type keyed struct {
	k1, k2, k3 int64
	ev         event
	out        outc
}

// runConcurrent executes the scenario and returns the linearised history with its outputs.
func runConcurrent(p concParams) ([]event, []outc) {
	rng := NewRng(p.seed)
	st := &concStore{rng: rng.Fork(), ctr: int64(rng.Range(0, 40)), dly: p.dly, errRate: rng.PickInt(0, 0, 10, 30),
		answers: map[int64]answer{}, byCtr: map[int64]int64{}}
	var seqno int64
	var all []keyed
	claimed := map[int64]bool{}
	gens := make([]*uuid.SeqIDGen, p.ngen)
	// sequential events get the key (tickets so far, 2+n, 0): after everything that happened
	seqEvent := func(ev event, o outc) {
		seqno++
		st.mu.Lock()
		t := st.ticket
		st.mu.Unlock()
		all = append(all, keyed{t, 1 + seqno, 0, ev, o})
	}
	create := func(g int) {
		gens[g] = uuid.NewSeqIDGen(st, int32(p.step))
		seqEvent(event{op: 0, g: int64(g), step: p.step}, outc{})
		for {
			err := gens[g].Init()
			st.mu.Lock()
			t := st.ticket
			a := st.answers[t]
			st.mu.Unlock()
			o := outc{asked: true}
			if err == nil {
				o.kind = 1
			} else {
				o.kind = 3
			}
			all = append(all, keyed{t, 0, 0, event{op: 1, g: int64(g), a: a}, o})
			if err == nil {
				return
			}
		}
	}
	phase := func() {
		var wg sync.WaitGroup
		n := p.ngen * p.callers
		res := make([][]concCall, n)
		var resMu sync.Mutex
		gids := make([]int64, n)
		finished := make([]bool, n)
		start := make(chan struct{})
		ready := make(chan struct{}, n)
		for g := 0; g < p.ngen; g++ {
			for c := 0; c < p.callers; c++ {
				wg.Add(1)
				go func(g, k int) {
					defer wg.Done()
					gids[k] = CurGoid()
					ready <- struct{}{}
					<-start
					sg := gens[g]
					for i := 0; i < p.each; i++ {
						var cc concCall
						cc.g = int64(g)
						cc.panic, _ = Catch(func() { cc.id, cc.err = sg.Next() })
						resMu.Lock()
						res[k] = append(res[k], cc)
						resMu.Unlock()
					}
					resMu.Lock()
					finished[k] = true
					resMu.Unlock()
				}(g, g*p.callers+c)
			}
		}
		for i := 0; i < n; i++ {
			<-ready
		}
		close(start)
		allDone := make(chan struct{})
		go func() { wg.Wait(); close(allDone) }()
	waiting:
		for {
			select {
			case <-allDone:
				break waiting
			case <-time.After(25 * time.Millisecond):
			}
			// nobody finished the phase yet: are all remaining callers parked on a generator's
			// mutex with nobody inside Next?  Then they never return.
			resMu.Lock()
			left := map[int64]bool{}
			for k := range finished {
				if !finished[k] {
					left[gids[k]] = true
				}
			}
			resMu.Unlock()
			if len(left) > 0 && ConfirmedStuck(nextFrame, left) {
				resMu.Lock()
				for k := range finished {
					if !finished[k] {
						res[k] = append(res[k], concCall{g: int64(k / p.callers), blocked: true})
					}
				}
				resMu.Unlock()
				break waiting
			}
		}
		resMu.Lock()
		defer resMu.Unlock()
		st.mu.Lock()
		defer st.mu.Unlock()
		eff := p.step
		if eff <= 0 {
			eff = uuid.DefaultSeqStep
		}
		for _, calls := range res {
			for _, cc := range calls {
				ev := event{op: 2, g: cc.g, a: answer{kind: 1}}
				var o outc
				k := keyed{k1: 1 << 62}
				switch {
				case cc.blocked:
					o.kind = 6
				case cc.panic:
					o.kind = 5
				case cc.err != nil:
					if te, ok := cc.err.(*ticketErr); ok {
						o.kind, o.asked = 3, true
						ev.a = st.answers[te.ticket]
						k = keyed{k1: te.ticket}
					} else {
						o.kind = classify(cc.err)
					}
				default:
					o.kind, o.value = 2, cc.id
					// the counter whose segment holds the id: ceil(id/step) - 1
					c := (cc.id - 1) / eff
					if cc.id <= 0 {
						c = -((-cc.id)/eff + 1)
					}
					if t, ok := st.byCtr[c]; ok {
						if cc.id == c*eff+1 && !initLease(all, t) && !claimed[t] {
							claimed[t] = true // one store call, one caller: a second call
							// returning the same first id did not reach the store
							// first id of a segment leased by a Next: that call reached the store
							o.asked = true
							ev.a = st.answers[t]
							k = keyed{k1: t}
						} else {
							k = keyed{k1: t, k2: 1, k3: cc.id}
						}
					}
				}
				k.ev, k.out = ev, o
				all = append(all, k)
			}
		}
	}
	for g := 0; g < p.ngen; g++ {
		create(g)
	}
	phase()
	// a crash and a re-creation between two concurrent phases
	g := rng.Intn(p.ngen)
	seqEvent(event{op: 3, g: int64(g)}, outc{})
	create(g)
	phase()
	sort.SliceStable(all, func(i, j int) bool {
		a, b := all[i], all[j]
		if a.k1 != b.k1 {
			return a.k1 < b.k1
		}
		if a.k2 != b.k2 {
			return a.k2 < b.k2
		}
		return a.k3 < b.k3
	})
	evs := make([]event, len(all))
	outs := make([]outc, len(all))
	for i, k := range all {
		evs[i], outs[i] = k.ev, k.out
	}
	return evs, outs
}

// initLease reports whether the store call with this ticket was made by an Init.
func initLease(all []keyed, t int64) bool {
	for _, k := range all {
		if k.k1 == t && k.k2 == 0 && k.ev.op == 1 {
			return true
		}
	}
	return false
}

func concObserved(p concParams) ([]event, []outc, Sx) {
	evs, outs := runConcurrent(p)
	return evs, outs, List(eventsSx(evs), outsSx(outs))
}

func genConcurrent(a Args, out *Out, r *Rng) {
	n := 14
	if a.Thorough() {
		n = 150
	}
	for k := 0; k < n; k++ {
		p := concParams{seed: r.Next() >> 1, ngen: r.Range(1, 3), callers: r.Range(2, 6), each: r.Range(10, 60),
			step: r.PickI64(1, 2, 2, 3, 3, 5, 8), dly: k % 4}
		evs, outs, obs := concObserved(p)
		nasked := 0
		for i, o := range outs {
			if o.asked && evs[i].op == 2 {
				nasked++
			}
		}
		out.CountN("concurrent:calls", len(evs))
		out.CountN("concurrent:roll-overs", nasked)
		out.Count(fmt.Sprintf("concurrent:delay-style-%d", p.dly))
		out.Case("concurrent", true, p.sx(), obs)
		out.GoChecked++
		if what, ok := goCheck(evs, outs); !ok {
			out.Violation("C08/go-"+what+"/concurrent", "segment id property fails on a linearised concurrent history: "+what, List(p.sx(), obs))
		}
	}
}
