package main

import (
	"bufio"
	"context"
	"fmt"
	"io"
	"net"
	"strconv"
	"strings"
	"sync"

	"qchen.fun/fatchoy/x/uuid"
	. "verifharness/common"
)

// fakeRedis is an in-process server speaking just enough RESP for RedisStore: PING and INCR.
// INCR answers with the next scripted raw counter value, so the real RedisStore.Incr (and the
// guard `lastId != 0 && lastId >= cnt` it shares with the etcd, mongo and mysql adapters)
// runs on arbitrary counter sequences without a database.
type fakeRedis struct {
	ln   net.Listener
	mu   sync.Mutex
	raws []int64
}

func startFakeRedis() (*fakeRedis, error) {
	ln, err := net.Listen("tcp", "127.0.0.1:0")
	if err != nil {
		return nil, err
	}
	f := &fakeRedis{ln: ln}
	go func() {
		for {
			c, err := ln.Accept()
			if err != nil {
				return
			}
			go f.serve(c)
		}
	}()
	return f, nil
}

func readCommand(rd *bufio.Reader) ([]string, error) {
	line, err := rd.ReadString('\n')
	if err != nil {
		return nil, err
	}
	line = strings.TrimRight(line, "\r\n")
	if len(line) == 0 || line[0] != '*' {
		return strings.Fields(line), nil
	}
	n, err := strconv.Atoi(line[1:])
	if err != nil {
		return nil, err
	}
	args := make([]string, 0, n)
	for i := 0; i < n; i++ {
		hdr, err := rd.ReadString('\n')
		if err != nil {
			return nil, err
		}
		l, err := strconv.Atoi(strings.TrimRight(hdr, "\r\n")[1:])
		if err != nil {
			return nil, err
		}
		buf := make([]byte, l+2)
		if _, err := io.ReadFull(rd, buf); err != nil {
			return nil, err
		}
		args = append(args, string(buf[:l]))
	}
	return args, nil
}

func (f *fakeRedis) serve(c net.Conn) {
	defer c.Close()
	rd := bufio.NewReader(c)
	for {
		args, err := readCommand(rd)
		if err != nil || len(args) == 0 {
			return
		}
		switch strings.ToUpper(args[0]) {
		case "PING":
			fmt.Fprint(c, "+PONG\r\n")
		case "INCR":
			f.mu.Lock()
			if len(f.raws) == 0 {
				f.mu.Unlock()
				fmt.Fprint(c, "-ERR script exhausted\r\n")
				continue
			}
			v := f.raws[0]
			f.raws = f.raws[1:]
			f.mu.Unlock()
			if v == errRaw {
				fmt.Fprint(c, "-ERR injected failure\r\n")
				continue
			}
			fmt.Fprintf(c, ":%d\r\n", v)
		default:
			fmt.Fprint(c, "-ERR unknown command\r\n")
		}
	}
}

var (
	redisOnce sync.Once
	redisSrv  *fakeRedis
)

// runGuard pushes the raw counter values through a fresh RedisStore.
func runGuard(raws []int64) []gout {
	if len(raws) == 0 {
		return nil
	}
	redisOnce.Do(func() { redisSrv, _ = startFakeRedis() })
	if redisSrv == nil {
		panic("cannot listen on 127.0.0.1 for the fake redis")
	}
	redisSrv.mu.Lock()
	redisSrv.raws = append([]int64(nil), raws...)
	redisSrv.mu.Unlock()
	var st uuid.Storage
	if p, v := Catch(func() { st = uuid.NewRedisStore(context.Background(), redisSrv.ln.Addr().String(), "verif") }); p {
		panic(fmt.Sprint("NewRedisStore against the fake redis: ", v))
	}
	defer st.Close()
	res := make([]gout, len(raws))
	for i := range raws {
		v, err := st.Incr()
		res[i] = gout{ok: err == nil, v: v}
		if err != nil && err != uuid.ErrIDOutOfRange {
			res[i].v = -1 // not the guard: would show as a mismatch
		}
	}
	return res
}

func guardRaws(r *Rng) []int64 {
	n := r.Range(1, 12)
	raws := make([]int64, n)
	v := int64(r.Range(-3, 5))
	for i := range raws {
		if r.Chance(1, 12) {
			raws[i] = errRaw // the client call fails here
			continue
		}
		if r.Chance(1, 15) {
			// the ends of int64 and zero (the value at which the guard is switched off)
			v = r.PickI64(1<<63-1, -(1<<63)+1, 1<<62, 0, 1)
			raws[i] = v
			continue
		}
		switch r.Intn(8) {
		case 0:
			v -= int64(r.Range(0, 4)) // a counter that was reset or restored from a backup
		case 1: // the same value again
		case 2:
			v = int64(r.Range(-2, 2))
		default:
			v += int64(r.Range(1, 5))
		}
		raws[i] = v
	}
	return raws
}
