package main

import (
	"context"
	"encoding/binary"
	"fmt"
	"io"
	"net"
	"sync"
	"time"

	"go.mongodb.org/mongo-driver/bson"
	"qchen.fun/fatchoy/x/uuid"
	. "verifharness/common"
)

// fakeMongo is an in-process server speaking just enough of the MongoDB wire protocol for
// MongoStore through the official driver: the connection handshake (isMaster / hello, as
// OP_QUERY or OP_MSG), ping, and findAndModify, whose reply carries the counter document with
// the scripted count.  Everything else is answered {ok: 1}.
type fakeMongo struct {
	ln net.Listener
	mu sync.Mutex
	cs []int64
}

func startFakeMongo() (*fakeMongo, error) {
	ln, err := net.Listen("tcp", "127.0.0.1:0")
	if err != nil {
		return nil, err
	}
	f := &fakeMongo{ln: ln}
	go func() {
		for {
			c, err := ln.Accept()
			if err != nil {
				return
			}
			go f.serve(c)
		}
	}()
	return f, nil
}

func (f *fakeMongo) reply(cmd bson.Raw) bson.D {
	elems, err := cmd.Elements()
	if err != nil || len(elems) == 0 {
		return bson.D{{Key: "ok", Value: 0.0}, {Key: "errmsg", Value: "bad command"}}
	}
	switch elems[0].Key() {
	case "isMaster", "ismaster", "hello":
		return bson.D{
			{Key: "ismaster", Value: true}, {Key: "isWritablePrimary", Value: true},
			{Key: "maxBsonObjectSize", Value: int32(16777216)}, {Key: "maxMessageSizeBytes", Value: int32(48000000)},
			{Key: "maxWriteBatchSize", Value: int32(100000)}, {Key: "localTime", Value: time.Now()},
			{Key: "minWireVersion", Value: int32(0)}, {Key: "maxWireVersion", Value: int32(8)},
			{Key: "readOnly", Value: false}, {Key: "ok", Value: 1.0}}
	case "findAndModify":
		f.mu.Lock()
		defer f.mu.Unlock()
		if len(f.cs) == 0 {
			return bson.D{{Key: "ok", Value: 0.0}, {Key: "errmsg", Value: "script exhausted"}, {Key: "code", Value: int32(8)}}
		}
		c := f.cs[0]
		f.cs = f.cs[1:]
		if c == errRaw {
			return bson.D{{Key: "ok", Value: 0.0}, {Key: "errmsg", Value: "injected failure"}, {Key: "code", Value: int32(8)}}
		}
		return bson.D{
			{Key: "lastErrorObject", Value: bson.D{{Key: "n", Value: int32(1)}, {Key: "updatedExisting", Value: true}}},
			{Key: "value", Value: bson.D{{Key: "label", Value: "verif"}, {Key: "count", Value: c}, {Key: "step", Value: int32(2000)}}},
			{Key: "ok", Value: 1.0}}
	}
	return bson.D{{Key: "ok", Value: 1.0}}
}

func (f *fakeMongo) serve(c net.Conn) {
	defer c.Close()
	for {
		hdr := make([]byte, 16)
		if _, err := io.ReadFull(c, hdr); err != nil {
			return
		}
		n := int(binary.LittleEndian.Uint32(hdr[0:]))
		reqID := binary.LittleEndian.Uint32(hdr[4:])
		op := binary.LittleEndian.Uint32(hdr[12:])
		if n < 16 || n > 1<<24 {
			return
		}
		body := make([]byte, n-16)
		if _, err := io.ReadFull(c, body); err != nil {
			return
		}
		var out []byte
		switch op {
		case 2004: // OP_QUERY: flags, cstring collection, skip, return, document
			i := 4
			for i < len(body) && body[i] != 0 {
				i++
			}
			i += 1 + 8
			if i+4 > len(body) {
				return
			}
			doc, _ := bson.Marshal(f.reply(bson.Raw(body[i:])))
			out = make([]byte, 16+20, 16+20+len(doc))
			binary.LittleEndian.PutUint32(out[12:], 1) // OP_REPLY
			binary.LittleEndian.PutUint32(out[16:], 8) // responseFlags: AwaitCapable
			binary.LittleEndian.PutUint32(out[32:], 1) // numberReturned (cursor id, startingFrom = 0)
			out = append(out, doc...)
		case 2013: // OP_MSG: flagBits, section kind 0 + document
			if len(body) < 9 || body[4] != 0 {
				return
			}
			doc, _ := bson.Marshal(f.reply(bson.Raw(body[5:])))
			out = make([]byte, 16+5, 16+5+len(doc))
			binary.LittleEndian.PutUint32(out[12:], 2013)
			out = append(out, doc...)
		default:
			return
		}
		binary.LittleEndian.PutUint32(out[0:], uint32(len(out)))
		binary.LittleEndian.PutUint32(out[4:], reqID+1000000)
		binary.LittleEndian.PutUint32(out[8:], reqID) // responseTo
		if _, err := c.Write(out); err != nil {
			return
		}
	}
}

var (
	mongoOnce sync.Once
	mongoSrv  *fakeMongo
)

func runMongo(cs []int64) []gout {
	mongoOnce.Do(func() { mongoSrv, _ = startFakeMongo() })
	if mongoSrv == nil {
		panic("cannot listen on 127.0.0.1 for the fake mongo")
	}
	mongoSrv.mu.Lock()
	mongoSrv.cs = append([]int64(nil), cs...)
	mongoSrv.mu.Unlock()
	var st uuid.Storage
	uri := fmt.Sprintf("mongodb://%s/?connect=direct&serverSelectionTimeoutMS=8000&heartbeatFrequencyMS=600000", mongoSrv.ln.Addr().String())
	if p, v := Catch(func() { st = uuid.NewMongoDBStore(context.Background(), uri, "verif", "verif", 2000) }); p {
		panic(fmt.Sprint("NewMongoDBStore against the fake mongo: ", v))
	}
	defer st.Close()
	return drive(st, len(cs))
}
