package main

import (
	"context"
	"encoding/binary"
	"fmt"
	"io"
	"net"
	"strconv"
	"strings"
	"sync"

	"qchen.fun/fatchoy/x/uuid"
	. "verifharness/common"
)

// fakeMySQL is an in-process server speaking just enough of the MySQL client/server protocol
// (handshake v10, COM_PING, COM_QUERY with text results, COM_QUIT) for MySQLStore driven through
// database/sql and go-sql-driver/mysql with interpolateParams=true: CREATE TABLE, the SELECT
// of setupInit (scripted: no row, or the stored seq_id), INSERT, START TRANSACTION / COMMIT /
// ROLLBACK, and the UPDATE of incrSeqID, whose OK packet carries the scripted LAST_INSERT_ID.
type fakeMySQL struct {
	ln   net.Listener
	mu   sync.Mutex
	init int64   // seq_id found by the SELECT (0: no row)
	cs   []int64 // counters the following UPDATEs shall yield (LAST_INSERT_ID = c-1)
	log  []string
}

func startFakeMySQL() (*fakeMySQL, error) {
	ln, err := net.Listen("tcp", "127.0.0.1:0")
	if err != nil {
		return nil, err
	}
	f := &fakeMySQL{ln: ln}
	go func() {
		for {
			c, err := ln.Accept()
			if err != nil {
				return
			}
			go f.serve(c)
		}
	}()
	return f, nil
}

func lenenc(v uint64) []byte {
	switch {
	case v < 251:
		return []byte{byte(v)}
	case v <= 0xffff:
		return []byte{0xfc, byte(v), byte(v >> 8)}
	case v <= 0xffffff:
		return []byte{0xfd, byte(v), byte(v >> 8), byte(v >> 16)}
	}
	b := make([]byte, 9)
	b[0] = 0xfe
	binary.LittleEndian.PutUint64(b[1:], v)
	return b
}

func lenstr(s string) []byte { return append(lenenc(uint64(len(s))), s...) }

type myConn struct {
	c   net.Conn
	seq byte
}

func (m *myConn) write(payload []byte) error {
	hdr := []byte{byte(len(payload)), byte(len(payload) >> 8), byte(len(payload) >> 16), m.seq}
	m.seq++
	_, err := m.c.Write(append(hdr, payload...))
	return err
}

func (m *myConn) read() ([]byte, error) {
	hdr := make([]byte, 4)
	if _, err := io.ReadFull(m.c, hdr); err != nil {
		return nil, err
	}
	n := int(hdr[0]) | int(hdr[1])<<8 | int(hdr[2])<<16
	m.seq = hdr[3] + 1
	buf := make([]byte, n)
	_, err := io.ReadFull(m.c, buf)
	return buf, err
}

func okPacket(affected, lastInsertID uint64) []byte {
	p := []byte{0x00}
	p = append(p, lenenc(affected)...)
	p = append(p, lenenc(lastInsertID)...)
	return append(p, 0x02, 0x00, 0x00, 0x00) // status: autocommit, no warnings
}

var eofPacket = []byte{0xfe, 0x00, 0x00, 0x02, 0x00}

func (f *fakeMySQL) serve(c net.Conn) {
	defer c.Close()
	m := &myConn{c: c}
	// initial handshake, protocol 10
	hs := []byte{0x0a}
	hs = append(hs, "5.7.0-verif-fake\x00"...)
	hs = append(hs, 1, 0, 0, 0)                     // connection id
	hs = append(hs, "abcdefgh"...)                  // auth plugin data, part 1
	hs = append(hs, 0)                              // filler
	hs = append(hs, 0xff, 0xf7)                     // capabilities, lower (no SSL)
	hs = append(hs, 45)                             // utf8mb4_general_ci
	hs = append(hs, 0x02, 0x00)                     // status
	hs = append(hs, 0x08, 0x00)                     // capabilities, upper: PLUGIN_AUTH
	hs = append(hs, 21)                             // auth plugin data length
	hs = append(hs, make([]byte, 10)...)            // reserved
	hs = append(hs, "ijklmnopqrst\x00"...)          // auth plugin data, part 2
	hs = append(hs, "mysql_native_password\x00"...) // plugin
	if m.write(hs) != nil {
		return
	}
	if _, err := m.read(); err != nil { // handshake response: anybody may come in
		return
	}
	if m.write(okPacket(0, 0)) != nil {
		return
	}
	for {
		p, err := m.read()
		if err != nil || len(p) == 0 {
			return
		}
		switch p[0] {
		case 0x01: // COM_QUIT
			return
		case 0x0e: // COM_PING
			m.write(okPacket(0, 0))
		case 0x03: // COM_QUERY
			q := string(p[1:])
			f.mu.Lock()
			f.log = append(f.log, q)
			f.mu.Unlock()
			up := strings.ToUpper(strings.TrimSpace(q))
			switch {
			case strings.HasPrefix(up, "SELECT"):
				f.mu.Lock()
				init := f.init
				f.mu.Unlock()
				m.write(lenenc(1)) // one column
				col := lenstr("def")
				col = append(col, lenstr("verif")...)
				col = append(col, lenstr("uuid")...)
				col = append(col, lenstr("uuid")...)
				col = append(col, lenstr("seq_id")...)
				col = append(col, lenstr("seq_id")...)
				col = append(col, 0x0c, 63, 0, 20, 0, 0, 0, 0x08, 0x01, 0x00, 0, 0, 0)
				m.write(col)
				m.write(eofPacket)
				if init != 0 {
					m.write(lenstr(strconv.FormatInt(init, 10)))
				}
				m.write(eofPacket)
			case strings.HasPrefix(up, "UPDATE"):
				f.mu.Lock()
				if len(f.cs) == 0 {
					f.mu.Unlock()
					m.write(append([]byte{0xff, 0x28, 0x04, '#'}, "HY000script exhausted"...))
					continue
				}
				c := f.cs[0]
				f.cs = f.cs[1:]
				f.mu.Unlock()
				if c == errRaw {
					f.mu.Lock()
					odd := len(f.cs)%2 == 1
					f.mu.Unlock()
					if odd {
						m.write(okPacket(0, 0)) // the UPDATE matched no row: ErrNoRowsAffected
					} else {
						m.write(append([]byte{0xff, 0x15, 0x04, '#'}, "HY000injected failure"...))
					}
					continue
				}
				m.write(okPacket(1, uint64(c-1)))
			case strings.HasPrefix(up, "INSERT"):
				m.write(okPacket(1, 1))
			default: // CREATE TABLE, START TRANSACTION, COMMIT, ROLLBACK, SET ...
				m.write(okPacket(0, 0))
			}
		default:
			m.write(append([]byte{0xff, 0x15, 0x04, '#'}, "HY000unsupported command"...))
		}
	}
}

var (
	mysqlOnce sync.Once
	mysqlSrv  *fakeMySQL
)

func runMySQL(init int64, cs []int64) []gout {
	mysqlOnce.Do(func() { mysqlSrv, _ = startFakeMySQL() })
	if mysqlSrv == nil {
		panic("cannot listen on 127.0.0.1 for the fake mysql")
	}
	mysqlSrv.mu.Lock()
	mysqlSrv.init, mysqlSrv.cs, mysqlSrv.log = init, append([]int64(nil), cs...), nil
	mysqlSrv.mu.Unlock()
	var st uuid.Storage
	dsn := fmt.Sprintf("verif@tcp(%s)/verif?interpolateParams=true", mysqlSrv.ln.Addr().String())
	if p, v := Catch(func() { st = uuid.NewMySQLStore(context.Background(), dsn, "uuid", "verif", 2000) }); p {
		panic(fmt.Sprint("NewMySQLStore against the fake mysql: ", v))
	}
	defer st.Close()
	return drive(st, len(cs))
}
