// C08 harness: segment id generators (x/uuid/seq.go) over a scripted counter store.
//
// input    = (events guards)   guards: adapters.go
// event    = (0 g step) NewSeqIDGen | (1 g a c) Init | (2 g a c) Next | (4 g a c) MustNext | (3 g) crash (the
//
//	generator object is dropped; a later New creates the next incarnation)
//	a/c = the answer the store gives if Storage.Incr is called during the event:
//	0 c: returns c | 1: fails, counter did not move | 2 c: counter moved to c, call fails
//
// observed = (outs gouts)
// out      = (kind value asked)  asked = number of Storage.Incr calls made during the operation  kind 0 nothing, 1 Init ok, 2 id, 3 the store's error,
//
//	4 "integer overflow", 5 anything else; asked = Storage.Incr was called
//
// raws/gouts: raw counter values pushed through a real store adapter's guard (RedisStore.Incr
//
//	against an in-process fake redis) and what Incr returned: (ok value)
package main

import (
	"errors"
	"fmt"
	"io"
	"log"
	"os"
	"strings"
	"time"

	"qchen.fun/fatchoy/x/uuid"
	. "verifharness/common"
)

var errBefore = errors.New("store: unavailable (counter not moved)")
var errAfter = errors.New("store: reply lost (counter moved)")

type answer struct {
	kind int64 // 0 ok, 1 err before, 2 err after
	c    int64
}

type event struct {
	op   int64 // 0 new, 1 init, 2 next, 3 crash
	g    int64
	step int64
	a    answer
}

func (e event) sx() Sx {
	switch e.op {
	case 0:
		return Ints(0, e.g, e.step)
	case 3:
		return Ints(3, e.g)
	}
	return Ints(e.op, e.g, e.a.kind, e.a.c)
}

func eventOf(s Sx) event {
	e := event{op: s.At(0).Int64(), g: s.At(1).Int64()}
	switch e.op {
	case 0:
		e.step = s.At(2).Int64()
	case 1, 2, 4:
		e.a = answer{s.At(2).Int64(), s.At(3).Int64()}
	}
	return e
}

// store is the scripted Storage.  In live mode (policy != nil) it draws the answer when it
// is asked and writes it back into the event, which is how histories are generated.
type store struct {
	pending *answer
	asked   bool
	ncalls  int64 // Storage.Incr calls during the current operation
	extra   int64 // counters handed out for calls beyond the first of one operation
	policy  func() answer
}

// extraBase: an operation of the original code makes at most one store call.  Should it make a
// second one, the scripted store answers it with a fresh counter far away from the script's.
const extraBase = int64(4000000000000)

func (s *store) Incr() (int64, error) {
	s.asked = true
	s.ncalls++
	if s.ncalls > 1 {
		s.extra++
		return extraBase + s.extra, nil
	}
	if s.policy != nil {
		*s.pending = s.policy()
	}
	switch s.pending.kind {
	case 0:
		return s.pending.c, nil
	case 1:
		return 0, errBefore
	}
	return 0, errAfter
}

func (s *store) Close() error { return nil }

type outc struct {
	kind, value int64
	asked       bool
	ncalls      int64 // how many Storage.Incr calls the operation made (the original: at most 1)
}

func classify(err error) int64 {
	switch {
	case err == errBefore || err == errAfter:
		return 3
	case strings.HasPrefix(err.Error(), "SeqID: integer overflow"):
		return 4
	}
	return 5
}

// classifyPanic: MustNext / NextID panic with log.Panicf("next ID: %v", err)
func classifyPanic(v interface{}) int64 {
	msg, ok := v.(string)
	switch {
	case !ok:
		return 5
	case strings.Contains(msg, errBefore.Error()) || strings.Contains(msg, errAfter.Error()) || strings.Contains(msg, "store failure at ticket"):
		return 3
	case strings.Contains(msg, "SeqID: integer overflow"):
		return 4
	}
	return 5
}

// play runs a history on the real code.
func play(evs []event, st *store) []outc {
	gens := map[int64]*uuid.SeqIDGen{}
	outs := make([]outc, len(evs))
	w := NewWatcher(nextFrame)
	defer func() { w.Close() }()
	// watched runs f on the worker goroutine; a call that is blocked for good (watch.go) is
	// outcome kind 6 and costs the worker
	dead := map[*uuid.SeqIDGen]bool{} // generators whose mutex is locked for good
	var curGen *uuid.SeqIDGen
	watched := func(o *outc, f func()) {
		if dead[curGen] {
			// established by an earlier call of this history: the mutex is held and nobody
			// who could release it exists; do not park yet another goroutine on it
			o.kind = 6
			return
		}
		if w.Call(f) {
			o.kind = 6
			dead[curGen] = true
			w = NewWatcher(nextFrame)
		}
	}
	for i := range evs {
		e := &evs[i]
		st.pending, st.asked, st.ncalls = &e.a, false, 0
		curGen = gens[e.g]
		var o outc
		switch e.op {
		case 0:
			gens[e.g] = uuid.NewSeqIDGen(st, int32(e.step))
		case 3:
			delete(gens, e.g)
		case 1:
			if g := gens[e.g]; g != nil {
				watched(&o, func() {
					var err error
					if p, _ := Catch(func() { err = g.Init() }); p {
						o.kind = 5
					} else if err == nil {
						o.kind = 1
					} else {
						o.kind = classify(err)
					}
				})
			}
		case 4:
			if g := gens[e.g]; g != nil {
				watched(&o, func() {
					var id int64
					if p, v := Catch(func() { id = g.MustNext() }); !p {
						o.kind, o.value = 2, id
					} else {
						o.kind = classifyPanic(v)
					}
				})
			}
		case 2:
			if g := gens[e.g]; g != nil {
				watched(&o, func() {
					var id int64
					var err error
					if p, _ := Catch(func() { id, err = g.Next() }); p {
						o.kind = 5
					} else if err == nil {
						o.kind, o.value = 2, id
					} else {
						o.kind = classify(err)
					}
				})
			}
		}
		o.asked, o.ncalls = st.asked, st.ncalls
		outs[i] = o
	}
	return outs
}

// playAPI runs a history through the package-level API (api.go): Init(workerId, store) creates
// and initialises the global generator — and keeps the previous one if the store fails —,
// NextID() is MustNext() on it.  In the history every api Init is a New + Init of a fresh
// generator index and every Next addresses the index of the latest successful Init.
func playAPI(evs []event, st *store) []outc {
	outs := make([]outc, len(evs))
	cur := int64(-1)
	w := NewWatcher(nextFrame)
	defer func() { w.Close() }()
	deadGen := int64(-2) // index of the global generator found blocked for good
	watched := func(o *outc, f func()) {
		if w.Call(f) {
			o.kind = 6
			deadGen = cur
			w = NewWatcher(nextFrame)
		}
	}
	for i := range evs {
		e := &evs[i]
		st.pending, st.asked, st.ncalls = &e.a, false, 0
		var o outc
		if e.op == 2 && e.g == cur && cur == deadGen {
			o.kind = 6
			outs[i] = o
			continue
		}
		switch e.op {
		case 1:
			var err error
			if p, _ := Catch(func() { err = uuid.Init(4321, st) }); p {
				o.kind = 5
			} else if err == nil {
				o.kind, cur = 1, e.g
			} else {
				o.kind = classify(err)
			}
		case 2:
			if e.g == cur {
				watched(&o, func() {
					var id int64
					if p, v := Catch(func() { id = uuid.NextID() }); !p {
						o.kind, o.value = 2, id
					} else if msg, ok := v.(string); ok && (strings.Contains(msg, errBefore.Error()) || strings.Contains(msg, errAfter.Error())) {
						o.kind = 3
					} else {
						o.kind = 5
					}
				})
			}
		}
		o.asked, o.ncalls = st.asked, st.ncalls
		outs[i] = o
	}
	return outs
}

func outsSx(outs []outc) Sx {
	l := make([]Sx, len(outs))
	for i, o := range outs {
		n := o.ncalls
		if o.asked && n == 0 {
			n = 1
		}
		l[i] = List(Int(o.kind), Int(o.value), Int(n))
	}
	return ListOf(l)
}

func eventsSx(evs []event) Sx {
	l := make([]Sx, len(evs))
	for i, e := range evs {
		l[i] = e.sx()
	}
	return ListOf(l)
}

func run(in Sx) Sx {
	if in.At(0).Kind == 'i' && in.At(0).Int64() == 7 { // a gated scenario (gated.go)
		evs, outs := runGated(gatedParamsOf(in))
		concFacts = nil
		return List(eventsSx(evs), outsSx(outs))
	}
	if in.At(0).Kind == 'i' { // a concurrent scenario: (9 seed ngen callers each step delay must)
		_, _, obs := concObserved(concParamsOf(in))
		concFacts = nil
		return obs
	}
	var evs []event
	for _, s := range in.At(0).L {
		evs = append(evs, eventOf(s))
	}
	var gs []gscript
	for _, s := range in.At(1).L {
		gs = append(gs, gscriptOf(s))
	}
	if in.Len() > 2 { // (events guards 1): through the package-level API
		return List(outsSx(playAPI(evs, &store{})), goutsSx(runGuards(gs)))
	}
	outs := play(evs, &store{})
	return List(outsSx(outs), goutsSx(runGuards(gs)))
}

type gout struct {
	ok bool
	v  int64
}

func guardSx(g []gout) Sx {
	l := make([]Sx, len(g))
	for i, o := range g {
		l[i] = List(Bool(o.ok), Int(o.v))
	}
	return ListOf(l)
}

// ---- the property restated in Go (volume sweep) ----
func goCheck(evs []event, outs []outc) (string, bool) {
	type slot struct {
		step           int64
		lease          int64
		hasLease, init bool
		last           int64
		hasLast        bool
	}
	fits := func(c, st int64) bool {
		hi, lo := mul128(c+1, st)
		hi2, lo2 := mul128(c, st)
		return c < 1<<62 && c > -(1<<62) && hi == signExt(lo) && hi2 == signExt(lo2) && int64(lo) != 1<<63-1
	}
	slots := map[int64]*slot{}
	ids := map[int64]bool{}
	leased := map[int64]bool{}
	var step0 int64
	for _, o := range outs {
		if o.kind == 6 {
			return "blocked", false // a call never returned, whatever the premise
		}
	}
	for i, e := range evs {
		o := outs[i]
		if e.op == 4 {
			e.op = 2 // MustNext = Next whose error arrives as a panic
		}
		if o.ncalls > 1 {
			return "store-error", false // one operation, at most one store call
		}
		switch e.op {
		case 0:
			st := e.step
			if st <= 0 {
				st = uuid.DefaultSeqStep
			}
			if step0 != 0 && step0 != st {
				return "", true // premise: one step per store
			}
			step0 = st
			slots[e.g] = &slot{step: st}
		case 3:
			delete(slots, e.g)
		case 1, 2:
			sl := slots[e.g]
			if sl == nil {
				continue
			}
			if e.op == 2 && !sl.init {
				return "", true // premise: used only after a successful Init
			}
			if o.asked {
				if e.op == 2 {
					pos := sl.lease * sl.step
					if sl.hasLast {
						pos = sl.last
					}
					if pos != (sl.lease+1)*sl.step {
						return "lease-before-exhausted", false
					}
				}
				if e.a.kind != 0 {
					if o.kind != 3 {
						return "store-error", false
					}
					continue
				}
				if leased[e.a.c] || !fits(e.a.c, sl.step) {
					return "", true // premise: each counter value handed out once, no overflow
				}
				leased[e.a.c] = true
				grow := !sl.hasLease || sl.lease < e.a.c
				sl.lease, sl.hasLease, sl.init = e.a.c, true, true
				if e.op == 1 {
					if o.kind != 1 {
						return "store-error", false
					}
					sl.hasLast = false
					continue
				}
				if o.kind != 2 {
					return "store-error", false
				}
				if ids[o.value] {
					return "duplicate", false
				}
				if o.value != e.a.c*sl.step+1 {
					return "segment", false
				}
				if sl.hasLast && grow && o.value <= sl.last {
					return "increasing", false
				}
				ids[o.value] = true
				sl.last, sl.hasLast = o.value, true
				continue
			}
			if e.op == 1 {
				return "store-error", false // Init must ask the store
			}
			if o.kind != 2 {
				return "store-error", false
			}
			pos := sl.lease * sl.step
			if sl.hasLast {
				pos = sl.last
			}
			if ids[o.value] {
				return "duplicate", false
			}
			if !(sl.lease*sl.step < o.value && o.value <= (sl.lease+1)*sl.step) || o.value != pos+1 {
				return "segment", false
			}
			ids[o.value] = true
			sl.last, sl.hasLast = o.value, true
		}
	}
	return "", true
}

func signExt(lo uint64) int64 {
	if int64(lo) < 0 {
		return -1
	}
	return 0
}

// signed 64x64 -> 128 multiplication (hi, lo)
func mul128(a, b int64) (int64, uint64) {
	neg := (a < 0) != (b < 0)
	ua, ub := uint64(a), uint64(b)
	if a < 0 {
		ua = uint64(-a)
	}
	if b < 0 {
		ub = uint64(-b)
	}
	hi, lo := mulu(ua, ub)
	if neg {
		lo = ^lo + 1
		hi = ^hi
		if lo == 0 {
			hi++
		}
	}
	return int64(hi), lo
}

func mulu(a, b uint64) (uint64, uint64) {
	a0, a1 := a&0xffffffff, a>>32
	b0, b1 := b&0xffffffff, b>>32
	t := a0 * b0
	w0 := t & 0xffffffff
	t = a1*b0 + t>>32
	w1, w2 := t&0xffffffff, t>>32
	t = a0*b1 + w1
	return a1*b1 + w2 + t>>32, t<<32 | w0
}

func main() {
	log.SetOutput(io.Discard)
	if len(os.Args) > 1 && os.Args[1] == "concurrent" {
		concurrent()
		return
	}
	Main(run, gen)
}

// ---- generators ----

// skeleton draws the shape of a history: who is created, initialised, called, crashed.
func skeleton(r *Rng, style string, step int64, nev int) []event {
	ngen := r.Range(1, 5)
	alive := make([]bool, ngen)
	var evs []event
	mk := func(g int) {
		s := step
		if style == "mixed-steps" {
			s = r.PickI64(1, 2, 3, 7, 2000)
		}
		evs = append(evs, event{op: 0, g: int64(g), step: s})
		if style != "uninit" || r.Chance(2, 3) {
			evs = append(evs, event{op: 1, g: int64(g)})
		}
		alive[g] = true
	}
	mk(0)
	for len(evs) < nev {
		g := r.Intn(ngen)
		c := r.Intn(100)
		switch {
		case !alive[g]:
			mk(g)
		case c < 4:
			evs = append(evs, event{op: 3, g: int64(g)})
			alive[g] = false
		case c < 7:
			evs = append(evs, event{op: 1, g: int64(g)}) // a second Init: a fresh segment
		case c < 9:
			evs = append(evs, event{op: 0, g: int64(g), step: step}) // re-created without a crash event
			evs = append(evs, event{op: 1, g: int64(g)})
		default:
			n := 1
			if r.Chance(1, 4) {
				n = r.Range(2, 9)
			}
			for k := 0; k < n; k++ {
				evs = append(evs, event{op: r.PickI64(2, 2, 4), g: int64(g)})
			}
		}
	}
	return evs
}

// policy is the live store: how the counter moves and when it fails.
func policy(r *Rng, style string, step int64, out *Out) func() answer {
	ctr := int64(r.Range(0, 50))
	if style == "negative" {
		ctr = -int64(r.Range(1, 200))
	}
	if style == "overflow" {
		ctr = (1<<63-1)/step - int64(r.Range(0, 6))
	}
	var pool []int64
	var handed []int64
	if style == "permuted" {
		n := 400
		base := int64(r.Range(-50, 1000))
		for i := 0; i < n; i++ {
			pool = append(pool, base+int64(i))
		}
		for i := n - 1; i > 0; i-- {
			j := r.Intn(i + 1)
			pool[i], pool[j] = pool[j], pool[i]
		}
	}
	errRate := 0
	if style == "faulty" || r.Chance(1, 3) {
		errRate = r.PickInt(5, 15, 40)
	}
	return func() answer {
		moved := func() int64 {
			switch style {
			case "permuted":
				if len(pool) > 0 {
					v := pool[0]
					pool = pool[1:]
					return v
				}
				ctr += 1000
				return ctr
			case "jumping":
				ctr += int64(r.Range(1, 1000))
			case "duplicates":
				if len(handed) > 0 && r.Chance(1, 4) {
					return handed[r.Intn(len(handed))]
				}
				ctr++
			case "decreasing":
				ctr -= int64(r.Range(1, 3))
			default:
				ctr++
			}
			return ctr
		}
		if r.Intn(100) < errRate {
			if r.Bool() {
				out.Count("store:err-before")
				return answer{kind: 1}
			}
			out.Count("store:err-after")
			return answer{kind: 2, c: moved()}
		}
		out.Count("store:ok")
		v := moved()
		handed = append(handed, v)
		return answer{kind: 0, c: v}
	}
}

var styles = []string{"sequential", "sequential", "faulty", "faulty", "jumping", "permuted", "negative",
	"decreasing", "duplicates", "uninit", "overflow", "mixed-steps"}

func history(r *Rng, style string, out *Out) ([]event, []outc) {
	step := r.PickI64(1, 1, 2, 2, 3, 3, 5, 2000, 1999, 2001, 0, -7, -(1 << 31), 1<<31-1)
	nev := r.Range(10, 120)
	if style == "overflow" {
		step = r.PickI64(1, 2, 3, 2000, 1<<31-1)
	}
	evs := skeleton(r, style, step, nev)
	eff := step
	if eff <= 0 {
		eff = uuid.DefaultSeqStep
	}
	// first pass: the live store decides its answers when it is asked
	play(evs, &store{policy: policy(r, style, eff, out)})
	// second pass: the same history replayed from the script alone
	outs := play(evs, &store{})
	return evs, outs
}

var mongoRuns int

// focus: VERIF_FOCUS_KINDS (set by bin/check's extended search) names the kinds of cases on
// which the correspondence broke; the run then spends its effort on those generators only.
var focus = map[string]bool{}

func want(kind string) bool { return len(focus) == 0 || focus[kind] }

func gen(a Args, out *Out) {
	r := NewRng(a.Seed)
	for _, k := range strings.Split(os.Getenv("VERIF_FOCUS_KINDS"), ",") {
		if k != "" && k != "corpus" && k != "replay" {
			focus[k] = true
		}
	}
	if len(focus) > 0 {
		out.Note("focused on kinds %v", focus)
	}
	checkGuardText(out)
	nhist := 400
	if a.Thorough() {
		nhist = 6000
	}
	record := func(kind string, evs []event, outs []outc, gs []gscript) {
		in := List(eventsSx(evs), gscriptsSx(gs))
		obs := List(outsSx(outs), goutsSx(runGuards(gs)))
		nids, nasked := 0, 0
		for i, o := range outs {
			if o.kind == 2 {
				nids++
			}
			if o.asked && (evs[i].op == 2 || evs[i].op == 4) {
				nasked++
			}
			out.Count(fmt.Sprintf("out:%d", o.kind))
		}
		if nasked > 0 {
			out.Count("histories-with-segment-rollover")
		}
		out.Case(kind, nids >= 2, in, obs)
		out.GoChecked++
		if what, ok := goCheck(evs, outs); !ok {
			out.Violation("C08/go-"+what+"/"+kind, "segment id property fails (Go-side restatement): "+what, List(in, obs))
		}
	}
	for k := 0; k < nhist; k++ {
		style := styles[k%len(styles)]
		if !want(style) {
			continue
		}
		evs, outs := history(r, style, out)
		var gs []gscript
		if k%2 == 0 {
			a := int64(k / 2 % nAdapters)
			if a == 3 && mongoRuns >= 60 {
				a = int64(k / 2 % 3) // every MongoStore leaves its client (monitors, sockets) behind
			}
			if a == 3 {
				mongoRuns++
			}
			g := gscript{adapter: a, cs: guardRaws(r)}
			if a == 2 && r.Bool() {
				g.init = int64(r.Range(1, 6)) // the table already holds a counter
			}
			out.Count(fmt.Sprintf("guard-script:adapter-%d", a))
			gs = append(gs, g)
		}
		record(style, evs, outs, gs)
	}
	t0 := time.Now()
	if want("concurrent") || want("hot") {
		rounds := 1
		if len(focus) > 0 {
			rounds = 4
		}
		for i := 0; i < rounds; i++ {
			genConcurrent(a, out, r.Fork())
		}
	}
	out.Note("concurrent + hot scenarios: %.1fs", time.Since(t0).Seconds())
	t0 = time.Now()
	if want("gated") {
		genGated(a, out, r.Fork())
	}
	out.Note("gated scenarios: %.1fs", time.Since(t0).Seconds())
	if want("api") {
		genAPI(a, out, r.Fork())
	}
	if len(focus) > 0 && !focus["default-step"] {
		return
	}
	// the default step: a whole segment of 2000 ids and the roll-over, two generators
	nlong := 3
	if a.Thorough() {
		nlong = 20
	}
	for k := 0; k < nlong; k++ {
		evs := []event{{op: 0, g: 0, step: 0}, {op: 1, g: 0}, {op: 0, g: 1, step: 2000}, {op: 1, g: 1}}
		for i := 0; i < 2003; i++ {
			evs = append(evs, event{op: 2, g: int64(i % 2)})
			evs = append(evs, event{op: 2, g: 0})
		}
		play(evs, &store{policy: policy(r, "sequential", 2000, out)})
		record("default-step", evs, play(evs, &store{}), nil)
	}
	// Go-side volume: many more histories, property evaluated directly on the outputs
	nvol := 20000
	if a.Thorough() {
		nvol = 400000
	}
	for k := 0; k < nvol; k++ {
		style := styles[k%len(styles)]
		evs, outs := history(r, style, out)
		out.GoChecked++
		if what, ok := goCheck(evs, outs); !ok {
			in := List(eventsSx(evs), Ints())
			out.Violation("C08/go-"+what+"/"+style, "segment id property fails (Go-side restatement): "+what,
				List(in, List(outsSx(outs), guardSx(nil))))
			if len(out.GoViol) >= 50 {
				break
			}
		}
	}
	out.Note("Go-side sweep: %d further histories checked for distinct / in-segment / consecutive / increasing / error handling", nvol)
}

// concurrent: the concurrent scenarios alone, checked on the Go side (distinct, in-segment,
// consecutive, error handling on the linearised history).  Run under -race in the thorough tier.
func concurrent() {
	r := NewRng(1)
	calls := 0
	for k := 0; k < 60; k++ {
		p := concParams{seed: r.Next() >> 1, ngen: r.Range(1, 4), callers: r.Range(2, 6), each: r.Range(20, 120),
			step: r.PickI64(1, 2, 3, 5, 8), dly: k % 5, must: k % 3}
		if p.dly == 4 {
			p.ngen, p.callers, p.each, p.step = 1, r.PickInt(4, 8, 16), 1000, r.PickI64(1, 2, 3)
		}
		evs, outs := runConcurrent(p)
		calls += len(evs)
		if what, ok := goCheck(evs, outs); !ok || len(concFacts) > 0 {
			fmt.Println("FAIL:", what, concFacts, p.sx().String())
			os.Exit(1)
		}
	}
	fmt.Printf("concurrent: 60 scenarios, %d linearised calls, property holds\n", calls)
}

// genAPI: histories through uuid.Init / uuid.NextID (default step 2000).
func genAPI(a Args, out *Out, r *Rng) {
	n := 4
	if a.Thorough() {
		n = 30
	}
	for k := 0; k < n; k++ {
		var evs []event
		gi := int64(0)
		cur := int64(-1)
		ctr := int64(r.Range(1, 90))
		initOnce := func() {
			evs = append(evs, event{op: 0, g: gi, step: uuid.DefaultSeqStep})
			ctr += int64(r.Range(1, 3))
			switch r.Intn(4) {
			case 0:
				evs = append(evs, event{op: 1, g: gi, a: answer{kind: 1}})
			case 1:
				evs = append(evs, event{op: 1, g: gi, a: answer{2, ctr}})
			default:
				evs = append(evs, event{op: 1, g: gi, a: answer{0, ctr}})
				cur = gi
			}
			gi++
		}
		for cur < 0 {
			initOnce()
		}
		calls := r.Range(5, 60)
		if k == 0 {
			calls = 2005 // across the roll-over of the default step
		}
		issued := 0
		for i := 0; i < calls; i++ {
			if r.Chance(1, 25) && k != 0 {
				initOnce()
				issued = 0
				continue
			}
			ev := event{op: 2, g: cur, a: answer{kind: 1}}
			if issued == int(uuid.DefaultSeqStep) {
				// the roll-over: first a failure, then a fresh counter
				evs = append(evs, event{op: 2, g: cur, a: answer{2, ctr + 1}})
				ctr += 2
				ev.a = answer{0, ctr}
				issued = 0
			}
			issued++
			evs = append(evs, ev)
		}
		outs := playAPI(evs, &store{})
		in := List(eventsSx(evs), Ints(), Int(1))
		obs := List(outsSx(outs), guardSx(nil))
		out.Case("api", true, in, obs)
		out.GoChecked++
		if what, ok := goCheck(evs, outs); !ok {
			out.Violation("C08/go-"+what+"/api", "segment id property fails through uuid.Init/NextID: "+what, List(in, obs))
		}
	}
}
