package main

import (
	"fmt"
	"sort"
	"time"

	"qchen.fun/fatchoy/x/uuid"
	. "verifharness/common"
)

// Gated scenarios: the harness owns the Storage, so it decides WHEN each store call returns.
// Every Storage.Incr call of a scenario takes its ticket and answer and then waits at a gate
// until the driver releases it.  The driver alternates between two kinds of moves, chosen by
// the seeded PRNG: start the next operation (Next or MustNext) of an idle caller, or release a
// parked store call.  After each move it waits until every caller has come to rest — returned,
// parked at the gate, or waiting for the generator's mutex (read off a goroutine dump) — so
// the schedule is a deterministic function of the seed and of what the code does, with no
// timing involved.  On the original code a parked store call holds the generator's mutex, so
// the other callers queue behind it; code that makes a store call outside the mutex (a retry
// through Init, an unlock around the round trip) lets them overtake, and the late reply then
// meets a newer state.
//
//	input    = (7 seed callers ops step must)
//	observed = (events outs)      the linearised history, as for the concurrent scenarios
type gatedParams struct {
	seed               uint64
	callers, ops, must int
	step               int64
}

func (p gatedParams) sx() Sx {
	return List(Int(7), Uint(p.seed), Int(int64(p.callers)), Int(int64(p.ops)), Int(p.step), Int(int64(p.must)))
}

func gatedParamsOf(in Sx) gatedParams {
	return gatedParams{seed: in.At(1).Uint64(), callers: in.At(2).AsInt(), ops: in.At(3).AsInt(), step: in.At(4).Int64(), must: in.At(5).AsInt()}
}

type gcaller struct {
	gid    int64
	lg     *callLog
	req    chan bool
	done   chan concCall
	busy   bool
	parked *parkedCall
	left   int
	calls  []concCall
}

func runGated(p gatedParams) ([]event, []outc) {
	rng := NewRng(p.seed)
	st := &concStore{rng: rng.Fork(), ctr: int64(rng.Range(0, 40)), errRate: rng.PickInt(10, 25, 40),
		answers: map[int64]answer{}, byCtr: map[int64]int64{}, ctrGen: map[int64]int64{}, logs: map[int64]*callLog{}}
	var all []keyed
	sg := uuid.NewSeqIDGen(genStore{0, st}, int32(p.step))
	all = append(all, keyed{0, 1, 0, event{op: 0, g: 0, step: p.step}, outc{}})
	for { // Init until it succeeds (sequential, not gated)
		err := sg.Init()
		t := st.ticket
		o := outc{asked: true, ncalls: 1, kind: 3}
		if err == nil {
			o.kind = 1
		}
		all = append(all, keyed{t, 0, 0, event{op: 1, g: 0, a: st.answers[t]}, o})
		if err == nil {
			break
		}
	}
	st.gate = make(chan *parkedCall, p.callers)
	cs := make([]*gcaller, p.callers)
	byGid := map[int64]*gcaller{}
	ids := map[int64]bool{}
	ready := make(chan int64)
	for i := range cs {
		c := &gcaller{lg: &callLog{}, req: make(chan bool), done: make(chan concCall, 1), left: p.ops}
		cs[i] = c
		go func() {
			ready <- CurGoid()
			for must := range c.req {
				cc := concCall{g: 0, must: must}
				n0 := len(c.lg.tickets)
				if must {
					cc.panic, cc.pval = Catch(func() { cc.id = sg.MustNext() })
				} else {
					cc.panic, cc.pval = Catch(func() { cc.id, cc.err = sg.Next() })
				}
				cc.tickets = c.lg.tickets[n0:len(c.lg.tickets):len(c.lg.tickets)]
				c.done <- cc
			}
		}()
		c.gid = <-ready
		st.logs[c.gid] = c.lg
		byGid[c.gid] = c
		ids[c.gid] = true
	}
	defer func() {
		for _, c := range cs {
			if !c.busy {
				close(c.req)
			}
		}
	}()
	// settle: wait until every busy caller has returned, is parked at the gate, or waits for
	// the generator's mutex; returns the set of callers waiting for the mutex
	settle := func() map[int64]bool {
		for spins := 0; ; spins++ {
			progressed := true
			for progressed {
				progressed = false
				select {
				case pc := <-st.gate:
					byGid[pc.gid].parked = pc
					progressed = true
				default:
				}
				for _, c := range cs {
					if c.busy && c.parked == nil {
						select {
						case cc := <-c.done:
							c.calls = append(c.calls, cc)
							c.busy = false
							progressed = true
						default:
						}
					}
				}
			}
			running := map[int64]bool{}
			for _, c := range cs {
				if c.busy && c.parked == nil {
					running[c.gid] = true
				}
			}
			if len(running) == 0 {
				return nil
			}
			waiting := AtGuard(nextFrame, running)
			if len(waiting) == len(running) {
				// nothing changed meanwhile?  (a caller seen waiting may have been woken since)
				select {
				case pc := <-st.gate:
					byGid[pc.gid].parked = pc
					continue
				default:
				}
				return waiting
			}
			if spins > 20 {
				time.Sleep(100 * time.Microsecond)
			}
			if spins > 200000 {
				panic("gated scenario: callers neither return nor come to rest")
			}
		}
	}
	blocked := false
	for {
		waiting := settle()
		var idle, parked []*gcaller
		for _, c := range cs {
			switch {
			case c.parked != nil:
				parked = append(parked, c)
			case !c.busy && c.left > 0:
				idle = append(idle, c)
			}
		}
		if len(idle)+len(parked) == 0 {
			if len(waiting) > 0 {
				// callers wait for the mutex and nobody is left who could release it
				if ConfirmedStuck(nextFrame, waiting) {
					blocked = true
				} else {
					continue
				}
			}
			break
		}
		if len(parked) > 0 && (len(idle) == 0 || rng.Chance(2, 5)) {
			c := parked[rng.Intn(len(parked))]
			pc := c.parked
			c.parked = nil
			close(pc.release)
		} else {
			c := idle[rng.Intn(len(idle))]
			c.left--
			c.busy = true
			c.req <- p.must == 1 || p.must == 2 && rng.Bool()
		}
	}
	st.gate = nil
	res := make([][]concCall, len(cs))
	for i, c := range cs {
		res[i] = c.calls
		if blocked && c.busy {
			res[i] = append(res[i], concCall{g: 0, blocked: true})
		}
	}
	st.mu.Lock()
	all = append(all, keyedCalls(st, p.step, res)...)
	st.mu.Unlock()
	sort.SliceStable(all, func(i, j int) bool {
		a, b := all[i], all[j]
		if a.k1 != b.k1 {
			return a.k1 < b.k1
		}
		if a.k2 != b.k2 {
			return a.k2 < b.k2
		}
		return a.k3 < b.k3
	})
	evs := make([]event, len(all))
	outs := make([]outc, len(all))
	for i, k := range all {
		evs[i], outs[i] = k.ev, k.out
	}
	return evs, outs
}

func genGated(a Args, out *Out, r *Rng) {
	n := 30
	if a.Thorough() {
		n = 400
	}
	for k := 0; k < n; k++ {
		p := gatedParams{seed: r.Next() >> 1, callers: r.Range(2, 4), ops: r.Range(4, 14), step: r.PickI64(1, 2, 2, 3), must: k % 3}
		evs, outs := runGated(p)
		obs := List(eventsSx(evs), outsSx(outs))
		out.CountN("gated:calls", len(evs))
		out.Count(fmt.Sprintf("gated:must-%d", p.must))
		out.Case("gated", true, p.sx(), obs)
		out.GoChecked++
		if what, ok := goCheck(evs, outs); !ok {
			out.Violation("C08/go-"+what+"/gated", "segment id property fails on a gated (store-scheduled) history: "+what, List(p.sx(), obs))
		}
		for _, f := range concFacts {
			out.Violation("C08/go-"+f[:indexColon(f)]+"/gated", "gated callers: "+f, List(p.sx(), obs))
		}
		concFacts = nil
	}
}

func indexColon(s string) int {
	for i := range s {
		if s[i] == ':' {
			return i
		}
	}
	return len(s)
}
