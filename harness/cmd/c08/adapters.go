package main

import (
	"context"
	"fmt"

	"github.com/coreos/etcd/mvcc/mvccpb"
	"go.etcd.io/etcd/clientv3"
	"qchen.fun/fatchoy/x/uuid"
	. "verifharness/common"
)

// Guard scripts.  The four store adapters share the guard "refuse a counter that did not
// grow"; each is run for real against an in-process fake of its client / server, fed with a
// scripted sequence of raw counter values:
//
//	script = (adapter init c1 c2 ...)    adapter 0 redis, 1 etcd, 2 mysql, 3 mongo
//	                                     init: the counter a MySQLStore finds in its table when
//	                                     it is created (its lastId starts there); 0 otherwise
//	gouts  = ((ok value) ...)            what Incr returned for c1, c2, ...
//
// The fakes turn the wanted counter c into what the adapter reads off the wire: redis INCR
// replies c; etcd's Put returns a previous key-value with Version c-1 (none at all for some
// c = 1); mysql's UPDATE reports LAST_INSERT_ID c-1; mongo's findAndModify returns a document
// with count c.
// adapters with a working fake
const nAdapters = 4

// errRaw in a script: the client call fails (server error / transport error); the adapter must
// pass the error on and keep its lastId
const errRaw = int64(-1) << 62

type gscript struct {
	adapter, init int64
	cs            []int64
}

func (g gscript) sx() Sx {
	return Ints(append([]int64{g.adapter, g.init}, g.cs...)...)
}

func gscriptOf(s Sx) gscript {
	g := gscript{adapter: s.At(0).Int64(), init: s.At(1).Int64()}
	for _, c := range s.L[2:] {
		g.cs = append(g.cs, c.Int64())
	}
	return g
}

func gscriptsSx(gs []gscript) Sx {
	l := make([]Sx, len(gs))
	for i, g := range gs {
		l[i] = g.sx()
	}
	return ListOf(l)
}

func goutsSx(all [][]gout) Sx {
	l := make([]Sx, len(all))
	for i, g := range all {
		l[i] = guardSx(g)
	}
	return ListOf(l)
}

// drive calls Incr once per scripted counter.
func drive(st uuid.Storage, n int) []gout {
	res := make([]gout, n)
	for i := 0; i < n; i++ {
		var v int64
		var err error
		if p, _ := Catch(func() { v, err = st.Incr() }); p {
			res[i] = gout{ok: false, v: -3}
			continue
		}
		res[i] = gout{ok: err == nil, v: v}
		if err != nil && err != uuid.ErrIDOutOfRange {
			res[i].v = -1 // not the guard: shows as a mismatch
		}
	}
	return res
}

func runGuards(gs []gscript) [][]gout {
	res := make([][]gout, len(gs))
	for i, g := range gs {
		switch g.adapter {
		case 0:
			res[i] = runGuard(g.cs)
		case 1:
			res[i] = runEtcd(g.cs)
		case 2:
			res[i] = runMySQL(g.init, g.cs)
		case 3:
			res[i] = runMongo(g.cs)
		default:
			panic(fmt.Sprint("unknown adapter ", g.adapter))
		}
	}
	return res
}

// ---- etcd: clientv3.Client embeds the KV interface, so a Client literal with a fake KV makes
// EtcdStore.Incr / doIncr / putKey run without a server ----
type fakeKV struct {
	clientv3.KV // the methods EtcdStore does not call stay nil
	cs          []int64
	n           int
}

func (f *fakeKV) Put(ctx context.Context, key, val string, opts ...clientv3.OpOption) (*clientv3.PutResponse, error) {
	if f.n >= len(f.cs) {
		return nil, fmt.Errorf("script exhausted")
	}
	c := f.cs[f.n]
	f.n++
	if c == errRaw {
		return nil, fmt.Errorf("etcdserver: injected failure")
	}
	if c == 1 && f.n%2 == 1 {
		return &clientv3.PutResponse{}, nil // the key did not exist: no previous key-value
	}
	return &clientv3.PutResponse{PrevKv: &mvccpb.KeyValue{Key: []byte(key), Version: c - 1}}, nil
}

func runEtcd(cs []int64) []gout {
	cli := &clientv3.Client{KV: &fakeKV{cs: cs}}
	st := uuid.NewEtcdStore(context.Background(), cli, "/verif/counter")
	defer st.Close()
	return drive(st, len(cs))
}
