package main

import (
	"bytes"
	"go/ast"
	"go/parser"
	"go/printer"
	"go/token"
	"path/filepath"
	"reflect"
	"runtime"

	"qchen.fun/fatchoy/x/uuid"
	. "verifharness/common"
)

// The etcd, mongo and mysql adapters need live servers, so their Incr cannot be run here; the
// model's guard is tied to them through the syntax tree of the source: the Incr method of each
// adapter must contain
//
//	if recv.lastId != 0 && recv.lastId >= E { return 0, ErrIDOutOfRange }
//	recv.lastId = E
//
// for one expression E (the raw counter).  Harmless rewrites are accepted (parentheses,
// `0 != recv.lastId`, `E <= recv.lastId`, another receiver name, other statements around);
// a changed comparison operator, operand, error or assignment is reported.  RedisStore's
// guard is in addition executed against the fake redis.

func unparen(e ast.Expr) ast.Expr {
	for {
		p, ok := e.(*ast.ParenExpr)
		if !ok {
			return e
		}
		e = p.X
	}
}

func exprString(fset *token.FileSet, e ast.Expr) string {
	var b bytes.Buffer
	printer.Fprint(&b, fset, unparen(e))
	return b.String()
}

func isLastID(e ast.Expr, recv string) bool {
	s, ok := unparen(e).(*ast.SelectorExpr)
	if !ok || s.Sel.Name != "lastId" {
		return false
	}
	id, ok := unparen(s.X).(*ast.Ident)
	return ok && id.Name == recv
}

func isZero(e ast.Expr) bool {
	l, ok := unparen(e).(*ast.BasicLit)
	return ok && l.Kind == token.INT && l.Value == "0"
}

// guardOperand returns E if cond is `recv.lastId != 0 && recv.lastId >= E` (up to the harmless
// variants), else nil.
func guardOperand(cond ast.Expr, recv string) ast.Expr {
	and, ok := unparen(cond).(*ast.BinaryExpr)
	if !ok || and.Op != token.LAND {
		return nil
	}
	ne, ok := unparen(and.X).(*ast.BinaryExpr)
	if !ok || ne.Op != token.NEQ ||
		!(isLastID(ne.X, recv) && isZero(ne.Y) || isZero(ne.X) && isLastID(ne.Y, recv)) {
		return nil
	}
	ge, ok := unparen(and.Y).(*ast.BinaryExpr)
	if !ok {
		return nil
	}
	switch {
	case ge.Op == token.GEQ && isLastID(ge.X, recv):
		return ge.Y
	case ge.Op == token.LEQ && isLastID(ge.Y, recv):
		return ge.X
	}
	return nil
}

func returnsOutOfRange(body *ast.BlockStmt) bool {
	if len(body.List) != 1 {
		return false
	}
	r, ok := body.List[0].(*ast.ReturnStmt)
	if !ok || len(r.Results) != 2 || !isZero(r.Results[0]) {
		return false
	}
	id, ok := unparen(r.Results[1]).(*ast.Ident)
	return ok && id.Name == "ErrIDOutOfRange"
}

// guardInSource reports whether the Incr method in src has the modelled guard.
func guardInSource(filename string, src interface{}) (bool, string) {
	fset := token.NewFileSet()
	f, err := parser.ParseFile(fset, filename, src, 0)
	if err != nil {
		return false, "cannot parse: " + err.Error()
	}
	for _, d := range f.Decls {
		fd, ok := d.(*ast.FuncDecl)
		if !ok || fd.Name.Name != "Incr" || fd.Recv == nil || len(fd.Recv.List) != 1 || len(fd.Recv.List[0].Names) != 1 || fd.Body == nil {
			continue
		}
		recv := fd.Recv.List[0].Names[0].Name
		for i, st := range fd.Body.List {
			ifs, ok := st.(*ast.IfStmt)
			if !ok || ifs.Init != nil || ifs.Else != nil {
				continue
			}
			e := guardOperand(ifs.Cond, recv)
			if e == nil {
				continue
			}
			if !returnsOutOfRange(ifs.Body) {
				return false, "the guard does not return 0, ErrIDOutOfRange"
			}
			want := exprString(fset, e)
			for _, later := range fd.Body.List[i+1:] {
				as, ok := later.(*ast.AssignStmt)
				if ok && as.Tok == token.ASSIGN && len(as.Lhs) == 1 && len(as.Rhs) == 1 && isLastID(as.Lhs[0], recv) {
					if exprString(fset, as.Rhs[0]) == want {
						return true, ""
					}
					return false, "lastId is updated with " + exprString(fset, as.Rhs[0]) + ", the guard compares with " + want
				}
			}
			return false, "lastId is not updated after the guard"
		}
		return false, "Incr has no statement of the form `if s.lastId != 0 && s.lastId >= cnt {...}`"
	}
	return false, "no Incr method"
}

func checkGuardText(out *Out) {
	fn := runtime.FuncForPC(reflect.ValueOf(uuid.NewSeqIDGen).Pointer())
	if fn == nil {
		out.Note("guard form: cannot locate the x/uuid sources")
		return
	}
	file, _ := fn.FileLine(fn.Entry())
	dir := filepath.Dir(file)
	for _, name := range []string{"store_redis.go", "store_etcd.go", "store_mongo.go", "store_mysql.go"} {
		ok, why := guardInSource(filepath.Join(dir, name), nil)
		out.GoChecked++
		if !ok {
			out.Violation("C08/guard-text/"+name,
				"the counter guard of "+name+" no longer has the modelled form `if s.lastId != 0 && s.lastId >= cnt { return 0, ErrIDOutOfRange }; s.lastId = cnt`: "+why,
				List(List(List(), List()), List(List(), List())))
		} else {
			out.Count("guard-form-ok:" + name)
		}
	}
	guardSelfTest(out)
}

// guardSelfTest: the matcher accepts harmless rewrites and rejects changed guards.
func guardSelfTest(out *Out) {
	const pre = "package p\nfunc (s *S) Incr() (int64, error) {\n\tcnt, err := s.do()\n\tif err != nil { return 0, err }\n"
	const post = "\n\treturn cnt, nil\n}\n"
	accept := []string{
		"if s.lastId != 0 && s.lastId >= cnt { return 0, ErrIDOutOfRange }\n s.lastId = cnt",
		"if (0 != s.lastId) && (cnt <= s.lastId) {\n return 0, ErrIDOutOfRange\n }\n log.Print(1)\n s.lastId = (cnt)",
		"if s.lastId != 0 &&\n s.lastId >= ctr.Count { return 0, ErrIDOutOfRange }\n s.lastId = ctr.Count",
	}
	reject := []string{
		"if s.lastId != 0 && s.lastId > cnt { return 0, ErrIDOutOfRange }\n s.lastId = cnt",
		"if s.lastId != 0 && s.lastId <= cnt { return 0, ErrIDOutOfRange }\n s.lastId = cnt",
		"if s.lastId != 0 || s.lastId >= cnt { return 0, ErrIDOutOfRange }\n s.lastId = cnt",
		"if s.lastId != 1 && s.lastId >= cnt { return 0, ErrIDOutOfRange }\n s.lastId = cnt",
		"if s.lastId != 0 && s.lastId >= cnt-1 { return 0, ErrIDOutOfRange }\n s.lastId = cnt",
		"if s.lastId != 0 && s.lastId >= cnt { return 0, nil }\n s.lastId = cnt",
		"if s.lastId != 0 && s.lastId >= cnt { return cnt, ErrIDOutOfRange }\n s.lastId = cnt",
		"if s.lastId != 0 && s.lastId >= cnt { return 0, ErrIDOutOfRange }",
		"if s.lastId != 0 && s.lastId >= cnt { log.Print(1) }\n s.lastId = cnt",
		"s.lastId = cnt",
	}
	for _, g := range accept {
		if ok, why := guardInSource("accept.go", pre+g+post); !ok {
			out.Violation("C08/guard-text/selftest", "guard matcher rejects a harmless variant ("+why+"): "+g, List(List(List(), List()), List(List(), List())))
		}
	}
	for _, g := range reject {
		if ok, _ := guardInSource("reject.go", pre+g+post); ok {
			out.Violation("C08/guard-text/selftest", "guard matcher accepts a changed guard: "+g, List(List(List(), List()), List(List(), List())))
		}
	}
}
