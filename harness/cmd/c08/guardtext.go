package main

import (
	"os"
	"path/filepath"
	"reflect"
	"regexp"
	"runtime"
	"strings"

	"qchen.fun/fatchoy/x/uuid"
	. "verifharness/common"
)

// The etcd, mongo and mysql adapters need live servers, so their Incr cannot be run here; the
// model's guard is tied to them textually: each adapter must contain the guard in exactly the
// modelled form (same test, same error, lastId updated with the accepted value).  RedisStore's
// guard is in addition executed against the fake redis.
var guardForm = regexp.MustCompile(`if s\.lastId != 0 && s\.lastId >= ([\w.]+) \{ return 0, ErrIDOutOfRange \} s\.lastId = ([\w.]+) `)

func checkGuardText(out *Out) {
	fn := runtime.FuncForPC(reflect.ValueOf(uuid.NewSeqIDGen).Pointer())
	if fn == nil {
		out.Note("guard text: cannot locate the x/uuid sources")
		return
	}
	file, _ := fn.FileLine(fn.Entry())
	dir := filepath.Dir(file)
	for _, name := range []string{"store_redis.go", "store_etcd.go", "store_mongo.go", "store_mysql.go"} {
		src, err := os.ReadFile(filepath.Join(dir, name))
		if err != nil {
			out.Violation("C08/guard-text/"+name, "store adapter source not readable: "+err.Error(), List(List(List(), List()), List(List(), List())))
			continue
		}
		norm := strings.Join(strings.Fields(string(src)), " ") + " "
		m := guardForm.FindStringSubmatch(norm)
		out.GoChecked++
		if m == nil || m[1] != m[2] {
			out.Violation("C08/guard-text/"+name,
				"the counter guard of "+name+" no longer has the modelled form `if s.lastId != 0 && s.lastId >= cnt { return 0, ErrIDOutOfRange }; s.lastId = cnt`",
				List(List(List(), List()), List(List(), List())))
		} else {
			out.Count("guard-text-ok:" + name)
		}
	}
}
