// C12 harness: collections/queue — Deque, UnboundedQueue, UnboundedConcurrentQueue.
//
// case kinds (first element of the input):
//
//	(0 ctor ops)   deque history.  ctor = () zero value | (c m) NewDeque(c, m);
//	               op = (0 v) PushBack | (1 v) PushFront | (2) PopFront | (3) PopBack | (4) Front |
//	                    (5) Back | (6 i) At | (7 i v) Set | (8) Clear | (9 n) Rotate | (10 e) SetMinCapacity
//	               observed = (results (minCap buf))   result = (k v len cap head tail)
//	               k: 0 nothing returned, 1 value v, 2 explicit panic, 3 run-time error or a call that
//	               did not return within the time limit (then the rest of the history is not run and
//	               is reported as (3 () -1 -1 -1 -1) too)
//	(1 ops)        UnboundedQueue history.  op = (0 v) Push | (1) Pop | (2) Front | (3) Len | (4) Init
//	               observed = ((maxFirst maxInternal) results (blocklens hp len last))
//	               result = (k v hp len)   k: 0 nothing, 1 (v,true), 2 (nil,false), 3 int v, 4 run-time error
//	(2 g sched)    UnboundedConcurrentQueue driven by g real goroutines under a forced schedule:
//	               sched = ((tid code v) ...) with codes as in kind 1 (Enqueue/Dequeue/Peek/Len)
//	               observed = as kind 1
//	(4 P C n)      as (3 P C n) twice on the same queue (sequence numbers n..2n-1 in the second round); what the
//	               main goroutine drained in between is reported as one more consumer
//	(3 P C n)      free-running stress: P producers enqueue p<<20|seq for seq < n; C consumers dequeue
//	               concurrently; observed = (((consumer_1 values) ... (consumer_C values)) (remaining) panics)
//
// a value is an integer or () for nil.
package main

import (
	"fmt"
	"io"
	"log"
	"runtime"
	"strconv"
	"sync"
	"sync/atomic"
	"time"

	"qchen.fun/fatchoy/collections/queue"
	. "verifharness/common"
)

// Elements.  In a case an element is an integer id (or () for nil); the Go value stored in the
// queue is chosen by the id: ints, strings, slices (not comparable with ==), pointers, structs, and
// for the id -7 a typed nil pointer (a non-nil interface value).  A queue that compares, copies
// by type or special-cases some kind of value would show it.
type box struct{ id int }

func elem(s Sx) interface{} {
	if s.Kind == 'l' {
		return nil
	}
	v := s.AsInt()
	if v == -7 {
		return (*box)(nil)
	}
	switch ((v % 5) + 5) % 5 {
	case 1:
		return fmt.Sprintf("v%d", v)
	case 2:
		return []int{v}
	case 3:
		return &box{v}
	case 4:
		return box{v}
	}
	return v
}

func val(x interface{}) Sx {
	switch v := x.(type) {
	case nil:
		return List()
	case int:
		return Int(int64(v))
	case string:
		var n int
		fmt.Sscanf(v, "v%d", &n)
		return Int(int64(n))
	case []int:
		return Int(int64(v[0]))
	case *box:
		if v == nil {
			return Int(-7)
		}
		return Int(int64(v.id))
	case box:
		return Int(int64(v.id))
	}
	return Int(-999999)
}

// ---------------------------------------------------------------- deque

func catchKind(f func()) int64 {
	p, v := Catch(f)
	if !p {
		return -1
	}
	if _, ok := v.(runtime.Error); ok {
		return 3
	}
	return 2
}

// opTimeout bounds one deque call: a broken ring buffer can make Clear() spin for ever.
var opTimeout = 2 * time.Second

// hangs counts abandoned goroutines (each keeps a CPU busy): generation of deque histories stops
// after a few of them.
var hangs int

// inconclusive counts watchdog expiries that did not reproduce when the same input was re-run at
// once with a five times longer limit (a loaded machine, not the code under test): the re-run's
// observations are used and the expiry is only reported in the histogram.
var inconclusive int

func runDeque(in Sx) Sx {
	r, hung := runDequeOnce(in, opTimeout)
	if hung {
		if r2, hung2 := runDequeOnce(in, 5*opTimeout); !hung2 {
			inconclusive++
			return r2
		}
		hangs++
	}
	return r
}

func runDequeOnce(in Sx, limit time.Duration) (Sx, bool) {
	ctor, ops := in.At(1), in.At(2)
	type fin struct {
		mc  int
		buf []interface{}
	}
	results := make(chan Sx, ops.Len()+1)
	final := make(chan fin, 1)
	go func() {
		var q *queue.Deque
		switch ctor.Len() { // NewDeque(size ...int) with 0, 1, 2 or 3 arguments; () is the zero value
		case 0:
			q = new(queue.Deque)
		case 1:
			q = queue.NewDeque(ctor.At(0).AsInt())
		case 2:
			q = queue.NewDeque(ctor.At(0).AsInt(), ctor.At(1).AsInt())
		case 3:
			q = queue.NewDeque(ctor.At(0).AsInt(), ctor.At(1).AsInt(), ctor.At(2).AsInt())
		default:
			q = queue.NewDeque()
		}
		// other objects of the package used between the calls on q: anything shared at package
		// level would show on q
		other := queue.NewDeque(3)
		otherQ := queue.NewUnbounded()
		for k := 0; k < ops.Len(); k++ {
			Catch(func() {
				switch k % 4 {
				case 0:
					other.PushBack(k)
					otherQ.Push(k)
				case 1:
					other.PushFront("x")
				case 2:
					other.Rotate(k)
					otherQ.Pop()
				default:
					other.PopBack()
				}
			})
			results <- dequeOp(q, ops.At(k))
		}
		_, _, mc, buf := q.VerifProbe()
		final <- fin{mc, buf}
	}()
	res := make([]Sx, 0, ops.Len())
	hung := false
	timer := time.NewTimer(limit)
	defer timer.Stop()
	for k := 0; k < ops.Len(); k++ {
		if !hung {
			if !timer.Stop() {
				select {
				case <-timer.C:
				default:
				}
			}
			timer.Reset(limit)
			select {
			case r := <-results:
				res = append(res, r)
				continue
			case <-timer.C:
				hung = true // the goroutine is abandoned (it keeps spinning until the harness exits)
			}
		}
		res = append(res, List(Int(3), List(), Int(-1), Int(-1), Int(-1), Int(-1)))
	}
	if hung {
		return List(ListOf(res), List(Int(-1), List())), true
	}
	f := <-final
	bs := make([]Sx, len(f.buf))
	for i, b := range f.buf {
		bs[i] = val(b)
	}
	return List(ListOf(res), List(Int(int64(f.mc)), ListOf(bs))), false
}

func dequeOp(q *queue.Deque, op Sx) Sx {
	var ret interface{}
	has := false
	pk := catchKind(func() {
		switch op.At(0).AsInt() {
		case 0:
			q.PushBack(elem(op.At(1)))
		case 1:
			q.PushFront(elem(op.At(1)))
		case 2:
			ret, has = q.PopFront(), true
		case 3:
			ret, has = q.PopBack(), true
		case 4:
			ret, has = q.Front(), true
		case 5:
			ret, has = q.Back(), true
		case 6:
			ret, has = q.At(op.At(1).AsInt()), true
		case 7:
			q.Set(op.At(1).AsInt(), elem(op.At(2)))
		case 8:
			q.Clear()
		case 9:
			q.Rotate(op.At(1).AsInt())
		case 10:
			q.SetMinCapacity(uint(op.At(1).Int64()))
		default:
			panic("bad opcode")
		}
	})
	kd, v := int64(0), List()
	if pk >= 0 {
		kd = pk
	} else if has {
		kd, v = 1, val(ret)
	}
	h, t, _, _ := q.VerifProbe()
	return List(Int(kd), v, Int(int64(q.Len())), Int(int64(q.Cap())), Int(int64(h)), Int(int64(t)))
}

// ---------------------------------------------------------------- unbounded

type fifo interface {
	push(v interface{})
	pop() (interface{}, bool)
	front() (interface{}, bool)
	length() int
	init()
	inner() *queue.UnboundedQueue
}

type plainQ struct{ q *queue.UnboundedQueue }

func (p plainQ) push(v interface{})           { p.q.Push(v) }
func (p plainQ) pop() (interface{}, bool)     { return p.q.Pop() }
func (p plainQ) front() (interface{}, bool)   { return p.q.Front() }
func (p plainQ) length() int                  { return p.q.Len() }
func (p plainQ) init()                        { p.q.Init() }
func (p plainQ) inner() *queue.UnboundedQueue { return p.q }

type concQ struct {
	q *queue.UnboundedConcurrentQueue
}

func (p concQ) push(v interface{})           { p.q.Enqueue(v) }
func (p concQ) pop() (interface{}, bool)     { return p.q.Dequeue() }
func (p concQ) front() (interface{}, bool)   { return p.q.Peek() }
func (p concQ) length() int                  { return p.q.Len() }
func (p concQ) init()                        { panic("the concurrent queue has no Init") }
func (p concQ) inner() *queue.UnboundedQueue { return p.q.VerifInner() }

func fifoOp(q fifo, code int, arg Sx) Sx {
	kd, v := int64(0), List()
	pk := catchKind(func() {
		switch code {
		case 0:
			q.push(elem(arg))
		case 1:
			if r, ok := q.pop(); ok {
				kd, v = 1, val(r)
			} else {
				kd = 2
			}
		case 2:
			if r, ok := q.front(); ok {
				kd, v = 1, val(r)
			} else {
				kd = 2
			}
		case 3:
			kd, v = 3, Int(int64(q.length()))
		case 4:
			q.init()
		default:
			panic("bad opcode")
		}
	})
	if pk >= 0 {
		kd, v = 4, List()
	}
	_, hp, ln, _ := q.inner().VerifProbe()
	return List(Int(kd), v, Int(int64(hp)), Int(int64(ln)))
}

func fifoTail(q fifo, res []Sx) Sx {
	_, mf, mi := queue.VerifSliceSizes()
	bl, hp, ln, last := q.inner().VerifProbe()
	bls := make([]int64, len(bl))
	for i, b := range bl {
		bls[i] = int64(b)
	}
	return List(Ints(int64(mf), int64(mi)), ListOf(res), List(Ints(bls...), Int(int64(hp)), Int(int64(ln)), Int(int64(last))))
}

func runUnbounded(in Sx) Sx {
	ops := in.At(1)
	q := plainQ{queue.NewUnbounded()}
	res := make([]Sx, 0, ops.Len())
	for k := 0; k < ops.Len(); k++ {
		op := ops.At(k)
		arg := List()
		if op.Len() > 1 {
			arg = op.At(1)
		}
		res = append(res, fifoOp(q, op.At(0).AsInt(), arg))
	}
	return fifoTail(q, res)
}

// forced schedule: g goroutines, each executes the calls the schedule assigns to it, one at a
// time, when the driver hands it the turn.
func runScheduled(in Sx) Sx {
	r, hung := runScheduledOnce(in, opTimeout)
	if hung {
		if r2, hung2 := runScheduledOnce(in, 5*opTimeout); !hung2 {
			inconclusive++
			return r2
		}
	}
	return r
}

func runScheduledOnce(in Sx, limit time.Duration) (Sx, bool) {
	g, sched := in.At(1).AsInt(), in.At(2)
	if g < 1 {
		g = 1
	}
	if g > 64 {
		g = 64
	}
	q := concQ{queue.NewUnboundedConcurrentQueue()}
	type cmd struct {
		code int
		arg  Sx
	}
	cmds := make([]chan cmd, g)
	done := make(chan Sx)
	var wg sync.WaitGroup
	for i := range cmds {
		cmds[i] = make(chan cmd)
		wg.Add(1)
		go func(c chan cmd) {
			defer wg.Done()
			for m := range c {
				done <- fifoOp(q, m.code, m.arg)
			}
		}(cmds[i])
	}
	res := make([]Sx, 0, sched.Len())
	hung, crashed := false, false
	for k := 0; k < sched.Len(); k++ {
		if !hung && !crashed {
			e := sched.At(k)
			tid := e.At(0).AsInt()
			if tid < 0 || tid >= g {
				tid = 0
			}
			cmds[tid] <- cmd{e.At(1).AsInt(), e.At(2)}
			select {
			case r := <-done:
				res = append(res, r)
				if r.At(0).Int64() == 4 { // run-time panic: the mutex may have been left locked
					crashed = true
				}
				continue
			case <-time.After(limit):
				hung = true
			}
		}
		res = append(res, List(Int(4), List(), Int(-1), Int(-1)))
	}
	if crashed {
		return List(Ints(0, 0), ListOf(res), List(List(), Int(-1), Int(-1), Int(-1))), false
	}
	if hung {
		return List(Ints(0, 0), ListOf(res), List(List(), Int(-1), Int(-1), Int(-1))), true
	}
	for _, c := range cmds {
		close(c)
	}
	wg.Wait()
	return fifoTail(q, res), false
}

// free-running producers and consumers
func runStress(in Sx) Sx {
	P, C, n := in.At(1).AsInt(), in.At(2).AsInt(), in.At(3).AsInt()
	rounds := 1
	if in.At(0).AsInt() == 4 { // fill, drain completely, use the same queue again
		rounds = 2
	}
	if P < 1 || P > 64 || C < 1 || C > 64 || n < 0 || n > 1<<19 {
		return List()
	}
	for attempt := 0; ; attempt++ {
		res := make(chan Sx, 1)
		go func() { res <- stress(P, C, n, rounds) }()
		limit := 20 * time.Second
		if attempt > 0 {
			limit = 100 * time.Second
		}
		select {
		case r := <-res:
			if attempt > 0 {
				inconclusive++
			}
			return r
		case <-time.After(limit): // dead-lock (e.g. a panic left the mutex locked)
			if attempt > 0 {
				return List(List(), List(), Int(-1))
			}
		}
	}
}

// observed = (consumers remaining panics): panics = number of calls that ended in a run-time panic,
// -1 = the scenario did not finish
func stress(P, C, n, rounds int) Sx {
	q := queue.NewUnboundedConcurrentQueue()
	// traffic on a second queue of the same type while the scenario runs: anything the package
	// shares between queues would show (and race, under -race)
	stop := make(chan struct{})
	var decoys sync.WaitGroup
	other := queue.NewUnboundedConcurrentQueue()
	for g := 0; g < 2; g++ {
		decoys.Add(1)
		go func(g int) {
			defer decoys.Done()
			for k := 0; ; k++ {
				select {
				case <-stop:
					return
				default:
				}
				Catch(func() {
					if (k+g)%3 == 0 {
						other.Dequeue()
					} else {
						other.Enqueue(k)
					}
				})
				if k%64 == 0 {
					runtime.Gosched()
				}
			}
		}(g)
	}
	defer func() { close(stop); decoys.Wait() }()
	cs := make([][]Sx, C)
	var extra [][]Sx // what the main goroutine drained between the rounds: one more consumer
	var rest []Sx
	panics := int64(0)
	for r := 0; r < rounds; r++ {
		got, rs, pk, aborted := stressRound(q, P, C, n, r*n)
		panics += pk
		if aborted {
			return List(List(), List(), Int(panics))
		}
		for c := range got {
			cs[c] = append(cs[c], got[c]...)
		}
		if r+1 < rounds {
			extra = append(extra, rs) // the queue is now completely drained, and is used again
		} else {
			rest = rs
		}
	}
	var l []Sx
	for _, c := range cs {
		l = append(l, ListOf(c))
	}
	for _, c := range extra {
		l = append(l, ListOf(c))
	}
	return List(ListOf(l), ListOf(rest), Int(panics))
}

// one round: P producers enqueue p<<20|(base+s) for s < n, C consumers take about three quarters
// concurrently, the caller's goroutine then drains the rest
func stressRound(q *queue.UnboundedConcurrentQueue, P, C, n, base int) (got [][]Sx, rest []Sx, panics int64, wasAborted bool) {
	total := P * n
	quota := make([]int, C)
	left := total * 3 / 4
	for c := 0; c < C; c++ {
		quota[c] = left / (C - c)
		left -= quota[c]
	}
	got = make([][]Sx, C)
	var wg sync.WaitGroup
	var producersDone int64
	aborted := make(chan struct{}) // closed when a call panics: the mutex may have been left locked
	var abortOnce sync.Once
	abort := func() {
		atomic.AddInt64(&panics, 1)
		abortOnce.Do(func() { close(aborted) })
	}
	start := make(chan struct{})
	for p := 0; p < P; p++ {
		wg.Add(1)
		go func(p int) {
			defer wg.Done()
			defer atomic.AddInt64(&producersDone, 1)
			<-start
			for s := 0; s < n; s++ {
				if pk, _ := Catch(func() { q.Enqueue(p<<20 | (base + s)) }); pk {
					abort()
					return
				}
				if s%7 == p%7 {
					runtime.Gosched()
				}
			}
		}(p)
	}
	for c := 0; c < C; c++ {
		wg.Add(1)
		go func(c int) {
			defer wg.Done()
			<-start
			for len(got[c]) < quota[c] {
				finished := atomic.LoadInt64(&producersDone) == int64(P)
				var v interface{}
				var ok bool
				if pk, _ := Catch(func() { v, ok = q.Dequeue() }); pk {
					abort()
					return
				}
				if ok {
					got[c] = append(got[c], val(v))
				} else if finished { // nothing more will come
					return
				} else {
					runtime.Gosched()
				}
			}
		}(c)
	}
	close(start)
	finishedAll := make(chan struct{})
	go func() { wg.Wait(); close(finishedAll) }()
	select {
	case <-finishedAll:
	case <-aborted:
		// other goroutines may be parked on the mutex for ever: report what happened
		return nil, nil, atomic.LoadInt64(&panics), true
	}
	for len(rest) <= total {
		var v interface{}
		var ok bool
		if pk, _ := Catch(func() { v, ok = q.Dequeue() }); pk {
			panics++
			break
		}
		if !ok {
			break
		}
		rest = append(rest, val(v))
	}
	return got, rest, panics, false
}

func run(in Sx) Sx {
	switch in.At(0).AsInt() {
	case 0:
		return runDeque(in)
	case 1:
		return runUnbounded(in)
	case 2:
		return runScheduled(in)
	case 3, 4:
		return runStress(in)
	}
	return List()
}

func main() {
	log.SetOutput(io.Discard)
	Main(run, gen)
}

// ---------------------------------------------------------------- generators

type dgen struct {
	inEcho bool
	pushed bool // a push has been issued: the buffer is allocated from then on
	rng    *Rng
	ops    []Sx
	n      int // model length (tracked to aim at boundaries)
	next   int64
}

// add appends a call.  Around a mutating call, now and then the same read (Front / Back / At i)
// is issued right before and right after it: an answer remembered across the mutation shows there.
func (g *dgen) add(op Sx) {
	c := op.At(0).AsInt()
	mutating := c <= 3 || c >= 7
	if mutating && !g.inEcho && g.rng.Chance(1, 5) {
		var rd Sx
		switch g.rng.Intn(4) {
		case 0:
			rd = List(Int(4))
		case 1:
			rd = List(Int(5))
		default:
			rd = List(Int(6), Int(g.index()))
		}
		g.ops = append(g.ops, rd, op, rd)
		echoes++
		return
	}
	g.ops = append(g.ops, op)
}

var echoes int

func (g *dgen) push() {
	g.pushed = true
	g.next++
	if g.rng.Chance(1, 60) {
		g.add(List(Int(int64(g.rng.Intn(2))), Int(-7))) // a typed nil pointer: not a nil interface
	} else if g.rng.Chance(1, 40) {
		g.add(List(Int(int64(g.rng.Intn(2))), List())) // a nil element
	} else {
		g.add(List(Int(int64(g.rng.Intn(2))), Int(g.next)))
	}
	g.n++
}
func (g *dgen) pushAt(end int) {
	g.pushed = true
	g.next++
	g.add(List(Int(int64(end)), Int(g.next)))
	g.n++
}
func (g *dgen) pop() {
	g.add(List(Int(int64(2 + g.rng.Intn(2)))))
	if g.n > 0 {
		g.n--
	}
}
func (g *dgen) popAt(end int) {
	g.add(List(Int(int64(2 + end))))
	if g.n > 0 {
		g.n--
	}
}
func (g *dgen) index() int64 {
	r := g.rng
	switch r.Intn(10) {
	case 0:
		return -1
	case 1:
		return int64(g.n)
	case 2:
		return int64(g.n) + int64(r.Intn(40))
	case 3:
		return 0
	case 4:
		return int64(g.n) - 1
	case 5:
		return -int64(r.Intn(100)) - 1
	}
	return int64(r.Intn(g.n + 1))
}
func (g *dgen) rot() int64 {
	r := g.rng
	n := int64(g.n)
	switch r.Intn(8) {
	case 0:
		return n
	case 1:
		return -n
	case 2:
		return 2 * n
	case 3:
		return 0
	case 4:
		return int64(r.Intn(5)) - 2
	case 5:
		return n*int64(r.Intn(4)) + int64(r.Intn(3)) - 1
	}
	return int64(r.Intn(int(3*n+3))) - (3*n+3)/2
}
func (g *dgen) misc() {
	r := g.rng
	switch r.Intn(12) {
	case 0, 1:
		g.add(List(Int(4)))
	case 2, 3:
		g.add(List(Int(5)))
	case 4, 5, 6:
		g.add(List(Int(6), Int(g.index())))
	case 7, 8:
		g.next++
		g.add(List(Int(7), Int(g.index()), Int(g.next)))
	case 9, 10:
		g.add(List(Int(9), Int(g.rot())))
	case 11:
		if r.Chance(1, 6) {
			g.add(List(Int(8)))
			g.n = 0
		} else if r.Chance(1, 2) {
			g.setMin()
		} else {
			g.add(List(Int(9), Int(g.rot())))
		}
	}
}

// SetMinCapacity(e): mostly exponents around the capacities in play, now and then the shift limits
func (g *dgen) setMin() {
	r := g.rng
	e := int64(r.Intn(11))
	switch r.Intn(12) {
	case 0:
		// 1<<62 only on a deque that has already allocated (the first allocation would try to
		// make 2^62 slots); 63, 64, 70 select minCapacity
		if g.pushed {
			e = r.PickI64(62, 63, 64, 70)
		} else {
			e = r.PickI64(63, 64, 70)
		}
	case 1, 2:
		e = 4 + int64(r.Intn(3))
	}
	if strconv.IntSize == 32 && e > 10 { // the model shifts in 64 bits; on a 32-bit int 1<<e differs from e = 31 on
		e = int64(r.Intn(11))
	}
	g.add(List(Int(10), Int(e)))
}

// raise the minimum on a deque filled exactly to its capacity (16, 32, 64 ...), push once more (the
// buffer must grow with its contents), read everything back, then drain a little
func (g *dgen) fullThenRaise() {
	r := g.rng
	capTarget := r.PickInt(16, 16, 32, 64, 128)
	for g.n < capTarget {
		g.pushAt(r.Intn(2))
	}
	for g.n > capTarget {
		g.popAt(r.Intn(2))
	}
	e := int64(5 + r.Intn(6))
	g.add(List(Int(10), Int(e)))
	g.pushAt(r.Intn(2))
	g.readAll()
	for k := r.Intn(6); k > 0; k-- {
		g.popAt(r.Intn(2))
	}
	if r.Bool() {
		g.add(List(Int(10), Int(int64(r.Intn(6)))))
	}
	g.readAll()
}

// read every element back
func (g *dgen) readAll() {
	for i := 0; i < g.n && i < 48; i++ {
		g.add(List(Int(6), Int(int64(i))))
	}
}

// a few pushes, a pop or two, a few more pushes, then read everything back: on a buffer much
// larger than its contents (sized constructor, or after Clear) this is where a wrong shrink shows
func (g *dgen) fewOps() {
	r := g.rng
	for k := 1 + r.Intn(9); k > 0; k-- {
		g.pushAt(r.Intn(2))
	}
	for k := 1 + r.Intn(2); k > 0; k-- {
		g.popAt(r.Intn(2))
	}
	for k := r.Intn(24); k > 0; k-- {
		g.pushAt(r.Intn(2))
		if r.Chance(1, 8) {
			g.popAt(r.Intn(2))
		}
	}
	g.readAll()
}

// walk the length to target, sprinkling reads/rotations on the way
func (g *dgen) walk(target, density int) {
	for g.n != target && len(g.ops) < 1500 {
		if g.n < target {
			g.push()
		} else {
			g.pop()
		}
		if g.rng.Chance(1, density) {
			g.misc()
		}
	}
}

var dequeTargets = []int{0, 1, 2, 3, 4, 5, 7, 8, 9, 15, 16, 17, 31, 32, 33, 63, 64, 65, 127, 128, 129, 255, 256, 257}

func genDeque(rng *Rng, thorough bool) (string, Sx) {
	g := &dgen{rng: rng}
	var ctor Sx
	kind := "deque-zero"
	switch rng.Intn(9) {
	case 0, 1, 2:
		ctor = List()
	case 3:
		ctor, kind = Ints(0, 0), "deque-new"
	case 4:
		ctor, kind = Ints(0, 64), "deque-new"
	case 5:
		ctor, kind = Ints(100, 0), "deque-new"
	case 6:
		ctor, kind = Ints(2048, 32), "deque-new"
	case 7:
		ctor, kind = Ints(int64(rng.PickInt(1, 5, 15, 16, 17, 33, 64, 65)), int64(rng.PickInt(0, 1, 16, 17, 32, 33, 100))), "deque-new"
	default:
		ctor, kind = Ints(int64(rng.Intn(300))-20, int64(rng.Intn(200))-20), "deque-new"
	}
	if ctor.Len() == 2 { // NewDeque is variadic: one argument, three arguments, none
		switch rng.Intn(12) {
		case 0, 1:
			ctor = Ints(ctor.At(0).Int64())
		case 2:
			ctor = Ints(ctor.At(0).Int64(), ctor.At(1).Int64(), 7)
		case 3:
			ctor = Ints(0, 0, 0, 0)
		}
	}
	if rng.Chance(1, 3) {
		g.fewOps()
	}
	// a few invalid reads on the (possibly) empty deque
	for k := rng.Intn(3); k > 0; k-- {
		if rng.Bool() {
			g.pop()
		} else {
			g.misc()
		}
	}
	legs := 2 + rng.Intn(4)
	maxT := 14
	if rng.Chance(1, 3) || thorough {
		maxT = len(dequeTargets)
	} else if rng.Bool() {
		maxT = 18
	}
	for l := 0; l < legs; l++ {
		t := dequeTargets[rng.Intn(maxT)]
		if rng.Chance(1, 4) {
			t += rng.Intn(5) - 2
			if t < 0 {
				t = 0
			}
		}
		switch rng.Intn(5) {
		case 0: // queue-like: push back, pop front => the window travels round the ring
			for g.n < t {
				g.pushAt(0)
			}
			for k := rng.Intn(40); k > 0; k-- {
				g.pushAt(0)
				g.popAt(0)
				if rng.Chance(1, 6) {
					g.misc()
				}
			}
		case 1: // the other way round
			for g.n < t {
				g.pushAt(1)
			}
			for k := rng.Intn(40); k > 0; k-- {
				g.pushAt(1)
				g.popAt(1)
				if rng.Chance(1, 6) {
					g.misc()
				}
			}
		default:
			g.walk(t, 2+rng.Intn(8))
		}
		for k := rng.Intn(4); k > 0; k-- {
			g.misc()
		}
		if rng.Chance(1, 6) {
			g.fullThenRaise()
		}
		if rng.Chance(1, 5) { // Clear keeps the capacity: a nearly empty big buffer
			g.add(List(Int(8)))
			g.n = 0
			g.fewOps()
		}
	}
	// drain through the shrink points now and then
	if rng.Bool() {
		g.walk(0, 3+rng.Intn(6))
		g.pop()
		g.misc()
	}
	return kind, List(Int(0), ctor, ListOf(g.ops))
}

func genDequeSmall(rng *Rng) (string, Sx) {
	g := &dgen{rng: rng}
	ctor := List()
	kind := "deque-small"
	switch rng.Intn(4) {
	case 0:
		ctor = Ints(int64(rng.PickInt(17, 64, 100)), int64(rng.PickInt(0, 16, 32)))
	case 1:
		ctor = Ints(0, int64(rng.PickInt(0, 64)))
	}
	if rng.Chance(1, 8) {
		g.fullThenRaise()
		return kind, List(Int(0), ctor, ListOf(g.ops))
	}
	for k := 2 + rng.Intn(10); k > 0; k-- {
		switch rng.Intn(6) {
		case 0, 1, 2:
			g.push()
		case 3:
			g.pop()
		default:
			g.misc()
		}
	}
	g.readAll()
	return kind, List(Int(0), ctor, ListOf(g.ops))
}

// short queue histories with Init() at arbitrary head positions
func genFifoSmall(rng *Rng) []Sx {
	var ops []Sx
	next := int64(0)
	for k := 2 + rng.Intn(14); k > 0; k-- {
		switch rng.Intn(9) {
		case 0, 1, 2, 3:
			next++
			ops = append(ops, List(Int(0), Int(next)))
		case 4, 5:
			ops = append(ops, List(Int(1)))
		case 6:
			ops = append(ops, List(Int(2)))
		case 7:
			ops = append(ops, List(Int(3)))
		default:
			ops = append(ops, List(Int(4)))
		}
	}
	ops = append(ops, List(Int(2)), List(Int(1)), List(Int(3)))
	return ops
}

func genFifoOps(rng *Rng, tids int) []Sx {
	var ops []Sx
	next := int64(0)
	n := 0
	mk1 := func(code int, arg Sx) {
		if tids > 0 {
			ops = append(ops, List(Int(int64(rng.Intn(tids))), Int(int64(code)), arg))
		} else if code == 0 {
			ops = append(ops, List(Int(0), arg))
		} else {
			ops = append(ops, List(Int(int64(code))))
		}
	}
	// around a mutating call, now and then the same read (Front / Len) right before and right after
	mk := func(code int, arg Sx) {
		if (code == 0 || code == 1) && rng.Chance(1, 6) {
			rd := 2 + rng.Intn(2)
			mk1(rd, List())
			mk1(code, arg)
			mk1(rd, List())
			echoes++
			return
		}
		mk1(code, arg)
	}
	push := func() {
		next++
		if rng.Chance(1, 50) {
			mk(0, List())
		} else {
			mk(0, Int(next))
		}
		n++
	}
	pop := func() {
		mk(1, List())
		if n > 0 {
			n--
		}
	}
	targets := []int{0, 1, 2, 15, 16, 17, 18, 16 + 127, 16 + 128, 16 + 129, 16 + 256, 16 + 257, 300}
	legs := 2 + rng.Intn(4)
	for l := 0; l < legs && len(ops) < 1500; l++ {
		t := targets[rng.Intn(len(targets))]
		if l == 0 && rng.Bool() {
			t = targets[rng.Intn(7)]
		}
		for n != t && len(ops) < 1500 {
			if n < t {
				push()
			} else {
				pop()
			}
			switch rng.Intn(12) {
			case 0:
				mk(2, List())
			case 1:
				mk(3, List())
			case 2:
				if n < t {
					pop()
				} else {
					push()
				}
			}
		}
		if tids == 0 && rng.Chance(1, 3) { // Init() with the head index anywhere, then re-use
			for k := rng.Intn(20); k > 0 && n > 0; k-- {
				pop()
			}
			echo := rng.Bool() // the same read right before and right after Init()
			rd := 2 + rng.Intn(2)
			if echo {
				mk1(rd, List())
			}
			ops = append(ops, List(Int(4)))
			if echo {
				mk1(rd, List())
				echoes++
			}
			n = 0
			for k := 1 + rng.Intn(30); k > 0; k-- {
				push()
			}
			mk(2, List())
			pop()
			mk(3, List())
		}
		if rng.Chance(1, 3) { // empty it completely and poke the empty queue
			for n > 0 {
				pop()
			}
			pop()
			mk(2, List())
			mk(3, List())
		}
	}
	return ops
}

func nontrivialDeque(obs Sx) bool {
	res := obs.At(0)
	caps := map[int64]bool{}
	wrapped := false
	for i := 0; i < res.Len(); i++ {
		r := res.At(i)
		if c := r.At(3).Int64(); c > 0 {
			caps[c] = true
		}
		if r.At(2).Int64() > 0 && r.At(4).Int64() >= r.At(5).Int64() {
			wrapped = true
		}
	}
	return len(caps) > 1 || wrapped
}

func gen(a Args, out *Out) {
	rng := NewRng(a.Seed)
	nd, nu, ns, nx := 300, 100, 50, 24
	nsmall := 400
	if a.Thorough() {
		nd, nu, ns, nx, nsmall = 6000, 2000, 800, 60, 8000
	}
	rd := rng.Fork()
	for k := 0; k < nd+nsmall; k++ {
		if hangs >= 6 {
			out.Note("deque generation stopped after %d calls that did not return", hangs)
			break
		}
		var kind string
		var in Sx
		if k < nsmall {
			kind, in = genDequeSmall(rd)
		} else {
			kind, in = genDeque(rd, a.Thorough())
		}
		obs := run(in)
		out.Case(kind, nontrivialDeque(obs), in, obs)
		res := obs.At(0)
		out.CountN("deque:ops", res.Len())
		seen := map[int64]bool{}
		for i := 0; i < res.Len(); i++ {
			r := res.At(i)
			switch r.At(0).Int64() {
			case 2:
				out.Count("deque:explicit-panics")
			case 3:
				out.Count("deque:runtime-errors-or-hangs")
			}
			if c := r.At(3).Int64(); !seen[c] {
				seen[c] = true
				out.Count("deque:cap-reached:" + Int(c).String())
			}
		}
		ops := in.At(2)
		for i := 0; i < ops.Len(); i++ {
			out.Count("deque:op:" + []string{"PushBack", "PushFront", "PopFront", "PopBack", "Front", "Back", "At", "Set", "Clear", "Rotate", "SetMinCapacity"}[ops.At(i).At(0).AsInt()])
		}
	}
	ru := rng.Fork()
	for k := 0; k < nu+nsmall/2; k++ {
		kind := "unbounded"
		var in Sx
		if k < nsmall/2 {
			kind, in = "unbounded-small", List(Int(1), ListOf(genFifoSmall(ru)))
		} else {
			in = List(Int(1), ListOf(genFifoOps(ru, 0)))
		}
		obs := run(in)
		bl := obs.At(2).At(0)
		for i := 0; i < in.At(1).Len(); i++ {
			if in.At(1).At(i).At(0).AsInt() == 4 {
				out.Count("unbounded:Init-calls")
				if i > 0 && obs.At(1).At(i-1).At(2).Int64() > 0 {
					out.Count("unbounded:Init-with-head-index>0")
				}
			}
		}
		out.Case(kind, in.At(1).Len() > 17, in, obs)
		out.CountN("unbounded:ops", in.At(1).Len())
		out.Count("unbounded:final-blocks:" + Int(int64(bl.Len())).String())
	}
	rs := rng.Fork()
	for k := 0; k < ns; k++ {
		g := 1 + rs.Intn(6)
		in := List(Int(2), Int(int64(g)), ListOf(genFifoOps(rs, g)))
		obs := run(in)
		out.Case("concurrent-scheduled", g > 1, in, obs)
		out.CountN("scheduled:calls", in.At(2).Len())
		out.Count("scheduled:goroutines:" + Int(int64(g)).String())
	}
	rx := rng.Fork()
	for k := 0; k < nx; k++ {
		P, C := 1+rx.Intn(4), 1+rx.Intn(4)
		n := rx.PickInt(1, 16, 17, 40, 150, 300, 1000)
		if a.Thorough() && rx.Chance(1, 4) {
			n = 2000
		}
		in := Ints(int64(3+rx.Intn(2)), int64(P), int64(C), int64(n))
		kindS := "concurrent-stress"
		if in.At(0).AsInt() == 4 {
			kindS = "concurrent-stress-reuse"
		}
		out.Case(kindS, P+C > 2, in, run(in))
		out.CountN("stress:enqueued", P*n)
	}
	out.CountN("read repeated right before and after a mutating call", echoes)
	if inconclusive > 0 {
		out.CountN("watchdog:inconclusive(expired, did not reproduce on re-run)", inconclusive)
		out.Note("%d watchdog expiries did not reproduce on an immediate re-run with a longer limit: classified inconclusive, the re-run's observations were used", inconclusive)
	}
}
