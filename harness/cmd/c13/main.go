// C13 harness: LRU cache (collections/lru/cache.go).
// input    = (cap (op ...) nocb valkind cbmode)   op = (code args...), see coq/C13/Run.v; nocb = 1: no callback;
//            valkind: the Go type the stored values are wrapped in (not seen by the model)
// observed = ((out log len) ...)    one per operation
package main

import (
	"container/list"
	"fmt"

	"qchen.fun/fatchoy/collections/lru"
	. "verifharness/common"
)

// nilValue is the integer that stands for a stored untyped nil (a legitimate value: a key
// stored with nil is present, and Get/Peek must say so)
const nilValue = -7

// The stored value is an arbitrary Go value: the integer of the case is wrapped in one of several
// Go types (chosen per history, or per value in "mixed" histories), among them types with a
// Close method (handles, connections) and non-comparable ones; whatever the type, Get/Peek
// must return it and the callback must be told about it.
type closerPtr struct {
	n      int64
	closed int
}

func (c *closerPtr) Close() error { c.closed++; return nil }

type closerVal struct{ n int64 }

func (c closerVal) Close() error { return nil }

type plainStruct struct {
	n int64
	s string
}

const nValKinds = 7

func toValKind(v int64, kind int) interface{} {
	if v == nilValue {
		return nil
	}
	if kind == nValKinds { // mixed
		kind = int(uint64(v) % nValKinds)
	}
	switch kind {
	case 1:
		return fmt.Sprintf("v%d", v)
	case 2:
		return &closerPtr{n: v}
	case 3:
		return closerVal{n: v}
	case 4:
		return []int64{v} // not comparable
	case 5:
		return plainStruct{n: v, s: "x"}
	case 6:
		return map[string]int64{"v": v}
	}
	return v
}

func key(k int64) string { return fmt.Sprintf("k%d", k) }
func unkey(v interface{}) int64 {
	s, ok := v.(string)
	if !ok || len(s) < 2 {
		return -1000
	}
	var n int64
	fmt.Sscanf(s[1:], "%d", &n)
	return n
}

// value seen by a caller/callback as an integer; anything that is not the stored int64
// (e.g. a *list.Element handed to the callback) is reported as -999
func val(v interface{}) int64 {
	if v == nil {
		return nilValue
	}
	switch x := v.(type) {
	case int64:
		return x
	case string:
		var n int64
		if len(x) > 1 && x[0] == 'v' {
			fmt.Sscanf(x[1:], "%d", &n)
			return n
		}
		return -997
	case *closerPtr:
		return x.n
	case closerVal:
		return x.n
	case []int64:
		if len(x) == 1 {
			return x[0]
		}
		return -996
	case plainStruct:
		return x.n
	case map[string]int64:
		return x["v"]
	case *list.Element:
		return -999
	}
	return -998
}

func run(in Sx) Sx {
	capacity := in.At(0).AsInt()
	ops := in.At(1)
	nocb, valKind := false, 0
	if in.Len() > 2 {
		nocb = in.At(2).AsInt() != 0
	}
	if in.Len() > 3 {
		valKind = in.At(3).AsInt()
	}
	toVal := func(v int64) interface{} { return toValKind(v, valKind) }
	// what the callback does besides recording its arguments (the callback is part of the input):
	// 0 nothing; 1 looks at the cache (Contains of its key, Len) — on the clean code an entry has
	// left when its callback runs (except during Purge); 2 removes ANOTHER entry from inside the
	// callback (the op list names it: an op `(6 k 1)` is performed from inside the callback of
	// the op before it); 3 panics (the caller recovers; the cache must be as if the callback had
	// returned)
	cbmode := 0
	if in.Len() > 4 {
		cbmode = in.At(4).AsInt()
	}
	var log []Sx
	var c *lru.Cache
	var cb func(k, v interface{})
	var (
		curCode   int   // opcode of the top-level operation in progress
		fired     int   // callbacks so far in this operation
		lenBefore int   // Len() before the operation
		newPut    int   // 1 if the operation is a Put of an absent key
		viewBad   int64 // mode 1: the callback saw its own entry still present / a wrong Len
		armed     bool  // mode 2: a nested removal is due in the first callback of this operation
		armedKey  int64
		nestedOut Sx
		nestedAt  int // number of log entries when the nested removal started
		lenAtCb   int
		inNested  bool
	)
	if !nocb {
		cb = func(k, v interface{}) {
			log = append(log, Ints(unkey(k), val(v)))
			fired++
			switch cbmode {
			case 1:
				if curCode != 9 {
					if c.Contains(k) {
						viewBad = 1
					}
					if c.Len() != lenBefore+newPut-fired {
						viewBad = 1
					}
				}
			case 2:
				if armed && !inNested {
					armed = false
					inNested = true
					lenAtCb = c.Len()
					nestedAt = len(log)
					nestedOut = List(Int(0), Bool(c.Remove(key(armedKey))))
					inNested = false
				}
			case 3:
				panic("callback panics")
			}
		}
	}
	c = lru.NewCache(capacity, cb)
	var obs []Sx
	for i := 0; i < ops.Len(); i++ {
		op := ops.At(i)
		log = nil
		fired, viewBad, nestedOut, armed = 0, 0, Sx{}, false
		curCode = op.At(0).AsInt()
		lenBefore = c.Len()
		newPut = 0
		if curCode == 0 && !c.Contains(key(op.At(1).Int64())) {
			newPut = 1
		}
		nested := i+1 < ops.Len() && ops.At(i+1).Len() == 3 && ops.At(i+1).At(0).AsInt() == 6 && ops.At(i+1).At(2).AsInt() == 1
		if nested {
			armed, armedKey = true, ops.At(i+1).At(1).Int64()
		}
		var out Sx
		panicked, pv := Catch(func() {
			switch op.At(0).AsInt() {
			case 0:
				out = List(Int(0), Bool(c.Put(key(op.At(1).Int64()), toVal(op.At(2).Int64()))))
			case 1:
				if v, ok := c.Get(key(op.At(1).Int64())); ok {
					out = List(Int(1), Int(val(v)))
				} else {
					out = List(Int(1))
				}
			case 2:
				if v, ok := c.Peek(key(op.At(1).Int64())); ok {
					out = List(Int(1), Int(val(v)))
				} else {
					out = List(Int(1))
				}
			case 3:
				out = List(Int(0), Bool(c.Contains(key(op.At(1).Int64()))))
			case 4:
				if k, v, ok := c.GetOldest(); ok {
					out = List(Int(2), Int(unkey(k)), Int(val(v)))
				} else {
					out = List(Int(2))
				}
			case 5:
				ks := c.Keys()
				l := make([]Sx, len(ks))
				for j, k := range ks {
					l[j] = Int(unkey(k))
				}
				out = List(Int(3), ListOf(l))
			case 6:
				out = List(Int(0), Bool(c.Remove(key(op.At(1).Int64()))))
			case 7:
				if k, v, ok := c.RemoveOldest(); ok {
					out = List(Int(2), Int(unkey(k)), Int(val(v)))
				} else {
					out = List(Int(2))
				}
			case 8:
				out = List(Int(4), Int(int64(c.Resize(op.At(1).AsInt()))))
			case 9:
				c.Purge()
				out = List(Int(5))
			case 10:
				out = List(Int(4), Int(int64(c.Len())))
			case 11:
				out = List(Int(4), Int(int64(c.Cap())))
			}
		})
		if panicked {
			out = List(Int(99), Str(fmt.Sprint(pv)))
		}
		if nested {
			// the operation and the removal performed from inside its callback are reported as two
			// observations, in the order in which they took effect
			if nestedOut.Kind == 0 {
				obs = append(obs, List(out, ListOf(log), Int(int64(c.Len())), Int(viewBad)))
				obs = append(obs, List(List(Int(98)), ListOf(nil), Int(int64(c.Len())), Int(0)))
			} else {
				obs = append(obs, List(out, ListOf(log[:nestedAt]), Int(int64(lenAtCb)), Int(viewBad)))
				obs = append(obs, List(nestedOut, ListOf(log[nestedAt:]), Int(int64(c.Len())), Int(0)))
			}
			i++
			continue
		}
		obs = append(obs, List(out, ListOf(log), Int(int64(c.Len())), Int(viewBad)))
	}
	return ListOf(obs)
}

func gen(a Args, out *Out) {
	rng := NewRng(a.Seed)
	n := 600
	maxOps := 40
	if a.Thorough() {
		n, maxOps = 12000, 120
	}
	for h := 0; h < n; h++ {
		capacity := rng.Range(1, 8)
		universe := rng.Range(capacity, capacity+5)
		if rng.Chance(1, 5) {
			universe = rng.Range(1, 3)
		}
		nops := rng.Range(1, maxOps)
		// one history in six uses a bigger cache (bulk paths, thresholds that depend on the
		// ratio of entries leaving to entries staying) and is filled first
		big := rng.Chance(1, 6)
		if big {
			capacity = rng.Range(9, 48)
			universe = rng.Range(capacity, 2*capacity)
			nops = rng.Range(capacity, capacity+maxOps)
			out.Count("histories-big-cache")
		}
		// the cache is built without a callback in one history out of five; the value type is
		// int64 in half of the histories and one of the other Go types (or a mix) otherwise
		nocb := rng.Chance(1, 5)
		valKind := 0
		if rng.Bool() {
			valKind = rng.Range(1, nValKinds)
		}
		if nocb {
			out.Count("histories-without-callback")
		}
		out.Count(fmt.Sprintf("value-kind:%d", valKind))
		// what the callback does (see run): passive in a bit more than half of the histories
		cbmode := 0
		if !nocb {
			switch d := rng.Intn(100); {
			case d < 15:
				cbmode = 1
			case d < 30:
				cbmode = 2
			case d < 45:
				cbmode = 3
			}
		}
		if big && cbmode == 2 {
			cbmode = 0 // the pre-fill of big histories is not run through the shadow cache
		}
		out.Count(fmt.Sprintf("callback-mode:%d", cbmode))
		// a shadow cache run alongside the generation tells whether an operation fires the
		// callback, i.e. whether a nested removal (mode 2) takes place
		var sim *lru.Cache
		simFired, simArmed, simKey := 0, false, int64(0)
		sim = lru.NewCache(capacity, func(k, v interface{}) {
			simFired++
			if simArmed {
				simArmed = false
				sim.Remove(key(simKey))
			}
		})
		simDo := func(op Sx) {
			switch op.At(0).AsInt() {
			case 0:
				sim.Put(key(op.At(1).Int64()), op.At(2).Int64())
			case 1:
				sim.Get(key(op.At(1).Int64()))
			case 6:
				sim.Remove(key(op.At(1).Int64()))
			case 7:
				sim.RemoveOldest()
			case 8:
				sim.Resize(op.At(1).AsInt())
			case 9:
				sim.Purge()
			}
		}
		// half of the histories draw values from a tiny set, so that re-puts with an unchanged
		// value (which must still count as use) are frequent
		valRange := 1000
		if rng.Bool() {
			valRange = 3
			out.Count("histories-with-few-values")
		}
		var ops []Sx
		evictions, resizes, purges := 0, 0, 0
		size := 0 // rough size tracking only for the non-triviality rule
		for i := 0; i < nops; i++ {
			k := int64(rng.Intn(universe))
			var op Sx
			switch d := rng.Intn(100); {
			case d < 38:
				v := int64(rng.Intn(valRange))
				if rng.Chance(1, 12) {
					v = nilValue
					out.Count("put-nil-value")
				}
				op = Ints(0, k, v)
				size++
				if size > capacity {
					evictions++
				}
			case d < 58:
				op = Ints(1, k)
			case d < 64:
				op = Ints(2, k)
			case d < 69:
				op = Ints(3, k)
			case d < 73:
				op = Ints(4)
			case d < 79:
				op = Ints(5)
			case d < 85:
				op = Ints(6, k)
			case d < 89:
				op = Ints(7)
			case d < 93:
				op = Ints(8, int64(rng.Range(1, 9)))
				if big && rng.Bool() {
					op = Ints(8, int64(rng.Range(1, capacity+8)))
				}
				if rng.Chance(1, 12) {
					// zero and negative capacities: everything leaves, later puts are evicted at once
					op = Ints(8, int64(rng.Range(-2, 0)))
					out.Count("resize-nonpositive")
				}
				resizes++
			case d < 95:
				op = Ints(9)
				purges++
			case d < 98:
				op = Ints(10)
			default:
				op = Ints(11)
			}
			code := op.At(0).AsInt()
			if cbmode == 3 && (code == 8 || code == 9) {
				// a panicking callback in the middle of a multi-entry departure leaves the loop
				// half done: outside the property; use a query instead
				op = Ints(5)
				code = 5
			}
			out.Count(fmt.Sprintf("op:%d", code))
			ops = append(ops, op)
			simFired = 0
			wasArmed := false
			if cbmode == 2 && (code == 0 || code == 6 || code == 7) && rng.Bool() {
				simArmed, simKey, wasArmed = true, int64(rng.Intn(universe)), true
			}
			func() {
				defer func() { recover() }()
				simDo(op)
			}()
			if wasArmed && !simArmed { // the callback fired and performed the nested removal
				ops = append(ops, Ints(6, simKey, 1))
				out.Count("nested-removal")
			}
			simArmed = false
		}
		if big {
			// fill first, so that resizes and purges act on a well-filled cache
			fill := make([]Sx, 0, capacity+len(ops))
			for k := 0; k < capacity; k++ {
				fill = append(fill, Ints(0, int64(k), int64(rng.Intn(valRange))))
			}
			ops = append(fill, ops...)
		}
		nocbI := int64(0)
		if nocb {
			nocbI = 1
		}
		in := List(Int(int64(capacity)), ListOf(ops), Int(nocbI), Int(int64(valKind)), Int(int64(cbmode)))
		kind := "random"
		if big {
			kind = "big"
		}
		if nocb {
			kind += "-nocb"
		}
		if purges > 0 {
			kind += "-with-purge"
			out.Count("histories-with-purge")
		}
		if resizes > 0 {
			out.Count("histories-with-resize")
		}
		out.Count(fmt.Sprintf("cap:%d", capacity))
		out.Case(kind, evictions > 0 || resizes > 0 || purges > 0, in, run(in))
	}
}

func main() { Main(run, gen) }
