// C13 harness: LRU cache (collections/lru/cache.go).
// input    = (cap (op ...))         op = (code args...), see coq/C13/Run.v
// observed = ((out log len) ...)    one per operation
package main

import (
	"container/list"
	"fmt"

	"qchen.fun/fatchoy/collections/lru"
	. "verifharness/common"
)

// nilValue is the integer that stands for a stored untyped nil (a legitimate value: a key
// stored with nil is present, and Get/Peek must say so)
const nilValue = -7

func toVal(v int64) interface{} {
	if v == nilValue {
		return nil
	}
	return v
}

func key(k int64) string { return fmt.Sprintf("k%d", k) }
func unkey(v interface{}) int64 {
	s, ok := v.(string)
	if !ok || len(s) < 2 {
		return -1000
	}
	var n int64
	fmt.Sscanf(s[1:], "%d", &n)
	return n
}

// value seen by a caller/callback as an integer; anything that is not the stored int64
// (e.g. a *list.Element handed to the callback) is reported as -999
func val(v interface{}) int64 {
	if v == nil {
		return nilValue
	}
	switch x := v.(type) {
	case int64:
		return x
	case *list.Element:
		return -999
	}
	return -998
}

func run(in Sx) Sx {
	capacity := in.At(0).AsInt()
	ops := in.At(1)
	var log []Sx
	c := lru.NewCache(capacity, func(k, v interface{}) {
		log = append(log, Ints(unkey(k), val(v)))
	})
	var obs []Sx
	for i := 0; i < ops.Len(); i++ {
		op := ops.At(i)
		log = nil
		var out Sx
		panicked, pv := Catch(func() {
			switch op.At(0).AsInt() {
			case 0:
				out = List(Int(0), Bool(c.Put(key(op.At(1).Int64()), toVal(op.At(2).Int64()))))
			case 1:
				if v, ok := c.Get(key(op.At(1).Int64())); ok {
					out = List(Int(1), Int(val(v)))
				} else {
					out = List(Int(1))
				}
			case 2:
				if v, ok := c.Peek(key(op.At(1).Int64())); ok {
					out = List(Int(1), Int(val(v)))
				} else {
					out = List(Int(1))
				}
			case 3:
				out = List(Int(0), Bool(c.Contains(key(op.At(1).Int64()))))
			case 4:
				if k, v, ok := c.GetOldest(); ok {
					out = List(Int(2), Int(unkey(k)), Int(val(v)))
				} else {
					out = List(Int(2))
				}
			case 5:
				ks := c.Keys()
				l := make([]Sx, len(ks))
				for j, k := range ks {
					l[j] = Int(unkey(k))
				}
				out = List(Int(3), ListOf(l))
			case 6:
				out = List(Int(0), Bool(c.Remove(key(op.At(1).Int64()))))
			case 7:
				if k, v, ok := c.RemoveOldest(); ok {
					out = List(Int(2), Int(unkey(k)), Int(val(v)))
				} else {
					out = List(Int(2))
				}
			case 8:
				out = List(Int(4), Int(int64(c.Resize(op.At(1).AsInt()))))
			case 9:
				c.Purge()
				out = List(Int(5))
			case 10:
				out = List(Int(4), Int(int64(c.Len())))
			case 11:
				out = List(Int(4), Int(int64(c.Cap())))
			}
		})
		if panicked {
			out = List(Int(99), Str(fmt.Sprint(pv)))
		}
		obs = append(obs, List(out, ListOf(log), Int(int64(c.Len()))))
	}
	return ListOf(obs)
}

func gen(a Args, out *Out) {
	rng := NewRng(a.Seed)
	n := 600
	maxOps := 40
	if a.Thorough() {
		n, maxOps = 12000, 120
	}
	for h := 0; h < n; h++ {
		capacity := rng.Range(1, 8)
		universe := rng.Range(capacity, capacity+5)
		if rng.Chance(1, 5) {
			universe = rng.Range(1, 3)
		}
		nops := rng.Range(1, maxOps)
		// half of the histories draw values from a tiny set, so that re-puts with an unchanged
		// value (which must still count as use) are frequent
		valRange := 1000
		if rng.Bool() {
			valRange = 3
			out.Count("histories-with-few-values")
		}
		var ops []Sx
		evictions, resizes, purges := 0, 0, 0
		size := 0 // rough size tracking only for the non-triviality rule
		for i := 0; i < nops; i++ {
			k := int64(rng.Intn(universe))
			var op Sx
			switch d := rng.Intn(100); {
			case d < 38:
				v := int64(rng.Intn(valRange))
				if rng.Chance(1, 12) {
					v = nilValue
					out.Count("put-nil-value")
				}
				op = Ints(0, k, v)
				size++
				if size > capacity {
					evictions++
				}
			case d < 58:
				op = Ints(1, k)
			case d < 64:
				op = Ints(2, k)
			case d < 69:
				op = Ints(3, k)
			case d < 73:
				op = Ints(4)
			case d < 79:
				op = Ints(5)
			case d < 85:
				op = Ints(6, k)
			case d < 89:
				op = Ints(7)
			case d < 93:
				op = Ints(8, int64(rng.Range(1, 9)))
				resizes++
			case d < 95:
				op = Ints(9)
				purges++
			case d < 98:
				op = Ints(10)
			default:
				op = Ints(11)
			}
			out.Count(fmt.Sprintf("op:%d", op.At(0).AsInt()))
			ops = append(ops, op)
		}
		in := List(Int(int64(capacity)), ListOf(ops))
		kind := "random"
		if purges > 0 {
			kind = "with-purge"
			out.Count("histories-with-purge")
		}
		if resizes > 0 {
			out.Count("histories-with-resize")
		}
		out.Count(fmt.Sprintf("cap:%d", capacity))
		out.Case(kind, evictions > 0 || resizes > 0 || purges > 0, in, run(in))
	}
}

func main() { Main(run, gen) }
