// C04 harness: shutdown safety of qnet.TcpConn (same scenario engine as C03:
// verifharness/connsim), burst races from a spin barrier (mode 3), and qnet.TcpServer
// (listener scenarios, mode 2).  Scenarios run in child processes (a panic on a goroutine of
// the code under test is an observed outcome, not the end of the run).
// input    = connection scenario (see connsim.Cfg.Sx) | (2 nlisteners ndials drain seed)
//
//	| (3 trials nclosers nsenders seed)
//
// observed = see coq/C03/Replay.v | coq/C04/Run.v (listener_check, burst_check)
package main

import (
	"io"
	"log"
	"os"
	"strings"
	"sync"
	"time"

	. "verifharness/common"
	"verifharness/connsim"
)

func run(in Sx) Sx {
	obs, _ := connsim.RunIsolated(in)
	return obs
}

func main() {
	log.SetOutput(io.Discard)
	connsim.ChildMain()
	Main(run, gen)
}

type job struct {
	kind string
	cfg  *connsim.Cfg
}

func gen(a Args, out *Out) {
	rng := NewRng(a.Seed)
	mult := 1
	if a.Thorough() {
		mult = 15
	}
	type genf func(*Rng) (string, connsim.Cfg)
	plan := []struct {
		n int
		f genf
	}{
		{10, connsim.GatedSendVsTeardown},
		{16, connsim.GatedDoubleClose},
		{20, connsim.GatedReadError},
		{20, connsim.GatedReaderFirst},
		{10, connsim.GatedInboundFull},
		{20, connsim.GatedRandom},
		{6, connsim.GatedBacklog},
		{8, connsim.GatedErrChan},
		{24, connsim.FreeRace},
		{8, connsim.FreeInbound},
		{6, func(r *Rng) (string, connsim.Cfg) { return connsim.FreeStream(r, false) }},
		{10, connsim.FreeImmediate},
		{6, connsim.WriteFail},
		{12, connsim.FreeEnv},
		{15, connsim.GatedOverflowThenShutdown},
		{6, connsim.FreeOverflowThenShutdown},
		{8, connsim.FreeReentrantConsumer},
		{4, connsim.FreePhases},
		{4, connsim.FreeZeroCapacities},
	}
	var jobs []job
	var ins []Sx
	// VERIF_FOCUS_KINDS=kind1,kind2: spend the run on these generator classes only
	focus := map[string]bool{}
	for _, k := range strings.Split(os.Getenv("VERIF_FOCUS_KINDS"), ",") {
		if k != "" {
			focus[k] = true
		}
	}
	rounds := 1
	if len(focus) > 0 {
		rounds = 12
	}
	for round := 0; round < rounds; round++ {
		for _, p := range plan {
			r := rng.Fork()
			for k := 0; k < p.n*mult; k++ {
				kind, c := p.f(r)
				for kind == "free-env-nontcp-unread" { // C03's known limitation (no half-close on a generic net.Conn), not a shutdown-safety matter
					kind, c = p.f(r)
				}
				if len(focus) > 0 && !focus[kind] {
					continue
				}
				cc := c
				jobs = append(jobs, job{kind, &cc})
				ins = append(ins, c.Sx())
			}
		}
	}
	rb := rng.Fork()
	for k := 0; k < 6*mult && (len(focus) == 0 || focus["burst-race"]); k++ {
		kind, in := connsim.BurstScenario(rb, 500)
		jobs = append(jobs, job{kind, nil})
		ins = append(ins, in)
	}
	rl := rng.Fork()
	for k := 0; k < 10*mult && len(focus) == 0; k++ {
		kind, in := connsim.ListenerScenario(rl)
		jobs = append(jobs, job{kind, nil})
		ins = append(ins, in)
	}
	ru := rng.Fork()
	for k := 0; k < 12*mult && (len(focus) == 0 || focus["unstarted-newtcpconn"] || focus["unstarted-from-backlog"] || focus["unstarted-backlog-leftover"]); k++ {
		kind, in := connsim.UnstartedScenario(ru)
		jobs = append(jobs, job{kind, nil})
		ins = append(ins, in)
	}
	// always one listener whose hand-off channel is full and undrained when Close is called
	if len(focus) == 0 {
		jobs = append(jobs, job{"listener-backlog-full", nil})
		ins = append(ins, Ints(2, int64(rl.Range(1, 2)), 140, 0, int64(rl.Next()>>2)))
	}
	// every case is recorded as soon as its scenario has completed (a run that is cut short still
	// carries what it found); no new scenario process is started once the budget is used up
	budget := 240 * time.Second
	if a.Thorough() {
		budget = 40 * time.Minute
	}
	var emu sync.Mutex
	emit := func(i int, r connsim.Result) {
		emu.Lock()
		defer emu.Unlock()
		j := jobs[i]
		out.Case(j.kind, true, ins[i], r.Obs)
		if c := j.cfg; c != nil {
			out.CountN("senders", len(c.Senders))
			out.CountN("closers", len(c.Closers))
			for _, g := range c.Closers {
				if g {
					out.Count("closer:Close")
				} else {
					out.Count("closer:ForceClose")
				}
			}
			for _, it := range c.Input {
				out.Count([]string{"peer:frame", "peer:garbage", "peer:eof", "peer:rst", "peer:truncated", "peer:badlen", "peer:split-frame", "peer:coalesced", "peer:coalesced", "peer:partial-frame"}[it.Kind])
			}
			if c.Ecap < 0 {
				out.Count("errchan:nil")
			} else if c.Ecap == 0 {
				out.Count("errchan:unbuffered")
			} else {
				out.Count("errchan:buffered")
			}
		} else if j.kind == "burst-race" {
			out.CountN("burst-trials", r.Obs.At(0).AsInt())
		}
		for _, n := range r.Notes {
			switch {
			case strings.HasPrefix(n, "stuck:"):
				out.Count("stuck-state-established")
				out.Note("%s: %s", j.kind, n)
			case strings.HasPrefix(n, "crash:"):
				out.Count("scenario-process-crashed")
				out.Note("%s: %s", j.kind, n)
			default:
				out.Count("inconclusive-observation")
				out.Note("%s: inconclusive: %s", j.kind, n)
			}
		}
	}
	if notRun := connsim.RunStream(ins, budget, emit); notRun > 0 {
		out.CountN("scenarios-not-run-budget-exhausted", notRun)
		out.Note("the generator's time budget (%v) was used up: %d scenarios were not run", budget, notRun)
	}
}
