// C04 harness: shutdown safety of qnet.TcpConn (same scenario engine as C03:
// verifharness/connsim) and of qnet.TcpServer (listener scenarios, mode 2).
// input    = connection scenario (see connsim.Cfg.Sx) | (2 nlisteners ndials drain seed)
// observed = see coq/C03/Replay.v | coq/C04/Run.v (listener_check)
package main

import (
	"io"
	"log"
	"strings"

	. "verifharness/common"
	"verifharness/connsim"
)

var lastNotes []string

func run(in Sx) Sx {
	if in.At(0).AsInt() == 2 {
		obs, notes := connsim.RunListener(in)
		lastNotes = notes
		return obs
	}
	obs, notes := connsim.Run(connsim.CfgOfSx(in))
	lastNotes = notes
	return obs
}

func main() {
	log.SetOutput(io.Discard)
	Main(run, gen)
}

func gen(a Args, out *Out) {
	rng := NewRng(a.Seed)
	mult := 1
	if a.Thorough() {
		mult = 15
	}
	notes := func(kind string) {
		for _, n := range lastNotes {
			if strings.HasPrefix(n, "stuck:") {
				out.Count("stuck-state-established")
				out.Note("%s: %s", kind, n)
			} else {
				out.Count("inconclusive-observation")
				out.Note("%s: inconclusive: %s", kind, n)
			}
		}
	}
	emit := func(kind string, c connsim.Cfg) {
		in := c.Sx()
		obs := run(in)
		out.Case(kind, true, in, obs)
		out.CountN("senders", len(c.Senders))
		out.CountN("closers", len(c.Closers))
		for _, g := range c.Closers {
			if g {
				out.Count("closer:Close")
			} else {
				out.Count("closer:ForceClose")
			}
		}
		for _, it := range c.Input {
			out.Count([]string{"peer:frame", "peer:garbage", "peer:eof", "peer:rst"}[it.Kind])
		}
		if c.Ecap < 0 {
			out.Count("errchan:nil")
		} else if c.Ecap == 0 {
			out.Count("errchan:unbuffered")
		} else {
			out.Count("errchan:buffered")
		}
		notes(kind)
	}
	type genf func(*Rng) (string, connsim.Cfg)
	plan := []struct {
		n int
		f genf
	}{
		{10, connsim.GatedSendVsTeardown},
		{16, connsim.GatedDoubleClose},
		{20, connsim.GatedReadError},
		{10, connsim.GatedInboundFull},
		{20, connsim.GatedRandom},
		{6, connsim.GatedBacklog},
		{8, connsim.GatedErrChan},
		{24, connsim.FreeRace},
		{8, connsim.FreeInbound},
		{6, func(r *Rng) (string, connsim.Cfg) { return connsim.FreeStream(r, false) }},
	}
	for _, p := range plan {
		r := rng.Fork()
		for k := 0; k < p.n*mult; k++ {
			kind, c := p.f(r)
			emit(kind, c)
		}
	}
	r := rng.Fork()
	for k := 0; k < 10*mult; k++ {
		kind, in := connsim.ListenerScenario(r)
		obs := run(in)
		out.Case(kind, true, in, obs)
		notes(kind)
	}
}
