// Go port of coq/C10/Model.v's ins/del (the recursive transcription of Put/deleteEntry and the
// two fix-up loops) on persistent trees.  It is used for two things only:
//   - to name the fix-up branch every Put/Remove of a history takes (histogram in the evidence);
//   - to enumerate the red-black trees reachable through put/remove scripts (directed class).
//
// It takes no part in any verdict: verdicts come from the Coq model evaluated on the case file.
// Where its result differs from the real tree the histogram counts a "classifier disagrees".
package main

import (
	"strings"

	"qchen.fun/fatchoy/collections/treemap"
)

type sh struct {
	red  bool
	l, r *sh
	k, v int64
}

func mk(red bool, l *sh, k, v int64, r *sh) *sh { return &sh{red: red, l: l, r: r, k: k, v: v} }
func isRed(t *sh) bool                          { return t != nil && t.red }
func setBlack(t *sh) *sh {
	if t == nil {
		return nil
	}
	return mk(false, t.l, t.k, t.v, t.r)
}

// branch recorder
type rec map[string]int

func (c rec) hit(s string) {
	if c != nil {
		c[s]++
	}
}

// insertion status
const (
	iDone = iota
	iRed
	iRedRedL // red parent with red LEFT child
	iRedRedR
)

func (c rec) fixInsLeft(gred bool, p *sh, gk, gv int64, u *sh, xleft bool) (*sh, int) {
	if isRed(u) {
		c.hit("ins/parent-left/uncle-red:recolour,up")
		return mk(true, setBlack(p), gk, gv, setBlack(u)), iRed
	}
	pp := p
	if !xleft {
		c.hit("ins/parent-left/x-inner:rotateLeft(p)+rotateRight(g)")
		if p != nil && p.r != nil {
			x := p.r
			pp = mk(x.red, mk(p.red, p.l, p.k, p.v, x.l), x.k, x.v, x.r)
		}
	} else {
		c.hit("ins/parent-left/x-outer:rotateRight(g)")
	}
	if pp != nil {
		return mk(false, pp.l, pp.k, pp.v, mk(true, pp.r, gk, gv, u)), iDone
	}
	return mk(gred, pp, gk, gv, u), iDone
}

func (c rec) fixInsRight(gred bool, u *sh, gk, gv int64, p *sh, xleft bool) (*sh, int) {
	if isRed(u) {
		c.hit("ins/parent-right/uncle-red:recolour,up")
		return mk(true, setBlack(u), gk, gv, setBlack(p)), iRed
	}
	pp := p
	if xleft {
		c.hit("ins/parent-right/x-inner:rotateRight(p)+rotateLeft(g)")
		if p != nil && p.l != nil {
			x := p.l
			pp = mk(x.red, x.l, x.k, x.v, mk(p.red, x.r, p.k, p.v, p.r))
		}
	} else {
		c.hit("ins/parent-right/x-outer:rotateLeft(g)")
	}
	if pp != nil {
		return mk(false, mk(true, u, gk, gv, pp.l), pp.k, pp.v, pp.r), iDone
	}
	return mk(gred, u, gk, gv, pp), iDone
}

func (c rec) ins(k, v int64, t *sh) (*sh, int) {
	if t == nil {
		return mk(true, nil, k, v, nil), iRed
	}
	switch {
	case k == t.k:
		c.hit("put/replace")
		return mk(t.red, t.l, t.k, v, t.r), iDone
	case k < t.k:
		l2, st := c.ins(k, v, t.l)
		switch st {
		case iDone:
			return mk(t.red, l2, t.k, t.v, t.r), iDone
		case iRed:
			if !t.red {
				c.hit("ins/parent-black:stop")
				return mk(t.red, l2, t.k, t.v, t.r), iDone
			}
			return mk(t.red, l2, t.k, t.v, t.r), iRedRedL
		default:
			return c.fixInsLeft(t.red, l2, t.k, t.v, t.r, st == iRedRedL)
		}
	default:
		r2, st := c.ins(k, v, t.r)
		switch st {
		case iDone:
			return mk(t.red, t.l, t.k, t.v, r2), iDone
		case iRed:
			if !t.red {
				c.hit("ins/parent-black:stop")
				return mk(t.red, t.l, t.k, t.v, r2), iDone
			}
			return mk(t.red, t.l, t.k, t.v, r2), iRedRedR
		default:
			return c.fixInsRight(t.red, t.l, t.k, t.v, r2, st == iRedRedL)
		}
	}
}

func (c rec) put(k, v int64, t *sh) *sh {
	t2, st := c.ins(k, v, t)
	if st == iRed {
		c.hit("ins/x-is-root:blacken")
	}
	return setBlack(t2)
}

func (c rec) fixLbs(cred bool, l *sh, k, v int64, r *sh) (*sh, bool) {
	if r == nil {
		return mk(false, l, k, v, nil), !cred
	}
	if !isRed(r.l) && !isRed(r.r) {
		if cred {
			c.hit("del/x-left/nephews-black:recolour,parent-red-absorbs")
		} else {
			c.hit("del/x-left/nephews-black:recolour,up")
		}
		return mk(false, l, k, v, mk(true, r.l, r.k, r.v, r.r)), !cred
	}
	s := r
	if !isRed(r.r) {
		c.hit("del/x-left/far-nephew-black:rotateRight(sib)+rotateLeft(p)")
		if n := r.l; n != nil {
			s = mk(false, n.l, n.k, n.v, mk(true, n.r, r.k, r.v, r.r))
		}
	} else {
		c.hit("del/x-left/far-nephew-red:rotateLeft(p)")
	}
	return mk(cred, mk(false, l, k, v, s.l), s.k, s.v, setBlack(s.r)), false
}

func (c rec) fixL(cred bool, l *sh, k, v int64, r *sh) (*sh, bool) {
	if isRed(r) {
		c.hit("del/x-left/sibling-red:rotateLeft(p),continue")
		inner, _ := c.fixLbs(true, l, k, v, r.l)
		return mk(false, inner, r.k, r.v, r.r), false
	}
	return c.fixLbs(cred, l, k, v, r)
}

func (c rec) fixRbs(cred bool, l *sh, k, v int64, r *sh) (*sh, bool) {
	if l == nil {
		return mk(false, nil, k, v, r), !cred
	}
	if !isRed(l.r) && !isRed(l.l) {
		if cred {
			c.hit("del/x-right/nephews-black:recolour,parent-red-absorbs")
		} else {
			c.hit("del/x-right/nephews-black:recolour,up")
		}
		return mk(false, mk(true, l.l, l.k, l.v, l.r), k, v, r), !cred
	}
	s := l
	if !isRed(l.l) {
		c.hit("del/x-right/far-nephew-black:rotateLeft(sib)+rotateRight(p)")
		if n := l.r; n != nil {
			s = mk(false, mk(true, l.l, l.k, l.v, n.l), n.k, n.v, n.r)
		}
	} else {
		c.hit("del/x-right/far-nephew-red:rotateRight(p)")
	}
	return mk(cred, setBlack(s.l), s.k, s.v, mk(false, s.r, k, v, r)), false
}

func (c rec) fixR(cred bool, l *sh, k, v int64, r *sh) (*sh, bool) {
	if isRed(l) {
		c.hit("del/x-right/sibling-red:rotateRight(p),continue")
		inner, _ := c.fixRbs(true, l.r, k, v, r)
		return mk(false, l.l, l.k, l.v, inner), false
	}
	return c.fixRbs(cred, l, k, v, r)
}

func (c rec) unlink(cred bool, l, r *sh) (*sh, bool) {
	rep := l
	if l == nil {
		rep = r
	}
	if rep == nil {
		if cred {
			c.hit("unlink/red-leaf")
		} else {
			c.hit("unlink/black-leaf:phantom,fix-up")
		}
		return nil, !cred
	}
	if cred {
		return rep, false
	}
	if isRed(rep) {
		c.hit("unlink/black-node-with-red-child:blacken-replacement")
		return setBlack(rep), false
	}
	return rep, true
}

func (c rec) delMin(t *sh) (*sh, bool, int64, int64) {
	if t == nil {
		return nil, false, 0, 0
	}
	if t.l == nil {
		t2, d := c.unlink(t.red, nil, t.r)
		return t2, d, t.k, t.v
	}
	l2, d, k, v := c.delMin(t.l)
	if d {
		t2, d2 := c.fixL(t.red, l2, t.k, t.v, t.r)
		if d2 {
			c.hit("del/deficit-continues-up")
		}
		return t2, d2, k, v
	}
	return mk(t.red, l2, t.k, t.v, t.r), false, k, v
}

func (c rec) del(k int64, t *sh) (*sh, bool, bool) {
	if t == nil {
		return nil, false, false
	}
	switch {
	case k < t.k:
		l2, d, f := c.del(k, t.l)
		if d {
			t2, d2 := c.fixL(t.red, l2, t.k, t.v, t.r)
			return t2, d2, f
		}
		return mk(t.red, l2, t.k, t.v, t.r), false, f
	case k > t.k:
		r2, d, f := c.del(k, t.r)
		if d {
			t2, d2 := c.fixR(t.red, t.l, t.k, t.v, r2)
			return t2, d2, f
		}
		return mk(t.red, t.l, t.k, t.v, r2), false, f
	default:
		if t.l != nil && t.r != nil {
			c.hit("del/two-children:copy-successor")
			r2, d, sk, sv := c.delMin(t.r)
			if d {
				t2, d2 := c.fixR(t.red, t.l, sk, sv, r2)
				return t2, d2, true
			}
			return mk(t.red, t.l, sk, sv, r2), false, true
		}
		t2, d := c.unlink(t.red, t.l, t.r)
		return t2, d, true
	}
}

func (c rec) remove(k int64, t *sh) *sh {
	t2, d, _ := c.del(k, t)
	if d && t2 != nil {
		c.hit("del/deficit-reaches-root")
	}
	return setBlack(t2)
}

// all labels (so that an unreached branch shows up as 0 in the evidence)
var allBranches = []string{
	"put/replace", "ins/parent-black:stop", "ins/x-is-root:blacken",
	"ins/parent-left/uncle-red:recolour,up", "ins/parent-left/x-inner:rotateLeft(p)+rotateRight(g)", "ins/parent-left/x-outer:rotateRight(g)",
	"ins/parent-right/uncle-red:recolour,up", "ins/parent-right/x-inner:rotateRight(p)+rotateLeft(g)", "ins/parent-right/x-outer:rotateLeft(g)",
	"del/two-children:copy-successor", "unlink/red-leaf", "unlink/black-leaf:phantom,fix-up", "unlink/black-node-with-red-child:blacken-replacement",
	"del/x-left/sibling-red:rotateLeft(p),continue", "del/x-left/nephews-black:recolour,up", "del/x-left/nephews-black:recolour,parent-red-absorbs",
	"del/x-left/far-nephew-black:rotateRight(sib)+rotateLeft(p)", "del/x-left/far-nephew-red:rotateLeft(p)",
	"del/x-right/sibling-red:rotateRight(p),continue", "del/x-right/nephews-black:recolour,up", "del/x-right/nephews-black:recolour,parent-red-absorbs",
	"del/x-right/far-nephew-black:rotateLeft(sib)+rotateRight(p)", "del/x-right/far-nephew-red:rotateRight(p)",
	"del/deficit-continues-up", "del/deficit-reaches-root",
	"classifier disagrees with the real tree",
}

// ---- conversion from the probe's dump, comparison, canonical form

func fromDump(nodes []treemap.VerifNode) *sh {
	pos := 0
	var walk func() *sh
	walk = func() *sh {
		n := nodes[pos]
		pos++
		t := &sh{red: n.Red, k: kOf(n.Key), v: vOf(n.Value)}
		if n.HasLeft && pos < len(nodes) {
			t.l = walk()
		}
		if n.HasRight && pos < len(nodes) {
			t.r = walk()
		}
		return t
	}
	if len(nodes) == 0 {
		return nil
	}
	return walk()
}

func sameTree(a, b *sh) bool {
	if a == nil || b == nil {
		return a == b
	}
	return a.red == b.red && a.k == b.k && a.v == b.v && sameTree(a.l, b.l) && sameTree(a.r, b.r)
}

// shape and colours only
func canon(t *sh, b *strings.Builder) {
	if t == nil {
		b.WriteByte('.')
		return
	}
	if t.red {
		b.WriteByte('r')
	} else {
		b.WriteByte('b')
	}
	canon(t.l, b)
	canon(t.r, b)
}

func inorderKeys(t *sh, acc []int64) []int64 {
	if t == nil {
		return acc
	}
	acc = inorderKeys(t.l, acc)
	acc = append(acc, t.k)
	return inorderKeys(t.r, acc)
}

func count(t *sh) int {
	if t == nil {
		return 0
	}
	return 1 + count(t.l) + count(t.r)
}

// one reachable red-black tree (up to the keys) with a shortest put/remove script building it
type shapeState struct {
	t      *sh
	script [][2]int64 // (op, key): op 1 put, 2 remove
}

// enumerate breadth-first every tree shape/colouring with at most maxNodes nodes that put/remove
// scripts from the empty map can reach; new keys are placed in the middle of a gap
func enumerateShapes(maxNodes int) []shapeState {
	const span = int64(1) << 40
	seen := map[string]bool{".": true}
	queue := []shapeState{{t: nil}}
	var res []shapeState
	var none rec
	for qi := 0; qi < len(queue); qi++ {
		s := queue[qi]
		if s.t != nil {
			res = append(res, s)
		}
		ks := inorderKeys(s.t, nil)
		try := func(op, key int64, t2 *sh) {
			if count(t2) > maxNodes {
				return
			}
			var b strings.Builder
			canon(t2, &b)
			if seen[b.String()] {
				return
			}
			seen[b.String()] = true
			sc := append(append([][2]int64{}, s.script...), [2]int64{op, key})
			queue = append(queue, shapeState{t: t2, script: sc})
		}
		for _, g := range gapKeys(ks, span) {
			try(1, g, none.put(g, g, s.t))
		}
		for _, k := range ks {
			try(2, k, none.remove(k, s.t))
		}
	}
	return res
}

// one fresh key inside every gap of the sorted key list (none where a gap is exhausted)
func gapKeys(ks []int64, span int64) []int64 {
	var res []int64
	lo := -span
	for i := 0; i <= len(ks); i++ {
		hi := span
		if i < len(ks) {
			hi = ks[i]
		}
		if hi-lo >= 2 {
			res = append(res, lo+(hi-lo)/2)
		}
		lo = hi
	}
	return res
}
