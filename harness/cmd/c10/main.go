// C10 harness: the red-black tree map (collections/treemap).
//
// input    = ((code arg ...) ...)         one history of operations, see coq/C10/Run.v op_of_sx
// observed = (result ...)                 what the real code returned for each operation
//
// results: unit = (), bool = 0/1, number = n, optional value = () | (v), optional entry = () | (k v),
// key list = (k ...), entry list = (k v k v ...), foreach-with-removal = ((k v ...) panicked),
// panic = ((code)) with 1 no such element, 2 concurrent modification, 3 illegal state, 9 other,
// probe = (size parentsOK (code k v ...)) with code = colour bit (red 0, black 1) + 2*left + 4*right
// in pre-order (collections/treemap/verif_probe.go, build tag verif).
package main

import (
	"fmt"
	"io"
	"log"
	"math"
	"os"
	"runtime"
	"sort"
	"strconv"
	"strings"
	"time"

	"qchen.fun/fatchoy/collections"
	"qchen.fun/fatchoy/collections/treemap"
	. "verifharness/common"
)

type K int64

// cmpDiff selects the comparator's magnitudes: the documented contract is <0 / 0 / >0, so half
// of the histories (those with an even number of operations: a function of the input, hence
// replayable) use a comparator that returns the difference of the keys instead of -1/0/+1.
var cmpDiff bool

// cmpExtreme: the magnitudes are the extremes of int (a change that negates, decrements or
// narrows the comparator's result shows)
var cmpExtreme bool

func cmpIDs(a, b int64) int {
	if cmpExtreme {
		if a < b {
			return math.MinInt
		} else if a > b {
			return math.MaxInt
		}
		return 0
	}
	if cmpDiff {
		return int(a - b)
	}
	if a < b {
		return -1
	} else if a > b {
		return 1
	}
	return 0
}

func (a K) CompareTo(o collections.Comparable) int { return cmpIDs(int64(a), int64(o.(K))) }

// The key type and its comparator are part of the input domain.  Besides plain integers the
// histories use keys whose comparator is coarser than Go's ==: a struct compared on its id only
// (every key handed to the map carries a fresh tag, so a probe is never == to the stored key it
// is comparator-equal to) and pointer keys ordered by the id they point to (every call allocates
// a new pointer).  The model works on the comparator's quotient, the id; results are compared
// up to the comparator (by id).
type SK struct{ id, tag int64 }

func (a SK) CompareTo(o collections.Comparable) int { return cmpIDs(a.id, o.(SK).id) }

type PK struct{ id int64 }

func (a *PK) CompareTo(o collections.Comparable) int { return cmpIDs(a.id, o.(*PK).id) }

// keyKind: 0 integer, 1 struct{id, tag} compared on id, 2 pointer compared on *id.
// Chosen per history from the input (run): length mod 4 = 0 integer with the difference
// comparator, 1 integer with -1/0/+1, 2 struct keys (difference), 3 pointer keys (-1/0/+1).
var (
	keyKind int
	tagSeq  int64
)

func mkKey(id int64) treemap.KeyType {
	switch keyKind {
	case 1:
		tagSeq++
		return SK{id: id, tag: tagSeq}
	case 2:
		return &PK{id: id}
	}
	return K(id)
}

func kOf(k treemap.KeyType) int64 {
	switch x := k.(type) {
	case K:
		return int64(x)
	case SK:
		return x.id
	case *PK:
		return x.id
	}
	panic("c10: foreign key type")
}

const (
	opPut = 1 + iota
	opRemove
	opClear
	opGet
	opContains
	opGetOrDefault
	opSize
	opIsEmpty
	opFirstEntry
	opFirstKey
	opLastEntry
	opLastKey
	opFloorEntry
	opFloorKey
	opCeilingEntry
	opCeilingKey
	opHigherEntry
	opHigherKey
	opLowerEntry
	opKeys
	opValues
	opInOrder
	opPreOrder
	opPostOrder
	opForeach
	opForeachRemove
)
const (
	opIterNew      = 30
	opIterHasNext  = 31
	opIterNext     = 32
	opIterRemove   = 33
	opIterSetValue = 34
	opIterNewAt    = 35
	opForeachPut   = 27
	opProbe        = 40
	opSetValueAt   = 41
	opEntryEquals  = 42
)

const nSlots = 4

type iter struct {
	hasNext func() bool
	next    func() Sx
	remove  func()
	// entry iterators: the live entry the last Next returned and the map version then
	lastE   *treemap.Entry
	lastVer int
	// key the last Next returned (entry and key iterators), for the branch histogram
	lastKey *int64
}

// Values are part of the input domain.  A value code v >= 0 becomes, by v mod 5, an int64, a
// string, a struct, a pointer to a struct or a (non-comparable) slice holding v; negative codes
// are int64; nilCode is the untyped nil and typedNilCode a typed nil pointer (which is != nil as
// an interface).  vOf maps every value back to its code.  Where the API cannot tell "no value"
// from "the value nil" (Put's and SetValue's previous value) both are written (); Run.v encodes
// the model's answer the same way for exactly those operations.
const (
	nilCode      = -999999999
	typedNilCode = -999999998
)

type vStruct struct{ v int64 }
type vBox struct{ v int64 }

func vOf(v interface{}) int64 {
	switch x := v.(type) {
	case nil:
		return nilCode
	case int64:
		return x
	case string:
		n, err := strconv.ParseInt(x, 10, 64)
		if err != nil {
			panic("c10: foreign string value")
		}
		return n
	case vStruct:
		return x.v
	case *vBox:
		if x == nil {
			return typedNilCode
		}
		return x.v
	case []int64:
		return x[0]
	}
	panic("c10: foreign value type")
}
func toVal(v int64) interface{} {
	switch {
	case v == nilCode:
		return nil
	case v == typedNilCode:
		return (*vBox)(nil)
	case v < 0:
		return v
	}
	switch v % 5 {
	case 1:
		return strconv.FormatInt(v, 10)
	case 2:
		return vStruct{v}
	case 3:
		return &vBox{v}
	case 4:
		return []int64{v}
	}
	return v
}

func optVal(v interface{}) Sx {
	if v == nil {
		return List()
	}
	return Ints(vOf(v))
}
func optKey(k treemap.KeyType) Sx {
	if k == nil {
		return List()
	}
	return Ints(kOf(k))
}
func optEntry(e *treemap.Entry) Sx {
	if e == nil {
		return List()
	}
	return Ints(kOf(e.GetKey()), vOf(e.GetValue()))
}

func panicCode(v interface{}) int64 {
	s := fmt.Sprint(v)
	switch {
	case strings.Contains(s, "no such element"):
		return 1
	case strings.Contains(s, "concurrent"):
		return 2
	case strings.Contains(s, "illegal state"):
		return 3
	}
	return 9
}

func newIter(m *treemap.Map, kind int64) *iter {
	switch kind {
	case 0:
		it := m.Iterator()
		w := &iter{hasNext: it.HasNext, remove: func() { it.Remove() }}
		w.next = func() Sx { e := it.Next(); w.sawEntry(m, e); return optEntry(e) }
		return w
	case 1:
		it := m.DescendingIterator()
		w := &iter{hasNext: it.HasNext, remove: func() { it.Remove() }}
		w.next = func() Sx { e := it.Next(); w.sawEntry(m, e); return optEntry(e) }
		return w
	case 2:
		it := m.KeyIterator()
		w := &iter{hasNext: it.HasNext, remove: func() { it.Remove() }}
		w.next = func() Sx { k := it.Next(); w.sawKey(k); return optKey(k) }
		return w
	case 3:
		it := m.DescendingKeyIterator()
		w := &iter{hasNext: it.HasNext, remove: func() { it.Remove() }}
		w.next = func() Sx { k := it.Next(); w.sawKey(k); return optKey(k) }
		return w
	case 4:
		it := m.ValueIterator()
		return &iter{hasNext: it.HasNext, next: func() Sx { return Ints(vOf(it.Next())) }, remove: func() { it.Remove() }}
	}
	return nil
}

// the exported constructors: an iterator that starts at the given entry (nil: exhausted)
func newIterAt(m *treemap.Map, kind int64, e *treemap.Entry) *iter {
	switch kind {
	case 0:
		it := treemap.NewEntryIterator(m, e)
		w := &iter{hasNext: it.HasNext, remove: func() { it.Remove() }}
		w.next = func() Sx { e := it.Next(); w.sawEntry(m, e); return optEntry(e) }
		return w
	case 1:
		it := treemap.NewKeyDescendingEntryIterator(m, e)
		w := &iter{hasNext: it.HasNext, remove: func() { it.Remove() }}
		w.next = func() Sx { e := it.Next(); w.sawEntry(m, e); return optEntry(e) }
		return w
	case 2:
		it := treemap.NewKeyIterator(m, e)
		w := &iter{hasNext: it.HasNext, remove: func() { it.Remove() }}
		w.next = func() Sx { k := it.Next(); w.sawKey(k); return optKey(k) }
		return w
	case 3:
		it := treemap.NewDescendingKeyIterator(m, e)
		w := &iter{hasNext: it.HasNext, remove: func() { it.Remove() }}
		w.next = func() Sx { k := it.Next(); w.sawKey(k); return optKey(k) }
		return w
	case 4:
		it := treemap.NewValueIterator(m, e)
		return &iter{hasNext: it.HasNext, next: func() Sx { return Ints(vOf(it.Next())) }, remove: func() { it.Remove() }}
	}
	return nil
}

func (w *iter) sawEntry(m *treemap.Map, e *treemap.Entry) {
	w.lastE, w.lastVer = e, m.VerifVersion()
	if e != nil {
		w.sawKey(e.GetKey())
	}
}
func (w *iter) sawKey(k treemap.KeyType) {
	if k != nil {
		v := kOf(k)
		w.lastKey = &v
	}
}

// the accessors that hand out live entries: 0 first, 1 last, 2 floor, 3 ceiling, 4 higher, 5 lower
func access(m *treemap.Map, acc, k int64) *treemap.Entry {
	switch acc {
	case 0:
		return m.FirstEntry()
	case 1:
		return m.LastEntry()
	case 2:
		return m.FloorEntry(mkKey(k))
	case 3:
		return m.CeilingEntry(mkKey(k))
	case 4:
		return m.HigherEntry(mkKey(k))
	case 5:
		return m.VerifLowerEntry(mkKey(k))
	}
	return nil
}

// classify runs the Go port of the model's insertion/deletion on the tree as it is before a
// Put/Remove and records the fix-up branches taken; after reports whether the port's result
// is the tree the real code produced.  Only for small trees (the dump is linear).
const classifyMax = 256

func classify(m *treemap.Map, st *stats, put bool, k, v int64) (after func()) {
	if m.Size() > classifyMax || m.Size() < 0 {
		return func() {}
	}
	nodes, pok, _, _ := m.VerifDump(classifyMax + 8)
	if !pok {
		return func() {}
	}
	before := fromDump(nodes)
	var want *sh
	if put {
		want = st.br.put(k, v, before)
	} else {
		want = st.br.remove(k, before)
	}
	return func() {
		nodes, pok, _, _ := m.VerifDump(classifyMax + 8)
		if !pok || !sameTree(want, fromDump(nodes)) {
			st.br.hit("classifier disagrees with the real tree")
		}
	}
}

type stats struct {
	br                                                         rec
	mutations, iterRemoves, panics, probes, maxSize, setValues int
	hung, inconclusive, corrupted                              bool
}

func dump(m *treemap.Map) Sx {
	lim := m.Size()
	if lim < 0 {
		lim = -lim
	}
	nodes, pok, size, _ := m.VerifDump(2*lim + 64)
	l := make([]Sx, 0, 3*len(nodes))
	for _, n := range nodes {
		code := int64(1)
		if n.Red {
			code = 0
		}
		if n.HasLeft {
			code += 2
		}
		if n.HasRight {
			code += 4
		}
		l = append(l, Int(code), Int(kOf(n.Key)), Int(vOf(n.Value)))
	}
	return List(Int(int64(size)), Bool(pok), ListOf(l))
}

// intact reports whether the structure can be walked safely: consistent parent links and as
// many nodes as the size field says.  The listings and traversals of the real code loop or
// recurse for ever on a cyclic structure (unbounded memory, fatal stack overflow), so the
// harness checks before calling them; once a history's structure is corrupted every further
// operation of that history is answered ((8)) without touching the map.
func intact(m *treemap.Map) bool {
	size := m.Size()
	if size < 0 {
		return false
	}
	nodes, pok, _, _ := m.VerifDump(2*size + 64)
	return pok && len(nodes) == size
}

// one operation on the real map
func apply(m *treemap.Map, its *[nSlots]*iter, op Sx, st *stats) Sx {
	code := op.At(0).Int64()
	arg := func(i int) int64 { return op.At(i).Int64() }
	if st.corrupted {
		return List(Ints(8))
	}
	switch code {
	case opKeys, opValues, opInOrder, opPreOrder, opPostOrder, opForeach, opForeachRemove, opForeachPut:
		if !intact(m) {
			st.corrupted = true
			return List(Ints(8))
		}
	}
	entries := func(walk func(treemap.EntryAction)) Sx {
		var l []Sx
		walk(func(k treemap.KeyType, v interface{}) { l = append(l, Int(kOf(k)), Int(vOf(v))) })
		return ListOf(l)
	}
	switch code {
	case opPut:
		before := m.Size()
		after := classify(m, st, true, arg(1), arg(2))
		r := optVal(m.Put(mkKey(arg(1)), toVal(arg(2))))
		after()
		if m.Size() != before {
			st.mutations++
		}
		return r
	case opRemove:
		after := classify(m, st, false, arg(1), 0)
		ok := m.Remove(mkKey(arg(1)))
		after()
		if ok {
			st.mutations++
		}
		return Bool(ok)
	case opClear:
		m.Clear()
		return List()
	case opGet:
		v, found := m.Get(mkKey(arg(1)))
		if !found {
			if v != nil {
				return Ints(-1, -1, -1) // impossible shape: reported as a difference
			}
			return List()
		}
		return Ints(vOf(v)) // found: (v), with v = nilCode for a nil value
	case opContains:
		return Bool(m.Contains(mkKey(arg(1))))
	case opGetOrDefault:
		return Int(vOf(m.GetOrDefault(mkKey(arg(1)), toVal(arg(2)))))
	case opSize:
		return Int(int64(m.Size()))
	case opIsEmpty:
		return Bool(m.IsEmpty())
	case opFirstEntry:
		return optEntry(m.FirstEntry())
	case opFirstKey:
		return optKey(m.FirstKey())
	case opLastEntry:
		return optEntry(m.LastEntry())
	case opLastKey:
		return optKey(m.LastKey())
	case opFloorEntry:
		return optEntry(m.FloorEntry(mkKey(arg(1))))
	case opFloorKey:
		return optKey(m.FloorKey(mkKey(arg(1))))
	case opCeilingEntry:
		return optEntry(m.CeilingEntry(mkKey(arg(1))))
	case opCeilingKey:
		return optKey(m.CeilingKey(mkKey(arg(1))))
	case opHigherEntry:
		return optEntry(m.HigherEntry(mkKey(arg(1))))
	case opHigherKey:
		return optKey(m.HigherKey(mkKey(arg(1))))
	case opLowerEntry:
		return optEntry(m.VerifLowerEntry(mkKey(arg(1))))
	case opKeys:
		ks := m.Keys()
		l := make([]Sx, len(ks))
		for i, k := range ks {
			l[i] = Int(kOf(k))
		}
		return ListOf(l)
	case opValues:
		vs := m.Values()
		l := make([]Sx, len(vs))
		for i, v := range vs {
			l[i] = Int(vOf(v))
		}
		return ListOf(l)
	case opInOrder:
		return entries(m.InOrderTraversal)
	case opPreOrder:
		return entries(m.PreOrderTraversal)
	case opPostOrder:
		return entries(m.PostOrderTraversal)
	case opForeach:
		return entries(m.Foreach)
	case opForeachRemove:
		var l []Sx
		idx := int64(0)
		panicked, _ := Catch(func() {
			m.Foreach(func(k treemap.KeyType, v interface{}) {
				l = append(l, Int(kOf(k)), Int(vOf(v)))
				if idx == arg(1) {
					if m.Remove(mkKey(arg(2))) {
						st.mutations++
					}
				}
				idx++
			})
		})
		return List(ListOf(l), Bool(panicked))
	case opIterNew:
		slot := arg(2)
		if slot < 0 || slot >= nSlots {
			return List()
		}
		if it := newIter(m, arg(1)); it != nil {
			its[slot] = it
		}
		return List()
	case opIterNewAt:
		slot := arg(2)
		if slot < 0 || slot >= nSlots {
			return List()
		}
		if it := newIterAt(m, arg(1), access(m, arg(3), arg(4))); it != nil {
			its[slot] = it
		}
		return List()
	case opForeachPut:
		var l []Sx
		idx := int64(0)
		panicked, _ := Catch(func() {
			m.Foreach(func(k treemap.KeyType, v interface{}) {
				l = append(l, Int(kOf(k)), Int(vOf(v)))
				if idx == arg(1) {
					before := m.Size()
					m.Put(mkKey(arg(2)), toVal(arg(3)))
					if m.Size() != before {
						st.mutations++
					}
				}
				idx++
			})
		})
		return List(ListOf(l), Bool(panicked))
	case opIterHasNext, opIterNext, opIterRemove:
		slot := arg(1)
		if slot < 0 || slot >= nSlots || its[slot] == nil {
			return List()
		}
		it := its[slot]
		var res Sx
		panicked, val := Catch(func() {
			switch code {
			case opIterHasNext:
				res = Bool(it.hasNext())
			case opIterNext:
				res = it.next()
			default:
				before := m.Size()
				after := func() {}
				if it.lastKey != nil {
					after = classify(m, st, false, *it.lastKey, 0)
				}
				it.remove()
				after()
				res = List()
				if m.Size() != before {
					st.iterRemoves++
					st.mutations++
				}
			}
		})
		if panicked {
			st.panics++
			return List(Ints(panicCode(val)))
		}
		return res
	case opProbe:
		st.probes++
		return dump(m)
	case opIterSetValue:
		slot := arg(1)
		if slot < 0 || slot >= nSlots || its[slot] == nil {
			return List()
		}
		it := its[slot]
		if it.lastE == nil || it.lastVer != m.VerifVersion() {
			return List() // no live entry: not applicable
		}
		st.setValues++
		return optVal(it.lastE.SetValue(toVal(arg(2))))
	case opSetValueAt:
		e := access(m, arg(1), arg(2))
		if e == nil {
			return List()
		}
		st.setValues++
		return optVal(e.SetValue(toVal(arg(3))))
	case opEntryEquals:
		e1, e2 := access(m, arg(1), arg(2)), access(m, arg(3), arg(4))
		if e1 == nil || e2 == nil {
			return List()
		}
		return Bool(e1.Equals(e2))
	}
	panic(fmt.Sprintf("c10: unknown op %s", op.String()))
}

var last stats

// run replays one history on a fresh map.  A history that does not finish within the time
// limit (5 s + 2 ms per operation; a corrupted structure can make the code's loops spin, an
// overloaded machine can merely be slow) is replayed once more with a six times longer limit: only a history that times out
// twice counts as hung (its results so far are recorded; the replay then fails to decode, which
// the check reports); a timeout that does not reproduce is counted as inconclusive.
func run(in Sx) Sx {
	// generous limits: a history of a few hundred operations takes well under a millisecond
	limit := 5*time.Second + time.Duration(in.Len())*2*time.Millisecond
	outs, st, ok := runOnce(in, limit)
	if !ok {
		if blowup || confirmedHangs > 0 {
			// a hang has already been reproduced in this run: do not confirm each further one
			st = stats{hung: true}
		} else if outs, st, ok = runOnce(in, 6*limit); ok {
			st.inconclusive = true
		} else {
			st = stats{hung: true}
		}
		if st.hung {
			confirmedHangs++
		}
	}
	last = st
	return ListOf(outs)
}

// number of histories that timed out twice (every one leaks a spinning goroutine)
var confirmedHangs int

const maxHangs = 3

func runOnce(in Sx, limit time.Duration) ([]Sx, stats, bool) {
	type result struct {
		out []Sx
		st  stats
	}
	done := make(chan result, 1)
	partial := make(chan Sx, in.Len()+1)
	cmpDiff = in.Len()%2 == 0
	keyKind = []int{0, 0, 1, 2}[in.Len()%4]
	cmpExtreme = in.Len()%4 == 3
	go func() {
		m := treemap.New()
		if (in.Len()/8)%2 == 1 {
			m = new(treemap.Map) // the zero value is a usable empty map
		}
		// a second map alive in the same goroutine, mutated and iterated between the recorded
		// operations (nothing of it is recorded: the maps must be independent)
		var decoy *treemap.Map
		var dit *treemap.EntryIterator
		if (in.Len()/4)%2 == 0 {
			decoy = treemap.New()
		}
		var its [nSlots]*iter
		st := stats{br: rec{}}
		outs := make([]Sx, 0, in.Len())
		for i := 0; i < in.Len(); i++ {
			op := in.At(i)
			if decoy != nil && (in.Len()/16)%2 == 0 {
				// mirror mode: the same structural operation with another value first on the decoy
				// (equal shapes and modification counters in two maps)
				Catch(func() {
					switch op.At(0).Int64() {
					case opPut:
						decoy.Put(mkKey(op.At(1).Int64()), toVal(int64(1000+i)))
					case opRemove:
						decoy.Remove(mkKey(op.At(1).Int64()))
					case opClear:
						decoy.Clear()
					}
				})
			} else if decoy != nil {
				Catch(func() {
					decoy.Put(mkKey(int64(i%13)), toVal(int64(i)))
					if i%3 == 0 {
						decoy.Remove(mkKey(int64((i * 7) % 13)))
					}
					if i%5 == 0 {
						dit = decoy.Iterator()
					}
					if dit != nil && dit.HasNext() {
						dit.Next()
						if i%2 == 0 {
							dit.Remove()
						}
					}
					if i%17 == 0 {
						decoy.Clear()
					}
				})
			}
			var r Sx
			panicked, _ := Catch(func() { r = apply(m, &its, op, &st) })
			if panicked {
				st.panics++
				r = List(Ints(9))
			}
			if s := m.Size(); s > st.maxSize {
				st.maxSize = s
			}
			outs = append(outs, r)
			partial <- r
		}
		done <- result{outs, st}
	}()
	drain := func() []Sx {
		var outs []Sx
		for len(partial) > 0 {
			outs = append(outs, <-partial)
		}
		return outs
	}
	select {
	case r := <-done:
		return r.out, r.st, true
	case <-time.After(limit):
		return drain(), stats{}, false
	case <-memAlarm:
		blowup = true
		return drain(), stats{}, false
	}
}

// Memory watchdog: a cyclic structure makes Keys()/Values()/the traversals of the real code
// append for ever.  A goroutine cannot be killed, so when the heap passes the limit the current
// history is reported and the run is wound up (emit) before the machine starts swapping.
const heapLimit = 2 << 30

var (
	memAlarm = make(chan struct{})
	blowup   bool
)

func watchMemory() {
	var ms runtime.MemStats
	for {
		time.Sleep(200 * time.Millisecond)
		runtime.ReadMemStats(&ms)
		if ms.HeapAlloc > heapLimit {
			close(memAlarm)
			return
		}
	}
}

func main() {
	log.SetOutput(io.Discard)
	go watchMemory()
	Main(run, gen)
}

// ------------------------------------------------------------------ generators

type hist struct {
	ops    []Sx
	rng    *Rng
	lo, hi int64   // key universe [lo, hi)
	probeP int     // percent: probe after a mutation
	pool   []int64 // if set: the keys to draw from (extreme-key class)
	vals   int64
}

func (h *hist) add(code int64, args ...int64) {
	h.ops = append(h.ops, Ints(append([]int64{code}, args...)...))
}
func (h *hist) key() int64 {
	if h.pool != nil {
		return h.pool[h.rng.Intn(len(h.pool))]
	}
	return h.lo + int64(h.rng.Intn(int(h.hi-h.lo)))
}

// a key from the universe or just outside it (absent neighbours at both ends)
func (h *hist) qkey() int64 {
	if h.pool != nil {
		return h.key()
	}
	return h.lo - 2 + int64(h.rng.Intn(int(h.hi-h.lo)+4))
}

// mostly fresh values; one in four from {1,2,3} so that different keys share a value
func (h *hist) val() int64 {
	switch h.rng.Intn(20) {
	case 0, 1:
		return nilCode // the untyped nil is a legal value
	case 2:
		return typedNilCode // so is a typed nil pointer
	case 3:
		return 0 // and the zero value
	}
	if h.rng.Intn(4) == 0 {
		return 1 + int64(h.rng.Intn(3))
	}
	h.vals++
	return h.vals*7 + int64(h.rng.Intn(5))
}
func (h *hist) maybeProbe() {
	if h.rng.Intn(100) < h.probeP {
		h.add(opProbe)
	}
}

var orders = []string{"sorted", "reverse", "zigzag", "random"}

// n distinct keys of the universe in the given insertion order
func (h *hist) keysInOrder(order string, n int) []int64 {
	u := int(h.hi - h.lo)
	if n > u {
		n = u
	}
	ks := make([]int64, 0, n)
	if n == u {
		for i := 0; i < n; i++ {
			ks = append(ks, h.lo+int64(i))
		}
	} else {
		seen := map[int64]bool{}
		for len(ks) < n {
			k := h.key()
			if !seen[k] {
				seen[k] = true
				ks = append(ks, k)
			}
		}
		sort.Slice(ks, func(i, j int) bool { return ks[i] < ks[j] })
	}
	switch order {
	case "reverse":
		for i, j := 0, len(ks)-1; i < j; i, j = i+1, j-1 {
			ks[i], ks[j] = ks[j], ks[i]
		}
	case "zigzag":
		z := make([]int64, 0, n)
		for i, j := 0, len(ks)-1; i <= j; i, j = i+1, j-1 {
			z = append(z, ks[i])
			if i != j {
				z = append(z, ks[j])
			}
		}
		ks = z
	case "random":
		for i := len(ks) - 1; i > 0; i-- {
			j := h.rng.Intn(i + 1)
			ks[i], ks[j] = ks[j], ks[i]
		}
	}
	return ks
}

func (h *hist) build(order string, n int) {
	for _, k := range h.keysInOrder(order, n) {
		h.add(opPut, k, h.val())
		h.maybeProbe()
	}
}

func (h *hist) randomOp() {
	r := h.rng
	if n := len(h.ops); n > 0 && r.Intn(100) < 6 {
		// the same query (or the same Put: the same value re-put) twice in a row
		if c := h.ops[n-1].At(0).Int64(); c == opPut || (c >= opGet && c <= opForeach) {
			h.ops = append(h.ops, h.ops[n-1])
			return
		}
	}
	w := r.Intn(100)
	switch {
	case w < 24:
		h.add(opPut, h.key(), h.val())
		h.maybeProbe()
	case w < 42:
		h.add(opRemove, h.key())
		h.maybeProbe()
	case w < 48:
		h.add(opGet, h.qkey())
	case w < 50:
		h.add(opContains, h.qkey())
	case w < 52:
		if r.Intn(4) == 0 {
			h.add(opGetOrDefault, h.qkey(), nilCode)
		} else {
			h.add(opGetOrDefault, h.qkey(), -int64(r.Intn(9))-1)
		}
	case w < 55:
		h.add(opSize)
	case w < 56:
		h.add(opIsEmpty)
	case w < 60:
		h.add(int64(r.PickInt(opFirstEntry, opFirstKey, opLastEntry, opLastKey)))
	case w < 70:
		h.add(int64(r.PickInt(opFloorEntry, opFloorKey, opCeilingEntry, opCeilingKey, opHigherEntry, opHigherKey, opLowerEntry)), h.qkey())
	case w < 72:
		h.add(opSetValueAt, int64(r.Intn(6)), h.qkey(), h.val())
	case w < 73:
		h.add(opEntryEquals, int64(r.Intn(6)), h.qkey(), int64(r.Intn(6)), h.qkey())
	case w < 74:
		h.add(opIterSetValue, int64(r.Intn(nSlots)), h.val())
	case w < 76:
		h.add(opKeys)
	case w < 77:
		h.add(opValues)
	case w < 78:
		h.add(opInOrder)
	case w < 79:
		h.add(opPreOrder)
	case w < 80:
		h.add(opPostOrder)
	case w < 81:
		h.add(opForeach)
	case w < 82:
		h.add(opForeachRemove, int64(r.Intn(int(h.hi-h.lo)+1)), h.key())
		h.maybeProbe()
	case w < 83:
		h.add(opForeachPut, int64(r.Intn(int(h.hi-h.lo)+1)), h.key(), h.val())
		h.maybeProbe()
	case w < 84:
		h.add(opClear)
		h.maybeProbe()
	case w < 86:
		h.add(opIterNew, int64(r.Intn(5)), int64(r.Intn(nSlots)))
	case w < 87:
		h.add(opIterNewAt, int64(r.Intn(5)), int64(r.Intn(nSlots)), int64(r.Intn(6)), h.qkey())
	case w < 89:
		h.add(opIterHasNext, int64(r.Intn(nSlots)))
	case w < 95:
		h.add(opIterNext, int64(r.Intn(nSlots)))
	default:
		h.add(opIterRemove, int64(r.Intn(nSlots)))
		h.maybeProbe()
	}
}

// the final queries of every history
func (h *hist) finish() {
	// two different live entries made to hold the same value, then compared
	h.add(opSetValueAt, 0, 0, 5)
	h.add(opSetValueAt, 1, 0, 5)
	h.add(opEntryEquals, 0, 0, 1, 0)
	h.add(opSize)
	h.add(opKeys)
	h.add(opProbe)
}

// iterate with kind in slot, removing through the iterator according to policy:
// 0 nothing, 1 every entry, 2 at random, 3 every second call
func (h *hist) iterate(kind int64, slot int64, policy int, steps int) {
	if h.rng.Intn(4) == 0 {
		h.add(opIterNewAt, kind, slot, int64(h.rng.Intn(6)), h.qkey()) // New*Iterator(m, entry)
	} else {
		h.add(opIterNew, kind, slot)
	}
	for i := 0; i < steps; i++ {
		h.add(opIterHasNext, slot)
		h.add(opIterNext, slot)
		if h.rng.Intn(5) == 0 {
			h.add(opIterSetValue, slot, h.val())
		}
		rm := false
		switch policy {
		case 1:
			rm = true
		case 2:
			rm = h.rng.Bool()
		case 3:
			rm = i%2 == 1
		}
		if rm {
			h.add(opIterRemove, slot)
			h.maybeProbe()
			if h.rng.Intn(12) == 0 {
				h.add(opIterRemove, slot) // second Remove without Next: illegal state
			}
		}
	}
	h.add(opIterHasNext, slot)
	if h.rng.Intn(3) == 0 {
		h.add(opIterNext, slot) // beyond the end: no such element
	}
}

func gen(a Args, out *Out) {
	rng := NewRng(a.Seed)
	scale := 2
	if a.Thorough() {
		scale = 24
	}
	branches := rec{}
	emit := func(kind string, h *hist) {
		if confirmedHangs >= maxHangs {
			out.Count("histories skipped after repeated hangs")
			return
		}
		in := ListOf(h.ops)
		obs := run(in)
		st := last
		if blowup {
			out.Violation("C10/memory-blowup/"+kind, "a history made the code allocate without bound (a listing or traversal loops on a corrupted structure); run wound up", in)
			out.Case(kind, true, in, obs)
			out.Note("run wound up early: heap limit exceeded by a spinning history")
			out.Close()
			os.Exit(0)
		}
		if st.hung {
			out.Violation("C10/hang/"+kind, "a history did not finish within its time limit (5 s + 2 ms per operation) and again not within six times that (the code's loops spin on a corrupted structure)", in)
		}
		if st.inconclusive {
			out.Count("timeouts that did not reproduce (inconclusive, not reported)")
		}
		for b, n := range st.br {
			branches[b] += n
		}
		out.CountN("SetValue on live entries", st.setValues)
		out.Count([]string{"key kind: int64, difference comparator", "key kind: int64, -1/0/+1", "key kind: struct{id,tag} compared on id (fresh tag per call), difference comparator", "key kind: pointer compared on *id (fresh pointer per call), MinInt/0/MaxInt"}[in.Len()%4])
		if st.corrupted {
			out.Count("histories with a corrupted structure (parent links / node count)")
		}
		out.Case(kind, st.mutations > 0, in, obs)
		out.CountN("ops", len(h.ops))
		out.CountN("structural mutations", st.mutations)
		out.CountN("iterator removes", st.iterRemoves)
		out.CountN("iterator panics (expected kinds)", st.panics)
		out.CountN("probes", st.probes)
		switch {
		case st.maxSize <= 8:
			out.Count("max size <= 8")
		case st.maxSize <= 64:
			out.Count("max size 9..64")
		case st.maxSize <= 1000:
			out.Count("max size 65..1000")
		default:
			out.Count("max size > 1000")
		}
	}
	universes := []struct {
		name   string
		lo, hi int64
		probeP int
	}{
		{"u8", -4, 4, 100},
		{"u64", -20, 44, 25},
		{"u10k", -5000, 5000, 20},
	}
	newHist := func(u int) *hist {
		return &hist{rng: rng.Fork(), lo: universes[u].lo, hi: universes[u].hi, probeP: universes[u].probeP}
	}
	// 1. mixed histories: a build in one of the four insertion orders, then random operations
	for u := range universes {
		n := []int{140, 100, 60}[u] * scale
		for c := 0; c < n; c++ {
			h := newHist(u)
			order := orders[c%4]
			maxBuild := []int{8, 40, 40}[u]
			h.build(order, h.rng.Intn(maxBuild+1))
			nops := 10 + h.rng.Intn(50)
			for i := 0; i < nops; i++ {
				h.randomOp()
			}
			h.finish()
			emit("mixed-"+universes[u].name+"-"+order, h)
		}
	}
	// 2. iterator sessions with interleaved Remove, all five kinds
	for kind := int64(0); kind < 5; kind++ {
		for c := 0; c < 36*scale; c++ {
			u := c % 3
			h := newHist(u)
			if u == 1 {
				h.probeP = 50
			}
			n := 1 + h.rng.Intn([]int{8, 40, 60}[u])
			h.build(orders[(c/3)%4], n)
			h.add(opProbe)
			policy := 1 + c%3
			if c%9 == 8 {
				policy = 0
			}
			steps := n
			if h.rng.Intn(4) == 0 {
				steps = h.rng.Intn(n + 1) // abandon the iterator early
			}
			h.iterate(kind, 0, policy, steps)
			for i := 0; i < 3; i++ { // the map is used again after the (partial) drain
				h.add(opPut, h.key(), h.val())
			}
			h.add(opProbe)
			h.finish()
			emit(fmt.Sprintf("iter-%d-%s", kind, universes[u].name), h)
		}
	}
	// 3. foreign modification while an iterator is live
	for c := 0; c < 120*scale; c++ {
		u := c % 2
		h := newHist(u)
		n := 2 + h.rng.Intn([]int{6, 30}[u])
		h.build(orders[(c/2)%4], n)
		kind := int64(c % 5)
		h.add(opIterNew, kind, 0)
		pre := h.rng.Intn(n)
		if c%11 == 0 {
			pre = n + 1 // exhaust the iterator first: no-such-element takes precedence afterwards
		}
		for i := 0; i < pre; i++ {
			h.add(opIterNext, 0)
			if h.rng.Intn(3) == 0 {
				h.add(opIterRemove, 0)
			}
		}
		switch c % 7 {
		case 0:
			h.add(opPut, h.hi+5, h.val()) // new key
		case 1:
			h.add(opPut, h.key(), h.val()) // new or replacement
		case 2:
			h.add(opRemove, h.key())
		case 3:
			h.add(opClear)
		case 4:
			h.add(opIterNew, int64(h.rng.Intn(5)), 1) // a second iterator removes
			h.add(opIterNext, 1)
			h.add(opIterRemove, 1)
		case 5:
			h.add(opRemove, h.hi+9) // absent: not a modification
		case 6:
			h.add(opClear)
			h.add(opPut, h.key(), h.val())
		}
		post := 1 + h.rng.Intn(4)
		for i := 0; i < post; i++ {
			switch h.rng.Intn(3) {
			case 0:
				h.add(opIterHasNext, 0)
			case 1:
				h.add(opIterNext, 0)
			default:
				h.add(opIterRemove, 0)
			}
			h.add(opSize)
		}
		h.finish()
		emit(fmt.Sprintf("foreign-%d", c%7), h)
	}
	// 4. large builds in the four orders with a few removals and neighbour queries
	nbig := scale
	for c := 0; c < 4*nbig; c++ {
		h := &hist{rng: rng.Fork(), lo: -5000, hi: 5000, probeP: 0}
		order := orders[c%4]
		n := 500 + h.rng.Intn(2000)
		h.build(order, n)
		h.add(opProbe)
		for i := 0; i < 200; i++ {
			if h.rng.Intn(3) == 0 {
				h.add(opPut, h.key(), h.val())
			} else {
				h.add(opRemove, h.key())
			}
			if i%8 == 0 {
				h.add(int64(h.rng.PickInt(opFloorEntry, opCeilingEntry, opHigherEntry, opLowerEntry)), h.qkey())
			}
		}
		h.iterate(int64(c%5), 0, 2, 40)
		h.finish()
		emit("build-"+order, h)
	}
	// 4b. counter rewind: an iterator made stale by Clear must stay stale when the map is grown
	// back to the same number of modifications (a Clear that resets the counter would make the
	// stale iterator's expected version valid again)
	for c := 0; c < 30*scale; c++ {
		h := &hist{rng: rng.Fork(), lo: -4, hi: 12, probeP: 0}
		n := 1 + h.rng.Intn(8)
		ks := h.keysInOrder(orders[c%4], n)
		for _, k := range ks {
			h.add(opPut, k, h.val())
		}
		mods := n
		h.add(opIterNew, int64(c%5), 0)
		for i, nexts := 0, h.rng.Intn(n+1); i < nexts; i++ {
			h.add(opIterNext, 0)
			if h.rng.Intn(3) == 0 {
				h.add(opIterRemove, 0)
				mods++
			}
		}
		h.add(opClear)
		// grow back: mods (sometimes one fewer / one more) insertions of fresh keys
		grow := mods + []int{0, 0, 0, -1, 1}[h.rng.Intn(5)]
		for i := 0; i < grow; i++ {
			h.add(opPut, 100+int64(i), h.val())
		}
		h.add(opIterHasNext, 0)
		h.add(opIterNext, 0)
		h.add(opIterRemove, 0)
		h.add(opIterSetValue, 0, h.val())
		h.add(opIterNext, 0)
		h.finish()
		emit("rewind", h)
	}
	// 4c. extreme keys: the ends of int64 and their neighbours.  Only with the comparators that
	// do not subtract (a key difference would overflow: the caller's comparator, not the map)
	ext := []int64{math.MinInt64, math.MinInt64 + 1, -(1 << 62), -1, 0, 1, 1 << 62, math.MaxInt64 - 1, math.MaxInt64}
	for c := 0; c < 15*scale; c++ {
		h := &hist{rng: rng.Fork(), lo: 0, hi: 9, probeP: 50, pool: ext}
		for i, nops := 0, 20+h.rng.Intn(40); i < nops; i++ {
			h.randomOp()
		}
		h.finish()
		for len(h.ops)%2 == 0 {
			h.add(opSize)
		}
		emit("extreme-keys", h)
	}
	// 5. churn: long put/remove runs over 12..16 keys (a colour-only corruption needs a few hundred
	// further operations on the same small tree before it becomes a height-bound failure)
	for c := 0; c < 40*scale; c++ {
		u := int64(12 + c%5)
		h := &hist{rng: rng.Fork(), lo: 0, hi: u, probeP: 0}
		nops := 300 + h.rng.Intn(101)
		for i := 0; i < nops; i++ {
			if h.rng.Bool() {
				h.add(opPut, h.key(), h.val())
			} else {
				h.add(opRemove, h.key())
			}
			if i%8 == 7 {
				h.add(opProbe)
			}
		}
		h.finish()
		emit("churn", h)
	}
	// 6. directed: every red-black tree (shape and colours) that put/remove scripts can reach, up to
	// a node count; on each one, every single removal and every single insertion into a gap, with
	// a probe after it.  Quick: all trees up to 8 nodes and a seeded sample of the larger ones.
	maxNodes := 10
	if a.Thorough() {
		maxNodes = 12
	}
	shapes := enumerateShapes(maxNodes)
	srng := rng.Fork()
	nshape, big := 0, 0
	for _, s := range shapes {
		if count(s.t) > 8 {
			big++
		}
	}
	for _, s := range shapes {
		n := count(s.t)
		if n > 8 && !a.Thorough() && srng.Intn(big) >= 40 {
			continue // quick: a seeded sample of about 40 of the larger trees
		}
		nshape++
		h := &hist{rng: srng.Fork()}
		ks := inorderKeys(s.t, nil)
		rebuild := func() {
			for _, o := range s.script {
				if o[0] == 1 {
					h.add(opPut, o[1], h.val())
				} else {
					h.add(opRemove, o[1])
				}
			}
		}
		first := true
		one := func(op, key int64) {
			if !first {
				h.add(opClear)
			}
			first = false
			rebuild()
			if op == 1 {
				h.add(opPut, key, h.val())
			} else {
				h.add(opRemove, key)
			}
			h.add(opProbe)
		}
		for _, k := range ks {
			one(2, k)
		}
		for _, g := range gapKeys(ks, int64(1)<<40) {
			one(1, g)
		}
		h.finish()
		emit(fmt.Sprintf("shapes-%d", n), h)
		out.Count(fmt.Sprintf("directed: reachable red-black trees with %d nodes used", n))
	}
	bySize := map[int]int{}
	for _, s := range shapes {
		bySize[count(s.t)]++
	}
	out.Note("directed class: %d red-black trees (shape+colours) with <= %d nodes are reachable by put/remove scripts (by node count: %v); %d used in this run, each with every single removal and every single insertion",
		len(shapes), maxNodes, bySize, nshape)
	for _, b := range allBranches {
		out.CountN("branch: "+b, branches[b])
	}
	for b, n := range branches {
		known := false
		for _, x := range allBranches {
			known = known || x == b
		}
		if !known {
			out.CountN("branch: "+b, n)
		}
	}
	goSweep(a, rng.Fork(), out)
	// The sweep's findings name no replayable input.  When it (or nothing else yet) has found a
	// property failure, look for a small history on which the height bound itself breaks and
	// record it as an ordinary case, so that the Coq side reports it with a replay.
	if len(out.GoViol) > 0 && confirmedHangs == 0 {
		if h := searchHeightFailure(rng.Fork()); h != nil {
			emit("churn-search", h)
			out.Note("a Go-side finding triggered the search for a small history breaking the height bound: found (%d operations)", len(h.ops))
		} else {
			out.Note("a Go-side finding triggered the search for a small history breaking the height bound: none found within the budget")
		}
	}
}

// searchHeightFailure churns small maps (10..24 keys, up to 1500 put/remove operations each, for
// at most 20 s) until the real tree violates height <= 2*log2(n+1); the history up to that point
// is returned with probes every 8 operations.
func searchHeightFailure(rng *Rng) *hist {
	deadline := time.Now().Add(20 * time.Second)
	for time.Now().Before(deadline) {
		u := int64(10 + rng.Intn(15))
		h := &hist{rng: rng.Fork(), lo: 0, hi: u}
		m := treemap.New()
		type op struct {
			put  bool
			k, v int64
		}
		var ops []op
		for i := 0; i < 1500; i++ {
			o := op{put: h.rng.Intn(100) < 55, k: h.key(), v: int64(i + 1)}
			ops = append(ops, o)
			hung, _ := Catch(func() {
				if o.put {
					m.Put(K(o.k), o.v)
				} else {
					m.Remove(K(o.k))
				}
			})
			if hung {
				break
			}
			nodes, pok, _, _ := m.VerifDump(64)
			if !pok {
				break
			}
			if ht := heightOf(fromDump(nodes)); ht < 62 && (uint64(1)<<uint(ht)) > uint64(len(nodes)+1)*uint64(len(nodes)+1) {
				for j, o := range ops {
					if o.put {
						h.add(opPut, o.k, o.v)
					} else {
						h.add(opRemove, o.k)
					}
					if j%8 == 7 {
						h.add(opProbe)
					}
				}
				h.finish()
				return h
			}
		}
	}
	return nil
}

func heightOf(t *sh) int {
	if t == nil {
		return 0
	}
	l, r := heightOf(t.l), heightOf(t.r)
	if r > l {
		l = r
	}
	return l + 1
}

// ------------------------------------------------------------------ Go-side volume

// invariants evaluates the property directly on the real tree: strictly sorted in-order keys
// equal to the reference, size, parent links, red-black rules, height <= 2*log2(n+1).
func invariants(m *treemap.Map, ref map[int64]int64) string {
	nodes, pok, size, _ := m.VerifDump(1 << 24)
	if !pok {
		return "parent links"
	}
	if size != len(nodes) || size != len(ref) {
		return fmt.Sprintf("size field %d, nodes %d, reference %d", size, len(nodes), len(ref))
	}
	pos := 0
	bad := ""
	// returns (black height, height); walks the pre-order dump
	var walk func(lo, hi *int64, parentRed bool) (int, int)
	walk = func(lo, hi *int64, parentRed bool) (int, int) {
		n := nodes[pos]
		pos++
		k := kOf(n.Key)
		if (lo != nil && k <= *lo) || (hi != nil && k >= *hi) {
			bad = "search-tree order"
		}
		if v, ok := ref[k]; !ok || v != vOf(n.Value) {
			bad = "entry differs from the reference"
		}
		if n.Red && parentRed {
			bad = "red node with a red child"
		}
		lb, lh, rb, rh := 0, 0, 0, 0
		if n.HasLeft {
			lb, lh = walk(lo, &k, n.Red)
		}
		if n.HasRight {
			rb, rh = walk(&k, hi, n.Red)
		}
		if lb != rb {
			bad = "black heights differ"
		}
		h := lh
		if rh > h {
			h = rh
		}
		if !n.Red {
			lb++
		}
		return lb, h + 1
	}
	if len(nodes) > 0 {
		if nodes[0].Red {
			return "red root"
		}
		_, h := walk(nil, nil, false)
		if bad != "" {
			return bad
		}
		// 2^h <= (n+1)^2
		nn := uint64(len(nodes)) + 1
		if h >= 63 || (uint64(1)<<uint(h)) > nn*nn {
			return fmt.Sprintf("height %d exceeds 2*log2(%d+1)", h, len(nodes))
		}
	}
	return bad
}

// goSweep runs every build under a watchdog (the real code's loops may spin on a corrupted
// structure); results are merged only from builds that finished.
func goSweep(a Args, rng *Rng, out *Out) {
	sizes := []int{100000}
	if a.Thorough() {
		sizes = []int{100000, 300000, 1000000}
	}
	if confirmedHangs > 0 {
		out.Note("Go-side sweep skipped: histories hung in this run")
		return
	}
	for _, n := range sizes {
		for _, order := range orders {
			sub := &Out{Hist: map[string]int{}}
			done := make(chan struct{})
			jobRng := rng.Fork()
			go func() { defer close(done); sweepOne(n, order, jobRng, sub) }()
			select {
			case <-done:
				out.GoChecked += sub.GoChecked
				out.GoViol = append(out.GoViol, sub.GoViol...)
				for k, v := range sub.Hist {
					out.CountN(k, v)
				}
			case <-memAlarm:
				out.Violation("C10/memory-blowup/go-sweep-"+order, fmt.Sprintf("build/removal/drain of %d keys in %s order allocates without bound", n, order), List(Ints(int64(n))))
				out.Close()
				os.Exit(0)
			case <-time.After(300 * time.Second):
				out.Violation("C10/hang/go-sweep-"+order, fmt.Sprintf("build/removal/drain of %d keys in %s order did not finish within 300 s", n, order), List(Ints(int64(n))))
				out.Note("Go-side sweep abandoned after a hang")
				return
			}
		}
	}
	out.Note("Go-side sweep: builds of %v keys in sorted/reverse/zigzag/random order, removals and an iterator drain; invariants (order, reference entries, size, parent links, red-black rules, height bound) evaluated on the real tree", sizes)
}

func sweepOne(n int, order string, rng *Rng, out *Out) {
	{
		{
			h := &hist{rng: rng, lo: 0, hi: int64(n)}
			ks := h.keysInOrder(order, n)
			m := treemap.New()
			ref := map[int64]int64{}
			check := func(stage string) {
				out.GoChecked++
				if what := invariants(m, ref); what != "" {
					out.Violation("C10/go-invariant/"+order, fmt.Sprintf("after %s of %d keys inserted in %s order: %s", stage, n, order, what),
						List(Ints(int64(n))))
				}
			}
			for i, k := range ks {
				m.Put(K(k), k*3)
				ref[k] = k * 3
				if (i+1)%(n/4) == 0 {
					check("insertion")
				}
			}
			// remove a random 60 % (sorted order removals for the sorted build: worst case paths)
			del := h.keysInOrder(order, n)
			for i, k := range del {
				if order == "random" && h.rng.Intn(10) >= 6 {
					continue
				}
				if i >= n*6/10 && order != "random" {
					break
				}
				m.Remove(K(k))
				delete(ref, k)
				if (i+1)%(n/5) == 0 {
					check("removal")
				}
			}
			check("removal")
			// drain through an ascending key iterator, removing every entry
			it := m.KeyIterator()
			prev := int64(-1)
			cnt := 0
			for it.HasNext() {
				k := kOf(it.Next())
				if k <= prev {
					out.Violation("C10/go-iterator/"+order, "ascending iteration with Remove is not strictly increasing", List(Ints(int64(n))))
					break
				}
				prev = k
				it.Remove()
				delete(ref, k)
				cnt++
				if cnt%(n/8) == 0 {
					check("iterator removal")
				}
			}
			check("drain")
			out.Count("go sweep builds")
		}
	}
}
