package common

import (
	"bufio"
	"encoding/json"
	"flag"
	"fmt"
	"hash/fnv"
	"os"
	"os/signal"
	"path/filepath"
	"sort"
	"sync"
	"syscall"
	"time"
)

// Args common to every harness command.
type Args struct {
	Seed   uint64
	Tier   string
	OutDir string
	Replay string
	Corpus string
}

func ParseArgs() Args {
	var a Args
	flag.Uint64Var(&a.Seed, "seed", 1, "PRNG seed (VERIF_SEED)")
	flag.StringVar(&a.Tier, "tier", "quick", "quick | thorough")
	flag.StringVar(&a.OutDir, "out", ".", "output directory")
	flag.StringVar(&a.Replay, "replay", "", "re-run the inputs of this case file instead of generating")
	flag.StringVar(&a.Corpus, "corpus", "", "regression corpus (case file) to run before the generated cases")
	flag.Parse()
	return a
}

func (a Args) Thorough() bool { return a.Tier == "thorough" }

// GoViolation is a property failure established on the Go side (closed-form / volume
// checks and runtime observations the model cannot exhibit).
type GoViolation struct {
	Signature string `json:"signature"`
	What      string `json:"what"`
	Case      string `json:"case"`
}

// Out collects the cases of a run and the run's report.
type Out struct {
	mu        sync.Mutex // guards everything below (cases may be recorded from several goroutines; SIGTERM flushes)
	closed    bool
	cut       bool
	args      Args
	f         *os.File
	w         *bufio.Writer
	n         int
	nontriv   map[uint64]struct{}
	Hist      map[string]int
	samples   []string
	GoViol    []GoViolation
	GoChecked int64
	Notes     []string
	start     time.Time
	kinds     []string
}

func NewOut(a Args) *Out {
	if err := os.MkdirAll(a.OutDir, 0o755); err != nil {
		panic(err)
	}
	f, err := os.Create(filepath.Join(a.OutDir, "cases.sx"))
	if err != nil {
		panic(err)
	}
	o := &Out{args: a, f: f, w: bufio.NewWriterSize(f, 1<<20), nontriv: map[uint64]struct{}{}, Hist: map[string]int{}, start: time.Now()}
	// bin/check sends SIGTERM when the run exceeds its time limit: write out the cases recorded
	// so far (a run cut short is still evidence, and its property failures are still replays)
	// and leave with status 3
	ch := make(chan os.Signal, 1)
	signal.Notify(ch, syscall.SIGTERM)
	go func() {
		<-ch
		o.mu.Lock()
		o.cut = true
		o.Notes = append(o.Notes, "run cut short by SIGTERM (time limit): the cases recorded so far were written out")
		o.closeLocked()
		os.Exit(3)
	}()
	return o
}

// Case records one case: its generator kind (for histograms and known-finding
// signatures), whether it is non-trivial by the property's stated rule, the input and
// what the implementation was observed to do.
func (o *Out) Case(kind string, nontrivial bool, input, observed Sx) {
	line := List(input, observed).String()
	o.mu.Lock()
	defer o.mu.Unlock()
	o.w.WriteString(line)
	o.w.WriteByte('\n')
	o.kinds = append(o.kinds, kind)
	o.n++
	o.Hist["kind:"+kind]++
	if nontrivial {
		h := fnv.New64a()
		h.Write([]byte(input.String()))
		o.nontriv[h.Sum64()] = struct{}{}
	}
	if len(o.samples) < 3 || (o.n%97 == 0 && len(o.samples) < 8) {
		s := line
		if len(s) > 600 {
			s = s[:600] + "…"
		}
		o.samples = append(o.samples, s)
	}
}

func (o *Out) Count(key string)         { o.mu.Lock(); o.Hist[key]++; o.mu.Unlock() }
func (o *Out) CountN(key string, n int) { o.mu.Lock(); o.Hist[key] += n; o.mu.Unlock() }
func (o *Out) Note(format string, a ...interface{}) {
	o.mu.Lock()
	o.Notes = append(o.Notes, fmt.Sprintf(format, a...))
	o.mu.Unlock()
}

// Violation reports a property failure found on the Go side; c is written to the case
// file too so that the replay names a concrete input.
func (o *Out) Violation(signature, what string, input Sx) {
	o.mu.Lock()
	defer o.mu.Unlock()
	if len(o.GoViol) < 50 {
		o.GoViol = append(o.GoViol, GoViolation{Signature: signature, What: what, Case: input.String()})
	}
}

func (o *Out) Close() {
	o.mu.Lock()
	defer o.mu.Unlock()
	o.closeLocked()
}

func (o *Out) closeLocked() {
	if o.closed {
		return
	}
	o.closed = true
	o.w.Flush()
	o.f.Close()
	keys := make([]string, 0, len(o.Hist))
	for k := range o.Hist {
		keys = append(keys, k)
	}
	sort.Strings(keys)
	rep := map[string]interface{}{
		"seed":                o.args.Seed,
		"tier":                o.args.Tier,
		"cases":               o.n,
		"distinct_nontrivial": len(o.nontriv),
		"histogram":           o.Hist,
		"samples":             o.samples,
		"go_violations":       o.GoViol,
		"go_checked":          o.GoChecked,
		"notes":               o.Notes,
		"kinds":               o.kinds,
		"harness_wall_s":      time.Since(o.start).Seconds(),
		"cut_short":           o.cut,
	}
	b, _ := json.MarshalIndent(rep, "", " ")
	if err := os.WriteFile(filepath.Join(o.args.OutDir, "report.json"), b, 0o644); err != nil {
		panic(err)
	}
}

// ReplayInputs reads the inputs (first component of every case) of a case file.
func ReplayInputs(path string) []Sx {
	f, err := os.Open(path)
	if err != nil {
		panic(err)
	}
	defer f.Close()
	var res []Sx
	sc := bufio.NewScanner(f)
	sc.Buffer(make([]byte, 1<<20), 1<<28)
	for sc.Scan() {
		line := sc.Text()
		if line == "" || line[0] == ';' {
			continue
		}
		v, err := Parse(line)
		if err != nil {
			panic(err)
		}
		if v.Kind == 'l' && len(v.L) >= 1 {
			res = append(res, v.L[0])
		}
	}
	return res
}

// Catch runs f and reports whether it panicked (and with what).
func Catch(f func()) (panicked bool, val interface{}) {
	defer func() {
		if r := recover(); r != nil {
			panicked = true
			val = r
		}
	}()
	f()
	return
}

// Main is the common skeleton of a harness command: replay mode re-runs the inputs of
// a case file; otherwise the regression corpus (minimised failures of earlier runs,
// concatenated by bin/check into -corpus) runs first, then the generator.
func Main(run func(in Sx) Sx, gen func(a Args, out *Out)) {
	a := ParseArgs()
	out := NewOut(a)
	defer out.Close()
	if a.Replay != "" {
		for _, in := range ReplayInputs(a.Replay) {
			out.Case("replay", true, in, run(in))
		}
		return
	}
	if a.Corpus != "" {
		for _, in := range ReplayInputs(a.Corpus) {
			out.Case("corpus", true, in, run(in))
		}
	}
	gen(a, out)
}
