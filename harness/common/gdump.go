package common

import (
	"bytes"
	"runtime"
	"strconv"
	"strings"
	"sync"
)

// Goroutine dumps: evidence for "this goroutine is parked (and on what)" that does not depend
// on elapsed time.  runtime.Stack(all) stops the world, so one dump is a consistent snapshot.

type GInfo struct {
	ID     int
	State  string // "chan receive", "select", "runnable", ...
	Text   string // the frames and the "created by" line
	Parent int    // "created by ... in goroutine N"
}

var gdumpBuf = make([]byte, 1<<20)
var gdumpMu sync.Mutex

// GDump takes a stop-the-world dump of all goroutines (safe for concurrent callers).
func GDump() map[int]*GInfo {
	gdumpMu.Lock()
	defer gdumpMu.Unlock()
	for {
		n := runtime.Stack(gdumpBuf, true)
		if n < len(gdumpBuf) {
			return ParseGDump(gdumpBuf[:n])
		}
		gdumpBuf = make([]byte, 2*len(gdumpBuf))
	}
}

func ParseGDump(b []byte) map[int]*GInfo {
	res := map[int]*GInfo{}
	for _, blk := range bytes.Split(b, []byte("\n\n")) {
		s := string(blk)
		if !strings.HasPrefix(s, "goroutine ") {
			continue
		}
		nl := strings.IndexByte(s, '\n')
		if nl < 0 {
			nl = len(s)
		}
		head := s[:nl]
		sp := strings.IndexByte(head[10:], ' ')
		if sp < 0 {
			continue
		}
		id, err := strconv.Atoi(head[10 : 10+sp])
		if err != nil {
			continue
		}
		lb, rb := strings.IndexByte(head, '['), strings.LastIndexByte(head, ']')
		state := ""
		if lb >= 0 && rb > lb {
			state = head[lb+1 : rb]
			if c := strings.IndexByte(state, ','); c >= 0 {
				state = state[:c]
			}
		}
		g := &GInfo{ID: id, State: state, Text: s[nl:]}
		if i := strings.LastIndex(s, " in goroutine "); i >= 0 {
			rest := s[i+14:]
			if e := strings.IndexByte(rest, '\n'); e >= 0 {
				rest = rest[:e]
			}
			g.Parent, _ = strconv.Atoi(strings.TrimSpace(rest))
		}
		res[id] = g
	}
	return res
}

// Goid returns the id of the calling goroutine.
func Goid() int {
	var b [64]byte
	n := runtime.Stack(b[:], false)
	s := strings.TrimPrefix(string(b[:n]), "goroutine ")
	if i := strings.IndexByte(s, ' '); i >= 0 {
		id, _ := strconv.Atoi(s[:i])
		return id
	}
	return 0
}

// Parked reports whether a goroutine in this state stays where it is until another
// goroutine acts on the object it waits for.
func Parked(state string) bool {
	switch state {
	case "chan receive", "chan send", "select", "semacquire", "sync.WaitGroup.Wait", "sync.Mutex.Lock", "sync.Cond.Wait":
		return true
	}
	return false
}
