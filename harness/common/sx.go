// Package common: shared pieces of the correspondence harness — the S-expression case
// language (same grammar as coq/Lib/Sx.v and runner/main.ml), a splitmix64 PRNG from
// which every random choice derives, and the case/report writer.
package common

import (
	"fmt"
	"math/big"
	"strings"
)

// Sx is SInt | SBytes | SList.
type Sx struct {
	Kind byte // 'i', 'b', 'l'
	I    *big.Int
	B    []byte
	L    []Sx
}

func Int(v int64) Sx    { return Sx{Kind: 'i', I: big.NewInt(v)} }
func Uint(v uint64) Sx  { return Sx{Kind: 'i', I: new(big.Int).SetUint64(v)} }
func Big(v *big.Int) Sx { return Sx{Kind: 'i', I: new(big.Int).Set(v)} }
func Bool(b bool) Sx {
	if b {
		return Int(1)
	}
	return Int(0)
}
func Bytes(b []byte) Sx { return Sx{Kind: 'b', B: append([]byte(nil), b...)} }
func Str(s string) Sx   { return Sx{Kind: 'b', B: []byte(s)} }
func List(l ...Sx) Sx   { return Sx{Kind: 'l', L: l} }
func ListOf(l []Sx) Sx  { return Sx{Kind: 'l', L: l} }
func Ints(v ...int64) Sx {
	l := make([]Sx, len(v))
	for i, x := range v {
		l[i] = Int(x)
	}
	return ListOf(l)
}

func (s Sx) write(b *strings.Builder) {
	switch s.Kind {
	case 'i':
		b.WriteString(s.I.String())
	case 'b':
		b.WriteByte('#')
		const hx = "0123456789abcdef"
		for _, c := range s.B {
			b.WriteByte(hx[c>>4])
			b.WriteByte(hx[c&15])
		}
	case 'l':
		b.WriteByte('(')
		for i, e := range s.L {
			if i > 0 {
				b.WriteByte(' ')
			}
			e.write(b)
		}
		b.WriteByte(')')
	default:
		panic("sx: bad kind")
	}
}

func (s Sx) String() string {
	var b strings.Builder
	s.write(&b)
	return b.String()
}

// accessors (panic on shape errors: replay files are produced by this harness)
func (s Sx) Len() int         { s.want('l'); return len(s.L) }
func (s Sx) At(i int) Sx      { s.want('l'); return s.L[i] }
func (s Sx) Int64() int64     { s.want('i'); return s.I.Int64() }
func (s Sx) Uint64() uint64   { s.want('i'); return s.I.Uint64() }
func (s Sx) AsInt() int       { return int(s.Int64()) }
func (s Sx) AsBool() bool     { return s.Int64() != 0 }
func (s Sx) AsBytes() []byte  { s.want('b'); return s.B }
func (s Sx) AsString() string { s.want('b'); return string(s.B) }
func (s Sx) want(k byte) {
	if s.Kind != k {
		panic(fmt.Sprintf("sx: want kind %c, have %c in %s", k, s.Kind, s.String()))
	}
}

// Parse one S-expression from a line.
func Parse(line string) (Sx, error) {
	p := &parser{s: line}
	v, err := p.parse()
	if err != nil {
		return Sx{}, err
	}
	p.skip()
	if p.i != len(p.s) {
		return Sx{}, fmt.Errorf("sx: trailing input at %d", p.i)
	}
	return v, nil
}

type parser struct {
	s string
	i int
}

func (p *parser) skip() {
	for p.i < len(p.s) && (p.s[p.i] == ' ' || p.s[p.i] == '\t' || p.s[p.i] == '\n' || p.s[p.i] == '\r') {
		p.i++
	}
}

func hexv(c byte) int {
	switch {
	case c >= '0' && c <= '9':
		return int(c - '0')
	case c >= 'a' && c <= 'f':
		return int(c-'a') + 10
	}
	return -1
}

func (p *parser) parse() (Sx, error) {
	p.skip()
	if p.i >= len(p.s) {
		return Sx{}, fmt.Errorf("sx: unexpected end")
	}
	c := p.s[p.i]
	switch {
	case c == '(':
		p.i++
		var l []Sx
		for {
			p.skip()
			if p.i >= len(p.s) {
				return Sx{}, fmt.Errorf("sx: unclosed list")
			}
			if p.s[p.i] == ')' {
				p.i++
				return Sx{Kind: 'l', L: l}, nil
			}
			e, err := p.parse()
			if err != nil {
				return Sx{}, err
			}
			l = append(l, e)
		}
	case c == '#':
		p.i++
		var b []byte
		for p.i+1 < len(p.s) && hexv(p.s[p.i]) >= 0 && hexv(p.s[p.i+1]) >= 0 {
			b = append(b, byte(hexv(p.s[p.i])<<4|hexv(p.s[p.i+1])))
			p.i += 2
		}
		return Sx{Kind: 'b', B: b}, nil
	case c == '-' || (c >= '0' && c <= '9'):
		j := p.i + 1
		for j < len(p.s) && p.s[j] >= '0' && p.s[j] <= '9' {
			j++
		}
		v, ok := new(big.Int).SetString(p.s[p.i:j], 10)
		if !ok {
			return Sx{}, fmt.Errorf("sx: bad integer %q", p.s[p.i:j])
		}
		p.i = j
		return Sx{Kind: 'i', I: v}, nil
	}
	return Sx{}, fmt.Errorf("sx: unexpected %q at %d", c, p.i)
}
