package common

// Rng is splitmix64; every random choice of a harness run derives from one seed.
type Rng struct{ s uint64 }

func NewRng(seed uint64) *Rng {
	// scramble the seed first: with a plain affine start, adjacent seeds would yield the
	// same stream shifted by one draw
	z := seed + 0x632BE59BD9B4E019
	z = (z ^ (z >> 30)) * 0xBF58476D1CE4E5B9
	z = (z ^ (z >> 27)) * 0x94D049BB133111EB
	z ^= z >> 31
	return &Rng{s: z}
}

func (r *Rng) Next() uint64 {
	r.s += 0x9E3779B97F4A7C15
	z := r.s
	z = (z ^ (z >> 30)) * 0xBF58476D1CE4E5B9
	z = (z ^ (z >> 27)) * 0x94D049BB133111EB
	return z ^ (z >> 31)
}

// Intn returns a value in [0, n).
func (r *Rng) Intn(n int) int {
	if n <= 0 {
		return 0
	}
	return int(r.Next() % uint64(n))
}

// Range returns a value in [lo, hi] inclusive.
func (r *Rng) Range(lo, hi int) int { return lo + r.Intn(hi-lo+1) }

func (r *Rng) Bool() bool { return r.Next()&1 == 1 }

// Chance returns true with probability num/den.
func (r *Rng) Chance(num, den int) bool { return r.Intn(den) < num }

func (r *Rng) Bytes(n int) []byte {
	b := make([]byte, n)
	for i := range b {
		b[i] = byte(r.Next())
	}
	return b
}

// Pick returns one of the given values.
func (r *Rng) PickInt(v ...int) int       { return v[r.Intn(len(v))] }
func (r *Rng) PickI64(v ...int64) int64   { return v[r.Intn(len(v))] }
func (r *Rng) PickU64(v ...uint64) uint64 { return v[r.Intn(len(v))] }

// Fork derives an independent stream (so that adding draws in one generator does not
// shift the others).
func (r *Rng) Fork() *Rng { return NewRng(r.Next()) }
