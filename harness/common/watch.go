package common

import (
	"bytes"
	"runtime"
	"strconv"
	"strings"
	"time"
)

// Watched calls.  A call of a method that takes its object's own mutex (frame = the method's
// qualified name as it appears in a goroutine dump, e.g.
// "qchen.fun/fatchoy/x/uuid.(*SeqIDGen).Next(") runs on a worker goroutine.  If it does not
// answer at once the harness looks at a goroutine dump: the call is reported as *blocked
// forever* only if its goroutine is parked in sync.Mutex.Lock called directly from that method
// and every other goroutine that is inside the method is parked the same way — then nobody
// who could release that mutex is running (only the method touches it).  This is a fact about
// the goroutine states, not a time-out: a slow call is waited for.

// CurGoid returns the id of the calling goroutine (parsed from its stack header).
func CurGoid() int64 {
	var buf [64]byte
	b := buf[:runtime.Stack(buf[:], false)]
	b = bytes.TrimPrefix(b, []byte("goroutine "))
	if i := bytes.IndexByte(b, ' '); i > 0 {
		n, _ := strconv.ParseInt(string(b[:i]), 10, 64)
		return n
	}
	return -1
}

type gstate struct {
	id      int64
	inNext  bool // the method is on the stack
	atGuard bool // parked in sync.Mutex.Lock called directly from the method
}

func dumpStates(nextFrame string) []gstate {
	buf := make([]byte, 1<<20)
	for {
		n := runtime.Stack(buf, true)
		if n < len(buf) {
			buf = buf[:n]
			break
		}
		buf = make([]byte, 2*len(buf))
	}
	var res []gstate
	for _, blk := range strings.Split(string(buf), "\n\n") {
		lines := strings.Split(blk, "\n")
		if len(lines) == 0 || !strings.HasPrefix(lines[0], "goroutine ") {
			continue
		}
		hdr := lines[0]
		f := strings.Fields(hdr)
		id, _ := strconv.ParseInt(f[1], 10, 64)
		parked := strings.Contains(hdr, "[sync.Mutex.Lock") || strings.Contains(hdr, "[semacquire")
		var funcs []string
		for _, l := range lines[1:] {
			if l != "" && l[0] != '\t' {
				funcs = append(funcs, l)
			}
		}
		g := gstate{id: id}
		for i, fn := range funcs {
			if strings.HasPrefix(fn, nextFrame) {
				g.inNext = true
			}
			if parked && strings.HasPrefix(fn, "sync.(*Mutex).Lock(") && i+1 < len(funcs) && strings.HasPrefix(funcs[i+1], nextFrame) {
				g.atGuard = true
			}
		}
		res = append(res, g)
	}
	return res
}

// stuckAtGuard: are all of the given goroutines parked at Next's own mutex, with nobody else
// inside Next who is not?
func stuckAtGuard(nextFrame string, ids map[int64]bool) bool {
	seen := 0
	for _, g := range dumpStates(nextFrame) {
		if ids[g.id] {
			if !g.atGuard {
				return false
			}
			seen++
		} else if g.inNext && !g.atGuard {
			return false
		}
	}
	return seen == len(ids)
}

// ConfirmedStuck: two dumps 3 ms apart both show all the given goroutines parked at the
// method's own mutex and nobody else inside the method.
func ConfirmedStuck(nextFrame string, ids map[int64]bool) bool {
	if !stuckAtGuard(nextFrame, ids) {
		return false
	}
	time.Sleep(3 * time.Millisecond)
	return stuckAtGuard(nextFrame, ids)
}

type Watcher struct {
	frame string
	req   chan func()
	done  chan struct{}
	gid   int64
	timer *time.Timer
}

func NewWatcher(frame string) *Watcher {
	w := &Watcher{frame: frame, req: make(chan func()), done: make(chan struct{}, 1), timer: time.NewTimer(time.Hour)}
	ready := make(chan int64)
	go func() {
		ready <- CurGoid()
		for f := range w.req {
			f()
			w.done <- struct{}{}
		}
	}()
	w.gid = <-ready
	return w
}

func (w *Watcher) Close() { close(w.req); w.timer.Stop() }

// Call runs f on the worker; blocked = f will never return (see above).  After a blocked call
// the watcher must not be used again (its goroutine is parked for good).
func (w *Watcher) Call(f func()) (blocked bool) {
	w.req <- f
	wait := 2 * time.Millisecond
	for total := time.Duration(0); ; total += wait {
		if !w.timer.Stop() {
			select {
			case <-w.timer.C:
			default:
			}
		}
		w.timer.Reset(wait)
		select {
		case <-w.done:
			return false
		case <-w.timer.C:
		}
		if ConfirmedStuck(w.frame, map[int64]bool{w.gid: true}) {
			return true
		}
		if wait < 200*time.Millisecond {
			wait *= 2
		}
		if total > 2*time.Minute {
			panic("a call neither returned nor reached a recognisable blocked state within two minutes")
		}
	}
}

// AtGuard reports, from one goroutine dump, which of the given goroutines are parked in
// sync.Mutex.Lock called directly from the method (they wait for the object's own mutex).
func AtGuard(nextFrame string, ids map[int64]bool) map[int64]bool {
	res := map[int64]bool{}
	for _, g := range dumpStates(nextFrame) {
		if ids[g.id] && g.atGuard {
			res[g.id] = true
		}
	}
	return res
}
