package connsim

import (
	"bytes"
	"hash/crc32"
	"io"
	"net"
	"time"

	"qchen.fun/fatchoy"
	"qchen.fun/fatchoy/codec"
	"qchen.fun/fatchoy/packet"
	"qchen.fun/fatchoy/qnet"
	. "verifharness/common"
)

// Relay scenarios (mode 5): where the packets come from is part of the input.  Three
// connections A, B, C.  The peer of A sends frames with every header field set (type, node,
// refers, flag, seq, command, body); each packet delivered by A (its Endpoint is A) is
// forwarded — the same object — on B and on C; in addition B gets fresh packets and packet
// objects reused after Reset().  The peers of B and C decode what they receive with the real
// codec and every frame is compared FIELD BY FIELD with the packet as it was when SendPacket
// accepted it.
// input    = (5 codec n seed)
// observed = (acceptedB receivedB acceptedC receivedC (eofB eofC panics inconclusive))
//            packet = (cmd seq type node flag nrefers refersum bodylen bodycrc)

func RelayScenario(rng *Rng) (string, Sx) {
	c := 1 + rng.Intn(2)
	kind := "relay-v1"
	if c == 2 {
		kind = "relay-v2"
	}
	return kind, Ints(5, int64(c), int64(rng.Range(1, 12)), int64(rng.Next()>>2))
}

func pktTuple(cmd int32, seq uint16, typ int, node uint32, flag int, refers []fatchoy.NodeID, body []byte) Sx {
	sum := int64(0)
	for i, r := range refers {
		sum = (sum + int64(i+1)*int64(uint32(r))) % (1 << 31)
	}
	return Ints(int64(cmd), int64(seq), int64(typ), int64(node), int64(flag), int64(len(refers)), sum, int64(len(body)), int64(crc32.ChecksumIEEE(body)))
}

func tupleOfPacket(p fatchoy.IPacket) Sx {
	var body []byte
	if pp, ok := p.(*packet.Packet); ok {
		switch b := pp.Body_.(type) {
		case []byte:
			body = b
		case string:
			body = []byte(b)
		}
	}
	return pktTuple(p.Command(), p.Seq(), int(p.Type()), uint32(p.Node()), int(p.Flag()), p.Refers(), body)
}

type relayLeg struct {
	conn *qnet.TcpConn
	peer *net.TCPConn
	srv  *net.TCPConn
}

func newLeg(enc codec.Encoder, inbound chan fatchoy.IPacket, ocap int) (*relayLeg, bool) {
	ln, err := net.Listen("tcp", "127.0.0.1:0")
	if err != nil {
		return nil, false
	}
	defer ln.Close()
	ach := make(chan net.Conn, 1)
	go func() { c, _ := ln.Accept(); ach <- c }()
	pc, err := net.DialTimeout("tcp", ln.Addr().String(), 3*time.Second)
	if err != nil {
		return nil, false
	}
	var srv net.Conn
	select {
	case srv = <-ach:
	case <-time.After(3 * time.Second):
	}
	if srv == nil {
		pc.Close()
		return nil, false
	}
	l := &relayLeg{peer: pc.(*net.TCPConn), srv: srv.(*net.TCPConn)}
	l.conn = qnet.NewTcpConn(fatchoy.NodeID(0x020002), srv, enc, nil, inbound, ocap, nil)
	return l, true
}

func (l *relayLeg) shut() {
	l.peer.SetLinger(0)
	l.peer.Close()
	l.srv.SetLinger(0)
	l.srv.Close()
}

// decode everything a peer received: field by field, the type byte straight from the header
func decodeAll(enc codec.Encoder, data []byte) []Sx {
	var out []Sx
	rd := bytes.NewReader(data)
	for rd.Len() > 0 {
		head, body, err := enc.ReadHeadBody(rd)
		if err != nil {
			break
		}
		pkt := packet.Make()
		if p, _ := Catch(func() { err = enc.UnmarshalPacket(head, body, nil, pkt) }); p || err != nil {
			break
		}
		typ := 0
		if enc.Version() == 2 {
			typ = int(codec.V2Header(head).Type())
		} else {
			typ = int(codec.V1Header(head).Type())
		}
		b, _ := pkt.Body_.([]byte)
		out = append(out, pktTuple(pkt.Command(), pkt.Seq(), typ, uint32(pkt.Node()), int(pkt.Flag()), pkt.Refers(), b))
	}
	return out
}

func RunRelay(in Sx) (Sx, []string) {
	codecV, n, seed := in.At(1).AsInt(), in.At(2).AsInt(), in.At(3).Uint64()
	rng := NewRng(seed)
	enc := encoder(codecV)
	var notes []string
	empty := ListOf(nil)
	fail := func(why string) (Sx, []string) {
		return List(empty, empty, empty, empty, Ints(0, 0, 0, 1)), []string{why}
	}
	inbound := make(chan fatchoy.IPacket, 64)
	a, ok1 := newLeg(enc, inbound, 8)
	b, ok2 := newLeg(enc, nil, 256)
	c, ok3 := newLeg(enc, nil, 256)
	if !ok1 || !ok2 || !ok3 {
		return fail("setup failed")
	}
	defer a.shut()
	defer b.shut()
	defer c.shut()
	a.conn.Go(fatchoy.EndpointReader)
	b.conn.Go(fatchoy.EndpointWriter)
	c.conn.Go(fatchoy.EndpointWriter)
	readAll := func(l *relayLeg, buf *bytes.Buffer, eof *bool, done chan struct{}) {
		defer close(done)
		tmp := make([]byte, 16*1024)
		l.peer.SetReadDeadline(time.Now().Add(10 * time.Second))
		for {
			k, err := l.peer.Read(tmp)
			buf.Write(tmp[:k])
			if err != nil {
				*eof = err == io.EOF
				return
			}
		}
	}
	var bufB, bufC bytes.Buffer
	var eofB, eofC bool
	doneB, doneC := make(chan struct{}), make(chan struct{})
	go readAll(b, &bufB, &eofB, doneB)
	go readAll(c, &bufC, &eofC, doneC)

	mk := func(i int) *packet.Packet {
		p := packet.New(int32(1000+i), uint16(7+i), fatchoy.PacketFlag(rng.PickInt(0, 0x20)), bodyOf(1000+i, smallSizes[rng.Intn(len(smallSizes))]))
		p.SetType(fatchoy.PacketType(rng.PickInt(0, 1, 2)))
		p.SetNode(fatchoy.NodeID(0x030000 + uint32(rng.Intn(60000)) + 1))
		nr := rng.PickInt(0, 1, 3)
		var refs []fatchoy.NodeID
		for k := 0; k < nr; k++ {
			refs = append(refs, fatchoy.NodeID(0x040000+uint32(rng.Intn(60000))+1))
		}
		p.SetRefers(refs)
		return p
	}
	// the peer of A sends n fully populated frames
	go func() {
		for i := 0; i < n; i++ {
			var buf bytes.Buffer
			if _, err := enc.WritePacket(&buf, nil, mk(i)); err == nil {
				a.peer.Write(buf.Bytes())
			}
		}
	}()
	var accB, accC []Sx
	panics, inconcl := 0, 0
	send := func(l *relayLeg, p fatchoy.IPacket, acc *[]Sx) {
		snap := tupleOfPacket(p) // the packet as it is when SendPacket accepts it
		var err error
		if pn, _ := Catch(func() { err = l.conn.SendPacket(p) }); pn {
			panics++
			return
		}
		if err == nil {
			*acc = append(*acc, snap)
		}
	}
	for i := 0; i < n; i++ {
		select {
		case p := <-inbound:
			send(b, p, &accB) // a packet that arrived on A (Endpoint() == A) forwarded on B ...
			send(c, p, &accC) // ... and the same object on C
		case <-time.After(4 * time.Second):
			inconcl = 1
			notes = append(notes, "a frame sent to A was not delivered within 4s")
			i = n
		}
	}
	// fresh packets, and packet objects reused after Reset()
	reuse := mk(500)
	for i := 0; i < 3; i++ {
		send(b, mk(100+i), &accB)
		reuse.Reset()
		q := mk(200 + i)
		reuse.SetCommand(q.Command())
		reuse.SetSeq(q.Seq())
		reuse.SetType(q.Type())
		reuse.SetNode(q.Node())
		reuse.SetFlag(q.Flag())
		reuse.SetRefers(q.Refers())
		reuse.SetBody(q.Body_)
		cp := *reuse // the queue holds the pointer: send a distinct object per call, re-filled the same way
		send(b, &cp, &accB)
	}
	for _, l := range []*relayLeg{b, c} {
		if pn, _ := Catch(func() { l.conn.Close() }); pn {
			panics++
		}
	}
	if pn, _ := Catch(func() { a.conn.Close() }); pn {
		panics++
	}
	for _, d := range []chan struct{}{doneB, doneC} {
		select {
		case <-d:
		case <-time.After(4 * time.Second):
			inconcl = 1
			notes = append(notes, "a relay peer did not see end-of-stream within 4s")
		}
	}
	if inconcl == 1 {
		b.peer.SetReadDeadline(time.Now())
		c.peer.SetReadDeadline(time.Now())
		<-doneB
		<-doneC
	}
	return List(ListOf(accB), ListOf(decodeAll(enc, bufB.Bytes())), ListOf(accC), ListOf(decodeAll(enc, bufC.Bytes())),
		Ints(b2i(eofB), b2i(eofC), int64(panics), int64(inconcl))), notes
}
