package connsim

import (
	"net"
	"runtime"
	"sync"
	"sync/atomic"
	"time"

	"qchen.fun/fatchoy"
	"qchen.fun/fatchoy/qnet"
	. "verifharness/common"
)

// Burst races (mode 3): many fresh loopback connections; on each, a mix of Close / ForceClose
// callers and senders is released from a spin barrier at the same instant, at full speed (no
// gates, no perturbation).  Observed per burst: panics (recovered per goroutine), connections
// on which more than one closer won the CAS, connections with more than one terminal error,
// sends that started after every closer had returned and were not refused, calls that did
// not return within the deadline (inconclusive).
// input    = (3 trials nclosers nsenders seed)
// observed = (trials panics multicas multierr noerr lateaccepted notreturned notterminated)

func BurstScenario(rng *Rng, trials int) (string, Sx) {
	return "burst-race", Ints(3, int64(trials), int64(rng.Range(2, 4)), int64(rng.Range(0, 2)), int64(rng.Next()>>2))
}

func RunBurst(in Sx) (Sx, []string) {
	trials, ncl, nsd, seed := in.At(1).AsInt(), in.At(2).AsInt(), in.At(3).AsInt(), in.At(4).Uint64()
	rng := NewRng(seed)
	var notes []string
	ln, err := net.Listen("tcp", "127.0.0.1:0")
	if err != nil {
		return Ints(0, 0, 0, 0, 0, 0, 1, 0), []string{"listen failed"}
	}
	defer ln.Close()
	enc := encoder(1)
	var panics, multicas, multierr, noerr, lateacc, notret, notterm int64

	var curConn atomic.Value // *qnet.TcpConn of the running trial
	var casCount int32
	qnet.VerifSetHook(func(t *qnet.TcpConn, name string) {
		if c, _ := curConn.Load().(*qnet.TcpConn); c == t && (name == "close.cas" || name == "fclose.cas") {
			atomic.AddInt32(&casCount, 1)
		}
	})
	defer qnet.VerifSetHook(nil)

	done := 0
	for tr := 0; tr < trials; tr++ {
		ach := make(chan net.Conn, 1)
		go func() {
			c, _ := ln.Accept()
			ach <- c
		}()
		pc, err := net.DialTimeout("tcp", ln.Addr().String(), 3*time.Second)
		if err != nil {
			notes = append(notes, "dial failed")
			break
		}
		var srv net.Conn
		select {
		case srv = <-ach:
		case <-time.After(3 * time.Second):
		}
		if srv == nil {
			pc.Close()
			notes = append(notes, "accept failed")
			break
		}
		// the peer just reads to the end of the stream
		peerDone := make(chan struct{})
		go func() {
			defer close(peerDone)
			buf := make([]byte, 4096)
			pc.SetReadDeadline(time.Now().Add(5 * time.Second))
			for {
				if _, err := pc.Read(buf); err != nil {
					return
				}
			}
		}()
		errch := make(chan error, 4)
		inbound := make(chan fatchoy.IPacket, 4)
		conn := qnet.NewTcpConn(fatchoy.NodeID(7), srv, enc, errch, inbound, 8, nil)
		atomic.StoreInt32(&casCount, 0)
		curConn.Store(conn)
		conn.Go(fatchoy.EndpointReadWriter)

		var barrier, ready int32
		var wg sync.WaitGroup
		var trialPanics int32
		kinds := rng.Next()
		for j := 0; j < ncl; j++ {
			wg.Add(1)
			graceful := (kinds>>uint(j))&1 == 1
			go func() {
				defer wg.Done()
				atomic.AddInt32(&ready, 1)
				for atomic.LoadInt32(&barrier) == 0 {
					runtime.Gosched()
				}
				if p, _ := Catch(func() {
					if graceful {
						conn.Close()
					} else {
						conn.ForceClose(errForced)
					}
				}); p {
					atomic.AddInt32(&trialPanics, 1)
				}
			}()
		}
		for i := 0; i < nsd; i++ {
			wg.Add(1)
			id := 100 + i
			go func() {
				defer wg.Done()
				atomic.AddInt32(&ready, 1)
				for atomic.LoadInt32(&barrier) == 0 {
					runtime.Gosched()
				}
				if p, _ := Catch(func() { conn.SendPacket(mkPacket(PktSpec{id, 4})) }); p {
					atomic.AddInt32(&trialPanics, 1)
				}
			}()
		}
		for atomic.LoadInt32(&ready) < int32(ncl+nsd) {
			runtime.Gosched()
		}
		if rng.Chance(1, 2) { // sometimes let the pumps park first
			for t0 := time.Now(); time.Since(t0) < time.Duration(rng.Intn(60))*time.Microsecond; {
				runtime.Gosched()
			}
		}
		atomic.StoreInt32(&barrier, 1)
		ret := make(chan struct{})
		go func() { wg.Wait(); close(ret) }()
		returned := true
		select {
		case <-ret:
		case <-time.After(5 * time.Second):
			returned = false
			notret++
		}
		panics += int64(atomic.LoadInt32(&trialPanics))
		if returned {
			// every closer has returned: a send that starts now must be refused
			code := -1
			if p, _ := Catch(func() {
				if conn.SendPacket(mkPacket(PktSpec{999, 1})) == qnet.ErrConnIsClosing {
					code = 1
				}
			}); p {
				panics++
			} else if code != 1 {
				lateacc++
			}
			// the shutdown completes (a ForceClose winner finishes in the background): Terminated, peer at EOF
			end := time.Now().Add(3 * time.Second)
			for n := 0; conn.VerifState() != 4 && time.Now().Before(end); n++ {
				if n < 2000 {
					runtime.Gosched()
				} else {
					time.Sleep(50 * time.Microsecond)
				}
			}
			if conn.VerifState() != 4 {
				notterm++
			} else {
				select {
				case <-peerDone:
				case <-time.After(3 * time.Second):
					notterm++
				}
			}
			if atomic.LoadInt32(&casCount) > 1 {
				multicas++
			}
			nerr := 0
		drain:
			for {
				select {
				case <-errch:
					nerr++
				default:
					break drain
				}
			}
			if nerr > 1 {
				multierr++
			} else if nerr == 0 {
				noerr++
			}
		}
		curConn.Store((*qnet.TcpConn)(nil))
		if tc, ok := pc.(*net.TCPConn); ok {
			tc.SetLinger(0)
		}
		pc.Close()
		if tc, ok := srv.(*net.TCPConn); ok {
			tc.SetLinger(0)
		}
		srv.Close()
		done++
	}
	if notret > 0 || notterm > 0 {
		notes = append(notes, "burst: some calls did not return / some connections did not terminate within the deadline")
	}
	return Ints(int64(done), panics, multicas, multierr, noerr, lateacc, notret, notterm), notes
}
