package connsim

import (
	"fmt"
	"runtime"
	"sort"
	"strings"
	"sync"
	"sync/atomic"
	"time"

	"qchen.fun/fatchoy"
	"qchen.fun/fatchoy/codec"
	"qchen.fun/fatchoy/packet"
	"qchen.fun/fatchoy/qnet"
	. "verifharness/common"
)

func (sim *Sim) goFlag() fatchoy.EndpointFlag {
	var f fatchoy.EndpointFlag
	if sim.cfg.HasWriter {
		f |= fatchoy.EndpointWriter
	}
	if sim.cfg.HasReader {
		f |= fatchoy.EndpointReader
	}
	return f
}

const quietDeadline = 15 * time.Second

// ---------------------------------------------------------------- gated mode

type gatedRun struct {
	sim       *Sim
	enc       codec.Encoder
	nextInput int
	aborted   bool
	steps     int
}

func (g *gatedRun) settle() bool {
	if g.aborted {
		return false
	}
	if !g.sim.waitQuiet(quietDeadline) {
		_, why := g.sim.quiet()
		g.sim.inconclusive("no quiescence within %v (%s)", quietDeadline, why)
		g.aborted = true
		return false
	}
	return true
}

func (g *gatedRun) atGate() []*thread {
	sim := g.sim
	sim.mu.Lock()
	defer sim.mu.Unlock()
	var l []*thread
	for _, th := range sim.thr {
		if th.atGate {
			l = append(l, th)
		}
	}
	sort.Slice(l, func(i, j int) bool { return l[i].ref < l[j].ref })
	return l
}

func (g *gatedRun) stepThread(th *thread) bool {
	sim := g.sim
	sim.mu.Lock()
	ok := th != nil && th.atGate
	sim.mu.Unlock()
	if !ok {
		return false
	}
	g.steps++
	sim.release(th)
	return g.settle()
}

func (g *gatedRun) thread(ref int) *thread {
	g.sim.mu.Lock()
	defer g.sim.mu.Unlock()
	return g.sim.byRef[ref]
}

// env performs one environment action; false if it is not enabled
func (g *gatedRun) env(op, arg int) bool {
	sim := g.sim
	switch op {
	case EvPeerWrite:
		if g.nextInput >= len(sim.cfg.Input) {
			return false
		}
		idx := g.nextInput
		g.nextInput++
		sim.envEvent(EvPeerWrite, idx)
		sim.peerWriteItem(idx, g.enc)
	case EvInConsume:
		if len(sim.inbound) == 0 {
			return false
		}
		sim.envEvent(EvInConsume, 0)
		sim.takeInbound()
	case EvInFill:
		if len(sim.inbound) >= cap(sim.inbound) {
			return false
		}
		sim.envEvent(EvInFill, 0)
		sim.inbound <- packet.New(-1, 0, 0, nil)
	case EvErrConsume:
		if sim.errch == nil || len(sim.errch) == 0 {
			return false
		}
		sim.envEvent(EvErrConsume, 0)
		sim.takeErr()
	case EvErrFill:
		if sim.errch == nil || len(sim.errch) >= cap(sim.errch) {
			return false
		}
		sim.envEvent(EvErrFill, 0)
		sim.errch <- foreignErr{}
	default:
		return false
	}
	g.steps++
	return g.settle()
}

// one random step among the goroutines at a gate and the enabled environment actions
func (g *gatedRun) randomStep() bool {
	sim := g.sim
	ths := g.atGate()
	type cand struct {
		th *thread
		op int
	}
	var cs []cand
	for _, th := range ths {
		cs = append(cs, cand{th: th})
	}
	if g.nextInput < len(sim.cfg.Input) {
		cs = append(cs, cand{op: EvPeerWrite})
	}
	if sim.cfg.InConsumer == 1 && len(sim.inbound) > 0 {
		cs = append(cs, cand{op: EvInConsume})
	}
	if sim.errch != nil && len(sim.errch) > 0 && sim.rng.Chance(1, 4) {
		cs = append(cs, cand{op: EvErrConsume})
	}
	if len(cs) == 0 {
		return false
	}
	c := cs[sim.rng.Intn(len(cs))]
	if c.th != nil {
		return g.stepThread(c.th)
	}
	return g.env(c.op, 0)
}

func (sim *Sim) pumpsAlive() bool {
	for _, st := range allStacks() {
		if strings.Contains(st.text, "(*TcpConn).writePump") || strings.Contains(st.text, "(*TcpConn).readPump") ||
			strings.Contains(st.text, "(*TcpConn).finally") {
			return true
		}
	}
	return false
}

func (sim *Sim) harnessThreadsDone() bool {
	sim.mu.Lock()
	defer sim.mu.Unlock()
	for _, th := range sim.thr {
		k := th.ref / 1000
		if (k == TSender || k == TCloser) && !th.finished {
			return false
		}
	}
	return true
}

// finishing policy: keep stepping (seeded random order) until everything has completed;
// a quiet state with nothing at a gate while a closer or a pump is still pending is a
// stuck state (the goroutine states are the evidence).
func (g *gatedRun) finish() {
	sim := g.sim
	for n := 0; n < 20000 && !g.aborted; n++ {
		ths := g.atGate()
		if len(ths) > 0 {
			g.stepThread(ths[sim.rng.Intn(len(ths))])
			continue
		}
		if sim.cfg.InConsumer == 1 && len(sim.inbound) > 0 {
			g.env(EvInConsume, 0)
			continue
		}
		if sim.harnessThreadsDone() && !sim.pumpsAlive() {
			return
		}
		// nothing at a gate, nothing owed by the environment (the peer reads continuously)
		sim.stuck = 1
		sim.stuckWhat = "stuck: " + sim.blockedSummary()
		return
	}
}

func (sim *Sim) runGated(enc codec.Encoder) {
	g := &gatedRun{sim: sim, enc: enc}
	sim.gated.Store(true)
	close(sim.peerStart)
	go sim.peerReader(0)
	sim.conn.Go(sim.goFlag())
	for i := range sim.cfg.Senders {
		go sim.senderMain(i)
	}
	for j := range sim.cfg.Closers {
		go sim.closerMain(j)
	}
	// wait until every harness goroutine has registered and stopped at its first gate
	deadline := time.Now().Add(quietDeadline)
	for {
		sim.mu.Lock()
		n := 0
		for _, th := range sim.thr {
			if th.ref/1000 == TSender || th.ref/1000 == TCloser {
				n++
			}
		}
		sim.mu.Unlock()
		if n == len(sim.cfg.Senders)+len(sim.cfg.Closers) {
			break
		}
		if time.Now().After(deadline) {
			g.aborted = true
			sim.inconclusive("harness goroutines did not start")
			break
		}
		time.Sleep(50 * time.Microsecond)
	}
	g.settle()
	sim.mu.Lock()
	sim.current = -1
	sim.mu.Unlock()
	for _, d := range sim.cfg.Script {
		if g.aborted {
			break
		}
		switch d.Op {
		case DRun:
			for k := 0; k < d.B; k++ {
				if !g.stepThread(g.thread(d.A)) {
					break
				}
			}
		case DUntil:
			for k := 0; k < 64; k++ {
				th := g.thread(d.A)
				if th != nil {
					sim.mu.Lock()
					last := th.last
					sim.mu.Unlock()
					if last == d.B {
						break
					}
				}
				if !g.stepThread(th) {
					break
				}
			}
		case DEnv:
			g.env(d.A, d.B)
		case DRand:
			for k := 0; k < d.A; k++ {
				if !g.randomStep() {
					break
				}
			}
		case DFinish:
			g.finish()
		}
	}
	if !g.aborted && sim.stuck == 0 {
		g.finish()
	}
	sim.mu.Lock()
	if sim.desync > 0 {
		sim.inconcl = append(sim.inconcl, fmt.Sprintf("serialization lost: %d arrivals from goroutines that were neither released nor parked in connection code", sim.desync))
	}
	sim.mu.Unlock()
	// leave gated mode; rescue a stuck connection so that the process can go on
	sim.openGates()
	stop := make(chan struct{})
	var wg sync.WaitGroup
	if sim.stuck == 1 || g.aborted {
		wg.Add(1)
		go func() {
			defer wg.Done()
			for {
				select {
				case <-stop:
					return
				case p := <-sim.inbound:
					sim.noteInbound(p)
				}
			}
		}()
	}
	wait1, wait2 := dl(5*time.Second), dl(3*time.Second)
	if sim.stuck == 1 { // already a finding: do not spend the budget waiting for the rescue
		wait1, wait2 = 200*time.Millisecond, 100*time.Millisecond // the finding is established: abandon the goroutines
	}
	end := time.Now().Add(wait1)
	for !sim.harnessThreadsDone() && time.Now().Before(end) {
		time.Sleep(200 * time.Microsecond)
	}
	if !sim.harnessThreadsDone() && sim.stuck == 0 {
		sim.inconclusive("harness goroutines still pending 5s after the gates were opened: %s", sim.blockedSummary())
	}
	end = time.Now().Add(wait2)
	for sim.pumpsAlive() && time.Now().Before(end) {
		time.Sleep(200 * time.Microsecond)
	}
	close(stop)
	wg.Wait()
}

// ---------------------------------------------------------------- free mode

// stuckEvidence: every goroutine of the connection is parked in a channel / WaitGroup
// operation (none is running, none is in a network wait, none is at a harness point), twice
// 50 ms apart with the same picture, while the environment owes nothing (peer reading,
// inbound drained or the reader not parked on it): a state no schedule of the model can be
// in for more than an instant.  Returns the summary, or "" if this is not such a state.
func (sim *Sim) stuckEvidence() string {
	snap := func() (string, bool) {
		var parts []string
		n := 0
		for _, g := range allStacks() {
			if !strings.Contains(g.text, "qchen.fun/fatchoy/qnet.") {
				continue
			}
			if strings.Contains(g.text, "connsim.(*Sim).point") {
				return "", false
			}
			switch g.status {
			case "chan receive", "chan send", "select", "semacquire", "sync.WaitGroup.Wait", "sync.Mutex.Lock", "sync.RWMutex.Lock", "sync.RWMutex.RLock":
			default:
				return "", false
			}
			if !parkedInConn(g.text) {
				return "", false
			}
			fn := "?"
			for _, name := range []string{"notifyErr", "finally", "Close", "ForceClose", "readPump", "writePump", "SendPacket"} {
				if strings.Contains(g.text, ")."+name+"(") {
					fn = name
					break
				}
			}
			parts = append(parts, fn+":"+g.status)
			n++
		}
		sort.Strings(parts)
		return strings.Join(parts, ","), n > 0
	}
	a, ok := snap()
	if !ok {
		return ""
	}
	time.Sleep(50 * time.Millisecond)
	b, ok := snap()
	if !ok || a != b {
		return ""
	}
	return a
}

func (sim *Sim) runFree(enc codec.Encoder) {
	cfg := sim.cfg
	slow := 0
	if cfg.PeerRead == 1 {
		slow = 300
	}
	if cfg.PeerRead != 2 && cfg.PeerRead != 4 && cfg.PeerRead != 5 {
		close(sim.peerStart)
	}
	if cfg.PeerRead == 5 {
		// the peer stops reading for longer than the connection's idle limit, then drains everything
		pause := 1600 * time.Millisecond
		if cfg.ReadTimeout > 1 {
			pause = time.Duration(cfg.ReadTimeout)*time.Second + 600*time.Millisecond
		}
		go func() {
			time.Sleep(pause)
			close(sim.peerStart)
		}()
	}
	go sim.peerReader(slow)
	if cfg.Immediate == 0 {
		sim.conn.Go(sim.goFlag())
	}

	stop := make(chan struct{})
	var bg sync.WaitGroup
	startDrain := func() {
		bg.Add(1)
		go func() {
			defer bg.Done()
			pause := func() {
				select {
				case <-stop:
				case <-time.After(time.Duration(cfg.ConsumerPause) * time.Millisecond):
				}
			}
			if cfg.ConsumerPause > 0 {
				pause() // the consumer is busy elsewhere for longer than the connection's idle limit
			}
			taken := 0
			for {
				select {
				case <-stop:
					return
				case p := <-sim.inbound:
					sim.noteInbound(p)
					taken++
					if cfg.ConsumerPause > 0 && taken == cfg.Icap+1 {
						pause()
					}
				}
			}
		}()
	}
	replyIdx, errCloser := -1, -1
	if cfg.Reentrant == 1 && len(cfg.Senders) > 0 && len(cfg.Closers) > 1 {
		replyIdx, errCloser = len(cfg.Senders)-1, len(cfg.Closers)-1
		// the inbound consumer replies on the endpoint of every packet it takes
		bg.Add(1)
		go func() {
			defer bg.Done()
			th := sim.register(TSender*1000 + replyIdx)
			defer func() {
				sim.mu.Lock()
				th.finished = true
				sim.mu.Unlock()
			}()
			next := 0
			for {
				select {
				case <-stop:
					return
				case p := <-sim.inbound:
					sim.noteInbound(p)
					if p == nil || p.Command() < 0 || next >= len(cfg.Senders[replyIdx]) {
						continue
					}
					spec := cfg.Senders[replyIdx][next]
					next++
					sim.point(PSendBegin, spec.ID)
					code := 0
					if pn, _ := Catch(func() {
						switch p.Endpoint().SendPacket(mkPacket(spec)) {
						case nil:
							code = 0
						case qnet.ErrConnIsClosing:
							code = 1
						case qnet.ErrConnOutboundOverflow:
							code = 2
						default:
							code = 4
						}
					}); pn {
						code = 3
						atomic.AddInt32(&sim.panics, 1)
					}
					sim.mu.Lock()
					sim.results[replyIdx] = append(sim.results[replyIdx], [2]int{spec.ID, code})
					sim.mu.Unlock()
					sim.point(PSendRet, code)
				}
			}
		}()
		// the error consumer closes the endpoint named in the terminal error
		if sim.errch != nil {
			bg.Add(1)
			go func() {
				defer bg.Done()
				th := sim.register(TCloser*1000 + errCloser)
				defer func() {
					sim.mu.Lock()
					th.finished = true
					sim.mu.Unlock()
				}()
				var e error
				select {
				case <-stop:
					select {
					case e = <-sim.errch:
					default:
						sim.mu.Lock()
						sim.closeRes[errCloser] = 1 // no terminal error was offered: the call was never made
						sim.mu.Unlock()
						return
					}
				case e = <-sim.errch:
				}
				{
					sim.noteErr(e)
					sim.point(PCloseBegin, 0)
					res := 1
					if qe, ok := e.(*qnet.Error); ok {
						if pn, _ := Catch(func() { qe.Endpoint.Close() }); pn {
							res = 3
							atomic.AddInt32(&sim.panics, 1)
						}
					}
					sim.mu.Lock()
					sim.closeRes[errCloser] = res
					sim.mu.Unlock()
					sim.point(PCloseRet, res)
				}
			}()
		}
	} else if cfg.InConsumer == 1 {
		startDrain()
	}
	// the peer's writer
	bg.Add(1)
	go func() {
		defer bg.Done()
		r := NewRng(cfg.Seed*31 + 77)
		if cfg.Chunked == 1 {
			// one byte stream, cut at random places: frames share segments and span segments
			var stream []byte
			for _, it := range cfg.Input {
				stream = append(stream, encodeFrame(enc, cfg.Cipher, PktSpec{it.ID, it.Size})...)
			}
			for len(stream) > 0 {
				n := 1 + r.Intn(1500)
				if n > len(stream) {
					n = len(stream)
				}
				if _, err := sim.peer.Write(stream[:n]); err != nil {
					break
				}
				stream = stream[n:]
				if r.Intn(3) == 0 {
					time.Sleep(time.Duration(r.Intn(400)) * time.Microsecond)
				}
			}
			sim.mu.Lock()
			sim.wakeSince = time.Now()
			sim.mu.Unlock()
			atomic.AddInt32(&sim.inputWritten, int32(len(cfg.Input)))
			return
		}
		for i := range cfg.Input {
			select {
			case <-stop:
				return
			default:
			}
			if cfg.LateInput > 0 && i == len(cfg.Input)-cfg.LateInput {
				// the rest is sent only once the close has begun (the peer keeps talking into a closing connection)
				t0 := time.Now()
				for !sim.closeBegan.Load() && time.Since(t0) < 3*time.Second {
					select {
					case <-stop:
						return
					default:
					}
					time.Sleep(50 * time.Microsecond)
				}
			}
			if r.Intn(4) == 0 {
				time.Sleep(time.Duration(r.Intn(300)) * time.Microsecond)
			}
			sim.peerWriteItem(i, enc)
		}
	}()
	// late peer: starts reading when the close has begun
	if cfg.PeerRead == 2 {
		bg.Add(1)
		go func() {
			defer bg.Done()
			t0 := time.Now()
			for !sim.closeBegan.Load() && time.Since(t0) < 3*time.Second {
				select {
				case <-stop:
					close(sim.peerStart)
					return
				default:
				}
				time.Sleep(100 * time.Microsecond)
			}
			time.Sleep(2 * time.Millisecond)
			close(sim.peerStart)
		}()
	}

	if cfg.Immediate == 1 {
		sim.runImmediate()
		close(stop)
		bg.Wait()
		return
	}
	var sw sync.WaitGroup
	for i := range cfg.Senders {
		if i == replyIdx {
			continue
		}
		sw.Add(1)
		go func(i int) { defer sw.Done(); sim.senderMain(i) }(i)
	}
	sendersDone := make(chan struct{})
	go func() { sw.Wait(); close(sendersDone) }()

	if cfg.CloseAfter == 0 {
		select {
		case <-sendersDone:
		case <-time.After(dl(10 * time.Second)):
			sim.inconclusive("senders did not return within 10s")
		}
	} else {
		time.Sleep(time.Duration(sim.rng.Intn(400)) * time.Microsecond)
	}
	if cfg.WaitInput >= 1 {
		// the peer finishes talking first (including a pause longer than the read time-out)
		limit := time.Duration(cfg.ReadTimeout+6)*time.Second + 2*time.Duration(cfg.ConsumerPause)*time.Millisecond
		for t0 := time.Now(); int(atomic.LoadInt32(&sim.inputWritten)) < len(cfg.Input) && time.Since(t0) < limit; {
			time.Sleep(200 * time.Microsecond)
		}
		if cfg.WaitInput == 2 {
			// ... and until every frame has been handed to the inbound queue (bounded)
			nframes := 0
			for _, it := range cfg.Input {
				if it.Kind == 0 || it.Kind == 7 || it.Kind == 8 {
					nframes++
				}
			}
			for t0 := time.Now(); time.Since(t0) < limit; {
				sim.mu.Lock()
				n := len(sim.delivered)
				sim.mu.Unlock()
				if n >= nframes || sim.closeBegan.Load() {
					break
				}
				time.Sleep(200 * time.Microsecond)
			}
		}
		time.Sleep(2 * time.Millisecond)
	}
	var cw sync.WaitGroup
	for j := range cfg.Closers {
		if j == errCloser {
			continue
		}
		cw.Add(1)
		go func(j int) { defer cw.Done(); sim.closerMain(j) }(j)
	}
	closersDone := make(chan struct{})
	go func() { cw.Wait(); close(closersDone) }()
	if cfg.PeerRead == 4 {
		// the peer reads only after Close has returned (and after the GC cycles, if asked for); if
		// the data does not fit into the kernel buffers Close cannot return first: then let it read
		select {
		case <-closersDone:
			if cfg.GCAfter == 1 {
				sim.captureAndDrop()
			}
		case <-time.After(1500 * time.Millisecond):
		}
		close(sim.peerStart)
	}
	select {
	case <-closersDone:
	case <-time.After(dl(6 * time.Second)):
		// Close pending: only a goroutine dump showing the modelled stuck state makes this a finding
		if ev := sim.stuckEvidence(); ev != "" {
			sim.stuck = 1
			sim.stuckWhat = "stuck: " + ev
		} else {
			sim.inconclusive("close still pending after 6s: %s", sim.blockedSummary())
		}
		if cfg.InConsumer != 1 {
			startDrain()
		}
		if sim.errch != nil { // rescue a closer parked on the error channel
			bg.Add(1)
			go func() {
				defer bg.Done()
				for {
					select {
					case <-stop:
						return
					case e := <-sim.errch:
						sim.noteErr(e)
					}
				}
			}()
		}
		rescue := dl(6 * time.Second)
		if sim.stuck == 1 {
			rescue = 300 * time.Millisecond
		}
		select {
		case <-closersDone:
		case <-time.After(rescue):
			if sim.stuck == 0 {
				sim.inconclusive("close still pending after rescue: %s", sim.blockedSummary())
			}
		}
	}
	select {
	case <-sendersDone:
	case <-time.After(dl(5 * time.Second)):
		sim.inconclusive("senders did not return")
	}
	// let the finalizer spawned by a ForceClose finish
	pw := dl(5 * time.Second)
	if sim.stuck == 1 {
		pw = 200 * time.Millisecond
	}
	end := time.Now().Add(pw)
	for sim.pumpsAlive() && time.Now().Before(end) {
		time.Sleep(200 * time.Microsecond)
	}
	if sim.pumpsAlive() {
		sum := sim.blockedSummary()
		if ev := sim.stuckEvidence(); ev != "" {
			sim.stuck = 1
			sim.stuckWhat = "stuck: " + ev
			if cfg.InConsumer != 1 {
				startDrain()
			}
			end = time.Now().Add(dl(5 * time.Second))
			for sim.pumpsAlive() && time.Now().Before(end) {
				time.Sleep(200 * time.Microsecond)
			}
		} else {
			sim.inconclusive("pumps still alive 5s after close returned: %s", sum)
		}
	}
	close(stop)
	bg.Wait()
	_ = atomic.LoadInt32(&sim.panics)
}

// runImmediate: Go(); SendPacket x N; Close() back to back on this goroutine — the pumps get
// no chance to settle before the sends and the close (with GOMAXPROCS=1 they have not even
// started when Close reaches wg.Wait).
func (sim *Sim) runImmediate() {
	cfg := sim.cfg
	type res struct{ id, code int }
	var rs []res
	closeRes := 1
	done := make(chan struct{})
	go func() {
		defer close(done)
		sim.register(TSender * 1000)
		sim.conn.Go(sim.goFlag())
		if len(cfg.Senders) > 0 {
			for _, p := range cfg.Senders[0] {
				sim.point(PSendBegin, p.ID)
				code := 0
				pkt := mkPacket(p)
				panicked, _ := Catch(func() {
					switch sim.conn.SendPacket(pkt) {
					case nil:
						code = 0
					case qnet.ErrConnIsClosing:
						code = 1
					case qnet.ErrConnOutboundOverflow:
						code = 2
					default:
						code = 4
					}
				})
				if panicked {
					code = 3
					atomic.AddInt32(&sim.panics, 1)
				}
				rs = append(rs, res{p.ID, code})
				sim.point(PSendRet, code)
			}
		}
		sim.rebind(TCloser * 1000)
		sim.point(PCloseBegin, 0)
		if p, _ := Catch(func() { sim.conn.Close() }); p {
			closeRes = 3
			atomic.AddInt32(&sim.panics, 1)
		}
		sim.point(PCloseRet, closeRes)
	}()
	select {
	case <-done:
	case <-time.After(dl(8 * time.Second)):
		if ev := sim.stuckEvidence(); ev != "" {
			sim.stuck = 1
			sim.stuckWhat = "stuck: " + ev
		} else {
			sim.inconclusive("immediate scenario still pending after 8s: %s", sim.blockedSummary())
		}
		go func() {
			for p := range sim.inbound {
				sim.noteInbound(p)
			}
		}()
		select {
		case <-done:
		case <-time.After(dl(5 * time.Second)):
			return
		}
	}
	sim.mu.Lock()
	if len(cfg.Senders) > 0 {
		for _, r := range rs {
			sim.results[0] = append(sim.results[0], [2]int{r.id, r.code})
		}
	}
	if len(sim.closeRes) > 0 {
		sim.closeRes[0] = closeRes
	}
	sim.mu.Unlock()
	end := time.Now().Add(dl(5 * time.Second))
	for sim.pumpsAlive() && time.Now().Before(end) {
		time.Sleep(200 * time.Microsecond)
	}
	if sim.pumpsAlive() {
		if ev := sim.stuckEvidence(); ev != "" {
			sim.stuck = 1
			sim.stuckWhat = "stuck: " + ev
		} else {
			sim.inconclusive("pumps still alive 5s after the immediate close returned: %s", sim.blockedSummary())
		}
	}
}

// captureAndDrop: record the final observables of the endpoint, then drop every reference the
// harness holds to it (and to its socket) and force two garbage collections: whatever the
// runtime does to an unreferenced endpoint happens now, before the peer has read anything.
func (sim *Sim) captureAndDrop() {
	for sim.takeInbound() {
	}
	for sim.takeErr() {
	}
	end := time.Now().Add(2 * time.Second)
	for sim.pumpsAlive() && time.Now().Before(end) {
		time.Sleep(200 * time.Microsecond)
	}
	st := sim.conn.Stats()
	sim.finalCounters = []int64{st.Get(qnet.StatPacketsSent), st.Get(qnet.StatBytesSent), st.Get(qnet.StatPacketsRecv), st.Get(qnet.StatBytesRecv)}
	sim.finalState = int64(sim.conn.VerifState())
	sim.finalDone = sim.conn.VerifDoneClosed()
	sim.dropped = true
	sim.conn = nil
	for k := 0; k < 2; k++ {
		runtime.GC()
		time.Sleep(20 * time.Millisecond)
	}
}
