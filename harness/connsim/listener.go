package connsim

import (
	"net"
	"os"
	"strconv"
	"strings"
	"sync"
	"sync/atomic"
	"time"

	"qchen.fun/fatchoy"
	"qchen.fun/fatchoy/qnet"
	. "verifharness/common"
)

// ListenerScenario: (2 nlisteners ndials drain seed)
func ListenerScenario(rng *Rng) (string, Sx) {
	nl := rng.Range(1, 3)
	nd := rng.PickInt(0, 1, 5, 20, 60, 100)
	drain := rng.Intn(2)
	kind := "listener-undrained"
	if drain == 1 {
		kind = "listener-drained"
	} else if rng.Chance(1, 4) {
		// more pending connections than the hand-off channel (128) holds, nobody takes them
		nd = 140
		kind = "listener-backlog-full"
	}
	return kind, Ints(2, int64(nl), int64(nd), int64(drain), int64(rng.Next()>>2))
}

func freeAddr() string {
	ln, err := net.Listen("tcp", "127.0.0.1:0")
	if err != nil {
		return ""
	}
	defer ln.Close()
	return ln.Addr().String()
}

// stillListening: this process still owns a listening TCP socket on the port (read from
// /proc, so that a port reused by another process is not mistaken for our listener)
func stillListening(addr string) bool {
	_, portStr, err := net.SplitHostPort(addr)
	if err != nil {
		return false
	}
	port, _ := strconv.Atoi(portStr)
	data, err := os.ReadFile("/proc/self/net/tcp")
	if err != nil {
		return false
	}
	inodes := map[string]bool{}
	for _, line := range strings.Split(string(data), "\n")[1:] {
		f := strings.Fields(line)
		if len(f) < 10 || f[3] != "0A" {
			continue
		}
		lp := strings.Split(f[1], ":")
		if len(lp) != 2 {
			continue
		}
		if v, err := strconv.ParseInt(lp[1], 16, 32); err == nil && int(v) == port {
			inodes[f[9]] = true
		}
	}
	if len(inodes) == 0 {
		return false
	}
	ents, err := os.ReadDir("/proc/self/fd")
	if err != nil {
		return false
	}
	for _, e := range ents {
		if l, err := os.Readlink("/proc/self/fd/" + e.Name()); err == nil && strings.HasPrefix(l, "socket:[") {
			if inodes[strings.TrimSuffix(strings.TrimPrefix(l, "socket:["), "]")] {
				return true
			}
		}
	}
	return false
}

func countStacks(sub string) int {
	n := 0
	for _, g := range allStacks() {
		if strings.Contains(g.text, sub) {
			n++
		}
	}
	return n
}

// RunListener: a TcpServer with nl listeners; nd clients dial concurrently with Close().
// observed = (returned panics serve_left handed dialed_ok dial_after_ok backlog_closed inconclusive stuck)
func RunListener(in Sx) (Sx, []string) {
	nl, nd, drain, seed := in.At(1).AsInt(), in.At(2).AsInt(), in.At(3).AsInt(), in.At(4).Uint64()
	rng := NewRng(seed)
	var notes []string
	inbound := make(chan fatchoy.IPacket, 16)
	srv := qnet.NewTcpServer(encoder(1), inbound, 8)
	var addrs []string
	for i := 0; i < nl; i++ {
		var err error
		for try := 0; try < 20; try++ {
			a := freeAddr()
			if err = srv.Listen(a); err == nil {
				addrs = append(addrs, a)
				break
			}
		}
		if err != nil {
			return Ints(0, 0, 0, 0, 0, 0, 0, 1, 0), []string{"listen failed"}
		}
	}
	// Listen on an address that is taken: an error (a serve goroutine left behind by it would show up as serve_left after Close)
	listenErrBad := 0
	if len(addrs) > 0 {
		if err := srv.Listen(addrs[0]); err == nil {
			listenErrBad = 1
		}
	}
	backlog := srv.BacklogChan()
	var handed int32
	var conns []net.Conn
	var cmu sync.Mutex
	drained := make(chan struct{})
	bclosed := int32(0)
	if drain == 1 {
		go func() {
			defer close(drained)
			for ep := range backlog {
				atomic.AddInt32(&handed, 1)
				if c := ep.RawConn(); c != nil {
					c.Close()
				}
			}
			atomic.StoreInt32(&bclosed, 1)
		}()
	}
	var dialed int32
	var dw sync.WaitGroup
	for k := 0; k < nd; k++ {
		dw.Add(1)
		a := addrs[rng.Intn(len(addrs))]
		delay := time.Duration(rng.Intn(2000)) * time.Microsecond
		go func() {
			defer dw.Done()
			time.Sleep(delay)
			c, err := net.DialTimeout("tcp", a, 2*time.Second)
			if err == nil {
				atomic.AddInt32(&dialed, 1)
				cmu.Lock()
				conns = append(conns, c)
				cmu.Unlock()
			}
		}()
	}
	if nd > 128 && drain == 0 {
		// let every dial finish and the serve loop run into the full hand-off channel first
		dw.Wait()
		end := time.Now().Add(3 * time.Second)
		for time.Now().Before(end) {
			parked := false
			for _, g := range allStacks() {
				if strings.Contains(g.text, "(*TcpServer).accept") && g.status == "chan send" {
					parked = true
				}
			}
			if parked {
				break
			}
			time.Sleep(time.Millisecond)
		}
	} else {
		time.Sleep(time.Duration(rng.Intn(2500)) * time.Microsecond)
	}
	returned := make(chan bool, 1)
	var panics int32
	go func() {
		p, _ := Catch(func() {
			if seed%2 == 0 {
				srv.Shutdown() // the alias
			} else {
				srv.Close()
			}
		})
		if p {
			atomic.AddInt32(&panics, 1)
		}
		returned <- true
	}()
	ret, stuck, inconcl := 0, 0, 0
	select {
	case <-returned:
		ret = 1
	case <-time.After(6 * time.Second):
		var parts []string
		for _, g := range allStacks() {
			if strings.Contains(g.text, "(*TcpServer).serve") || strings.Contains(g.text, "(*TcpServer).Close") {
				fn := "serve"
				if strings.Contains(g.text, "(*TcpServer).Close") {
					fn = "Close"
				}
				parts = append(parts, fn+":"+g.status)
			}
		}
		sum := strings.Join(parts, ",")
		if strings.Contains(sum, "serve:chan send") && strings.Contains(sum, "Close:") {
			stuck = 1
			notes = append(notes, "stuck: "+sum)
		} else {
			inconcl = 1
			notes = append(notes, "listener Close pending after 6s: "+sum)
		}
		// rescue: drain the backlog so that the process can go on
		go func() {
			for range backlog {
			}
		}()
		select {
		case <-returned:
		case <-time.After(5 * time.Second):
		}
	}
	dw.Wait()
	// after Close: the serve goroutines must be gone, dialing must fail, the backlog channel must be closed
	serveLeft := 0
	end := time.Now().Add(2 * time.Second)
	for {
		serveLeft = countStacks("(*TcpServer).serve")
		if serveLeft == 0 || time.Now().After(end) {
			break
		}
		time.Sleep(200 * time.Microsecond)
	}
	afterOK := 0
	if ret == 1 {
		for _, a := range addrs {
			if stillListening(a) {
				afterOK = 1
			}
		}
	}
	if drain == 1 {
		select {
		case <-drained:
		case <-time.After(3 * time.Second):
			if ret == 1 {
				inconcl = 1
				notes = append(notes, "backlog consumer did not see the channel closed within 3s")
			}
		}
	} else if ret == 1 && stuck == 0 {
		// nobody drained: take what is there; the channel must then report closed
		deadline := time.After(3 * time.Second)
	loop:
		for {
			select {
			case ep, ok := <-backlog:
				if !ok {
					atomic.StoreInt32(&bclosed, 1)
					break loop
				}
				atomic.AddInt32(&handed, 1)
				if c := ep.RawConn(); c != nil {
					c.Close()
				}
			case <-deadline:
				break loop
			}
		}
	}
	cmu.Lock()
	for _, c := range conns {
		c.Close()
	}
	cmu.Unlock()
	serveLeft += listenErrBad * 1000 // a failed Listen must not leave a serve goroutine / must fail
	return Ints(int64(ret), int64(atomic.LoadInt32(&panics)), int64(serveLeft), int64(atomic.LoadInt32(&handed)),
		int64(atomic.LoadInt32(&dialed)), int64(afterOK), int64(atomic.LoadInt32(&bclosed)), int64(inconcl), int64(stuck)), notes
}
