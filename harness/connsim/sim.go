// Package connsim drives one real qnet.TcpConn over loopback TCP for the C03/C04 checks.
//
// A scenario (Cfg) names the codec, cipher, queue capacities, the sender goroutines and
// their packets, the Close/ForceClose callers, what the peer sends, and a script.  Two
// modes:
//
//   - gated (Mode 1): every goroutine that touches the connection stops at every
//     verifPoint (and at the harness's own begin/return points) until the driver releases
//     it; the driver releases ONE goroutine at a time and then waits for quiescence, which
//     it reads off the runtime's goroutine states (at a gate, or parked in a channel /
//     WaitGroup / network wait), not off a timer.  The arrival order of the points is
//     therefore a linearisation of the steps, which Run.v replays through the Coq model.
//     A state in which nothing is at a gate, no environment action is owed and Close has
//     not returned is a stuck state, established from goroutine states (not a time-out).
//   - free (Mode 0): goroutines run at full speed (with seeded random delays at the
//     points); only safety facts and per-goroutine event logs are recorded; every
//     time-out is reported as inconclusive, never as a failure.
package connsim

import (
	"bytes"
	"errors"
	"fmt"
	"io"
	"net"
	"os"
	"runtime"
	"strconv"
	"strings"
	"sync"
	"sync/atomic"
	"syscall"
	"time"

	"qchen.fun/fatchoy"
	"qchen.fun/fatchoy/codec"
	"qchen.fun/fatchoy/packet"
	"qchen.fun/fatchoy/qnet"
	"qchen.fun/fatchoy/x/cipher"
	. "verifharness/common"
)

// ---------------------------------------------------------------- configuration

type PktSpec struct{ ID, Size int }

type InItem struct{ Kind, ID, Size int } // Kind 0 frame, 1 garbage (bad checksum), 2 EOF, 3 RST, 4 truncated frame then FIN, 5 header with an over-limit length, 7 a frame written (after idling 2/3 of the read time-out) in ONE write together with the first half of the next frame, 9 the first half of a frame and then silence, 8 that next frame, whose second half follows after another 2/3 of the time-out, 6 a frame written in two halves with a pause longer than the read time-out in between (the second half begins with a complete, valid frame)

type Dir struct{ Op, A, B int }

// script directives (Op)
const (
	DRun      = 1 // release thread A (thread ref), B times
	DUntil    = 2 // release thread A until its last point is B (at most 64 releases)
	DEnv      = 3 // environment op A (EvPeerWrite..), argument B
	DRand     = 4 // A random steps
	DFinish   = 5 // finishing policy: run everything to completion
	DStartAll = 6 // start all sender and closer goroutines (they stop at their begin gate)
)

// thread references used in scripts and events: kind*1000 + index
const (
	TSender = 0
	TWriter = 1
	TReader = 2
	TCloser = 3
	TFinal  = 4
	TEnv    = 5
)

// point codes (shared with coq/C03/Replay.v)
const (
	PSendBegin         = 1
	PSendChecked       = 2
	PSendRet           = 3
	PWriterDeq         = 10
	PWriteCounted      = 11
	PWriterWrote       = 12
	PWriterSawDone     = 13
	PFlushBegin        = 14
	PFlushDeq          = 15
	PFlushWrote        = 16
	PWriterFlushed     = 17
	PWriterExit        = 18
	PReaderFrame       = 20
	PReaderDelivered   = 21
	PReaderErr         = 22
	PReaderExit        = 23
	PReaderLoop        = 24
	PCloseBegin        = 30
	PCloseCas          = 31
	PCloseReadClosed   = 32
	PCloseDoneClosed   = 33
	PCloseNotified     = 34
	PCloseReturn       = 35
	PCloseRet          = 36
	PFcloseCas         = 40
	PFcloseReadClosed  = 41
	PFcloseDoneClosed  = 42
	PFcloseNotified    = 43
	PFcloseReturn      = 44
	PFinallyWaited     = 50
	PFinallyCloseWrite = 51
	PFinallyTeardown   = 52
	PFinallyDone       = 53
	EvPeerWrite        = 60
	EvInConsume        = 61
	EvInFill           = 62
	EvErrConsume       = 63
	EvErrFill          = 64
	EvPeerReset        = 65
)

var pointCodes = map[string]int{
	"send.checked": PSendChecked,
	"writer.deq":   PWriterDeq, "write.counted": PWriteCounted, "writer.wrote": PWriterWrote,
	"writer.sawdone": PWriterSawDone, "flush.begin": PFlushBegin, "flush.deq": PFlushDeq,
	"flush.wrote": PFlushWrote, "writer.flushed": PWriterFlushed, "writer.exit": PWriterExit,
	"reader.frame": PReaderFrame, "reader.delivered": PReaderDelivered, "reader.err": PReaderErr,
	"reader.exit": PReaderExit, "reader.loop": PReaderLoop,
	"close.cas": PCloseCas, "close.readclosed": PCloseReadClosed, "close.doneclosed": PCloseDoneClosed,
	"close.notified": PCloseNotified, "close.return": PCloseReturn,
	"fclose.cas": PFcloseCas, "fclose.readclosed": PFcloseReadClosed, "fclose.doneclosed": PFcloseDoneClosed,
	"fclose.notified": PFcloseNotified, "fclose.return": PFcloseReturn,
	"finally.waited": PFinallyWaited, "finally.closewrite": PFinallyCloseWrite,
	"finally.teardown": PFinallyTeardown, "finally.done": PFinallyDone,
}

type Cfg struct {
	Mode          int // 0 free, 1 gated
	Codec         int // 1 | 2
	Cipher        bool
	Ocap          int
	Icap          int
	Ecap          int // < 0: nil error channel
	HasWriter     bool
	HasReader     bool
	Senders       [][]PktSpec
	Closers       []bool // true: Close(), false: ForceClose(err)
	Input         []InItem
	PeerRead      int // free mode: 0 prompt, 1 slow, 2 only after the close began, 3 very slow (4 KiB per ms), 4 only after Close returned (and the GC cycles), 5 pauses longer than the idle limit (1.6 s), then drains
	InConsumer    int // 0 nobody drains inbound, 1 drained (free: goroutine; gated: finishing policy / script)
	Seed          uint64
	Script        []Dir
	CloseAfter    int // free mode: 0 close when all senders returned; 1 close concurrently with senders
	LateSend      int // after everything: number of extra SendPacket calls expected to be refused
	FailAfter     int // >= 0: the connection's socket is wrapped; every Write after the first FailAfter ones fails (-1: plain TCP conn)
	Immediate     int // free mode: Go(); SendPacket x N; Close() back to back on one goroutine, no settling, no perturbation
	MaxProcs      int // free mode: run the scenario with GOMAXPROCS set to this (0: leave)
	ReadTimeout   int // seconds for qnet.TConnReadTimeout during the scenario (0: 60)
	LateInput     int // free mode: the last LateInput items of Input are written only after the close began
	WaitInput     int // free mode: the closers start only after the peer has written all of its input (the peer is silent while we close)
	SmallBuf      int // 64 KiB socket buffers on both ends (a backlog stays in the kernel send queue)
	Transport     int // 0 loopback TCP, 1 unix domain socket
	ViaServer     int // 1: the connection is accepted by a qnet.TcpServer and the endpoint comes from its backlog channel
	GCAfter       int // free mode: after Close returned drop every reference to the endpoint and force two GC cycles before the (late) peer starts reading
	Reentrant     int // free mode: the LAST sender is driven by the inbound consumer (one reply per delivered packet, sent through pkt.Endpoint()), the LAST closer by the error-channel consumer (it calls Close on the error's endpoint)
	SendDelay     int // free mode: every sender waits this many ms before its first SendPacket
	ConsumerPause int // free mode: the inbound consumer sleeps this many ms before its first receive and again after it has taken Icap+1 packets, then drains
	BurstEvery    int // free mode: every sender pauses 3 ms after each BurstEvery packets (fill, drain, reuse)
	Chunked       int // free mode: the peer writes its input as one byte stream cut into random chunks (frames share segments / span segments)
}

func (c Cfg) Sx() Sx {
	var snd []Sx
	for _, s := range c.Senders {
		var l []Sx
		for _, p := range s {
			l = append(l, Ints(int64(p.ID), int64(p.Size)))
		}
		snd = append(snd, ListOf(l))
	}
	var cls []Sx
	for _, g := range c.Closers {
		cls = append(cls, Bool(g))
	}
	var in []Sx
	for _, it := range c.Input {
		in = append(in, Ints(int64(it.Kind), int64(it.ID), int64(it.Size)))
	}
	var sc []Sx
	for _, d := range c.Script {
		sc = append(sc, Ints(int64(d.Op), int64(d.A), int64(d.B)))
	}
	return List(Int(int64(c.Mode)), Int(int64(c.Codec)), Bool(c.Cipher), Int(int64(c.Ocap)), Int(int64(c.Icap)),
		Int(int64(c.Ecap)), Bool(c.HasWriter), Bool(c.HasReader), ListOf(snd), ListOf(cls), ListOf(in),
		Int(int64(c.PeerRead)), Int(int64(c.InConsumer)), Uint(c.Seed), ListOf(sc), Int(int64(c.CloseAfter)),
		Int(int64(c.LateSend)), Ints(int64(c.FailAfter), int64(c.Immediate), int64(c.MaxProcs), int64(c.ReadTimeout), int64(c.LateInput), int64(c.WaitInput), int64(c.SmallBuf), int64(c.Transport), int64(c.ViaServer), int64(c.GCAfter), int64(c.Chunked), int64(c.Reentrant), int64(c.BurstEvery), int64(c.ConsumerPause), int64(c.SendDelay)))
}

func CfgOfSx(s Sx) Cfg {
	var c Cfg
	c.Mode, c.Codec, c.Cipher = s.At(0).AsInt(), s.At(1).AsInt(), s.At(2).AsBool()
	c.Ocap, c.Icap, c.Ecap = s.At(3).AsInt(), s.At(4).AsInt(), s.At(5).AsInt()
	c.HasWriter, c.HasReader = s.At(6).AsBool(), s.At(7).AsBool()
	for _, sd := range s.At(8).L {
		var l []PktSpec
		for _, p := range sd.L {
			l = append(l, PktSpec{p.At(0).AsInt(), p.At(1).AsInt()})
		}
		c.Senders = append(c.Senders, l)
	}
	for _, g := range s.At(9).L {
		c.Closers = append(c.Closers, g.AsBool())
	}
	for _, it := range s.At(10).L {
		c.Input = append(c.Input, InItem{it.At(0).AsInt(), it.At(1).AsInt(), it.At(2).AsInt()})
	}
	c.PeerRead, c.InConsumer, c.Seed = s.At(11).AsInt(), s.At(12).AsInt(), s.At(13).Uint64()
	for _, d := range s.At(14).L {
		c.Script = append(c.Script, Dir{d.At(0).AsInt(), d.At(1).AsInt(), d.At(2).AsInt()})
	}
	c.CloseAfter, c.LateSend = s.At(15).AsInt(), s.At(16).AsInt()
	c.FailAfter = -1
	if s.Len() > 17 {
		x := s.At(17)
		c.FailAfter, c.Immediate, c.MaxProcs = x.At(0).AsInt(), x.At(1).AsInt(), x.At(2).AsInt()
		if x.Len() > 4 {
			c.ReadTimeout, c.LateInput = x.At(3).AsInt(), x.At(4).AsInt()
		}
		if x.Len() > 6 {
			c.WaitInput, c.SmallBuf = x.At(5).AsInt(), x.At(6).AsInt()
		}
		if x.Len() > 10 {
			c.Transport, c.ViaServer, c.GCAfter, c.Chunked = x.At(7).AsInt(), x.At(8).AsInt(), x.At(9).AsInt(), x.At(10).AsInt()
		}
		if x.Len() > 12 {
			c.Reentrant, c.BurstEvery = x.At(11).AsInt(), x.At(12).AsInt()
		}
		if x.Len() > 13 {
			c.ConsumerPause = x.At(13).AsInt()
		}
		if x.Len() > 14 {
			c.SendDelay = x.At(14).AsInt()
		}
	}
	return c
}

// ---------------------------------------------------------------- packets

func encoder(v int) codec.Encoder {
	if v == 2 {
		return codec.NewV2Encoder(0)
	}
	return codec.NewV1Encoder(0)
}

var testKey = []byte("0123456789abcdefFEDCBA9876543210")
var testIV = []byte("fedcba9876543210")

func newCryptor() cipher.BlockCryptor {
	return cipher.NewCrypt("aes-128", testKey, append([]byte(nil), testIV...))
}

// body of packet id: incompressible pseudo-random bytes determined by (id, size)
func bodyOf(id, size int) []byte {
	b := make([]byte, size)
	x := uint64(id)*0x9E3779B97F4A7C15 + 0x2545F4914F6CDD1D
	for i := range b {
		x ^= x << 13
		x ^= x >> 7
		x ^= x << 17
		b[i] = byte(x >> 32)
	}
	return b
}

func mkPacket(p PktSpec) *packet.Packet {
	return packet.New(int32(p.ID), uint16(p.ID), 0, bodyOf(p.ID, p.Size))
}

// frame size and encodability of a packet under the scenario's codec/cipher (oracle for the model)
func frameInfo(enc codec.Encoder, withCipher bool, p PktSpec) (int, bool) {
	var cr cipher.BlockCryptor
	if withCipher {
		cr = newCryptor()
	}
	var buf bytes.Buffer
	n, err := enc.WritePacket(&buf, cr, mkPacket(p))
	if err != nil {
		return 0, false
	}
	_ = n
	return buf.Len(), true
}

func encodeFrame(enc codec.Encoder, withCipher bool, p PktSpec) []byte {
	var cr cipher.BlockCryptor
	if withCipher {
		cr = newCryptor()
	}
	var buf bytes.Buffer
	if _, err := enc.WritePacket(&buf, cr, mkPacket(p)); err != nil {
		panic(err)
	}
	return buf.Bytes()
}

// halfCloser: what the harness needs from its own end of the connection (TCP or unix socket)
type halfCloser interface {
	net.Conn
	CloseWrite() error
}

func setLinger0(c net.Conn) {
	if t, ok := c.(*net.TCPConn); ok {
		t.SetLinger(0)
	}
}

// failConn wraps the connection's socket: the first `ok` Write calls go through, every later one
// fails without writing anything (an injected, deterministic write error).  It is deliberately
// not a *net.TCPConn: TcpConn then closes it with Close() instead of CloseRead/CloseWrite.
type failConn struct {
	net.Conn
	ok     int32
	writes int32
}

var errInjected = errors.New("verif: injected write failure")

func (c *failConn) Write(b []byte) (int, error) {
	if atomic.AddInt32(&c.writes, 1) > c.ok {
		return 0, errInjected
	}
	return c.Conn.Write(b)
}

// ---------------------------------------------------------------- threads, events, gates

type event struct {
	seq    int64
	thread int // kind*1000+idx
	point  int
	arg    int
}

type thread struct {
	ref      int
	gid      int64
	gate     chan struct{}
	atGate   bool
	last     int // last point code
	finished bool
	started  bool
	rng      *Rng
}

type Sim struct {
	cfg   Cfg
	mu    sync.Mutex
	seq   int64
	evs   []event
	thr   map[int64]*thread // by goroutine id
	byRef map[int]*thread
	nfin  int
	gated atomic.Bool
	conn  *qnet.TcpConn

	inbound chan fatchoy.IPacket
	errch   chan error

	peer      halfCloser
	peerBuf   bytes.Buffer
	peerMu    sync.Mutex
	peerEOF   atomic.Bool
	peerErr   atomic.Bool
	peerReset atomic.Bool
	peerDone  chan struct{}
	peerStart chan struct{} // closed when the peer may start reading (late mode)

	inputWritten   int32 // items written to the socket by the peer side
	partialWritten int32 // of which: incomplete frames (the reader keeps waiting for their rest)
	inputConsumed  int32 // reader.frame / reader.err events
	rdClosed       atomic.Bool

	results           [][][2]int // per sender: (id, code)
	closeRes          []int      // per closer: 0 not returned, 1 returned, 3 panicked
	panics            int32
	inconcl           []string
	stuck             int
	stuckWhat         string
	delivered         []int // ids received on inbound from this connection (by whoever consumed)
	badEndpoint       int
	foreignIn         int
	errGot            int
	errKind           int // kind of the terminal error (see noteErr)
	statsAccessorsBad int
	errForeign        int
	late              []int
	closeBegan        atomic.Bool
	current           int            // gated: ref of the thread released last (-1: environment step, -2: start-up)
	parked            map[int64]bool // gated: goroutines parked inside connection code at the last quiescence
	waited            bool           // finally() got past wg.Wait()
	pumpAfterWait     int            // pump events after that
	finalCounters     []int64
	finalState        int64
	finalDone         bool
	dropped           bool      // the endpoint was dropped and collected (GCAfter)
	noFin             int       // Terminated, no goroutine left, and the peer never saw end-of-stream
	wakeSince         time.Time // when the reader last got a reason to wake (input written / read side shut down)
	desync            int       // gated: arrivals that the serialization protocol cannot explain
	rng               *Rng
}

func goid() int64 {
	var b [64]byte
	n := runtime.Stack(b[:], false)
	// "goroutine 123 ["
	s := string(b[:n])
	s = strings.TrimPrefix(s, "goroutine ")
	i := strings.IndexByte(s, ' ')
	v, _ := strconv.ParseInt(s[:i], 10, 64)
	return v
}

func (sim *Sim) register(ref int) *thread {
	th := &thread{ref: ref, gid: goid(), gate: make(chan struct{}), rng: NewRng(sim.cfg.Seed*7919 + uint64(ref) + 1)}
	sim.mu.Lock()
	sim.thr[th.gid] = th
	sim.byRef[ref] = th
	sim.mu.Unlock()
	return th
}

// rebind gives the calling goroutine a new thread identity (immediate scenarios: the same
// goroutine first plays the sender, then the closer)
func (sim *Sim) rebind(ref int) *thread {
	gid := goid()
	th := &thread{ref: ref, gid: gid, gate: make(chan struct{}), rng: NewRng(sim.cfg.Seed*7919 + uint64(ref) + 1)}
	sim.mu.Lock()
	if old := sim.thr[gid]; old != nil {
		old.finished = true
	}
	sim.thr[gid] = th
	sim.byRef[ref] = th
	sim.mu.Unlock()
	return th
}

// role of an unregistered goroutine hitting a point
func (sim *Sim) adopt(gid int64, point int) *thread {
	var ref int
	switch {
	case point >= 10 && point < 20:
		ref = TWriter * 1000
	case point >= 20 && point < 30, point >= 40 && point < 50:
		ref = TReader * 1000
	case point >= 50 && point < 60:
		ref = TFinal*1000 + sim.nfin
		sim.nfin++
	default:
		ref = 9000 + int(gid%1000)
	}
	th := &thread{ref: ref, gid: gid, gate: make(chan struct{}), rng: NewRng(sim.cfg.Seed*7919 + uint64(ref) + 1)}
	sim.thr[gid] = th
	sim.byRef[ref] = th
	return th
}

// point is called on the goroutine that reached a schedule point
func (sim *Sim) point(code, arg int) {
	gid := goid()
	sim.mu.Lock()
	th := sim.thr[gid]
	isNew := false
	if th == nil {
		th = sim.adopt(gid, code)
		isNew = true
	}
	if sim.gated.Load() && sim.current != -2 && !isNew && th.ref != sim.current && !sim.parked[gid] {
		// neither the released thread nor one that was parked in connection code: two
		// goroutines ran at the same time, the arrival order is not a linearisation
		sim.desync++
	}
	sim.seq++
	sim.evs = append(sim.evs, event{sim.seq, th.ref, code, arg})
	th.last = code
	if code == PFinallyWaited {
		sim.waited = true
	}
	if sim.waited && (code == PReaderFrame || code == PReaderErr || code == PReaderLoop || code == PReaderDelivered ||
		code == PWriterDeq || code == PFlushDeq || code == PWriterSawDone) {
		// a pump is still working although wg.Wait() in finally() has returned
		sim.pumpAfterWait++
	}
	if code == PReaderFrame || code == PReaderErr {
		atomic.AddInt32(&sim.inputConsumed, 1)
	}
	if code == PCloseReadClosed || code == PFcloseReadClosed {
		sim.rdClosed.Store(true)
		sim.wakeSince = time.Now()
	}
	if code == PCloseCas || code == PFcloseCas {
		sim.closeBegan.Store(true)
	}
	gated := sim.gated.Load()
	if gated {
		th.atGate = true
	}
	sim.mu.Unlock()
	if gated {
		<-th.gate
	} else if sim.cfg.Mode == 0 && sim.cfg.Immediate == 0 {
		// seeded random perturbation of the schedule
		switch th.rng.Intn(8) {
		case 0:
			runtime.Gosched()
		case 1:
			time.Sleep(time.Duration(th.rng.Intn(200)) * time.Microsecond)
		}
	}
}

func (sim *Sim) hook(t *qnet.TcpConn, name string) {
	if sim.dropped || t != sim.conn {
		return
	}
	if c, ok := pointCodes[name]; ok {
		sim.point(c, 0)
	}
}

// release lets a gated thread run its next step
func (sim *Sim) release(th *thread) {
	sim.mu.Lock()
	sim.current = th.ref
	th.atGate = false
	sim.mu.Unlock()
	th.gate <- struct{}{}
}

// openGates switches to free running and releases everybody (used at the end / on abort)
func (sim *Sim) openGates() {
	sim.gated.Store(false)
	sim.mu.Lock()
	var l []*thread
	for _, th := range sim.thr {
		if th.atGate {
			th.atGate = false
			l = append(l, th)
		}
	}
	sim.mu.Unlock()
	for _, th := range l {
		select {
		case th.gate <- struct{}{}:
		case <-time.After(2 * time.Second):
		}
	}
}

// ---------------------------------------------------------------- goroutine states

type gstate struct {
	gid    int64
	status string
	text   string
}

func allStacks() []gstate {
	buf := make([]byte, 1<<16)
	for {
		n := runtime.Stack(buf, true)
		if n < len(buf) {
			buf = buf[:n]
			break
		}
		buf = make([]byte, 2*len(buf))
	}
	var res []gstate
	for _, blk := range strings.Split(string(buf), "\n\n") {
		if !strings.HasPrefix(blk, "goroutine ") {
			continue
		}
		hdr := blk
		if i := strings.IndexByte(blk, '\n'); i >= 0 {
			hdr = blk[:i]
		}
		rest := strings.TrimPrefix(hdr, "goroutine ")
		i := strings.IndexByte(rest, ' ')
		if i < 0 {
			continue
		}
		gid, _ := strconv.ParseInt(rest[:i], 10, 64)
		st := rest[i+1:]
		st = strings.TrimPrefix(st, "[")
		if j := strings.IndexAny(st, ",]"); j >= 0 {
			st = st[:j]
		}
		res = append(res, gstate{gid, st, blk})
	}
	return res
}

// isParked: the goroutine is parked in an operation that only another goroutine's step (or the
// network) can complete.  Whitelist: anything else (running, runnable, syscall, GC waits,
// sleep, scan states ...) means "still moving".
func isParked(status string) bool {
	switch status {
	case "chan receive", "chan send", "select", "semacquire", "IO wait",
		"sync.WaitGroup.Wait", "sync.Cond.Wait", "chan receive (nil chan)", "chan send (nil chan)", "select (no cases)",
		"sync.Mutex.Lock", "sync.RWMutex.Lock", "sync.RWMutex.RLock": // only counted when the lock is taken by connection code (parkedInConn)
		return true
	}
	return false
}

// parkedInConn: the innermost frame that is not runtime / standard library / codec code belongs
// to the connection (qnet.(*TcpConn).xxx): the goroutine is parked by an operation of the
// connection's own code (channel op, wg.Wait, socket read/write), not by something incidental
// (a runtime semaphore during GC or a stack dump, a harness mutex ...).
func parkedInConn(text string) bool {
	lines := strings.Split(text, "\n")
	for _, ln := range lines[1:] {
		if ln == "" || ln[0] == '\t' || strings.HasPrefix(ln, "created by") {
			continue
		}
		skip := false
		for _, pre := range []string{"runtime.", "sync.", "sync/atomic.", "internal/", "net.", "bufio.", "io.", "time.", "os.", "syscall.",
			"qchen.fun/fatchoy/codec.", "encoding/"} {
			if strings.HasPrefix(ln, pre) {
				skip = true
				break
			}
		}
		if skip {
			continue
		}
		return strings.HasPrefix(ln, "qchen.fun/fatchoy/qnet.")
	}
	return false
}

// quiet reports whether every goroutine that touches the connection is at a gate or
// parked in a blocking operation that only another step can complete.
func (sim *Sim) quiet() (bool, string) {
	gs := allStacks()
	sim.mu.Lock()
	defer sim.mu.Unlock()
	parked := map[int64]bool{}
	for _, g := range gs {
		th := sim.thr[g.gid]
		relevant := th != nil || strings.Contains(g.text, "qnet.(*TcpConn)")
		if !relevant {
			continue
		}
		if th != nil && (th.atGate || th.finished) {
			continue
		}
		if !isParked(g.status) || !parkedInConn(g.text) {
			return false, fmt.Sprintf("g%d %s", g.gid, g.status)
		}
		if g.status == "IO wait" {
			if strings.Contains(g.text, "(*TcpConn).readPump") {
				if atomic.LoadInt32(&sim.inputWritten)-atomic.LoadInt32(&sim.partialWritten) > atomic.LoadInt32(&sim.inputConsumed) || sim.rdClosed.Load() {
					// the kernel will wake it (data / EOF pending): wait for that, but not for ever — after
					// 2 s in the network wait it counts as parked (its step stays enabled in the model, so
					// the replay is unaffected; a Close waiting for it is then reported as stuck)
					if time.Since(sim.wakeSince) < 2*time.Second {
						return false, "reader about to wake"
					}
				}
				parked[g.gid] = true
				continue
			}
			return false, fmt.Sprintf("g%d in network wait", g.gid)
		}
		parked[g.gid] = true
	}
	sim.parked = parked
	return true, ""
}

func (sim *Sim) waitQuiet(d time.Duration) bool {
	deadline := time.Now().Add(d)
	n := 0
	for {
		ok, _ := sim.quiet()
		if ok {
			// confirm once more: a goroutine readied by the netpoller shows up as runnable
			runtime.Gosched()
			if ok2, _ := sim.quiet(); ok2 {
				return true
			}
		}
		if time.Now().After(deadline) {
			return false
		}
		n++
		if n < 50 {
			runtime.Gosched()
		} else {
			time.Sleep(50 * time.Microsecond)
		}
	}
}

func (sim *Sim) connState() int64 {
	if sim.dropped {
		return sim.finalState
	}
	return int64(sim.conn.VerifState())
}

// peerParked: the harness's peer-side reader is parked in the network wait
func (sim *Sim) peerParked() bool {
	for _, g := range allStacks() {
		if strings.Contains(g.text, "connsim.(*Sim).peerReader") {
			return g.status == "IO wait"
		}
	}
	return false
}

// describe the blocked connection goroutines (evidence for a stuck state)
func (sim *Sim) blockedSummary() string {
	var parts []string
	for _, g := range allStacks() {
		if !strings.Contains(g.text, "qnet.(*TcpConn)") {
			continue
		}
		fn := "?"
		for _, name := range []string{"readPump", "writePump", "finally", "Close", "ForceClose", "SendPacket"} {
			if strings.Contains(g.text, "(*TcpConn)."+name) {
				fn = name
				break
			}
		}
		sim.mu.Lock()
		th := sim.thr[g.gid]
		at := th != nil && th.atGate
		sim.mu.Unlock()
		if at {
			continue
		}
		parts = append(parts, fn+":"+g.status)
	}
	return strings.Join(parts, ",")
}

// ---------------------------------------------------------------- the scenario

func (sim *Sim) inconclusive(format string, a ...interface{}) {
	sim.mu.Lock()
	sim.inconcl = append(sim.inconcl, fmt.Sprintf(format, a...))
	sim.mu.Unlock()
}

func (sim *Sim) senderMain(i int) {
	th := sim.register(TSender*1000 + i)
	defer func() {
		sim.mu.Lock()
		th.finished = true
		sim.mu.Unlock()
	}()
	if sim.cfg.SendDelay > 0 && sim.cfg.Mode == 0 {
		time.Sleep(time.Duration(sim.cfg.SendDelay) * time.Millisecond)
	}
	for k, p := range sim.cfg.Senders[i] {
		if be := sim.cfg.BurstEvery; be > 0 && sim.cfg.Mode == 0 && k > 0 && k%be == 0 {
			time.Sleep(3 * time.Millisecond) // let the queue drain, then use it again
		}
		sim.point(PSendBegin, p.ID)
		pkt := mkPacket(p)
		code := 0
		panicked, _ := Catch(func() {
			err := sim.conn.SendPacket(pkt)
			switch err {
			case nil:
				code = 0
			case qnet.ErrConnIsClosing:
				code = 1
			case qnet.ErrConnOutboundOverflow:
				code = 2
			default:
				code = 4
			}
		})
		if panicked {
			code = 3
			atomic.AddInt32(&sim.panics, 1)
		}
		sim.mu.Lock()
		sim.results[i] = append(sim.results[i], [2]int{p.ID, code})
		sim.mu.Unlock()
		sim.point(PSendRet, code)
	}
}

var errForced = fmt.Errorf("verif: forced close")

func (sim *Sim) closerMain(j int) {
	th := sim.register(TCloser*1000 + j)
	defer func() {
		sim.mu.Lock()
		th.finished = true
		sim.mu.Unlock()
	}()
	sim.point(PCloseBegin, 0)
	res := 1
	panicked, _ := Catch(func() {
		if sim.cfg.Closers[j] {
			sim.conn.Close()
		} else {
			sim.conn.ForceClose(errForced)
		}
	})
	if panicked {
		res = 3
		atomic.AddInt32(&sim.panics, 1)
	}
	sim.mu.Lock()
	sim.closeRes[j] = res
	sim.mu.Unlock()
	sim.point(PCloseRet, res)
}

func (sim *Sim) peerReader(slowUs int) {
	defer close(sim.peerDone)
	<-sim.peerStart
	buf := make([]byte, 32*1024)
	if sim.cfg.PeerRead == 3 { // very slow reader: 4 KiB per millisecond
		buf = buf[:4096]
		slowUs = 1000
	}
	for {
		sim.peer.SetReadDeadline(time.Now().Add(dl(20 * time.Second)))
		n, err := sim.peer.Read(buf)
		if n > 0 {
			sim.peerMu.Lock()
			sim.peerBuf.Write(buf[:n])
			sim.peerMu.Unlock()
		}
		if err != nil {
			if err == io.EOF {
				sim.peerEOF.Store(true)
			} else {
				sim.peerErr.Store(true)
				if errors.Is(err, syscall.ECONNRESET) {
					sim.peerReset.Store(true) // the connection answered with RST instead of FIN
				}
			}
			return
		}
		if slowUs > 0 {
			time.Sleep(time.Duration(slowUs) * time.Microsecond)
		}
	}
}

// environment operations (performed by the driver goroutine; logged as events of thread TEnv)
func (sim *Sim) envEvent(code, arg int) {
	sim.mu.Lock()
	sim.current = -1
	sim.seq++
	sim.evs = append(sim.evs, event{sim.seq, TEnv * 1000, code, arg})
	sim.mu.Unlock()
}

func (sim *Sim) peerWriteItem(idx int, enc codec.Encoder) bool {
	if idx >= len(sim.cfg.Input) {
		return false
	}
	it := sim.cfg.Input[idx]
	switch it.Kind {
	case 0:
		sim.peer.Write(encodeFrame(enc, sim.cfg.Cipher, PktSpec{it.ID, it.Size}))
	case 1:
		f := encodeFrame(enc, false, PktSpec{it.ID, it.Size})
		f[len(f)-1] ^= 0x5a // body byte (or checksum byte for an empty body): checksum mismatch
		sim.peer.Write(f)
	case 2:
		sim.peer.CloseWrite()
	case 4:
		f := encodeFrame(enc, false, PktSpec{it.ID, it.Size + 8})
		sim.peer.Write(f[:len(f)-3])
		sim.peer.CloseWrite()
	case 9:
		// the first part of a frame (header incomplete, or header + part of the body), then silence
		f := encodeFrame(enc, sim.cfg.Cipher, PktSpec{it.ID, it.Size})
		n := len(f) / 2
		if it.Size == 0 || n < 1 {
			n = 5
		}
		sim.peer.Write(f[:n])
		atomic.AddInt32(&sim.partialWritten, 1)
	case 7, 8:
		to := sim.cfg.ReadTimeout
		if to <= 0 {
			to = 60
		}
		pause := time.Duration(to) * time.Second * 2 / 3
		t0 := time.Now()
		time.Sleep(pause)
		f := encodeFrame(enc, sim.cfg.Cipher, PktSpec{it.ID, it.Size})
		if it.Kind == 7 && idx+1 < len(sim.cfg.Input) {
			nx := sim.cfg.Input[idx+1]
			g := encodeFrame(enc, sim.cfg.Cipher, PktSpec{nx.ID, nx.Size})
			sim.peer.Write(append(append([]byte(nil), f...), g[:len(g)/2]...)) // A and the first half of B in ONE write
		} else if it.Kind == 8 {
			sim.peer.Write(f[len(f)/2:]) // the rest of B
		} else {
			sim.peer.Write(f)
		}
		if time.Since(t0) > time.Duration(to)*time.Second*9/10 {
			sim.inconclusive("the harness itself paused longer than 0.9 x the read time-out")
		}
	case 6:
		// outer frame: header announcing a body of junk(8) + an embedded valid frame + 6 more bytes
		g := encodeFrame(enc, sim.cfg.Cipher, PktSpec{it.ID + 100000, it.Size})
		outer := encodeFrame(enc, false, PktSpec{it.ID, 8 + len(g) + 6})
		hdr := len(outer) - (8 + len(g) + 6)
		sim.peer.Write(outer[:hdr+8]) // header + the first 8 body bytes, then silence
		to := sim.cfg.ReadTimeout
		if to <= 0 {
			to = 60
		}
		time.Sleep(time.Duration(to)*time.Second + 400*time.Millisecond)
		sim.peer.Write(g)
	case 5:
		f := encodeFrame(enc, false, PktSpec{it.ID, it.Size})
		if sim.cfg.Codec == 2 {
			f[0], f[1], f[2] = 0xff, 0xff, 0xff
		} else {
			f[0], f[1] = 0xff, 0xff
		}
		sim.peer.Write(f)
	case 3:
		setLinger0(sim.peer)
		sim.peer.Close()
	}
	sim.mu.Lock()
	sim.wakeSince = time.Now()
	sim.mu.Unlock()
	atomic.AddInt32(&sim.inputWritten, 1)
	return true
}

func (sim *Sim) takeInbound() bool {
	select {
	case p := <-sim.inbound:
		sim.noteInbound(p)
		return true
	default:
		return false
	}
}

func (sim *Sim) noteInbound(p fatchoy.IPacket) {
	sim.mu.Lock()
	defer sim.mu.Unlock()
	if p == nil {
		return
	}
	if p.Command() < 0 {
		sim.foreignIn++
		return
	}
	sim.delivered = append(sim.delivered, int(p.Command()))
	if ep, ok := p.Endpoint().(*qnet.TcpConn); !ok || ep != sim.conn {
		sim.badEndpoint++
	}
	// body integrity
	if b, ok := p.(*packet.Packet); ok {
		want := sim.inputSize(int(p.Command()))
		if body, ok2 := b.Body_.([]byte); want >= 0 && (!ok2 && want > 0 || ok2 && !bytes.Equal(body, bodyOf(int(p.Command()), want))) {
			sim.badEndpoint += 1000
		}
	}
}

func (sim *Sim) inputSize(id int) int {
	for _, it := range sim.cfg.Input {
		if (it.Kind == 0 || it.Kind == 7 || it.Kind == 8) && it.ID == id {
			return it.Size
		}
	}
	return -1
}

func (sim *Sim) takeErr() bool {
	if sim.errch == nil {
		return false
	}
	select {
	case e := <-sim.errch:
		sim.noteErr(e)
		return true
	default:
		return false
	}
}

func (sim *Sim) noteErr(e error) {
	sim.mu.Lock()
	defer sim.mu.Unlock()
	if qe, ok := e.(*qnet.Error); ok && qe.Endpoint == fatchoy.Endpoint(sim.conn) {
		sim.errGot++
		// which error: 1 Close's ErrConnForceClose, 2 the error the harness passed to ForceClose, 3 a read error
		switch qe.Err {
		case qnet.ErrConnForceClose:
			sim.errKind = 1
		case errForced:
			sim.errKind = 2
		default:
			sim.errKind = 3
		}
		// the error must be printable at any time (it outlives the connection's teardown)
		if p, _ := Catch(func() {
			if txt := qe.Error(); !strings.Contains(txt, qe.Endpoint.RemoteAddr()) {
				sim.errKind += 10
			}
		}); p {
			sim.errKind += 20
		}
	} else {
		sim.errForeign++
	}
}

type foreignErr struct{}

func (foreignErr) Error() string { return "foreign" }

// Run executes one scenario and returns what was observed, plus human-readable notes
// (inconclusive observations, stuck-state evidence).
func Run(cfg Cfg) (Sx, []string) {
	if cfg.Mode == 0 && cfg.MaxProcs > 0 {
		defer runtime.GOMAXPROCS(runtime.GOMAXPROCS(cfg.MaxProcs))
	}
	sx, sim := run(cfg)
	for try := 0; sim == nil && try < 3; try++ {
		time.Sleep(200 * time.Millisecond)
		sx, sim = run(cfg)
	}
	if sim == nil {
		// could not even set up a loopback connection: a well-formed, inconclusive observation
		e := ListOf(nil)
		return List(e, e, e, e, e, Ints(0, 0, 0, 0), Ints(0, 0, 0, 0), e, Ints(0, 0), Ints(0, 0), e, Ints(0, 0, 0), Ints(1, 0, 0), e),
			[]string{"setup failed: no loopback connection"}
	}
	var notes []string
	notes = append(notes, sim.inconcl...)
	if sim.stuckWhat != "" {
		notes = append(notes, sim.stuckWhat)
	}
	return sx, notes
}

func run(cfg Cfg) (Sx, *Sim) {
	sim := &Sim{cfg: cfg, thr: map[int64]*thread{}, byRef: map[int]*thread{}, rng: NewRng(cfg.Seed), current: -2, parked: map[int64]bool{}}
	sim.results = make([][][2]int, len(cfg.Senders))
	sim.closeRes = make([]int, len(cfg.Closers))
	enc := encoder(cfg.Codec)

	// oracle: frame size / encodability of every packet (both directions)
	var oracle []Sx
	for _, sd := range cfg.Senders {
		for _, p := range sd {
			n, ok := frameInfo(enc, cfg.Cipher, p)
			oracle = append(oracle, List(Int(int64(p.ID)), Int(int64(n)), Bool(ok)))
		}
	}
	var inOracle []Sx
	for _, it := range cfg.Input {
		if it.Kind == 0 || it.Kind == 7 || it.Kind == 8 {
			n, _ := frameInfo(enc, cfg.Cipher, PktSpec{it.ID, it.Size})
			inOracle = append(inOracle, List(Int(int64(it.ID)), Int(int64(n))))
		}
	}

	// ---- the connection: transport (loopback TCP / unix socket), who accepts it (the harness / a
	// qnet.TcpServer), optionally wrapped in a net.Conn that is not a *net.TCPConn
	sim.inbound = make(chan fatchoy.IPacket, cfg.Icap)
	if cfg.Ecap >= 0 {
		sim.errch = make(chan error, cfg.Ecap)
	}
	network, addr := "tcp", "127.0.0.1:0"
	if cfg.Transport == 1 {
		dir, err := os.MkdirTemp("", "connsim")
		if err != nil {
			return List(Int(-1)), nil
		}
		defer os.RemoveAll(dir)
		network, addr = "unix", dir+"/s"
	}
	var srv net.Conn
	var server *qnet.TcpServer
	if cfg.ViaServer == 1 {
		server = qnet.NewTcpServer(enc, sim.inbound, cfg.Ocap)
		addr = ""
		for try := 0; try < 20 && addr == ""; try++ {
			a := freeAddr()
			if server.Listen(a) == nil {
				addr = a
			}
		}
		if addr == "" {
			return List(Int(-1)), nil
		}
		sim.errch = server.ErrorChan()
		pc, err := net.DialTimeout("tcp", addr, 5*time.Second)
		if err != nil {
			return List(Int(-1)), nil
		}
		sim.peer = pc.(*net.TCPConn)
		select {
		case ep := <-server.BacklogChan():
			sim.conn = ep.(*qnet.TcpConn)
			srv = ep.RawConn()
		case <-time.After(5 * time.Second):
			pc.Close()
			return List(Int(-1)), nil
		}
	} else {
		ln, err := net.Listen(network, addr)
		if err != nil {
			return List(Int(-1)), nil
		}
		defer ln.Close()
		type acc struct {
			c   net.Conn
			err error
		}
		ach := make(chan acc, 1)
		go func() { c, e := ln.Accept(); ach <- acc{c, e} }()
		pc, err := net.DialTimeout(network, ln.Addr().String(), 5*time.Second)
		if err != nil {
			return List(Int(-1)), nil
		}
		a := <-ach
		if a.err != nil {
			pc.Close()
			return List(Int(-1)), nil
		}
		sim.peer = pc.(halfCloser)
		srv = a.c
	}
	rawSrv := srv
	defer func() { // no TIME_WAIT pile-up: thousands of scenarios per run
		setLinger0(sim.peer)
		sim.peer.Close()
		if cfg.GCAfter == 0 {
			setLinger0(rawSrv)
			rawSrv.Close()
		}
	}()
	if cfg.SmallBuf == 1 {
		if t, ok := srv.(*net.TCPConn); ok {
			t.SetWriteBuffer(64 * 1024)
		}
		if t, ok := sim.peer.(*net.TCPConn); ok {
			t.SetReadBuffer(64 * 1024)
		}
	}
	if sim.conn == nil {
		var sock net.Conn = srv
		if cfg.FailAfter >= 0 {
			sock = &failConn{Conn: srv, ok: int32(cfg.FailAfter)}
		} else if cfg.FailAfter == -2 { // wrapped (as a TLS / metering layer would), never failing
			sock = &failConn{Conn: srv, ok: 1 << 30}
		}
		sim.conn = qnet.NewTcpConn(fatchoy.NodeID(0x010001), sock, enc, sim.errch, sim.inbound, cfg.Ocap, nil)
	}
	if cfg.GCAfter == 1 {
		srv, rawSrv = nil, nil // the endpoint will be the only owner of the socket
	}
	if cfg.Cipher {
		sim.conn.SetEncryptPair(newCryptor(), newCryptor())
	}
	oldTimeout := qnet.TConnReadTimeout
	qnet.TConnReadTimeout = 60
	if cfg.ReadTimeout > 0 {
		qnet.TConnReadTimeout = cfg.ReadTimeout
	}
	defer func() { qnet.TConnReadTimeout = oldTimeout }()

	sim.peerDone = make(chan struct{})
	sim.peerStart = make(chan struct{})
	qnet.VerifSetHook(sim.hook)
	defer qnet.VerifSetHook(nil)

	if cfg.Mode == 1 {
		sim.runGated(enc)
	} else {
		sim.runFree(enc)
	}

	// ---- collect
	// wait for the peer to see the end of the stream (bounded).  A time-out is inconclusive,
	// unless nothing is left that could still send the FIN: the connection is Terminated and
	// none of its goroutines is alive (then the write side was never shut down).
	deadline := time.Now().Add(dl(4 * time.Second))
	if sim.stuck == 1 {
		deadline = time.Now().Add(200 * time.Millisecond)
	}
	seen := 0
waitEOF:
	for {
		select {
		case <-sim.peerDone:
			break waitEOF
		case <-time.After(100 * time.Millisecond):
		}
		// evidence, not a timer: the connection is Terminated, none of its goroutines is left and
		// the peer's reader is parked in the network wait (nothing more is coming, not even a FIN)
		if sim.connState() == 4 && !sim.pumpsAlive() && sim.peerParked() {
			seen++
			if seen >= 3 {
				sim.noFin = 1
				sim.peer.SetReadDeadline(time.Now())
				<-sim.peerDone
				break waitEOF
			}
		} else {
			seen = 0
		}
		if time.Now().After(deadline) {
			if sim.stuck == 0 {
				sim.inconclusive("peer did not observe end-of-stream within 4s")
			}
			sim.peer.SetReadDeadline(time.Now())
			<-sim.peerDone
			break waitEOF
		}
	}
	// drain the channels
	for sim.takeInbound() {
	}
	for sim.takeErr() {
	}
	// late sends: must be refused
	for k := 0; k < cfg.LateSend && !sim.dropped && sim.stuck == 0; k++ {
		code := 0
		ret := make(chan struct{})
		go func() {
			defer close(ret)
			p, _ := Catch(func() {
				switch sim.conn.SendPacket(mkPacket(PktSpec{900000 + k, 8})) {
				case nil:
					code = 0
				case qnet.ErrConnIsClosing:
					code = 1
				case qnet.ErrConnOutboundOverflow:
					code = 2
				default:
					code = 4
				}
			})
			if p {
				code = 3
			}
		}()
		select {
		case <-ret:
		case <-time.After(dl(3 * time.Second)):
			// SendPacket has not returned: a finding only if its goroutine is parked inside it
			code = 6 // inconclusive
			for _, g := range allStacks() {
				if strings.Contains(g.text, "(*TcpConn).SendPacket") && isParked(g.status) && parkedInConn(g.text) {
					code = 5 // blocked
					sim.mu.Lock()
					sim.stuckWhat = "stuck: SendPacket:" + g.status
					sim.mu.Unlock()
				}
			}
			if code == 6 {
				sim.inconclusive("a late SendPacket did not return within 3s")
			}
		}
		sim.late = append(sim.late, code)
		if code >= 5 {
			break
		}
	}
	return sim.observed(enc, oracle, inOracle), sim
}

func (sim *Sim) observed(enc codec.Encoder, oracle, inOracle []Sx) Sx {
	cfg := sim.cfg
	// decode what the peer received with the real codec
	sim.peerMu.Lock()
	data := append([]byte(nil), sim.peerBuf.Bytes()...)
	sim.peerMu.Unlock()
	var wire []Sx
	rd := bytes.NewReader(data)
	garbage := 0
	var dec cipher.BlockCryptor
	if cfg.Cipher {
		dec = newCryptor()
	}
	for rd.Len() > 0 {
		before := rd.Len()
		pkt := packet.Make()
		var derr error
		if p, _ := Catch(func() { derr = enc.ReadPacket(rd, dec, pkt) }); p || derr != nil {
			garbage = 1
			break
		}
		n := before - rd.Len()
		id := int(pkt.Command())
		okBody := 0
		if body, ok := pkt.Body_.([]byte); ok || pkt.Body_ == nil {
			sz := sim.specSize(id)
			if sz >= 0 && bytes.Equal(body, bodyOf(id, sz)) && int(pkt.Seq()) == id&0xffff {
				okBody = 1
			}
		}
		wire = append(wire, Ints(int64(id), int64(n), int64(okBody)))
	}
	var evs []Sx
	sim.mu.Lock()
	for _, e := range sim.evs {
		evs = append(evs, Ints(int64(e.thread/1000), int64(e.thread%1000), int64(e.point), int64(e.arg)))
	}
	var res []Sx
	for _, r := range sim.results {
		var l []Sx
		for _, x := range r {
			l = append(l, Ints(int64(x[0]), int64(x[1])))
		}
		res = append(res, ListOf(l))
	}
	var cres []int64
	for _, r := range sim.closeRes {
		cres = append(cres, int64(r))
	}
	var deliv []int64
	for _, d := range sim.delivered {
		deliv = append(deliv, int64(d))
	}
	var late []int64
	for _, d := range sim.late {
		late = append(late, int64(d))
	}
	ninc := len(sim.inconcl)
	sim.mu.Unlock()
	var counters Sx
	state, doneClosed := int64(0), false
	if sim.dropped {
		counters, state, doneClosed = Ints(sim.finalCounters...), sim.finalState, sim.finalDone
	} else {
		st := sim.conn.Stats()
		counters = Ints(st.Get(qnet.StatPacketsSent), st.Get(qnet.StatBytesSent), st.Get(qnet.StatPacketsRecv), st.Get(qnet.StatBytesRecv))
		// the same through the other accessors of the library (Copy, Clone, reading twice, out of range)
		cp, cl := st.Copy(), st.Clone()
		if len(cp) != qnet.NumStat || cp[qnet.StatPacketsSent] != st.Get(qnet.StatPacketsSent) || cp[qnet.StatBytesSent] != st.Get(qnet.StatBytesSent) ||
			cp[qnet.StatPacketsRecv] != st.Get(qnet.StatPacketsRecv) || cp[qnet.StatBytesRecv] != st.Get(qnet.StatBytesRecv) ||
			cl.Get(qnet.StatBytesSent) != cp[qnet.StatBytesSent] || cl.Get(qnet.StatPacketsRecv) != cp[qnet.StatPacketsRecv] ||
			st.Get(-1) != 0 || st.Get(qnet.NumStat) != 0 || st.Add(qnet.NumStat, 5) != 0 || st.Get(qnet.StatBytesSent) != cp[qnet.StatBytesSent] {
			sim.statsAccessorsBad = 1
		}
		state, doneClosed = int64(sim.conn.VerifState()), sim.conn.VerifDoneClosed()
	}
	return List(
		ListOf(oracle),   // 0 (id framesize ok)
		ListOf(inOracle), // 1 (id framesize)
		ListOf(evs),      // 2 events in arrival order
		ListOf(res),      // 3 per-sender results
		ListOf(wire),     // 4 what the peer received (id n bodyok)
		Ints(int64(garbage), b2i(sim.peerEOF.Load()), b2i(sim.peerErr.Load()), int64(sim.noFin), b2i(sim.peerReset.Load())), // 5
		counters,       // 6
		Ints(deliv...), // 7
		Ints(int64(sim.badEndpoint), int64(sim.foreignIn), int64(sim.statsAccessorsBad)), // 8
		Ints(int64(sim.errGot), int64(sim.errForeign), int64(sim.errKind)),               // 9
		Ints(cres...), // 10
		Ints(int64(atomic.LoadInt32(&sim.panics)), state, b2i(doneClosed)), // 11
		Ints(int64(ninc), int64(sim.stuck), int64(sim.pumpAfterWait)),      // 12 inconclusive observations, stuck state established, pump events after wg.Wait returned
		Ints(late...), // 13
	)
}

func b2i(b bool) int64 {
	if b {
		return 1
	}
	return 0
}

func (sim *Sim) specSize(id int) int {
	for _, sd := range sim.cfg.Senders {
		for _, p := range sd {
			if p.ID == id {
				return p.Size
			}
		}
	}
	return -1
}
