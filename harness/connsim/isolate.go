package connsim

import (
	"bufio"
	"bytes"
	"fmt"
	"os"
	"os/exec"
	"strings"
	"sync"
	"time"

	. "verifharness/common"
)

// Every scenario runs in a child process (the harness binary re-executed with
// CONNSIM_CHILD=1): a panic on a goroutine of the code under test (which no wrapper can
// recover) kills the child only, and is recorded as an observed outcome of that scenario.

// RunAny dispatches on the scenario mode (in-process).
func RunAny(in Sx) (Sx, []string) {
	switch in.At(0).AsInt() {
	case 2:
		return RunListener(in)
	case 3:
		return RunBurst(in)
	case 4:
		return RunServer(in)
	case 5:
		return RunRelay(in)
	}
	return Run(CfgOfSx(in))
}

// ChildMain: if this process is a scenario child, run the scenario read from stdin, print the
// observation and exit.  Call it first thing in main().
func ChildMain() {
	if os.Getenv("CONNSIM_CHILD") == "" {
		return
	}
	if os.Getenv("CONNSIM_FAST") != "" {
		deadlineDiv = 4
	}
	sc := bufio.NewScanner(os.Stdin)
	sc.Buffer(make([]byte, 1<<20), 1<<28)
	w := bufio.NewWriterSize(os.Stdout, 1<<20)
	for sc.Scan() {
		line := strings.TrimSpace(sc.Text())
		if line == "" {
			continue
		}
		in, err := Parse(line)
		if err != nil {
			os.Exit(4)
		}
		obs, notes := RunAny(in)
		for _, n := range notes {
			fmt.Fprintf(w, "NOTE %s\n", strings.ReplaceAll(n, "\n", " "))
		}
		fmt.Fprintf(w, "OBS %s\n", obs.String())
		if len(notes) > 0 {
			// stuck / inconclusive scenario: goroutines of its connection may linger; let the
			// remaining scenarios of the batch start in a fresh process
			fmt.Fprintf(w, "BYE\n")
			w.Flush()
			os.Exit(0)
		}
		w.Flush()
	}
	os.Exit(0)
}

func crashObservation(in Sx) Sx {
	e := ListOf(nil)
	switch in.At(0).AsInt() {
	case 2:
		return Ints(0, 1, 0, 0, 0, 0, 0, 0, 0)
	case 3:
		return Ints(0, 1, 0, 0, 0, 0, 0, 0)
	case 4:
		return List(ListOf(nil), Ints(0, 0, 1, 0))
	case 5:
		return List(ListOf(nil), ListOf(nil), ListOf(nil), ListOf(nil), Ints(0, 0, 1, 0))
	}
	// connection scenario: nothing observed except that the process died (panics = 1)
	return List(e, e, e, e, e, Ints(0, 0, 0, 0), Ints(0, 0, 0, 0), e, Ints(0, 0), Ints(0, 0), e, Ints(1, 0, 0), Ints(0, 0, 0), e)
}

func timeoutObservation(in Sx) Sx {
	e := ListOf(nil)
	switch in.At(0).AsInt() {
	case 2:
		return Ints(0, 0, 0, 0, 0, 0, 0, 1, 0)
	case 3:
		return Ints(0, 0, 0, 0, 0, 0, 1, 0)
	case 4:
		return List(ListOf(nil), Ints(0, 0, 0, 1))
	case 5:
		return List(ListOf(nil), ListOf(nil), ListOf(nil), ListOf(nil), Ints(0, 0, 0, 1))
	}
	return List(e, e, e, e, e, Ints(0, 0, 0, 0), Ints(0, 0, 0, 0), e, Ints(0, 0), Ints(0, 0), e, Ints(0, 0, 0), Ints(1, 0, 0), e)
}

// deadlineDiv divides every observation deadline (1 normally, 4 in fast mode).
var deadlineDiv = 1

func dl(d time.Duration) time.Duration { return d / time.Duration(deadlineDiv) }

// Result of one scenario.
type Result struct {
	Obs   Sx
	Notes []string
}

// RunIsolated runs one scenario in a child process.
func RunIsolated(in Sx) (Sx, []string) {
	r := RunBatch([]Sx{in})
	return r[0].Obs, r[0].Notes
}

// RunBatch runs the scenarios in child processes, several per child; when a child dies the
// scenario it was running is recorded as crashed and the rest continues in a new child.
func RunBatch(ins []Sx) []Result {
	res := make([]Result, len(ins))
	if os.Getenv("CONNSIM_INPROCESS") != "" {
		for i, in := range ins {
			o, n := RunAny(in)
			res[i] = Result{o, n}
		}
		return res
	}
	exe, err := os.Executable()
	if err != nil {
		for i, in := range ins {
			o, n := RunAny(in)
			res[i] = Result{o, n}
		}
		return res
	}
	// two children at a time (gated scenarios are latency-bound, not CPU-bound); the scenarios of
	// a batch run in order inside their child
	const batch = 8
	type span struct{ from, to int }
	var spans []span
	for i := 0; i < len(ins); i += batch {
		e := i + batch
		if e > len(ins) {
			e = len(ins)
		}
		spans = append(spans, span{i, e})
	}
	var mu sync.Mutex
	troubled := 0
	work := make(chan span, len(spans))
	for _, sp := range spans {
		work <- sp
	}
	close(work)
	var wg sync.WaitGroup
	workers := 2
	if os.Getenv("CONNSIM_WORKERS") == "1" {
		workers = 1
	}
	for w := 0; w < workers; w++ {
		wg.Add(1)
		go func() {
			defer wg.Done()
			for sp := range work {
				next := sp.from
				for next < sp.to {
					// several scenarios already ran into deadlines (stuck / inconclusive): do not let the
					// rest of the run spend the whole budget waiting — shorter deadlines (they only ever
					// turn an observation into "inconclusive", never into a finding)
					mu.Lock()
					fast := troubled >= 4
					mu.Unlock()
					got, crashNote, timedOut, bye := runChild(exe, ins[next:sp.to], fast)
					for k, r := range got {
						res[next+k] = r
						if len(r.Notes) > 0 {
							mu.Lock()
							troubled++
							mu.Unlock()
						}
					}
					next += len(got)
					if next < sp.to && bye && len(got) > 0 {
						continue // the child left voluntarily after a stuck / inconclusive scenario
					}
					if next < sp.to {
						// the child stopped inside scenario `next`
						if timedOut {
							res[next] = Result{timeoutObservation(ins[next]), []string{"scenario process killed after the deadline"}}
						} else {
							res[next] = Result{crashObservation(ins[next]), []string{crashNote}}
						}
						next++
					}
				}
			}
		}()
	}
	wg.Wait()
	return res
}

func runChild(exe string, ins []Sx, fast bool) (got []Result, crashNote string, timedOut bool, bye bool) {
	var input strings.Builder
	for _, in := range ins {
		input.WriteString(in.String())
		input.WriteByte('\n')
	}
	cmd := exec.Command(exe)
	cmd.Env = append(os.Environ(), "CONNSIM_CHILD=1")
	if fast {
		cmd.Env = append(cmd.Env, "CONNSIM_FAST=1")
	}
	cmd.Stdin = strings.NewReader(input.String())
	var stdout, stderr bytes.Buffer
	cmd.Stdout = &stdout
	cmd.Stderr = &stderr
	if err := cmd.Start(); err != nil {
		for _, in := range ins {
			o, n := RunAny(in)
			got = append(got, Result{o, n})
		}
		return
	}
	done := make(chan error, 1)
	go func() { done <- cmd.Wait() }()
	select {
	case <-done:
	case <-time.After(time.Duration(60+120*len(ins)) * time.Second):
		cmd.Process.Kill()
		<-done
		timedOut = true
	}
	var notes []string
	sc := bufio.NewScanner(&stdout)
	sc.Buffer(make([]byte, 1<<20), 1<<28)
	for sc.Scan() {
		l := sc.Text()
		if l == "BYE" {
			bye = true
		} else if strings.HasPrefix(l, "NOTE ") {
			notes = append(notes, l[5:])
		} else if strings.HasPrefix(l, "OBS ") {
			if v, err := Parse(l[4:]); err == nil {
				got = append(got, Result{v, notes})
				notes = nil
			}
		}
	}
	if len(got) < len(ins) && !timedOut {
		first, where := "", ""
		for _, l := range strings.Split(stderr.String(), "\n") {
			if first == "" && (strings.HasPrefix(l, "panic:") || strings.HasPrefix(l, "fatal error:")) {
				first = l
			}
			if where == "" && strings.HasPrefix(l, "qchen.fun/fatchoy/") {
				where = l
			}
		}
		crashNote = "crash: the scenario process died: " + first + " in " + where
	}
	return
}
