package connsim

import (
	"bufio"
	"bytes"
	"fmt"
	"os"
	"os/exec"
	"strings"
	"sync"
	"time"

	. "verifharness/common"
)

// Every scenario runs in a child process (the harness binary re-executed with
// CONNSIM_CHILD=1): a panic on a goroutine of the code under test (which no wrapper can
// recover) kills the child only, and is recorded as an observed outcome of that scenario.

// RunAny dispatches on the scenario mode (in-process).
func RunAny(in Sx) (Sx, []string) {
	switch in.At(0).AsInt() {
	case 2:
		return RunListener(in)
	case 3:
		return RunBurst(in)
	case 4:
		return RunServer(in)
	case 5:
		return RunRelay(in)
	case 6:
		return RunUnstarted(in)
	}
	return Run(CfgOfSx(in))
}

// ChildMain: if this process is a scenario child, run the scenario read from stdin, print the
// observation and exit.  Call it first thing in main().
func ChildMain() {
	if os.Getenv("CONNSIM_CHILD") == "" {
		return
	}
	if os.Getenv("CONNSIM_FAST") != "" {
		deadlineDiv = 4
	}
	sc := bufio.NewScanner(os.Stdin)
	sc.Buffer(make([]byte, 1<<20), 1<<28)
	w := bufio.NewWriterSize(os.Stdout, 1<<20)
	for sc.Scan() {
		line := strings.TrimSpace(sc.Text())
		if line == "" {
			continue
		}
		in, err := Parse(line)
		if err != nil {
			os.Exit(4)
		}
		obs, notes := RunAny(in)
		for _, n := range notes {
			fmt.Fprintf(w, "NOTE %s\n", strings.ReplaceAll(n, "\n", " "))
		}
		fmt.Fprintf(w, "OBS %s\n", obs.String())
		if len(notes) > 0 {
			// stuck / inconclusive scenario: goroutines of its connection may linger; let the
			// remaining scenarios of the batch start in a fresh process
			fmt.Fprintf(w, "BYE\n")
			w.Flush()
			os.Exit(0)
		}
		w.Flush()
	}
	os.Exit(0)
}

func crashObservation(in Sx) Sx {
	e := ListOf(nil)
	switch in.At(0).AsInt() {
	case 2:
		return Ints(0, 1, 0, 0, 0, 0, 0, 0, 0)
	case 3:
		return Ints(0, 1, 0, 0, 0, 0, 0, 0)
	case 4:
		return List(ListOf(nil), Ints(0, 0, 1, 0))
	case 5:
		return List(ListOf(nil), ListOf(nil), ListOf(nil), ListOf(nil), Ints(0, 0, 1, 0))
	case 6:
		return List(ListOf(nil), Int(0), Int(1), Int(0))
	}
	// connection scenario: nothing observed except that the process died (panics = 1)
	return List(e, e, e, e, e, Ints(0, 0, 0, 0), Ints(0, 0, 0, 0), e, Ints(0, 0), Ints(0, 0), e, Ints(1, 0, 0), Ints(0, 0, 0), e)
}

func timeoutObservation(in Sx) Sx {
	e := ListOf(nil)
	switch in.At(0).AsInt() {
	case 2:
		return Ints(0, 0, 0, 0, 0, 0, 0, 1, 0)
	case 3:
		return Ints(0, 0, 0, 0, 0, 0, 1, 0)
	case 4:
		return List(ListOf(nil), Ints(0, 0, 0, 1))
	case 5:
		return List(ListOf(nil), ListOf(nil), ListOf(nil), ListOf(nil), Ints(0, 0, 0, 1))
	case 6:
		return List(ListOf(nil), Int(0), Int(0), Int(1))
	}
	return List(e, e, e, e, e, Ints(0, 0, 0, 0), Ints(0, 0, 0, 0), e, Ints(0, 0), Ints(0, 0), e, Ints(0, 0, 0), Ints(1, 0, 0), e)
}

// deadlineDiv divides every observation deadline (1 normally, 4 in fast mode).
var deadlineDiv = 1

func dl(d time.Duration) time.Duration { return d / time.Duration(deadlineDiv) }

// Result of one scenario.
type Result struct {
	Obs   Sx
	Notes []string
}

// RunIsolated runs one scenario in a child process.
func RunIsolated(in Sx) (Sx, []string) {
	r := RunBatch([]Sx{in})
	return r[0].Obs, r[0].Notes
}

// RunBatch runs the scenarios in child processes, several per child; when a child dies the
// scenario it was running is recorded as crashed and the rest continues in a new child.
func RunBatch(ins []Sx) []Result {
	res := make([]Result, len(ins))
	RunStream(ins, 0, func(i int, r Result) { res[i] = r })
	for i := range res {
		if res[i].Obs.Kind == 0 {
			res[i] = Result{timeoutObservation(ins[i]), []string{"not run: the generator's time budget was used up"}}
		}
	}
	return res
}

// scenarioLimit: no scenario may take longer than this (a stuck connection costs seconds; the
// child is killed and the scenario recorded as inconclusive)
func scenarioLimit(fast bool) time.Duration {
	if fast {
		return 25 * time.Second
	}
	return 60 * time.Second
}

// RunStream runs the scenarios in child processes (two at a time, several scenarios per
// child) and calls emit(i, result) as soon as scenario i has completed (from several
// goroutines).  budget > 0: no new child is started after that much time; the number of
// scenarios that were not run is returned.
func RunStream(ins []Sx, budget time.Duration, emit func(i int, r Result)) (notRun int) {
	start := time.Now()
	inproc := os.Getenv("CONNSIM_INPROCESS") != ""
	exe, err := os.Executable()
	if inproc || err != nil {
		for i, in := range ins {
			o, n := RunAny(in)
			emit(i, Result{o, n})
		}
		return 0
	}
	const batch = 8
	type span struct{ from, to int }
	var spans []span
	for i := 0; i < len(ins); i += batch {
		e := i + batch
		if e > len(ins) {
			e = len(ins)
		}
		spans = append(spans, span{i, e})
	}
	var mu sync.Mutex
	troubled := 0
	work := make(chan span, len(spans))
	for _, sp := range spans {
		work <- sp
	}
	close(work)
	var wg sync.WaitGroup
	workers := 2
	if os.Getenv("CONNSIM_WORKERS") == "1" {
		workers = 1
	}
	for w := 0; w < workers; w++ {
		wg.Add(1)
		go func() {
			defer wg.Done()
			for sp := range work {
				next := sp.from
				for next < sp.to {
					if budget > 0 && time.Since(start) > budget {
						mu.Lock()
						notRun += sp.to - next
						mu.Unlock()
						break
					}
					// several scenarios already ran into deadlines (stuck / inconclusive): shorter deadlines
					// for the rest (they only ever turn an observation into "inconclusive", never into a finding)
					mu.Lock()
					fast := troubled >= 4
					mu.Unlock()
					base := next
					n, crashNote, timedOut, bye := runChild(exe, ins[next:sp.to], fast, func(k int, r Result) {
						if len(r.Notes) > 0 {
							mu.Lock()
							troubled++
							mu.Unlock()
						}
						emit(base+k, r)
					})
					next += n
					if next < sp.to && bye && n > 0 {
						continue // the child left voluntarily after a stuck / inconclusive scenario
					}
					if next < sp.to {
						// the child stopped inside scenario `next`
						if timedOut {
							emit(next, Result{timeoutObservation(ins[next]), []string{"scenario process killed: no result within the per-scenario limit"}})
						} else {
							emit(next, Result{crashObservation(ins[next]), []string{crashNote}})
						}
						mu.Lock()
						troubled++
						mu.Unlock()
						next++
					}
				}
			}
		}()
	}
	wg.Wait()
	return notRun
}

// runChild: one child process for the given scenarios; results are emitted as they arrive on
// its stdout; a scenario that produces no result within the limit gets the child killed.
func runChild(exe string, ins []Sx, fast bool, emit func(k int, r Result)) (n int, crashNote string, timedOut bool, bye bool) {
	var input strings.Builder
	for _, in := range ins {
		input.WriteString(in.String())
		input.WriteByte('\n')
	}
	cmd := exec.Command(exe)
	cmd.Env = append(os.Environ(), "CONNSIM_CHILD=1")
	if fast {
		cmd.Env = append(cmd.Env, "CONNSIM_FAST=1")
	}
	cmd.Stdin = strings.NewReader(input.String())
	var stderr bytes.Buffer
	cmd.Stderr = &stderr
	stdout, err := cmd.StdoutPipe()
	if err != nil || cmd.Start() != nil {
		for k, in := range ins {
			o, nn := RunAny(in)
			emit(k, Result{o, nn})
		}
		return len(ins), "", false, false
	}
	lines := make(chan string, 64)
	go func() {
		sc := bufio.NewScanner(stdout)
		sc.Buffer(make([]byte, 1<<20), 1<<28)
		for sc.Scan() {
			lines <- sc.Text()
		}
		close(lines)
	}()
	var notes []string
	limit := scenarioLimit(fast)
	timer := time.NewTimer(limit)
	defer timer.Stop()
loop:
	for {
		select {
		case l, ok := <-lines:
			if !ok {
				break loop
			}
			if l == "BYE" {
				bye = true
			} else if strings.HasPrefix(l, "NOTE ") {
				notes = append(notes, l[5:])
			} else if strings.HasPrefix(l, "OBS ") {
				if v, err := Parse(l[4:]); err == nil {
					emit(n, Result{v, notes})
					n++
					notes = nil
					if !timer.Stop() {
						select {
						case <-timer.C:
						default:
						}
					}
					timer.Reset(limit)
				}
			}
		case <-timer.C:
			timedOut = true
			cmd.Process.Kill()
			break loop
		}
	}
	go func() { // drain whatever is left so that the reader goroutine ends
		for range lines {
		}
	}()
	cmd.Wait()
	if n < len(ins) && !timedOut && !bye {
		first, where := "", ""
		for _, l := range strings.Split(stderr.String(), "\n") {
			if first == "" && (strings.HasPrefix(l, "panic:") || strings.HasPrefix(l, "fatal error:")) {
				first = l
			}
			if where == "" && strings.HasPrefix(l, "qchen.fun/fatchoy/") {
				where = l
			}
		}
		crashNote = "crash: the scenario process died: " + first + " in " + where
	}
	return
}
