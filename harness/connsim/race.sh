#!/bin/bash
# thorough-tier extra of C03/C04: run the harness's scenarios under the Go race detector.
# The model treats every access to the connection state word / queues as one atomic step;
# a data race reported on /repo code breaks that assumption (correspondence failure).
# usage: race.sh <cmd> <outdir>
set -o pipefail
cd "$(dirname "$0")/.."
export GOFLAGS=-mod=mod GOPROXY=off GOSUMDB=off GOTOOLCHAIN=local
mkdir -p "$2"
out=$(go run -race -tags verif ./cmd/"$1" -seed "${VERIF_SEED:-1}" -tier quick -out "$2" 2>&1)
rc=$?
if [ $rc -ne 0 ]; then
  echo "race detector run of cmd/$1 failed (rc=$rc):"
  echo "$out" | grep -A14 "DATA RACE" | grep -v "^--" | head -45
  echo "$out" | tail -3
  exit 1
fi
echo "no data race reported by go run -race ./cmd/$1 (quick scenario set)"
