package connsim

import (
	"io"
	"net"
	"strings"
	"time"

	"qchen.fun/fatchoy"
	"qchen.fun/fatchoy/qnet"
	. "verifharness/common"
)

// Never-started endpoints (mode 6): every API call on an endpoint on which Go() has not been
// called (yet) — created with NewTcpConn, taken from a listener's backlog channel, or left in
// the backlog when the listener was closed — must return: Close, ForceClose, SendPacket, Close
// twice, and Close-then-Go-then-Close (the endpoint is still usable: the clean code's Close on
// a connection in StateInit loses the CAS and returns nil without touching anything).
// input    = (6 origin (op ...) seed)   origin 0 NewTcpConn, 1 listener backlog, 2 backlog leftover after listener Close
//            op 1 Close, 2 ForceClose, 3 SendPacket, 4 Go(ReadWriter), 5 close the listener the endpoint came from
// observed = ((code ...) eof panics inconclusive)  code per op: 0 returned (SendPacket: 10 + result code),
//            7 blocked (its goroutine is parked inside the call), 6 no result in time, 3 panicked

func UnstartedScenario(rng *Rng) (string, Sx) {
	origin := rng.Intn(3)
	var ops []int64
	n := rng.Range(1, 5)
	started := false
	for k := 0; k < n; k++ {
		op := int64(rng.PickInt(1, 1, 2, 3))
		ops = append(ops, op)
	}
	if rng.Bool() { // ... and then it is started after all, used, and closed for good
		ops = append(ops, 4, 3)
		if origin == 1 && rng.Bool() {
			ops = append(ops, 5) // the endpoint outlives its listener
		}
		ops = append(ops, int64(rng.PickInt(1, 1, 2)), 1, 3)
		started = true
	} else if origin == 1 && rng.Bool() {
		ops = append(ops, 5, int64(rng.PickInt(1, 2)))
	}
	_ = started
	kind := []string{"unstarted-newtcpconn", "unstarted-from-backlog", "unstarted-backlog-leftover"}[origin]
	return kind, List(Int(6), Int(int64(origin)), Ints(ops...), Int(int64(rng.Next()>>2)))
}

func RunUnstarted(in Sx) (Sx, []string) {
	origin := in.At(1).AsInt()
	var notes []string
	fail := func(why string) (Sx, []string) {
		return List(ListOf(nil), Int(0), Int(0), Int(1)), []string{why}
	}
	enc := encoder(1)
	inbound := make(chan fatchoy.IPacket, 16)
	var conn *qnet.TcpConn
	var peer net.Conn
	var server *qnet.TcpServer
	if origin == 0 {
		ln, err := net.Listen("tcp", "127.0.0.1:0")
		if err != nil {
			return fail("listen failed")
		}
		defer ln.Close()
		ach := make(chan net.Conn, 1)
		go func() { c, _ := ln.Accept(); ach <- c }()
		pc, err := net.DialTimeout("tcp", ln.Addr().String(), 3*time.Second)
		if err != nil {
			return fail("dial failed")
		}
		peer = pc
		select {
		case c := <-ach:
			if c == nil {
				return fail("accept failed")
			}
			conn = qnet.NewTcpConn(fatchoy.NodeID(9), c, enc, make(chan error, 4), inbound, 8, nil)
		case <-time.After(3 * time.Second):
			return fail("accept failed")
		}
	} else {
		srv := qnet.NewTcpServer(enc, inbound, 8)
		server = srv
		addr := ""
		for try := 0; try < 20 && addr == ""; try++ {
			a := freeAddr()
			if srv.Listen(a) == nil {
				addr = a
			}
		}
		if addr == "" {
			return fail("listen failed")
		}
		pc, err := net.DialTimeout("tcp", addr, 3*time.Second)
		if err != nil {
			return fail("dial failed")
		}
		peer = pc
		backlog := srv.BacklogChan()
		if origin == 2 {
			// the listener is closed while the accepted connection still sits in the backlog channel
			end := time.Now().Add(3 * time.Second)
			for len(backlog) == 0 && time.Now().Before(end) {
				time.Sleep(200 * time.Microsecond)
			}
			done := make(chan struct{})
			go func() { Catch(func() { srv.Close() }); close(done) }()
			select {
			case <-done:
			case <-time.After(5 * time.Second):
				return fail("listener Close did not return")
			}
		}
		select {
		case ep, ok := <-backlog:
			if !ok || ep == nil {
				return fail("no endpoint in the backlog")
			}
			conn = ep.(*qnet.TcpConn)
		case <-time.After(3 * time.Second):
			return fail("no endpoint in the backlog")
		}
	}
	defer func() {
		setLinger0(peer)
		peer.Close()
	}()
	// the peer reads to the end of the stream (if there is one)
	eof := int64(0)
	peerDone := make(chan struct{})
	go func() {
		defer close(peerDone)
		buf := make([]byte, 4096)
		for {
			peer.SetReadDeadline(time.Now().Add(8 * time.Second))
			if _, err := peer.Read(buf); err != nil {
				if err == io.EOF {
					eof = 1
				}
				return
			}
		}
	}()
	go func() { // somebody takes what the endpoint may deliver once started
		for range inbound {
		}
	}()
	var codes []int64
	panics, inconcl := int64(0), int64(0)
	started, closedAfterStart := false, false
	ops := in.At(2)
	for k := 0; k < ops.Len(); k++ {
		op := ops.At(k).AsInt()
		code := int64(0)
		var res int64
		ret := make(chan struct{})
		fname := map[int]string{1: "Close", 2: "ForceClose", 3: "SendPacket", 4: "Go", 5: "listenerClose"}[op]
		go func() {
			defer close(ret)
			if p, _ := Catch(func() {
				switch op {
				case 1:
					conn.Close()
				case 2:
					conn.ForceClose(errForced)
				case 3:
					switch conn.SendPacket(mkPacket(PktSpec{700 + k, 8})) {
					case nil:
						res = 10
					case qnet.ErrConnIsClosing:
						res = 11
					case qnet.ErrConnOutboundOverflow:
						res = 12
					default:
						res = 14
					}
				case 4:
					conn.Go(fatchoy.EndpointReadWriter)
				case 5:
					if server != nil {
						server.Close()
						server = nil
					}
				}
			}); p {
				res = 3
			}
		}()
		select {
		case <-ret:
			code = res
		case <-time.After(dl(3 * time.Second)):
			code = 6
			for _, g := range allStacks() {
				if strings.Contains(g.text, "qchen.fun/fatchoy/qnet.(*TcpConn)."+fname) && isParked(g.status) && parkedInConn(g.text) {
					code = 7
					notes = append(notes, "stuck: "+fname+":"+g.status+" on an endpoint that was never started")
				}
			}
			if code == 6 {
				inconcl = 1
				notes = append(notes, "a call on a never-started endpoint did not return within 3s")
			}
		}
		if code == 3 {
			panics++
		}
		codes = append(codes, code)
		if code == 6 || code == 7 {
			break
		}
		if op == 4 && code == 0 {
			started = true
		}
		if started && (op == 1 || op == 2) {
			closedAfterStart = true
		}
	}
	if closedAfterStart {
		select {
		case <-peerDone:
		case <-time.After(dl(4 * time.Second)):
			inconcl = 1
			notes = append(notes, "the peer did not see end-of-stream within 4s after the started endpoint was closed")
		}
	} else {
		eof = -1 // never started (or never closed after the start): no stream end is expected
	}
	if server != nil {
		srv := server
		go Catch(func() { srv.Close() })
	}
	return List(Ints(codes...), Int(eof), Int(panics), Int(inconcl)), notes
}
