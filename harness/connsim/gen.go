package connsim

import (
	. "verifharness/common"
)

// Scenario generators shared by cmd/c03 and cmd/c04.  Every choice derives from the rng.

type idGen struct{ next int }

func (g *idGen) pkts(rng *Rng, n int, sizes []int) []PktSpec {
	var l []PktSpec
	for k := 0; k < n; k++ {
		g.next++
		l = append(l, PktSpec{g.next, sizes[rng.Intn(len(sizes))]})
	}
	return l
}

var smallSizes = []int{0, 1, 4, 7, 16, 100, 300}

func inputFrames(rng *Rng, n int, sizes []int) []InItem {
	var l []InItem
	for k := 0; k < n; k++ {
		l = append(l, InItem{0, 5000 + k, sizes[rng.Intn(len(sizes))]})
	}
	return l
}

func base(rng *Rng, mode int) Cfg {
	return Cfg{Mode: mode, Codec: 1 + rng.Intn(2), Cipher: rng.Bool(), Ocap: rng.PickInt(1, 2, 8, 128, 1000),
		Icap: rng.PickInt(1, 2, 4, 16), Ecap: rng.PickInt(-1, 0, 1, 4), HasWriter: true, HasReader: true,
		InConsumer: 1, Seed: rng.Next() >> 1, LateSend: 1, FailAfter: -1}
}

// GatedRandom: a few senders / closers, some inbound traffic, fully random serialized schedule.
func GatedRandom(rng *Rng) (string, Cfg) {
	c := base(rng, 1)
	var g idGen
	ns := rng.Range(1, 3)
	for i := 0; i < ns; i++ {
		c.Senders = append(c.Senders, g.pkts(rng, rng.Range(0, 6), smallSizes))
	}
	c.Ocap = rng.PickInt(1, 2, 3, 8, 128)
	c.Closers = []bool{true}
	if rng.Chance(1, 3) {
		c.Closers = append(c.Closers, rng.Bool())
	}
	c.Input = inputFrames(rng, rng.Range(0, 5), smallSizes)
	c.Script = []Dir{{DRand, rng.Range(5, 80), 0}}
	return "gated-random", c
}

// GatedBacklog: the writer is held right after its first dequeue while one sender fills the
// queue; then Close runs up to wg.Wait; then everything is released in seeded random order.
// At close time a backlog of k-1 packets exists.
func GatedBacklog(rng *Rng) (string, Cfg) {
	c := base(rng, 1)
	var g idGen
	k := rng.Range(2, 24)
	c.Ocap = rng.PickInt(k, k+1, 128, 1000)
	c.Senders = [][]PktSpec{g.pkts(rng, k, smallSizes)}
	c.Closers = []bool{true}
	c.Input = inputFrames(rng, rng.Range(0, 2), smallSizes)
	c.Script = []Dir{{DRun, TSender * 1000, 3 * k}, {DRun, TCloser * 1000, 5}, {DFinish, 0, 0}}
	return "gated-backlog", c
}

// GatedInboundFull: nobody drains the inbound channel and the peer sends more frames than it
// holds, so the reader is parked in `inbound <- pkt` when Close is called.
func GatedInboundFull(rng *Rng) (string, Cfg) {
	c := base(rng, 1)
	var g idGen
	c.Icap = rng.PickInt(1, 2, 3)
	c.InConsumer = 0
	c.Senders = [][]PktSpec{g.pkts(rng, rng.Range(0, 4), smallSizes)}
	c.Closers = []bool{rng.Chance(3, 4)}
	if !c.Closers[0] {
		c.Closers = append(c.Closers, true)
	}
	n := c.Icap + rng.Range(1, 3)
	c.Input = inputFrames(rng, n, smallSizes)
	c.Script = []Dir{}
	for i := 0; i < n; i++ {
		c.Script = append(c.Script, Dir{DEnv, EvPeerWrite, 0})
	}
	c.Script = append(c.Script, Dir{DRun, TReader * 1000, 3 * n}, Dir{DRand, rng.Range(0, 20), 0})
	return "gated-inbound-full", c
}

// GatedReadError: the peer sends frames and then garbage / EOF / RST: the reader calls
// ForceClose while senders and closers are active.
func GatedReadError(rng *Rng) (string, Cfg) {
	c := base(rng, 1)
	var g idGen
	c.Senders = [][]PktSpec{g.pkts(rng, rng.Range(0, 5), smallSizes)}
	if rng.Bool() {
		c.Senders = append(c.Senders, g.pkts(rng, rng.Range(0, 3), smallSizes))
	}
	c.Closers = []bool{rng.Bool()}
	if rng.Bool() {
		c.Closers = append(c.Closers, rng.Bool())
	}
	c.Input = inputFrames(rng, rng.Range(0, 3), smallSizes)
	kind := rng.PickInt(1, 2, 2, 3)
	c.Input = append(c.Input, InItem{kind, 7000, 9})
	if rng.Bool() {
		c.Input = append(c.Input, inputFrames(rng, 1, smallSizes)...)
	}
	c.Script = []Dir{{DRand, rng.Range(5, 60), 0}}
	name := map[int]string{1: "gated-garbage", 2: "gated-eof", 3: "gated-rst"}[kind]
	return name, c
}

// GatedSendVsTeardown: a sender passes the running check and is held there; a closer runs the
// whole teardown; then the sender continues (the schedule the property's hook was asked for).
func GatedSendVsTeardown(rng *Rng) (string, Cfg) {
	c := base(rng, 1)
	var g idGen
	c.Senders = [][]PktSpec{g.pkts(rng, rng.Range(1, 3), smallSizes)}
	c.Closers = []bool{rng.Chance(2, 3)}
	c.Input = nil
	c.Script = []Dir{{DUntil, TSender * 1000, PSendChecked}}
	pumpsOut := []Dir{{DUntil, TWriter * 1000, PWriterExit}, {DUntil, TReader * 1000, PReaderExit}}
	if c.Closers[0] {
		// Close(): up to wg.Wait, let both pumps leave, then finally() up to the teardown point
		c.Script = append(c.Script, Dir{DUntil, TCloser * 1000, PCloseNotified}, Dir{DRun, TCloser * 1000, 1})
		c.Script = append(c.Script, pumpsOut...)
		c.Script = append(c.Script, Dir{DUntil, TCloser * 1000, PFinallyTeardown})
	} else {
		c.Script = append(c.Script, Dir{DUntil, TCloser * 1000, PCloseRet})
		c.Script = append(c.Script, pumpsOut...)
		c.Script = append(c.Script, Dir{DUntil, TFinal * 1000, PFinallyTeardown})
	}
	// the sender, held between the running check and the queue send, continues now
	c.Script = append(c.Script, Dir{DRun, TSender * 1000, 1}, Dir{DFinish, 0, 0})
	return "gated-send-vs-teardown", c
}

// GatedDoubleClose: several Close / ForceClose callers.
func GatedDoubleClose(rng *Rng) (string, Cfg) {
	c := base(rng, 1)
	var g idGen
	c.Senders = [][]PktSpec{g.pkts(rng, rng.Range(0, 4), smallSizes)}
	n := rng.Range(2, 4)
	for i := 0; i < n; i++ {
		c.Closers = append(c.Closers, rng.Bool())
	}
	c.Input = inputFrames(rng, rng.Range(0, 2), smallSizes)
	c.Script = []Dir{{DRand, rng.Range(10, 80), 0}}
	return "gated-multi-close", c
}

var streamSizesV1 = []int{0, 4, 100, 1000, 4095, 4097, 5000, 30000, 61000, 61426, 61427, 62000}
var streamSizesV2 = []int{0, 4, 100, 1000, 8191, 8193, 30000, 70000, 524288}

// FreeStream: one sender pipelines k packets of assorted sizes at full speed; the peer reads
// promptly, slowly, or only after the close began; Close after the sender returned.
func FreeStream(rng *Rng, big bool) (string, Cfg) {
	c := base(rng, 0)
	var g idGen
	k := rng.Range(0, 200)
	sizes := smallSizes
	if big {
		k = rng.Range(1, 40)
		if c.Codec == 1 {
			sizes = streamSizesV1
		} else {
			sizes = streamSizesV2
		}
	}
	c.Senders = [][]PktSpec{g.pkts(rng, k, sizes)}
	c.Closers = []bool{true}
	c.PeerRead = rng.Intn(3)
	c.Input = inputFrames(rng, rng.Range(0, 30), smallSizes)
	c.WaitInput = 1
	c.Icap = rng.PickInt(1, 4, 64)
	name := []string{"free-stream-prompt", "free-stream-slow", "free-stream-late"}[c.PeerRead]
	if big {
		name += "-big"
	}
	return name, c
}

// FreeRace: several senders, Close (and possibly ForceClose) concurrent with them.
func FreeRace(rng *Rng) (string, Cfg) {
	c := base(rng, 0)
	var g idGen
	ns := rng.Range(1, 8)
	for i := 0; i < ns; i++ {
		c.Senders = append(c.Senders, g.pkts(rng, rng.Range(1, 40), smallSizes))
	}
	c.Closers = []bool{true}
	for rng.Chance(1, 3) && len(c.Closers) < 4 {
		c.Closers = append(c.Closers, rng.Bool())
	}
	c.CloseAfter = 1
	c.PeerRead = rng.Intn(3)
	c.Input = inputFrames(rng, rng.Range(0, 10), smallSizes)
	if rng.Chance(1, 4) {
		c.Input = append(c.Input, InItem{rng.PickInt(1, 2), 7000, 5})
	}
	return "free-race", c
}

// FreeInbound: the peer streams frames; the inbound channel is drained or not.
func FreeInbound(rng *Rng) (string, Cfg) {
	c := base(rng, 0)
	var g idGen
	c.Senders = [][]PktSpec{g.pkts(rng, rng.Range(0, 10), smallSizes)}
	c.Closers = []bool{true}
	c.InConsumer = rng.Intn(2)
	c.Icap = rng.PickInt(1, 2, 8, 64)
	n := rng.Range(1, 60)
	c.Input = inputFrames(rng, n, smallSizes)
	if rng.Chance(1, 3) {
		c.Input = append(c.Input, InItem{rng.PickInt(1, 2), 7000, 5})
	}
	name := "free-inbound-drained"
	if c.InConsumer == 0 {
		name = "free-inbound-undrained"
	}
	return name, c
}

// Nontrivial: the scenario moves at least one packet in some direction.
func Nontrivial(c Cfg) bool {
	n := len(c.Input)
	for _, s := range c.Senders {
		n += len(s)
	}
	return n > 0
}

// GatedErrChan: the shared error channel is filled / drained by others around the close.
func GatedErrChan(rng *Rng) (string, Cfg) {
	c := base(rng, 1)
	var g idGen
	c.Ecap = rng.PickInt(1, 2, 3)
	c.Senders = [][]PktSpec{g.pkts(rng, rng.Range(0, 3), smallSizes)}
	c.Closers = []bool{rng.Bool(), rng.Bool()}
	c.Input = inputFrames(rng, rng.Range(0, 2), smallSizes)
	for k := rng.Range(0, c.Ecap); k > 0; k-- {
		c.Script = append(c.Script, Dir{DEnv, EvErrFill, 0})
	}
	if rng.Bool() {
		c.Script = append(c.Script, Dir{DEnv, EvErrConsume, 0})
	}
	c.Script = append(c.Script, Dir{DRand, rng.Range(5, 60), 0})
	return "gated-errchan", c
}

// GatedReaderFirst: the peer's input (frames, then garbage / EOF / RST / a truncated frame / an
// over-limit length) is consumed by the reader before any Close call is released: the reader's
// own ForceClose wins the CAS and tears the connection down.
func GatedReaderFirst(rng *Rng) (string, Cfg) {
	c := base(rng, 1)
	var g idGen
	c.Icap = 16
	c.Senders = [][]PktSpec{g.pkts(rng, rng.Range(0, 4), smallSizes)}
	c.Closers = []bool{rng.Bool()}
	n := rng.Range(0, 3)
	c.Input = inputFrames(rng, n, smallSizes)
	kind := rng.PickInt(1, 2, 3, 4, 5)
	c.Input = append(c.Input, InItem{kind, 7000, rng.PickInt(0, 9, 40)})
	for i := 0; i <= n; i++ {
		c.Script = append(c.Script, Dir{DEnv, EvPeerWrite, 0})
	}
	c.Script = append(c.Script, Dir{DRun, TSender * 1000, rng.Range(0, 6)}, Dir{DUntil, TReader * 1000, PReaderExit},
		Dir{DRand, rng.Range(0, 30), 0})
	return "gated-reader-first-" + []string{"", "garbage", "eof", "rst", "truncated", "badlen"}[kind], c
}

const oversizeV1 = 62000 // body that makes a V1 frame exceed V1MaxPayloadBytes = 61440 (incompressible)

// GatedOversizeBacklog: like GatedBacklog, with packets the encoder refuses inside and at the
// end of the backlog.
func GatedOversizeBacklog(rng *Rng) (string, Cfg) {
	c := base(rng, 1)
	c.Codec = 1
	var g idGen
	k := rng.Range(2, 12)
	c.Ocap = rng.PickInt(k, k+1, 128)
	ps := g.pkts(rng, k, smallSizes)
	for i := range ps {
		if rng.Chance(1, 5) {
			ps[i].Size = oversizeV1
		}
	}
	if rng.Chance(2, 3) {
		ps[k-1].Size = oversizeV1
	}
	c.Senders = [][]PktSpec{ps}
	c.Closers = []bool{true}
	c.Input = nil
	c.Script = []Dir{{DRun, TSender * 1000, 3 * k}, {DRun, TCloser * 1000, 5}, {DFinish, 0, 0}}
	return "gated-oversize-backlog", c
}

// FreeOversizeTail: a burst at full speed with encoder-refused packets inside and at its end,
// towards a slow or late peer (so that a backlog exists), Close right after the last send.
func FreeOversizeTail(rng *Rng) (string, Cfg) {
	c := base(rng, 0)
	c.Codec = 1
	var g idGen
	k := rng.Range(2, 40)
	c.Ocap = rng.PickInt(k, 128, 1000)
	ps := g.pkts(rng, k, smallSizes)
	for i := range ps {
		if rng.Chance(1, 8) {
			ps[i].Size = oversizeV1
		}
	}
	if rng.Chance(3, 4) {
		ps[k-1].Size = oversizeV1
	}
	c.Senders = [][]PktSpec{ps}
	c.Closers = []bool{true}
	c.PeerRead = rng.PickInt(0, 1, 2, 2)
	c.Immediate = rng.Intn(2)
	if c.Immediate == 0 {
		c.Input = inputFrames(rng, rng.Range(0, 3), smallSizes)
		c.WaitInput = 1
	}
	return "free-oversize-tail", c
}

// FreeImmediate: Go(); SendPacket x N; Close() back to back, no settling; half of them with
// GOMAXPROCS=1 (the pumps have not even started when Close reaches wg.Wait).
func FreeImmediate(rng *Rng) (string, Cfg) {
	c := base(rng, 0)
	var g idGen
	k := rng.Range(1, 30)
	c.Ocap = rng.PickInt(k, 128, 1000)
	c.Senders = [][]PktSpec{g.pkts(rng, k, smallSizes)}
	c.Closers = []bool{true}
	c.PeerRead = rng.Intn(3)
	c.Input = nil
	c.Immediate = 1
	c.MaxProcs = rng.PickInt(0, 1)
	if rng.Bool() { // writer only: Go(EndpointWriter), as the repository's own server-side handler does
		c.HasReader = false
		c.Input = nil
	}
	name := "free-immediate"
	if c.MaxProcs == 1 {
		name += "-1proc"
	}
	return name, c
}

// WriteFail: the socket starts failing Write after f successful writes (injected through a
// net.Conn wrapper); writer only, small packets (one Write per packet); what the peer received
// and the counters must both stop exactly there.
func WriteFail(rng *Rng) (string, Cfg) {
	gated := rng.Bool()
	mode := 0
	if gated {
		mode = 1
	}
	c := base(rng, mode)
	var g idGen
	k := rng.Range(1, 12)
	c.Ocap = rng.PickInt(k, 128)
	c.HasReader = false
	c.Senders = [][]PktSpec{g.pkts(rng, k, smallSizes)}
	c.Closers = []bool{true}
	c.Input = nil
	c.FailAfter = rng.Range(0, k)
	if gated {
		c.Script = []Dir{{DRand, rng.Range(5, 60), 0}}
		return "gated-write-fail", c
	}
	c.PeerRead = rng.Intn(2)
	return "free-write-fail", c
}

// FreeUnreadInbound: the peer writes frames this endpoint never consumes (writer-only endpoint,
// or frames sent only after the close began) while a large backlog is still on its way to a
// slow / late reading peer: every accepted packet must arrive and the stream must end with
// EOF, not with a reset.
func FreeUnreadInbound(rng *Rng) (string, Cfg) {
	c := base(rng, 0)
	var g idGen
	k := rng.Range(150, 300)
	c.Ocap = 1000
	c.Senders = [][]PktSpec{g.pkts(rng, k, []int{2000, 3000, 3000, 4000})}
	c.Closers = []bool{true}
	c.PeerRead = 3
	c.Input = inputFrames(rng, rng.Range(2, 8), smallSizes)
	c.HasReader = false // nobody ever reads what the peer sends
	c.WaitInput = 1     // ... and the peer is silent while we close
	c.SmallBuf = 1
	return "free-unread-inbound", c
}

// FreeLateInput: the peer keeps sending frames into the closing connection.
func FreeLateInput(rng *Rng) (string, Cfg) {
	c := base(rng, 0)
	var g idGen
	c.Senders = [][]PktSpec{g.pkts(rng, rng.Range(0, 60), smallSizes)}
	c.Closers = []bool{true}
	c.PeerRead = rng.Intn(3)
	c.Input = inputFrames(rng, rng.Range(2, 12), smallSizes)
	c.LateInput = rng.Range(1, len(c.Input))
	return "free-late-input", c
}

// FreeMidFrameTimeout: the read deadline (1 s) expires while a frame is only partly received;
// the rest of that frame (which begins with a complete valid frame) arrives afterwards.
func FreeMidFrameTimeout(rng *Rng) (string, Cfg) {
	c := base(rng, 0)
	var g idGen
	c.Senders = [][]PktSpec{g.pkts(rng, rng.Range(0, 5), smallSizes)}
	c.Closers = []bool{true}
	c.ReadTimeout = 1
	c.WaitInput = 1
	c.Input = inputFrames(rng, rng.Range(0, 3), smallSizes)
	c.Input = append(c.Input, InItem{6, 7000, rng.PickInt(0, 7, 100)})
	c.CloseAfter = 0
	return "free-midframe-timeout", c
}

// FreeCoalesced: short read time-out (1 s); the peer idles 2/3 of it, writes frame A together
// with the first half of frame B in ONE segment, idles 2/3 again and sends the rest: every pause
// is comfortably below the time-out, both frames must be delivered and no read error occur.
func FreeCoalesced(rng *Rng) (string, Cfg) {
	c := base(rng, 0)
	var g idGen
	c.Senders = [][]PktSpec{g.pkts(rng, rng.Range(0, 3), smallSizes)}
	c.Closers = []bool{true}
	c.ReadTimeout = 1
	c.WaitInput = 2
	c.Icap = 16
	c.Input = inputFrames(rng, rng.Range(0, 2), smallSizes)
	c.Input = append(c.Input, InItem{7, 6000, rng.PickInt(7, 100, 300)}, InItem{8, 6001, rng.PickInt(16, 100, 300)})
	return "free-coalesced-segments", c
}

// FreeChunkedInbound: the peer's frames arrive as one byte stream cut at random places.
func FreeChunkedInbound(rng *Rng) (string, Cfg) {
	c := base(rng, 0)
	var g idGen
	c.Senders = [][]PktSpec{g.pkts(rng, rng.Range(0, 5), smallSizes)}
	c.Closers = []bool{true}
	c.Icap = 64
	c.Input = inputFrames(rng, rng.Range(2, 40), []int{0, 1, 7, 100, 300, 1000, 3000})
	c.Chunked = 1
	c.WaitInput = 2
	return "free-chunked-inbound", c
}

// FreeTransportBacklog: a large backlog at Close over a transport that is not a *net.TCPConn
// (a wrapped TCP connection, as a TLS or metering layer would be; a unix domain socket),
// writer-only endpoint, late reading peer.
func FreeTransportBacklog(rng *Rng) (string, Cfg) {
	c := base(rng, 0)
	c.Codec = 1
	var g idGen
	k := rng.Range(150, 400)
	c.Ocap = 1000
	c.Senders = [][]PktSpec{g.pkts(rng, k, []int{8000, 16000, 32000})}
	c.Closers = []bool{true}
	c.HasReader = false
	c.Input = nil
	c.PeerRead = rng.PickInt(1, 2, 2)
	name := "free-wrapped-backlog"
	if rng.Bool() {
		c.Transport = 1
		name = "free-unix-backlog"
	} else {
		c.FailAfter = -2
	}
	return name, c
}

// FreeServerGC: the connection is accepted by a qnet.TcpServer; a burst that fits into the
// kernel buffers is sent to a peer that does not read yet; after Close returned the harness
// drops every reference to the endpoint and forces two GC cycles; only then the peer reads: it
// must still get everything and then end-of-stream.
func FreeServerGC(rng *Rng) (string, Cfg) {
	c := base(rng, 0)
	c.Codec = 1 + rng.Intn(2)
	var g idGen
	k := rng.Range(20, 64)
	c.Ocap = 128
	c.Ecap = 16
	c.Senders = [][]PktSpec{g.pkts(rng, k, []int{4000, 8000, 16000})}
	c.Closers = []bool{true}
	c.HasReader = rng.Bool()
	c.Input = nil
	c.PeerRead = 4
	c.GCAfter = 1
	c.ViaServer = rng.PickInt(1, 1, 0)
	c.LateSend = 0
	name := "free-gc-late-peer"
	if c.ViaServer == 1 {
		name = "free-server-gc-late-peer"
	}
	return name, c
}

// FreeEnv: a pass over the ENVIRONMENT dimensions rather than over the code: transport kind
// (loopback TCP / unix socket / wrapped conn), who accepted the connection (harness / a
// TcpServer), GC of the dropped endpoint before the peer reads, a short read deadline with
// pauses below it and coalesced segments, the peer's input cut at random places, the peer
// half-closing after its input — combined at random (within what each combination allows).
func FreeEnv(rng *Rng) (string, Cfg) {
	c := base(rng, 0)
	var g idGen
	transport := rng.PickInt(0, 0, 1, 2) // tcp, tcp, unix, wrapped
	name := "free-env-tcp"
	switch transport {
	case 1:
		c.Transport = 1
		name = "free-env-unix"
	case 2:
		c.FailAfter = -2
		name = "free-env-wrapped"
	}
	if transport == 0 && rng.Bool() {
		c.ViaServer = 1
		c.Ecap = 16
		name += "-server"
	}
	k := rng.Range(10, 120)
	c.Ocap = rng.PickInt(k, 128, 1000)
	c.Senders = [][]PktSpec{g.pkts(rng, k, []int{100, 1000, 4000})}
	c.Closers = []bool{true}
	if rng.Chance(1, 4) { // the endpoint is dropped and collected before the peer reads
		c.GCAfter = 1
		c.PeerRead = 4
		c.Input = nil
		c.LateSend = 0
		c.HasReader = transport == 0 && rng.Bool()
		return name + "-gc", c
	}
	c.PeerRead = rng.Intn(3)
	halfClose := false
	switch rng.Intn(4) {
	case 0:
		c.Input = nil
	case 1:
		c.Input = inputFrames(rng, rng.Range(1, 10), smallSizes)
		halfClose = rng.Bool()
	case 2:
		c.Input = inputFrames(rng, rng.Range(2, 20), []int{0, 7, 100, 1000, 3000})
		c.Chunked = 1
	case 3:
		c.ReadTimeout = 1
		c.Input = append(inputFrames(rng, rng.Range(0, 2), smallSizes), InItem{7, 6000, 100}, InItem{8, 6001, 100})
	}
	c.Icap = 64
	if halfClose {
		c.Input = append(c.Input, InItem{2, 7000, 0}) // the peer ends its side; it keeps reading
		c.WaitInput = 1
		name += "-halfclose"
	} else if len(c.Input) > 0 {
		c.WaitInput = 2
	}
	if transport != 0 && !halfClose {
		// no half-close on this transport: with a reader, Close would wait for the peer to hang up
		c.HasReader = false
		if c.WaitInput == 2 {
			c.WaitInput = 1
		}
		if len(c.Input) > 0 {
			// Close() can only close such a connection as a whole, and the peer's data was never read
			name = "free-env-nontcp-unread"
		}
	}
	return name, c
}

// FreePeerPause: the package's own tunable TConnReadTimeout is small (1 s) or at its default;
// the peer does not read at all for 1.6 s — longer than the small limit — while more accepted
// data is pending than the (64 KiB) socket buffers hold, so the writer sits in write(2); then
// the peer drains everything to EOF: it must still receive every accepted packet, in order, framed.
func FreePeerPause(rng *Rng) (string, Cfg) {
	c := base(rng, 0)
	var g idGen
	k := rng.Range(200, 400)
	c.Ocap = 1000
	c.Senders = [][]PktSpec{g.pkts(rng, k, []int{2000, 4000, 8000})}
	c.Closers = []bool{true}
	c.HasReader = false // an idle peer would (legitimately) trip the READ time-out of a reader
	c.Input = nil
	c.SmallBuf = 1
	c.PeerRead = 5
	c.ReadTimeout = 1
	return "free-peer-pause-limit1s", c
}

// FreePeerPauseDefault: the same with the idle limit left at its default.
func FreePeerPauseDefault(rng *Rng) (string, Cfg) {
	_, c := FreePeerPause(rng)
	c.ReadTimeout = 0
	return "free-peer-pause-default-limit", c
}

// GatedPartialFrameClose: the writer is held right after its first dequeue while the sender
// fills the queue (a backlog exists); the peer sends a few frames and then only the first part
// of a frame and falls silent; a graceful Close is issued while that frame is partly received
// (the reader's io.ReadFull ends with io.ErrUnexpectedEOF when the read side is shut down);
// then everything is released in seeded random order and the peer drains to EOF.
func GatedPartialFrameClose(rng *Rng) (string, Cfg) {
	c := base(rng, 1)
	var g idGen
	k := rng.Range(2, 16)
	c.Ocap = rng.PickInt(k, k+1, 128)
	c.Icap = 16
	c.Senders = [][]PktSpec{g.pkts(rng, k, smallSizes)}
	c.Closers = []bool{true}
	n := rng.Range(0, 2)
	c.Input = append(inputFrames(rng, n, smallSizes), InItem{9, 7000, rng.PickInt(0, 7, 100, 300)})
	c.Script = []Dir{{DRun, TSender * 1000, 3 * k}}
	for i := 0; i <= n; i++ {
		c.Script = append(c.Script, Dir{DEnv, EvPeerWrite, 0})
	}
	c.Script = append(c.Script, Dir{DRun, TReader * 1000, 3 * n}, Dir{DRun, TCloser * 1000, 5}, Dir{DFinish, 0, 0})
	return "gated-partial-frame-close", c
}

// FreePartialFrameClose: the same at full speed: a large backlog towards a late / slow peer, the
// peer's last item is an incomplete frame, Close right after the sends.
func FreePartialFrameClose(rng *Rng) (string, Cfg) {
	c := base(rng, 0)
	var g idGen
	k := rng.Range(50, 300)
	c.Ocap = 1000
	c.Icap = 64
	c.Senders = [][]PktSpec{g.pkts(rng, k, []int{100, 1000, 4000})}
	c.Closers = []bool{true}
	c.PeerRead = rng.PickInt(1, 2, 2, 3)
	c.SmallBuf = rng.Intn(2)
	c.Input = append(inputFrames(rng, rng.Range(0, 5), smallSizes), InItem{9, 7000, rng.PickInt(0, 7, 100, 300)})
	c.WaitInput = 1
	return "free-partial-frame-close", c
}

// GatedOverflowThenShutdown: error returns of the API are part of the history.  A tiny outbound
// queue (1..3) and a writer held at its first dequeue make SendPacket answer
// ErrConnOutboundOverflow deterministically; then the connection is shut down in one of the
// ways (Close, ForceClose, the peer's FIN seen by the reader), with further sends from a second
// goroutine in between, everything else in seeded random order.
func GatedOverflowThenShutdown(rng *Rng) (string, Cfg) {
	c := base(rng, 1)
	var g idGen
	c.Ocap = rng.Range(1, 3)
	n := c.Ocap + 1 + rng.Range(1, 3) // at least one overflow while the writer holds one packet
	c.Senders = [][]PktSpec{g.pkts(rng, n, smallSizes), g.pkts(rng, rng.Range(1, 4), smallSizes)}
	c.Icap = 8
	c.Script = []Dir{{DRun, TSender * 1000, 3 * n}}
	how := rng.Intn(3)
	name := "gated-overflow-then-close"
	switch how {
	case 0:
		c.Closers = []bool{true}
		c.Input = inputFrames(rng, rng.Range(0, 1), smallSizes)
	case 1:
		c.Closers = []bool{false, true}
		c.Input = nil
		name = "gated-overflow-then-forceclose"
	case 2:
		c.Closers = []bool{true}
		c.Input = []InItem{{2, 7000, 0}} // the peer's FIN: the reader calls ForceClose
		c.Script = append(c.Script, Dir{DEnv, EvPeerWrite, 0}, Dir{DUntil, TReader * 1000, PReaderExit})
		name = "gated-overflow-then-peer-fin"
	}
	c.Script = append(c.Script, Dir{DRun, TSender*1000 + 1, rng.Range(0, 4)}, Dir{DRand, rng.Range(5, 40), 0})
	return name, c
}

// FreeOverflowThenShutdown: the same at full speed: tiny queue, a peer that reads late (the
// writer is blocked or slow), many sends (most overflow), then Close / ForceClose concurrently
// with more sends.
func FreeOverflowThenShutdown(rng *Rng) (string, Cfg) {
	c := base(rng, 0)
	var g idGen
	c.Ocap = rng.Range(1, 3)
	ns := rng.Range(1, 3)
	for i := 0; i < ns; i++ {
		c.Senders = append(c.Senders, g.pkts(rng, rng.Range(10, 40), []int{100, 1000, 4000}))
	}
	c.Closers = []bool{rng.Bool(), true}
	c.PeerRead = rng.PickInt(0, 1, 2)
	c.Input = nil
	c.CloseAfter = rng.Intn(2)
	return "free-overflow-then-shutdown", c
}

// FreeReentrantConsumer: the consumers re-enter the connection: the inbound consumer answers
// every packet it takes with a reply sent through pkt.Endpoint(); the error-channel consumer
// calls Close on the endpoint named in the terminal error.
func FreeReentrantConsumer(rng *Rng) (string, Cfg) {
	c := base(rng, 0)
	var g idGen
	n := rng.Range(1, 30)
	c.Input = inputFrames(rng, n, smallSizes)
	if rng.Chance(1, 3) {
		c.Input = append(c.Input, InItem{rng.PickInt(1, 2, 4), 7000, 9})
	}
	c.Senders = [][]PktSpec{g.pkts(rng, rng.Range(0, 20), smallSizes), g.pkts(rng, n, smallSizes)}
	c.Closers = []bool{true, true}
	c.Ocap = rng.PickInt(2, 8, 128)
	c.Icap = rng.PickInt(1, 4, 64)
	c.Ecap = rng.PickInt(1, 4)
	c.Reentrant = 1
	c.WaitInput = 1
	c.PeerRead = rng.Intn(3)
	return "free-reentrant-consumer", c
}

// FreePhases: fill the queue (overflows), let it drain, use it again, several times; then Close.
func FreePhases(rng *Rng) (string, Cfg) {
	c := base(rng, 0)
	var g idGen
	c.Ocap = rng.PickInt(1, 2, 8)
	c.Senders = [][]PktSpec{g.pkts(rng, rng.Range(20, 80), smallSizes)}
	c.BurstEvery = c.Ocap * rng.PickInt(1, 2, 3)
	c.Closers = []bool{true}
	c.PeerRead = rng.Intn(2)
	c.Input = inputFrames(rng, rng.Range(0, 5), smallSizes)
	c.WaitInput = 1
	return "free-phases", c
}

// FreeZeroCapacities: the degenerate sizes: an unbuffered outbound queue (a send is accepted only
// when the writer is parked in its receive), an unbuffered inbound channel with a consumer, an
// unbuffered error channel.
func FreeZeroCapacities(rng *Rng) (string, Cfg) {
	c := base(rng, 0)
	var g idGen
	c.Ocap = 0
	c.Icap = rng.PickInt(0, 0, 1)
	c.Ecap = rng.PickInt(0, 0, 1)
	c.Senders = [][]PktSpec{g.pkts(rng, rng.Range(5, 60), smallSizes)}
	c.BurstEvery = rng.PickInt(1, 2, 3)
	c.Closers = []bool{true}
	c.PeerRead = rng.Intn(2)
	c.Input = inputFrames(rng, rng.Range(0, 10), smallSizes)
	c.WaitInput = 2
	return "free-zero-capacities", c
}

// FreeConsumerPause: the inbound side of "the package's tunable set small": TConnReadTimeout = 1 s,
// a small inbound queue, the peer pipelines many frames, the consumer is away for longer than
// the limit (before its first receive and once more with the queue full again) and then drains:
// it must still see every frame once, in wire order.
func FreeConsumerPause(rng *Rng) (string, Cfg) {
	c := base(rng, 0)
	var g idGen
	c.ReadTimeout = 1
	c.Icap = rng.Range(1, 4)
	c.Input = inputFrames(rng, rng.Range(5, 30), smallSizes)
	c.Senders = [][]PktSpec{g.pkts(rng, rng.Range(0, 5), smallSizes)}
	c.Closers = []bool{true}
	c.ConsumerPause = rng.Range(1500, 2200)
	c.WaitInput = 2
	return "free-consumer-pause", c
}

// FreeSendDuringConsumerStall: TConnReadTimeout = 1 s, a tiny inbound queue and a consumer that is
// away for about two seconds, so the reader pump sits in the hand-off (not in a read) for longer
// than the idle limit; the senders start only after the limit has passed, while the reader is
// still stalled.  The idle limit is about reading: packets accepted then must still go out.
func FreeSendDuringConsumerStall(rng *Rng) (string, Cfg) {
	c := base(rng, 0)
	var g idGen
	c.ReadTimeout = 1
	c.Icap = rng.Range(1, 2)
	c.Input = inputFrames(rng, rng.Range(6, 16), smallSizes)
	c.Senders = [][]PktSpec{g.pkts(rng, rng.Range(2, 6), smallSizes)}
	c.Closers = []bool{true}
	c.ConsumerPause = rng.Range(1900, 2400)
	c.SendDelay = rng.Range(1250, 1550)
	c.WaitInput = 2
	return "free-send-during-consumer-stall", c
}

// GatedRefusedThenClose: the packet the encoder refuses is met by the RUNNING writer pump (not
// by the close-time flush): the sender queues packets up to and including the over-limit one,
// the writer processes all of them, then more sends, then Close and everything else in seeded
// random order.  Close must still perform the shutdown itself and return only when every
// accepted encodable packet is out.
func GatedRefusedThenClose(rng *Rng) (string, Cfg) {
	c := base(rng, 1)
	c.Codec = 1
	var g idGen
	m := rng.Range(1, 4)
	k := m + rng.Range(1, 8)
	c.Ocap = rng.PickInt(k, 128)
	ps := g.pkts(rng, k, smallSizes)
	ps[m-1].Size = oversizeV1
	c.Senders = [][]PktSpec{ps}
	c.Closers = []bool{true}
	c.Input = inputFrames(rng, rng.Range(0, 1), smallSizes)
	c.Script = []Dir{{DRun, TSender * 1000, 3 * m}, {DRun, TWriter * 1000, 60}, {DRun, TSender * 1000, 3 * (k - m)},
		{DRand, rng.Range(0, 30), 0}, {DFinish, 0, 0}}
	return "gated-refused-then-close", c
}
