package connsim

import (
	"bytes"
	"io"
	"net"
	"sync"
	"sync/atomic"
	"time"

	"qchen.fun/fatchoy"
	"qchen.fun/fatchoy/packet"
	"qchen.fun/fatchoy/qnet"
	. "verifharness/common"
)

// Server scenarios (mode 4): ONE TcpServer, several client connections at the same time, each
// with its own traffic in both directions; every endpoint handed out by the server is compared
// with what crossed ITS connection (counters, frames received by its client, frames delivered
// with it as endpoint).
// input    = (4 codec nconns (out_1 .. out_n) (in_1 .. in_n) seed)    out_i / in_i = packets per direction
// observed = ((psent bsent precv brecv wire_n wire_bytes in_n in_bytes eof) ... ) (badendpoint misdelivered panics inconclusive)

func ServerScenario(rng *Rng) (string, Sx) {
	n := rng.Range(2, 4)
	var outs, ins []int64
	for i := 0; i < n; i++ {
		outs = append(outs, int64(rng.Range(0, 12)))
		ins = append(ins, int64(rng.Range(0, 12)))
	}
	return "server-multi", List(Int(4), Int(int64(1+rng.Intn(2))), Int(int64(n)), Ints(outs...), Ints(ins...), Int(int64(rng.Next()>>2)))
}

func RunServer(in Sx) (Sx, []string) {
	codecV, n, seed := in.At(1).AsInt(), in.At(2).AsInt(), in.At(5).Uint64()
	rng := NewRng(seed)
	enc := encoder(codecV)
	var notes []string
	fail := func(why string) (Sx, []string) {
		return List(ListOf(nil), Ints(0, 0, 0, 1)), []string{why}
	}
	inbound := make(chan fatchoy.IPacket, 1024)
	srv := qnet.NewTcpServer(enc, inbound, 64)
	var addr string
	for try := 0; try < 20 && addr == ""; try++ {
		a := freeAddr()
		if srv.Listen(a) == nil {
			addr = a
		}
	}
	if addr == "" {
		return fail("listen failed")
	}
	type client struct {
		c         *net.TCPConn
		local     string
		got       bytes.Buffer
		eof       bool
		sentN     int
		sentBytes int
		done      chan struct{}
	}
	clients := make([]*client, n)
	for i := range clients {
		c, err := net.DialTimeout("tcp", addr, 3*time.Second)
		if err != nil {
			return fail("dial failed")
		}
		cl := &client{c: c.(*net.TCPConn), local: c.LocalAddr().String(), done: make(chan struct{})}
		clients[i] = cl
		go func() {
			defer close(cl.done)
			buf := make([]byte, 16*1024)
			cl.c.SetReadDeadline(time.Now().Add(10 * time.Second))
			for {
				k, err := cl.c.Read(buf)
				cl.got.Write(buf[:k])
				if err != nil {
					cl.eof = err == io.EOF
					return
				}
			}
		}()
	}
	// the endpoints, matched to their clients by remote address
	eps := make([]fatchoy.Endpoint, n)
	deadline := time.After(5 * time.Second)
	for k := 0; k < n; k++ {
		select {
		case ep := <-srv.BacklogChan():
			for i, cl := range clients {
				if ep.RemoteAddr() == cl.local {
					eps[i] = ep
				}
			}
		case <-deadline:
			return fail("endpoints not handed over within 5s")
		}
	}
	for _, ep := range eps {
		if ep == nil {
			return fail("endpoint / client mismatch")
		}
	}
	var panics int32
	accessorBad := 0
	for i, ep := range eps {
		// the plain accessors of the endpoint (round trips; the hand-off queue has the server's size)
		ep.SetNodeID(fatchoy.NodeID(0x050000 + uint32(i)))
		ep.SetUserData(i)
		tc, _ := ep.(*qnet.TcpConn)
		if ep.NodeID() != fatchoy.NodeID(0x050000+uint32(i)) || ep.UserData() != i || tc == nil || cap(tc.OutboundQueue()) != 64 ||
			ep.RawConn() == nil || ep.IsRunning() {
			accessorBad++
		}
		if tc != nil {
			addr := tc.RemoteAddr()
			tc.SetRemoteAddr(addr)
			if tc.RemoteAddr() != addr {
				accessorBad++
			}
		}
		ep.Go(fatchoy.EndpointReadWriter)
		if !ep.IsRunning() {
			accessorBad++
		}
	}
	// traffic on all connections at the same time
	var wg sync.WaitGroup
	for i := range clients {
		i := i
		nout, nin := in.At(3).At(i).AsInt(), in.At(4).At(i).AsInt()
		osz := make([]int, nout)
		for k := range osz {
			osz[k] = smallSizes[rng.Intn(len(smallSizes))]
		}
		isz := make([]int, nin)
		for k := range isz {
			isz[k] = smallSizes[rng.Intn(len(smallSizes))]
		}
		wg.Add(2)
		go func() { // server side sends on endpoint i (retrying on overflow)
			defer wg.Done()
			for k, sz := range osz {
				p := mkPacket(PktSpec{i*1000 + k, sz})
				for try := 0; try < 2000; try++ {
					var err error
					if pn, _ := Catch(func() { err = eps[i].SendPacket(p) }); pn {
						atomic.AddInt32(&panics, 1)
						return
					}
					if err != qnet.ErrConnOutboundOverflow {
						break
					}
					time.Sleep(50 * time.Microsecond)
				}
			}
		}()
		go func() { // client i sends frames
			defer wg.Done()
			cl := clients[i]
			for k, sz := range isz {
				f := encodeFrame(enc, false, PktSpec{500000 + i*1000 + k, sz})
				if _, err := cl.c.Write(f); err != nil {
					return
				}
				cl.sentN++
				cl.sentBytes += len(f)
			}
		}()
	}
	wg.Wait()
	// every frame the clients sent is delivered (bounded wait), bound to the endpoint of its connection
	total := 0
	for _, cl := range clients {
		total += cl.sentN
	}
	badEndpoint, misdelivered, inconcl := 0, accessorBad, 0
	perConn := make([]int, n)
	timeout := time.After(5 * time.Second)
collect:
	for got := 0; got < total; got++ {
		select {
		case p := <-inbound:
			id := int(p.Command()) - 500000
			i := id / 1000
			if i < 0 || i >= n {
				misdelivered++
				continue
			}
			perConn[i]++
			if ep, _ := p.Endpoint().(fatchoy.Endpoint); ep != eps[i] {
				badEndpoint++
			}
			if b, ok := p.(*packet.Packet); ok {
				_ = b
			}
		case <-timeout:
			inconcl = 1
			notes = append(notes, "not every frame was delivered within 5s")
			break collect
		}
	}
	// close every endpoint gracefully, then the server
	for _, ep := range eps {
		if pn, _ := Catch(func() { ep.Close() }); pn {
			atomic.AddInt32(&panics, 1)
		}
	}
	var per []Sx
	for i, cl := range clients {
		select {
		case <-cl.done:
		case <-time.After(4 * time.Second):
			inconcl = 1
			notes = append(notes, "a client did not see end-of-stream within 4s")
			cl.c.SetReadDeadline(time.Now())
			<-cl.done
		}
		// frames the client received
		rd := bytes.NewReader(cl.got.Bytes())
		wn := 0
		for rd.Len() > 0 {
			pkt := packet.Make()
			if err := enc.ReadPacket(rd, nil, pkt); err != nil {
				break
			}
			wn++
		}
		wbytes := cl.got.Len() - rd.Len()
		st := eps[i].Stats()
		per = append(per, Ints(st.Get(qnet.StatPacketsSent), st.Get(qnet.StatBytesSent), st.Get(qnet.StatPacketsRecv), st.Get(qnet.StatBytesRecv),
			int64(wn), int64(wbytes), int64(cl.sentN), int64(cl.sentBytes), b2i(cl.eof), int64(perConn[i])))
		cl.c.SetLinger(0)
		cl.c.Close()
	}
	if pn, _ := Catch(func() { srv.Close() }); pn {
		atomic.AddInt32(&panics, 1)
	}
	return List(ListOf(per), Ints(int64(badEndpoint), int64(misdelivered), int64(atomic.LoadInt32(&panics)), int64(inconcl))), notes
}
