// Package c01lib: pieces shared by the C01 and C02 harness commands (codec round trip and
// hostile-input decoding): the chunked reader that observes what a decoder asks for, a
// recording cipher wrapper and the zlib oracle tables, packet <-> S-expression conversion,
// the deterministic filler shared with coq/C01/RunLib.v, error classification.
package c01lib

import (
	"errors"
	"hash/crc32"
	"io"
	"os"
	"math"
	"strings"

	"google.golang.org/protobuf/types/known/wrapperspb"

	"qchen.fun/fatchoy"
	"qchen.fun/fatchoy/codec"
	"qchen.fun/fatchoy/packet"
	"qchen.fun/fatchoy/x/cipher"
	"qchen.fun/fatchoy/x/fsutil"
	. "verifharness/common"
)

// ---------------------------------------------------------------------------------------
// deterministic filler (xorshift32): x ^= x<<13; x ^= x>>17; x ^= x<<5; byte = x & 0xFF & mask
// (same as gen_bytes in coq/C01/RunLib.v); the seed must not be 0

func GenBytes(seed uint32, n int, mask byte) []byte {
	b := make([]byte, n)
	x := seed
	for i := range b {
		x ^= x << 13
		x ^= x >> 17
		x ^= x << 5
		b[i] = byte(x) & mask
	}
	return b
}

// Data is a byte string that travels either literally or as (5 seed len mask).
func DataSx(seed uint32, n int, mask byte, literalBelow int) (Sx, []byte) {
	seed |= 1
	b := GenBytes(seed, n, mask)
	if n < literalBelow {
		return Bytes(b), b
	}
	return List(Int(5), Uint(uint64(seed)), Int(int64(n)), Int(int64(mask))), b
}

func DataFromSx(s Sx) []byte {
	if s.Kind == 'b' {
		return append([]byte(nil), s.B...)
	}
	if s.Kind == 'l' && s.Len() == 4 && s.At(0).Int64() == 5 {
		return GenBytes(uint32(s.At(1).Uint64()), s.At(2).AsInt(), byte(s.At(3).Int64()))
	}
	panic("c01lib: bad data descriptor " + s.String())
}

// ---------------------------------------------------------------------------------------
// packets

// BodyFromSx builds the Go body value of a body descriptor:
// (0) nil | (1 #b) []byte | (2 #b) string | (3 z) int64 | (4 bits) float64 | (5 seed len mask) []byte
// | (7) []byte(nil) | (8) "" | (9 data) wrapperspb.BytesValue | (10 data) wrapperspb.StringValue (ASCII data)
func BodyFromSx(s Sx) interface{} {
	switch s.At(0).Int64() {
	case 0:
		return nil
	case 1:
		return append([]byte{}, s.At(1).AsBytes()...)
	case 2:
		return s.At(1).AsString()
	case 3:
		return s.At(1).Int64()
	case 4:
		return math.Float64frombits(s.At(1).Uint64())
	case 5:
		return DataFromSx(s)
	case 9: // a protobuf message as body
		return wrapperspb.Bytes(DataFromSx(s.At(1)))
	case 10:
		return wrapperspb.String(string(DataFromSx(s.At(1))))
	case 7:
		return []byte(nil) // a typed nil: not the nil interface
	case 8:
		return ""
	}
	panic("c01lib: bad body descriptor " + s.String())
}

func BodyToSx(v interface{}) Sx {
	switch b := v.(type) {
	case nil:
		return List(Int(0))
	case []byte:
		return List(Int(1), Bytes(b))
	case string:
		return List(Int(2), Str(b))
	case int64:
		return List(Int(3), Int(b))
	case float64:
		return List(Int(4), Uint(math.Float64bits(b)))
	}
	return List(Int(99))
}

// PacketFromSx: (cmd seq flag typ node (ref ...) body)
func PacketFromSx(s Sx) *packet.Packet {
	p := packet.Make()
	p.Cmd = int32(s.At(0).Int64())
	p.Seq_ = uint16(s.At(1).Int64())
	p.Flg = fatchoy.PacketFlag(s.At(2).Int64())
	p.Type_ = fatchoy.PacketType(s.At(3).Int64())
	p.Node_ = fatchoy.NodeID(s.At(4).Uint64())
	refs := s.At(5)
	if refs.Len() > 0 {
		p.Refers_ = make([]fatchoy.NodeID, refs.Len())
		for i := range p.Refers_ {
			p.Refers_[i] = fatchoy.NodeID(refs.At(i).Uint64())
		}
	}
	p.Body_ = BodyFromSx(s.At(6))
	return p
}

// PacketHeadSx: the packet's fields with the given body descriptor.
func PacketSx(p *packet.Packet, body Sx) Sx {
	refs := make([]Sx, len(p.Refers_))
	for i, r := range p.Refers_ {
		refs[i] = Uint(uint64(r))
	}
	return List(Int(int64(p.Cmd)), Int(int64(p.Seq_)), Int(int64(p.Flg)), Int(int64(p.Type_)),
		Uint(uint64(p.Node_)), ListOf(refs), body)
}

// ---------------------------------------------------------------------------------------
// the reader: delivers the data in chunks of the given sizes (the rest in one piece when the
// sizes are used up), never more than asked, and records what the decoder asked for

type ChunkReader struct {
	Data   []byte
	Sizes  []int
	Pos    int
	idx    int
	cur    int // bytes left in the current chunk
	hasCur bool
	// observations, reset by Begin
	Start  int
	Wanted int // max over Read calls of (Pos before + len(p)), absolute
	MaxCap int
	Calls  int
}

func NewChunkReader(data []byte, sizes []int) *ChunkReader {
	return &ChunkReader{Data: data, Sizes: sizes}
}

func (r *ChunkReader) Begin() {
	r.Start = r.Pos
	r.Wanted = r.Pos
	r.MaxCap = 0
	r.Calls = 0
}

func (r *ChunkReader) Read(p []byte) (int, error) {
	r.Calls++
	if r.Pos+len(p) > r.Wanted {
		r.Wanted = r.Pos + len(p)
	}
	if cap(p) > r.MaxCap {
		r.MaxCap = cap(p)
	}
	if len(p) == 0 {
		return 0, nil
	}
	if r.Pos >= len(r.Data) {
		return 0, io.EOF
	}
	if !r.hasCur {
		if r.idx < len(r.Sizes) {
			r.cur = r.Sizes[r.idx]
			r.idx++
		} else {
			r.cur = len(r.Data) - r.Pos
		}
		r.hasCur = true
	}
	n := len(p)
	if n > r.cur {
		n = r.cur
	}
	if n > len(r.Data)-r.Pos {
		n = len(r.Data) - r.Pos
	}
	copy(p, r.Data[r.Pos:r.Pos+n])
	r.Pos += n
	r.cur -= n
	if r.cur == 0 {
		r.hasCur = false
	}
	return n, nil
}

// ---------------------------------------------------------------------------------------
// ciphers

var CipherNames = []string{"", "aes-128", "aes-192", "aes-256", "sm4", "twofish", "3des", "xtea", "salsa20", "none"}

// NewCipher: index 0 = no cipher (nil interface); key and iv derive from the seed.
func NewCipher(idx int, keyseed uint64) cipher.BlockCryptor {
	if idx <= 0 || idx >= len(CipherNames) {
		return nil
	}
	rng := NewRng(keyseed)
	key := rng.Bytes(32)
	iv := rng.Bytes(32)
	return cipher.NewCrypt(CipherNames[idx], key, iv)
}

// Table is an oracle table: what an external function returned on the arguments it was given.
type Table struct {
	keys [][]byte
	vals [][]byte
	ok   []bool
	seen map[string]bool
}

func NewTable() *Table { return &Table{seen: map[string]bool{}} }

func (t *Table) Add(k, v []byte, ok bool) {
	if t.seen[string(k)] {
		return
	}
	t.seen[string(k)] = true
	t.keys = append(t.keys, append([]byte(nil), k...))
	t.vals = append(t.vals, append([]byte(nil), v...))
	t.ok = append(t.ok, ok)
}

func (t *Table) Has(k []byte) bool { return t.seen[string(k)] }
func (t *Table) Keys() [][]byte    { return t.keys }
func (t *Table) Vals() [][]byte    { return t.vals }

// Sx: ((#key #val) ...)
func (t *Table) Sx() Sx {
	l := make([]Sx, len(t.keys))
	for i := range t.keys {
		l[i] = List(Bytes(t.keys[i]), Bytes(t.vals[i]))
	}
	return ListOf(l)
}

// OSx: ((#key ok #val) ...)
func (t *Table) OSx() Sx {
	l := make([]Sx, len(t.keys))
	for i := range t.keys {
		l[i] = List(Bytes(t.keys[i]), Bool(t.ok[i]), Bytes(t.vals[i]))
	}
	return ListOf(l)
}

// Recorder wraps a cipher and records every Encrypt / Decrypt call (the ciphers work in place,
// so the argument is copied first).
type Recorder struct {
	Inner cipher.BlockCryptor
	Enc   *Table
	Dec   *Table
}

func NewRecorder(inner cipher.BlockCryptor) *Recorder {
	return &Recorder{Inner: inner, Enc: NewTable(), Dec: NewTable()}
}

func (r *Recorder) Key() []byte { return r.Inner.Key() }
func (r *Recorder) IV() []byte  { return r.Inner.IV() }
func (r *Recorder) Encrypt(src []byte) []byte {
	k := append([]byte(nil), src...)
	out := r.Inner.Encrypt(src)
	r.Enc.Add(k, out, true)
	return out
}
func (r *Recorder) Decrypt(src []byte) []byte {
	k := append([]byte(nil), src...)
	out := r.Inner.Decrypt(src)
	r.Dec.Add(k, out, true)
	return out
}

// AsCryptor returns nil (interface) for a nil recorder so that the codec sees "no cipher".
func (r *Recorder) AsCryptor() cipher.BlockCryptor {
	if r == nil || r.Inner == nil {
		return nil
	}
	return r
}

// Zip / Unzip oracle entries
func AddZip(t *Table, body []byte) {
	if t.Has(body) {
		return
	}
	out, err := fsutil.CompressBytes(append([]byte(nil), body...))
	if err != nil {
		return
	}
	t.Add(body, out, true)
}

func AddUnzip(t *Table, data []byte) {
	if t.Has(data) {
		return
	}
	var out []byte
	var err error
	if p, _ := Catch(func() { out, err = fsutil.UncompressBytes(append([]byte(nil), data...)) }); p {
		t.Add(data, nil, false)
		return
	}
	t.Add(data, out, err == nil)
}

// ---------------------------------------------------------------------------------------
// encoders and error classification

func NewEncoder(ver int, thr int) codec.Encoder {
	if ver == 1 {
		return codec.NewV1Encoder(thr)
	}
	return codec.NewV2Encoder(thr)
}

func EffThreshold(ver, thr int) int {
	if thr > 0 {
		return thr
	}
	if ver == 1 {
		return 4096
	}
	return 8192
}

func HeaderSize(ver int) int {
	if ver == 1 {
		return codec.V1HeaderSize
	}
	return codec.V2HeaderSize
}

// 0 nil, 1 io.EOF, 2 io.ErrUnexpectedEOF, 3 length refused, 4 checksum, 5 must be decrypted,
// 6 decompress, 7 refer count, 9 other
func ErrKind(err error) int {
	if err == nil {
		return 0
	}
	m := err.Error()
	switch {
	case strings.Contains(m, "decompress"):
		return 6
	case errors.Is(err, io.EOF):
		return 1
	case errors.Is(err, io.ErrUnexpectedEOF):
		return 2
	}
	switch {
	case strings.Contains(m, "checksum mismatch"):
		return 4
	case strings.Contains(m, "must be decrypted"):
		return 5
	case strings.Contains(m, "decompress"):
		return 6
	case strings.Contains(m, "refer count"):
		return 7
	case strings.Contains(m, "size") || strings.Contains(m, "length"):
		return 3
	}
	return 9
}

// WireBodyOffset: where the (possibly compressed / encrypted) body starts in a frame, and
// whether the frame's flag byte carries the compressed bit — used only to decide which
// arguments of zlib to put into the oracle table.
func WireBody(ver int, frame []byte) (body []byte, compressed bool) {
	if ver == 1 {
		if len(frame) < 14 {
			return nil, false
		}
		return frame[14:], frame[3]&1 != 0
	}
	if len(frame) < 20 {
		return nil, false
	}
	off := 20 + 4*int(frame[5])
	if off > len(frame) {
		return nil, frame[4]&1 != 0
	}
	return frame[off:], frame[4]&1 != 0
}

// ReadObs runs one ReadPacket on the reader: (panicked errkind pkt consumed wanted maxcap)
func ReadObs(enc codec.Encoder, r *ChunkReader, dec cipher.BlockCryptor) (Sx, *packet.Packet, int) {
	r.Begin()
	pkt := packet.Make()
	var err error
	panicked, _ := Catch(func() { err = enc.ReadPacket(r, dec, pkt) })
	kind := ErrKind(err)
	return List(Bool(panicked), Int(int64(kind)), PacketSx(pkt, BodyToSx(pkt.Body_)), Int(int64(r.Pos)),
		Int(int64(r.Wanted-r.Start)), Int(int64(r.MaxCap))), pkt, kind
}

// ForgeCRC returns four bytes x such that crc32.ChecksumIEEE(prefix ++ x) == target (the CRC-32
// register can be steered to any value with four bytes: walk the table backwards).
func ForgeCRC(prefix []byte, target uint32) []byte {
	tab := crc32.IEEETable
	var top [256]byte
	for i := 0; i < 256; i++ {
		top[tab[i]>>24] = byte(i)
	}
	want := target ^ 0xFFFFFFFF // register value before the final xor
	var idx [4]byte
	r := want
	for k := 3; k >= 0; k-- {
		i := top[r>>24]
		idx[k] = i
		r = (r ^ tab[i]) << 8
	}
	c := crc32.ChecksumIEEE(prefix) ^ 0xFFFFFFFF
	out := make([]byte, 4)
	for k := 0; k < 4; k++ {
		out[k] = byte(c) ^ idx[k]
		c = tab[idx[k]] ^ (c >> 8)
	}
	return out
}

// Focus: bin/check's extended search (after a broken correspondence) sets VERIF_FOCUS_KINDS to the
// generator kinds of the differing cases; a harness then spends its run on those kinds only.
var focusKinds map[string]bool

func Focus(kind string) bool {
	if focusKinds == nil {
		focusKinds = map[string]bool{}
		for _, k := range strings.Split(os.Getenv("VERIF_FOCUS_KINDS"), ",") {
			if k != "" {
				focusKinds[k] = true
			}
		}
	}
	return len(focusKinds) == 0 || focusKinds[kind]
}
