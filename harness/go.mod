module verifharness

go 1.16

require (
	github.com/tjfoc/gmsm v1.4.1
	golang.org/x/crypto v0.0.0-20210921155107-089bfa567519
	google.golang.org/protobuf v1.26.0
	qchen.fun/fatchoy v0.0.0
)

replace qchen.fun/fatchoy => /repo

replace (
	github.com/coreos/bbolt => go.etcd.io/bbolt v1.3.6
	google.golang.org/grpc => google.golang.org/grpc v1.26.0
)
