module verifharness

go 1.16

require (
	github.com/coreos/etcd v3.3.26+incompatible
	github.com/tjfoc/gmsm v1.4.1
	go.etcd.io/etcd v3.3.26+incompatible
	go.mongodb.org/mongo-driver v1.7.3
	golang.org/x/crypto v0.0.0-20210921155107-089bfa567519
	google.golang.org/protobuf v1.26.0
	qchen.fun/fatchoy v0.0.0
)

replace qchen.fun/fatchoy => /repo

replace (
	github.com/coreos/bbolt => go.etcd.io/bbolt v1.3.6
	google.golang.org/grpc => google.golang.org/grpc v1.26.0
)
